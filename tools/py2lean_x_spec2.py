"""py2lean plug-in: the response-spectrum leftovers of C03.

Targets (each `gen(repo, ns) -> {file name: Lean text}`):
  * gen_spec_energy  -> SpecEnergy.lean   sdof.calc_resp_uke_spectrum, sdof.calc_input_energy_spectrum (both `series` branches)
  * gen_spec_object  -> SpecObject.lean   single.AccSignal.gen_response_spectrum (+ generate_response_spectrum forwarding, defaults)
  * gen_spec_im      -> SpecIm.lean       im.calc_asi, calc_vsi (the LAST definition binds), calc_vsi_temporal,
                                          cumulative_response_spectra, calc_max_velocity_period, max_acceleration_period, calc_sir
  * gen_spec_slow    -> SpecSlow.lean     sdof.single_elastic_response (Duhamel loop as a step function), slow_response_spectra

Method (as `py2lean_x_sdof.py`, whose symbolic evaluator `Sym` is reused): a function body is evaluated symbolically, statement by
statement, into a small term language (temporaries are inlined: renaming / adding / removing one changes nothing); calls that may raise
are sequenced in program order and become one `match` layer each; the remaining array arithmetic is printed operator by operator with
element-wise operations FUSED into one `List.map` / `List.zipWith` per array (row-wise for 2-D arrays: the row-wise reading of NumPy
broadcasting).  Everything that is not recognised raises Untranslatable(function, line, construct) -- never a guess.
Standard library only; deterministic.
"""
import ast
import os
import re

from py2lean_struct import Untranslatable
import py2lean_x_sdof as X

show, ident, strip_outer, body_of = X.show, X.ident, X.strip_outer, X.body_of


# ----------------------------------------------------------------------------------------------
# symbolic evaluation: `Sym` of the sdof plug-in + object attributes, module-qualified calls
# ----------------------------------------------------------------------------------------------

class S2(X.Sym):
    def __init__(self, fname, src, params, objs=(), modules=()):
        super().__init__(fname, src, params)
        self.objs, self.modules = set(objs), set(modules)
        self.attrs = {}                     # (obj, attr) -> term, for attributes stored by the body
        self.env.setdefault('float', ('builtin', 'float'))

    def ev(self, e):
        if isinstance(e, ast.Attribute) and isinstance(e.value, ast.Name) and e.value.id in self.objs \
                and self.env.get(e.value.id) == ('param', e.value.id):
            return self.attrs.get((e.value.id, e.attr), ('attr', e.value.id, e.attr))
        if isinstance(e, ast.Call) and isinstance(e.func, ast.Attribute) and isinstance(e.func.value, ast.Name) \
                and e.func.value.id in self.modules and e.func.value.id not in self.env:
            if any(k.arg is None for k in e.keywords) or any(isinstance(a, ast.Starred) for a in e.args):
                self.fail(e, 'star arguments')
            name = e.func.value.id + '.' + e.func.attr
            args = tuple(self.ev(a) for a in e.args)
            kws = tuple(sorted((k.arg, self.ev(k.value)) for k in e.keywords))
            if name in self.effectful:
                self.effects.append((('call', name, args, kws), e.lineno))
                return ('eff', len(self.effects) - 1)
            return ('call', name, args, kws)
        return super().ev(e)


def find_all(mod, name):
    r = [n for n in mod.body if isinstance(n, ast.FunctionDef) and n.name == name]
    if not r:
        raise Untranslatable(name, 0, "function not found")
    return r


def find_method(mod, cls, name):
    for n in mod.body:
        if isinstance(n, ast.ClassDef) and n.name == cls:
            r = [m for m in n.body if isinstance(m, ast.FunctionDef) and m.name == name]
            if len(r) == 1:
                return r[0]
            raise Untranslatable(f"{cls}.{name}", n.lineno, f"{len(r)} definitions")
    raise Untranslatable(f"{cls}.{name}", 0, "class not found")


def signature(fn, fname):
    a = fn.args
    if a.vararg or a.kwarg or a.kwonlyargs or a.posonlyargs:
        raise Untranslatable(fname, fn.lineno, "signature with * / ** / keyword-only parameters")
    names = [x.arg for x in a.args]
    nd = len(a.defaults)
    defaults = {}
    for nme, d in zip(names[len(names) - nd:], a.defaults):
        defaults[nme] = d
    return names, defaults


def const_default(d, src, fname, line):
    """a default value as a term: None / bool / number / negative number"""
    if isinstance(d, ast.Constant) and d.value is None:
        return ('none',)
    if isinstance(d, ast.Constant) and isinstance(d.value, bool):
        return ('bool', d.value)
    if isinstance(d, ast.Constant) and isinstance(d.value, (int, float)):
        return ('lit', X.lit_text(ast.get_source_segment(src, d)))
    if isinstance(d, ast.UnaryOp) and isinstance(d.op, ast.USub) and isinstance(d.operand, ast.Constant) \
            and isinstance(d.operand.value, (int, float)) and not isinstance(d.operand.value, bool):
        return ('neg', ('lit', X.lit_text(ast.get_source_segment(src, d.operand))))
    raise Untranslatable(fname, line, "default value " + (ast.get_source_segment(src, d) or ''))


def bind_call(c, callee_params, fname, line):
    """positional + keyword arguments of a call term -> the full positional tuple of the callee's signature"""
    args, kws = list(c[2]), dict(c[3])
    if len(args) > len(callee_params):
        raise Untranslatable(fname, line, f"too many arguments for {c[1]}")
    out = args[:]
    for p in callee_params[len(args):]:
        if p not in kws:
            raise Untranslatable(fname, line, f"argument {p} of {c[1]} missing")
        out.append(kws.pop(p))
    if kws:
        raise Untranslatable(fname, line, f"unknown keyword(s) {sorted(kws)} for {c[1]}")
    return tuple(out)


# ----------------------------------------------------------------------------------------------
# printer: scalars, fused 1-D arrays, row-wise 2-D arrays, optional arguments
# ----------------------------------------------------------------------------------------------
#   ('scal', text) | ('nat', text) | ('arr', (srcs, body)) | ('mat', (bases, (srcs, body))) | ('oarr', name) | ('oscal', name)
#   body uses the placeholders ⟦k⟧ for the entry of source k; a `mat` is `bases` zipped row-wise into the 1-D expression

PH = "⟦%d⟧"


def ew_leaf(text):
    return ((text,), PH % 0)


def ew_body(body, names):
    return re.sub("⟦(\\d+)⟧", lambda m: names[int(m.group(1))], body)


class Pr:
    def __init__(self, fname, leaves, effkind=None):
        self.fname, self.leaves, self.effkind = fname, dict(leaves), effkind
        self.ints, self.sci, self.uses = set(), False, set()

    def fail(self, t, line=0, why='term'):
        raise Untranslatable(self.fname, line, f"{why} {show(t)}")

    def lit(self, text):
        if text.isdigit():
            self.ints.add(int(text))
        else:
            self.sci = True
        return text

    # ---- rendering
    def arr_text(self, ew):
        srcs, body = ew
        if len(srcs) == 1 and body == PH % 0:
            return srcs[0]
        if len(srcs) == 1 and body == f"(Np.absv {PH % 0})":
            return f"(Np.absL {srcs[0]})"
        if len(srcs) == 1:
            return f"({srcs[0]}.map (fun x0 => {strip_outer(ew_body(body, ['x0']))}))"
        if len(srcs) == 2:
            return f"(List.zipWith (fun x0 x1 => {strip_outer(ew_body(body, ['x0', 'x1']))}) {srcs[0]} {srcs[1]})"
        raise Untranslatable(self.fname, 0, f"element-wise expression over {len(srcs)} arrays")

    def mat_text(self, m, red=None):
        bases, ew = m
        row = self.arr_text(ew)
        if red:
            row = f"{red} {row}"
        if len(bases) == 1:
            if row == 'row':
                return bases[0][1]
            return f"({bases[0][1]}.map (fun row => {strip_outer(row)}))"
        if len(bases) == 2:
            return f"(List.zipWith (fun {bases[0][0]} row => {strip_outer(row)}) {bases[0][1]} {bases[1][1]})"
        raise Untranslatable(self.fname, 0, "2-D expression over more than two arrays")

    def text(self, kt):
        k, p = kt
        if k in ('scal', 'nat', 'oarr', 'oscal', 'bool'):
            return p
        if k == 'arr':
            return self.arr_text(p)
        if k == 'mat':
            return self.mat_text(p)
        raise Untranslatable(self.fname, 0, f"kind {k}")

    # ---- element-wise combination
    @staticmethod
    def merge(a, b):
        (sa, ba), (sb, bb) = a, b
        srcs, m = list(sa), {}
        for i, s in enumerate(sb):
            if s in srcs:
                m[i] = srcs.index(s)
            else:
                srcs.append(s)
                m[i] = len(srcs) - 1
        bb2 = re.sub("⟦(\\d+)⟧", lambda mo: PH % m[int(mo.group(1))], bb)
        return tuple(srcs), ba, bb2

    def binop(self, op, l, r, t):
        (kl, pl), (kr, pr_) = l, r
        f = lambda a, b: f"({a} {op} {b})"
        if kl == 'scal' and kr == 'scal':
            return ('scal', f(pl, pr_))
        if kl == 'arr' and kr == 'scal':
            return ('arr', (pl[0], f(pl[1], pr_)))
        if kl == 'scal' and kr == 'arr':
            return ('arr', (pr_[0], f(pl, pr_[1])))
        if kl == 'arr' and kr == 'arr':
            s, a, b = self.merge(pl, pr_)
            return ('arr', (s, f(a, b)))
        if kl == 'mat' and kr == 'scal':
            return ('mat', (pl[0], (pl[1][0], f(pl[1][1], pr_))))
        if kl == 'scal' and kr == 'mat':
            return ('mat', (pr_[0], (pr_[1][0], f(pl, pr_[1][1]))))
        if kl == 'mat' and kr == 'arr':       # (P, n) with (n,): the 1-D array is combined with every row
            s, a, b = self.merge(pl[1], pr_)
            return ('mat', (pl[0], (s, f(a, b))))
        if kl == 'arr' and kr == 'mat':
            s, a, b = self.merge(pl, pr_[1])
            return ('mat', (pr_[0], (s, f(a, b))))
        if kl == 'col' and kr == 'mat' and len(pr_[0]) == 1:    # (P, 1) with (P, n): one entry of the column per row
            return ('mat', ((('c', self.arr_text(pl)),) + pr_[0], (pr_[1][0], f('c', pr_[1][1]))))
        if kl == 'mat' and kr == 'col' and len(pl[0]) == 1:
            return ('mat', ((('c', self.arr_text(pr_)),) + pl[0], (pl[1][0], f(pl[1][1], 'c'))))
        if kl == 'mat' and kr == 'mat' and pl[0] == pr_[0]:
            s, a, b = self.merge(pl[1], pr_[1])
            return ('mat', (pl[0], (s, f(a, b))))
        self.fail(t, why='operand kinds of')

    def unop(self, fn, x, t):
        k, p = x
        if k == 'scal':
            return ('scal', fn(p))
        if k == 'arr':
            return ('arr', (p[0], fn(p[1])))
        if k == 'mat':
            return ('mat', (p[0], (p[1][0], fn(p[1][1]))))
        self.fail(t, why='operand kind of')

    def rowop(self, name, x, t):
        """a 1-D operation applied to an array / to every row of a 2-D array"""
        k, p = x
        if k == 'arr':
            return ('arr', ew_leaf(f"({name} {self.arr_text(p)})"))
        if k == 'mat':
            return ('mat', (p[0], ew_leaf(f"({name} {self.arr_text(p[1])})")))
        self.fail(t, why='operand kind of')

    # ---- terms
    def is_none_test(self, c):
        """`x is None` / `x is not None` on an optional parameter: (name, kind, True if the test holds for None)"""
        if c[0] == 'cmp' and c[1] in ('is', 'is not') and c[3] == ('none',) and self.leaves.get(c[2], ('',))[0] in ('oarr', 'oscal'):
            return self.leaves[c[2]][1], self.leaves[c[2]][0], c[1] == 'is', c[2]
        return None

    def tr_nat(self, t):
        """a natural-number expression: len(x), literals, +"""
        t = ident(t, self.fname, '')
        if t in self.leaves and self.leaves[t][0] == 'nat':
            return self.leaves[t][1]
        if t[0] == 'lit' and t[1].isdigit():
            return t[1]
        if t[0] == 'call' and t[1] == 'len':
            return self.tr(t)[1]
        if t[0] == 'bin' and t[1] == '+':
            return f"({self.tr_nat(t[2])} + {self.tr_nat(t[3])})"
        self.fail(t, why='natural-number expression')

    def tr(self, t):
        t0 = ident(t, self.fname, '')
        if t0 in self.leaves:
            k, p = self.leaves[t0]
            return (k, ew_leaf(p)) if k == 'arr' else (k, p)
        t = t0
        if t[0] == 'lit':
            return ('scal', self.lit(t[1]))
        if t == ('np', 'pi'):
            self.uses.add('pi')
            return ('scal', 'pi')
        if t[0] == 'eff' and self.effkind:
            return self.effkind(t[1])
        if t[0] == 'tget' and t[1][0] == 'eff' and t[3] == 3 and self.effkind:
            k, txt = self.effkind(t[1][1])
            comp = ('.1', '.2.1', '.2.2')[t[2]]
            if k == 'triple':
                return ('mat', ((('row', txt + comp),), ew_leaf('row')))
            if k == 'atriple':
                return ('arr', ew_leaf(txt + comp))
            self.fail(t)
        if t[0] == 'neg':
            x = self.tr(t[1])
            if t[1][0] == 'lit' and x[0] == 'scal':
                return ('scal', f"(-{x[1]})")
            return self.unop(lambda a: f"(-{a})", x, t)
        if t[0] == 'pow' and t[2] == ('lit', '2'):
            return self.unop(lambda a: f"({a} * {a})", self.tr(t[1]), t)
        if t[0] == 'bin':
            return self.binop(t[1], self.tr(t[2]), self.tr(t[3]), t)
        if t[0] == 'sub' and t[2] == (('sl', None, None), ('newaxis',)):
            k, p = self.tr(t[1])
            if k == 'arr':
                return ('col', p)
            self.fail(t)
        if t[0] == 'sub' and len(t[2]) == 1 and t[2][0][0] == 'sl' and t[2][0][1] is None and t[2][0][2] is not None:
            # `x[:-i - 1]` for a loop variable i >= 0: the first len(x) - (i + 1) entries
            hi = t[2][0][2]
            if hi[0] == 'bin' and hi[1] == '-' and hi[2][0] == 'neg' and self.leaves.get(hi[2][1], ('',))[0] == 'nat' \
                    and hi[3][0] == 'lit' and hi[3][1].isdigit() and int(hi[3][1]) >= 1:
                k, p = self.tr(t[1])
                if k == 'arr':
                    x = self.arr_text(p)
                    return ('arr', ew_leaf(f"({x}.take ({x}.length - ({self.leaves[hi[2][1]][1]} + {hi[3][1]})))"))
            self.fail(t, why='slice')
        if t[0] == 'sub' and len(t[2]) == 1 and t[2][0][0] == 'i' and self.leaves.get(t[2][0][1], ('',))[0] == 'nat' \
                and self.leaves.get(('inrange', t[2][0][1])) is not None:
            # `x[i]` for a loop variable `i in range(len(<arr>))` and an element-wise expression x over exactly that array: no IndexError
            k, p = self.tr(t[1])
            if k == 'arr' and p[0] == (self.leaves[('inrange', t[2][0][1])],):
                self.ints.add(0)
                return ('scal', ew_body(p[1], [f"({p[0][0]}.getD {self.leaves[t[2][0][1]][1]} 0)"]))
            self.fail(t, why='indexing')
        if t[0] == 'ite':
            nt = self.is_none_test(t[1])
            if nt:
                name, kind, when_none, key = nt
                a, b = (t[2], t[3]) if when_none else (t[3], t[2])
                ka, ta = self.tr(a)
                saved = self.leaves[key]
                self.leaves[key] = ('arr', 'v') if kind == 'oarr' else ('scal', 'v')
                kb, tb = self.tr(b)
                self.leaves[key] = saved
                want = 'arr' if kind == 'oarr' else 'scal'
                if ka == kb == want:
                    txt = f"(match {name} with | none => {strip_outer(self.text((ka, ta)))} | some v => {strip_outer(self.text((kb, tb)))})"
                    return (want, ew_leaf(txt)) if want == 'arr' else (want, txt)
            self.fail(t, why='conditional value')
        if t[0] == 'call':
            name, args, kws = t[1], t[2], dict(t[3])
            if name == 'abs' and len(args) == 1 and not kws:
                return self.unop(lambda a: f"(Np.absv {a})", self.tr(args[0]), t)
            if name == 'np.diff' and len(args) == 1 and not kws:
                return self.rowop('Np.diff', self.tr(args[0]), t)
            if name == 'np.cumsum' and len(args) == 1 and kws == {'axis': ('lit', '1')}:
                x = self.tr(args[0])
                if x[0] == 'mat':
                    return self.rowop('Np.cumsum', x, t)
                self.fail(t)
            if name == 'np.sum' and len(args) == 1 and kws == {'axis': ('lit', '1')}:
                x = self.tr(args[0])
                if x[0] == 'mat':
                    return ('arr', ew_leaf(self.mat_text(x[1], red='Np.sum')))
                self.fail(t)
            if name == '.accumulate' and len(args) == 2 and args[0] == ('np', 'maximum') and kws == {'axis': ('lit', '1')}:
                x = self.tr(args[1])
                if x[0] == 'mat':
                    return self.rowop('NpT.cummax', x, t)
                self.fail(t)
            if name == 'np.trapz' and len(args) == 1 and kws == {'axis': ('lit', '0')}:
                x = self.tr(args[0])
                if x[0] == 'mat':
                    return ('arr', ew_leaf(f"(NpT.trapzAxis0 {self.mat_text(x[1])})"))
                self.fail(t)
            if name == 'cumulative_trapezoid' and len(args) == 1 and not kws:
                x = self.tr(args[0])
                if x[0] == 'arr':
                    return ('arr', ew_leaf(f"(cumtrapzNoInit {self.arr_text(x[1])})"))
                self.fail(t)
            if name == 'cumulative_trapezoid' and len(args) == 1 and set(kws) == {'dx', 'initial'} and kws['initial'] == ('lit', '0'):
                d = self.tr(kws['dx'])
                if d[0] == 'scal':
                    return self.rowop(f"Np.cumtrapz {d[1]}", self.tr(args[0]), t)
                self.fail(t)
            if name in ('np.sqrt', 'np.exp', 'np.sin') and len(args) == 1 and not kws:
                self.uses.add(name[3:])
                return self.unop(lambda a, f=name[3:]: f"({f} {a})", self.tr(args[0]), t)
            if name == 'len' and len(args) == 1 and not kws:
                x = self.tr(args[0])
                if x[0] == 'arr':
                    return ('nat', f"{self.arr_text(x[1])}.length")
                self.fail(t)
            if name == 'np.arange' and len(args) == 1 and not kws:
                n = self.tr_nat(args[0])
                self.uses.add('natcast')
                return ('arr', ew_leaf(f"((List.range {n}).map (fun (k : Nat) => (k : α)))"))
            if name == 'np.arange' and len(args) == 3 and not kws and all(a[0] == 'lit' for a in args):
                self.uses.add('arange')
                return ('arr', ew_leaf(f"(arange {' '.join(self.lit(a[1]) for a in args)})"))
            if name == 'np.logspace' and len(args) == 3 and not kws and args[2][0] == 'lit' and args[2][1].isdigit():
                self.uses.add('logspace')
                a, b = self.tr(args[0]), self.tr(args[1])
                if a[0] == b[0] == 'scal':
                    return ('arr', ew_leaf(f"(logspace {a[1]} {b[1]} {args[2][1]})"))
                self.fail(t)
        self.fail(t)


def classes(pr, base=()):
    ints = sorted(set(pr.ints) | set(base))
    return " ".join(f"[OfNat α {n}]" for n in ints) + (" [OfScientific α]" if pr.sci else "")


def walk(sy, fn, allow_final_if=False):
    """straight-line body: assignments, `if x is None:` rebinding, a final return (or a final `if flag: return … else: return …`)"""
    ret = None
    sts = body_of(fn)
    for n, st in enumerate(sts):
        if ret is not None:
            sy.fail(st, 'statement after return')
        if isinstance(st, ast.Assign):
            sy.assign(st)
        elif isinstance(st, ast.ImportFrom) or isinstance(st, ast.Import):
            continue
        elif isinstance(st, ast.If) and len(st.body) == 1 and isinstance(st.body[0], ast.Return) and len(st.orelse) == 1 \
                and isinstance(st.orelse[0], ast.Return) and allow_final_if and n == len(sts) - 1:
            test = sy.ev(st.test)
            ne = len(sy.effects)
            a = sy.ev(st.body[0].value)
            b = sy.ev(st.orelse[0].value)
            if len(sy.effects) != ne:
                sy.fail(st, 'call that may raise inside a branch')
            ret = (('retif', test, a, b), st.lineno)
        elif isinstance(st, ast.If) and len(st.body) == 1 and isinstance(st.body[0], ast.Raise) and not st.orelse is None \
                and len(st.orelse) == 1 and isinstance(st.orelse[0], ast.Raise):
            sy.fail(st, 'raise in both branches')
        elif isinstance(st, ast.If):
            test = X.run_if(sy, st)
            if not (test[0] == 'cmp' and test[1] in ('is', 'is not') and test[3] == ('none',) and test[2][0] == 'param'):
                sy.fail(st, 'if statement whose test is not `<parameter> is None`')
        elif isinstance(st, ast.Return) and st.value is not None:
            ret = (sy.ev(st.value), st.lineno)
        else:
            sy.fail(st, 'statement ' + type(st).__name__)
    if ret is None:
        raise Untranslatable(sy.fname, fn.lineno, "no return")
    return ret


HEADER = ["import EqsigVerif.Prelude.Np", "import EqsigVerif.Prelude.Wire", "import EqsigVerif.Prelude.NpE", "import EqsigVerif.Prelude.NpR",
          "import EqsigVerif.Prelude.NpT", "import EqsigVerif.Model.SpectraFns"]
RESP_T = "List α → α → List α → α → Except ErrKind (List (List α) × List (List α) × List (List α))"
PSEUDO_T = "List α → α → List α → α → Except ErrKind (List α × List α × List α)"


def file_text(ns, area, origin, var_line, abbrevs, defs, extra_imports=()):
    L = [f"-- GENERATED by tools/py2lean_x_spec2.py from {origin}. Do not edit."] + HEADER + list(extra_imports) + [
        "", "set_option linter.unusedVariables false", f"namespace EqsigVerif.{ns}.{area}", "open EqsigVerif", "open EqsigVerif.Wire (ErrKind)",
        "open EqsigVerif.Model.SpectraFns (cumtrapzNoInit)", "", var_line, ""] + abbrevs + ["\n\n".join(defs), "", f"end EqsigVerif.{ns}.{area}", ""]
    return "\n".join(L)


# ----------------------------------------------------------------------------------------------
# target 1: calc_resp_uke_spectrum, calc_input_energy_spectrum
# ----------------------------------------------------------------------------------------------

RS = 'response_series'
SIG4 = ['motion', 'dt', 'periods', 'xi']


def callee_sig(mod, name, want, fname):
    f = find_all(mod, name)[-1]
    names, _ = signature(f, name)
    if names != want:
        raise Untranslatable(fname, f.lineno, f"parameters of {name}: {names}")
    return names


def energy_fn(src, mod, pyname, lnames, with_series):
    fn = find_all(mod, pyname)[-1]
    names, defaults = signature(fn, pyname)
    want = ['acc_signal', 'periods', 'xi'] + (['series'] if with_series else [])
    if names != want:
        raise Untranslatable(pyname, fn.lineno, f"parameters {names}")
    dterm = {k: const_default(v, src, pyname, fn.lineno) for k, v in defaults.items()}
    if dterm != {'periods': ('none',), 'xi': ('none',), **({'series': ('bool', False)} if with_series else {})}:
        raise Untranslatable(pyname, fn.lineno, f"defaults {sorted(dterm.items())}")
    callee = callee_sig(mod, RS, SIG4, pyname)
    sy = S2(pyname, src, names, objs={'acc_signal'})
    sy.effectful = {RS}
    rt, rline = walk(sy, fn, allow_final_if=with_series)
    if len(sy.effects) != 1:
        raise Untranslatable(pyname, fn.lineno, f"expected exactly one call of {RS}")
    leaves = {('attr', 'acc_signal', 'values'): ('arr', 'values'), ('attr', 'acc_signal', 'dt'): ('scal', 'dt'),
              ('attr', 'acc_signal', 'response_times'): ('arr', 'response_times'),
              ('param', 'periods'): ('oarr', 'periods'), ('param', 'xi'): ('oscal', 'xi')}
    pr = Pr(pyname, leaves, lambda k: ('triple', f"r{k}"))
    c, cline = sy.effects[0]
    args = []
    for a, wantk in zip(bind_call(c, callee, pyname, cline), ('arr', 'scal', 'arr', 'scal')):
        ka, ta = pr.tr(a)
        if ka != wantk:
            raise Untranslatable(pyname, cline, f"argument kind of {RS}: {show(a)}")
        args.append(pr.text((ka, ta)))
    head = [f"  match resp {' '.join(args)} with", "  | .error e => .error e", "  | .ok r0 =>"]
    params = "(resp : Resp α) (values : List α) (dt : α) (response_times : List α) (periods : Option (List α)) (xi : Option α)"
    doc0 = (f"`{pyname}(acc_signal, periods=None, xi=None{', series=…' if with_series else ''})`; the signal enters through its attributes "
            f"`values`, `dt`, `response_times`; `resp` is `{RS}` (arguments in the order of its signature)")
    defs = []
    if with_series:
        if rt[0] != 'retif' or rt[1] != ('param', 'series'):
            raise Untranslatable(pyname, rline, "final statement is not `if series: return … else: return …`")
        outs = [(lnames[0], rt[3], 'arr', "List α", 'series=False'), (lnames[1], rt[2], 'mat', "List (List α)", 'series=True')]
        defs.append(f"/-- default of parameter `series` of `{pyname}` -/\ndef {lnames[0]}SeriesDefault : Bool := false")
    else:
        outs = [(lnames[0], rt, 'arr', "List α", None)]
    for lname, term, wantk, ty, tag in outs:
        k, p = pr.tr(term)
        if k != wantk:
            raise Untranslatable(pyname, rline, f"returned value {show(term)} has kind {k}, expected {wantk}")
        doc = f"/-- {doc0}{'; branch `' + tag + '`' if tag else ''} -/"
        defs.append("\n".join([doc, f"def {lname} {params} :\n    Except ErrKind ({ty}) :="] + head + [f"  .ok {pr.text((k, p))}"]))
    return defs, pr


def gen_spec_energy(repo, ns):
    src = open(os.path.join(repo, 'eqsig', 'sdof.py')).read()
    mod = ast.parse(src)
    d1, p1 = energy_fn(src, mod, 'calc_resp_uke_spectrum', ['calcRespUkeSpectrum'], False)
    d2, p2 = energy_fn(src, mod, 'calc_input_energy_spectrum', ['calcInputEnergySpectrum', 'calcInputEnergySeries'], True)
    p1.ints |= p2.ints
    p1.sci = p1.sci or p2.sci
    var = "variable {α : Type} [LT α] [DecidableLT α] [Neg α] [Add α] [Sub α] [Mul α] [Div α]\n  " + classes(p1, (0,))
    ab = [f"/-- the type of `{RS}(motion, dt, periods, xi)` as a parameter: `(resp_u, resp_v, resp_a)` or the exception raised -/",
          f"abbrev Resp (α : Type) := {RESP_T}", ""]
    return {"SpecEnergy.lean": file_text(ns, "SpecEnergy", "eqsig/sdof.py (calc_resp_uke_spectrum, calc_input_energy_spectrum)", var, ab, d1 + d2)}


# ----------------------------------------------------------------------------------------------
# target 3: calc_asi, calc_vsi, calc_vsi_temporal and the other spectrum-based measures of im.py
# ----------------------------------------------------------------------------------------------

def im_sig(fn, src, pyname):
    names, defaults = signature(fn, pyname)
    if names != ['asig', 'xi', 'periods']:
        raise Untranslatable(pyname, fn.lineno, f"parameters {names}")
    dterm = {k: const_default(v, src, pyname, fn.lineno) for k, v in defaults.items()}
    if set(dterm) != {'xi', 'periods'} or dterm['periods'] != ('none',) or dterm['xi'][0] != 'lit':
        raise Untranslatable(pyname, fn.lineno, f"defaults {sorted(dterm.items())}")
    return names, dterm['xi'][1]


IM_LEAVES = {('attr', 'asig', 'values'): ('arr', 'values'), ('attr', 'asig', 'dt'): ('scal', 'dt'),
             ('param', 'periods'): ('oarr', 'periods'), ('param', 'xi'): ('scal', 'xi')}


def intensity_fn(src, mod, sdof_mod, pyname, lname):
    fn = find_all(mod, pyname)[-1]                      # a later `def` of the same name rebinds it
    names, xi_default = im_sig(fn, src, pyname)
    callee = callee_sig(sdof_mod, 'pseudo_response_spectra', SIG4, pyname)
    sy = S2(pyname, src, names, objs={'asig'}, modules={'sdof'})
    sy.effectful = {'sdof.pseudo_response_spectra', 'max'}
    rt, rline = walk(sy, fn)
    if [c[1] for c, _ in sy.effects] != ['sdof.pseudo_response_spectra', 'max']:
        raise Untranslatable(pyname, fn.lineno, "expected pseudo_response_spectra(…) followed by one max(…)")

    def effkind(k):
        return ('atriple', 'r0') if k == 0 else ('scal', 'r1')
    pr = Pr(pyname, IM_LEAVES, effkind)
    c, cline = sy.effects[0]
    args = []
    for a, wantk in zip(bind_call(c, callee, pyname, cline), ('arr', 'scal', 'arr', 'scal')):
        ka, ta = pr.tr(a)
        if ka != wantk:
            raise Untranslatable(pyname, cline, f"argument kind of pseudo_response_spectra: {show(a)}")
        args.append(pr.text((ka, ta)))
    m, mline = sy.effects[1]
    if len(m[2]) != 1 or m[3]:
        raise Untranslatable(pyname, mline, "max(…) with other than one argument")
    km, tm = pr.tr(m[2][0])
    if km != 'arr':
        raise Untranslatable(pyname, mline, "max(…) of something that is not a 1-D array")
    kr, tr_ = pr.tr(rt)
    if kr != 'scal':
        raise Untranslatable(pyname, rline, "returned value is not a scalar")
    body = [f"  match pseudo {' '.join(args)} with", "  | .error e => .error e", "  | .ok r0 =>",
            f"  match Np.maxL? {pr.text((km, tm))} with", "  | none => .error .ValueError", "  | some r1 =>", f"  .ok {tr_}"]
    ar = "(arange : α → α → α → List α) " if 'arange' in pr.uses else ""
    doc = (f"/-- `{pyname}(asig, xi={xi_default}, periods=None)`; the signal enters through `values`, `dt`; `pseudo` is "
           f"`sdof.pseudo_response_spectra` (arguments in the order of its signature), `arange` is `np.arange(start, stop, step)`;\n"
           f"Python `max` of an empty array is a `ValueError` -/")
    d = [f"/-- default of parameter `xi` of `{pyname}` -/\ndef {lname}XiDefault : α := {pr.lit(xi_default)}",
         "\n".join([doc, f"def {lname} (pseudo : Pseudo α) {ar}(values : List α) (dt : α) (xi : α) (periods : Option (List α)) :\n    Except ErrKind α :="] + body)]
    return d, pr


NJ = 'nigam_and_jennings_response'


def vsi_temporal_fn(src, mod, sdof_mod):
    pyname, lname = 'calc_vsi_temporal', 'calcVsiTemporal'
    fn = find_all(mod, pyname)[-1]
    names, xi_default = im_sig(fn, src, pyname)
    callee = callee_sig(sdof_mod, NJ, ['acc', 'dt', 'periods', 'xi'], pyname)
    sy = S2(pyname, src, names, objs={'asig'}, modules={'sdof'})
    sy.effectful = {'sdof.' + NJ}
    rt, rline = walk(sy, fn)
    if [c[1] for c, _ in sy.effects] != ['sdof.' + NJ]:
        raise Untranslatable(pyname, fn.lineno, f"expected exactly one call of {NJ}")
    pr = Pr(pyname, IM_LEAVES, lambda k: ('triple', 'r0'))
    c, cline = sy.effects[0]
    args = []
    for a, wantk in zip(bind_call(c, callee, pyname, cline), ('arr', 'scal', 'arr', 'scal')):
        ka, ta = pr.tr(a)
        if ka != wantk:
            raise Untranslatable(pyname, cline, f"argument kind of {NJ}: {show(a)}")
        args.append(pr.text((ka, ta)))
    kr, tr_ = pr.tr(rt)
    if kr != 'arr':
        raise Untranslatable(pyname, rline, "returned value is not a 1-D array")
    body = [f"  match resp {' '.join(args)} with", "  | .error e => .error e", "  | .ok r0 =>", f"  .ok {pr.text((kr, tr_))}"]
    ar = "(arange : α → α → α → List α) " if 'arange' in pr.uses else ""
    pi = "(pi : α) " if 'pi' in pr.uses else ""
    doc = (f"/-- `{pyname}(asig, xi={xi_default}, periods=None)`; `resp` is `sdof.{NJ}`, `arange` is `np.arange`, `pi` is `np.pi`;\n"
           f"`np.maximum.accumulate(·, axis=1)` ↦ `NpT.cummax` per row, `w[:, np.newaxis] * M` ↦ one entry of `w` per row, "
           f"`np.trapz(·, axis=0)` ↦ `NpT.trapzAxis0` -/")
    d = [f"/-- default of parameter `xi` of `{pyname}` -/\ndef {lname}XiDefault : α := {pr.lit(xi_default)}",
         "\n".join([doc, f"def {lname} (resp : Resp α) {ar}{pi}(values : List α) (dt : α) (xi : α) (periods : Option (List α)) :\n    Except ErrKind (List α) :="] + body)]
    return d, pr


def cumulative_fn(src, mod, sdof_mod):
    """cumulative_response_spectra(acc_signal, fun_name, periods=None, xi=None)"""
    pyname, lname = 'cumulative_response_spectra', 'cumulativeResponseSpectra'
    fn = find_all(mod, pyname)[-1]
    names, defaults = signature(fn, pyname)
    if names != ['acc_signal', 'fun_name', 'periods', 'xi']:
        raise Untranslatable(pyname, fn.lineno, f"parameters {names}")
    dterm = {k: const_default(v, src, pyname, fn.lineno) for k, v in defaults.items()}
    if dterm != {'periods': ('none',), 'xi': ('none',)}:
        raise Untranslatable(pyname, fn.lineno, f"defaults {sorted(dterm.items())}")
    callee = callee_sig(sdof_mod, RS, SIG4, pyname)
    ar = find_all(mod, '_raw_calc_arias_intensity')[-1]
    ar_names, _ = signature(ar, '_raw_calc_arias_intensity')
    if ar_names != ['acc', 'dt']:
        raise Untranslatable('_raw_calc_arias_intensity', ar.lineno, f"parameters {ar_names}")
    sts = body_of(fn)
    # shape: …assignments/ifs…; `if fun_name == "<s>": rs = _raw_calc_arias_intensity(resp_a, acc_signal.dt) else: raise ValueError`; `return rs`
    if len(sts) < 3 or not isinstance(sts[-1], ast.Return) or not isinstance(sts[-2], ast.If):
        raise Untranslatable(pyname, fn.lineno, "body does not end with `if fun_name == …: … else: raise …; return rs`")
    sy = S2(pyname, src, names, objs={'acc_signal'}, modules={'sdof'})
    sy.effectful = {'sdof.' + RS}
    for st in sts[:-2]:
        if isinstance(st, ast.Assign):
            sy.assign(st)
        elif isinstance(st, ast.If):
            test = X.run_if(sy, st)
            if not (test[0] == 'cmp' and test[1] in ('is', 'is not') and test[3] == ('none',) and test[2][0] == 'param'):
                sy.fail(st, 'if statement whose test is not `<parameter> is None`')
        else:
            sy.fail(st, 'statement ' + type(st).__name__)
    sel = sts[-2]
    test = sy.ev(sel.test)
    if not (test[0] == 'cmp' and test[1] == '==' and test[2] == ('param', 'fun_name') and test[3][0] == 'str'):
        sy.fail(sel, 'selector test')
    if not (len(sel.body) == 1 and isinstance(sel.body[0], ast.Assign) and len(sel.orelse) == 1 and isinstance(sel.orelse[0], ast.Raise)):
        sy.fail(sel, 'selector branches')
    rz = sel.orelse[0].exc
    exc = rz.id if isinstance(rz, ast.Name) else (rz.func.id if isinstance(rz, ast.Call) and isinstance(rz.func, ast.Name) else None)
    if exc not in ('ValueError', 'TypeError', 'KeyError', 'NotImplementedError'):
        sy.fail(sel.orelse[0], 'raised exception')
    sy.assign(sel.body[0])
    rv = sy.ev(sts[-1].value)
    if not (rv[0] == 'call' and rv[1] == '_raw_calc_arias_intensity'):
        sy.fail(sts[-1], 'returned value is not the Arias integral')
    if [c[1] for c, _ in sy.effects] != ['sdof.' + RS]:
        raise Untranslatable(pyname, fn.lineno, f"expected exactly one call of {RS}")
    leaves = {('attr', 'acc_signal', 'values'): ('arr', 'values'), ('attr', 'acc_signal', 'dt'): ('scal', 'dt'),
              ('attr', 'acc_signal', 'response_times'): ('arr', 'response_times'),
              ('param', 'periods'): ('oarr', 'periods'), ('param', 'xi'): ('oscal', 'xi')}
    pr = Pr(pyname, leaves, lambda k: ('triple', 'r0'))
    c, cline = sy.effects[0]
    args = []
    for a, wantk in zip(bind_call(c, callee, pyname, cline), ('arr', 'scal', 'arr', 'scal')):
        ka, ta = pr.tr(a)
        if ka != wantk:
            raise Untranslatable(pyname, cline, f"argument kind of {RS}: {show(a)}")
        args.append(pr.text((ka, ta)))
    # inline `_raw_calc_arias_intensity(acc, dt)` on the actual arguments
    a_args = bind_call(rv, ar_names, pyname, sts[-1].lineno)
    sy2 = S2('_raw_calc_arias_intensity', src, ar_names)
    rt2, _ = walk(sy2, ar)
    ka, pa = pr.tr(a_args[0])
    kd, pd = pr.tr(a_args[1])
    if ka != 'mat' or kd != 'scal':
        raise Untranslatable(pyname, sts[-1].lineno, "arguments of _raw_calc_arias_intensity")
    pr2 = Pr('_raw_calc_arias_intensity', {('param', 'acc'): ('mat', pa), ('param', 'dt'): ('scal', pd)}, None)
    kr, tr_ = pr2.tr(rt2)
    if kr != 'mat':
        raise Untranslatable(pyname, sts[-1].lineno, "Arias integral of the response is not a 2-D array")
    pr.ints |= pr2.ints
    pr.sci = pr.sci or pr2.sci
    pr.uses |= pr2.uses
    body = [f"  match resp {' '.join(args)} with", "  | .error e => .error e", "  | .ok r0 =>",
            f"  if is_arias then .ok {pr2.text((kr, tr_))} else .error .{exc}"]
    doc = (f"/-- `{pyname}(acc_signal, fun_name, periods=None, xi=None)`; `is_arias` is the test `fun_name == {test[3][1]!r}`; `resp` is "
           f"`sdof.{RS}`; `_raw_calc_arias_intensity` is inlined row-wise (`pi` is `np.pi`); any other name raises `{exc}` AFTER the response has been computed -/")
    d = [f"/-- the only function name `{pyname}` accepts -/\ndef {lname}Name : String := \"{test[3][1]}\"",
         "\n".join([doc, f"def {lname} (resp : Resp α) (pi : α) (values : List α) (dt : α) (response_times : List α) (is_arias : Bool) "
                         f"(periods : Option (List α)) (xi : Option α) :\n    Except ErrKind (List (List α)) :="] + body)]
    return d, pr


def max_period_fn(src, mod, single_mod, pyname, lname, which):
    """calc_max_velocity_period / max_acceleration_period: new AccSignal(values, dt); generate_response_spectrum(response_times=periods,
    xi=<lit>); argmax of one spectrum; the period at that index"""
    fn = find_all(mod, pyname)[-1]
    names, defaults = signature(fn, pyname)
    if names != ['asig'] or defaults:
        raise Untranslatable(pyname, fn.lineno, f"parameters {names}")
    sts = [s for s in body_of(fn) if not isinstance(s, (ast.Import, ast.ImportFrom))]
    imps = [s for s in body_of(fn) if isinstance(s, ast.ImportFrom)]
    if not (len(imps) == 1 and imps[0].module == 'eqsig' and [a.name for a in imps[0].names] == ['AccSignal']):
        raise Untranslatable(pyname, fn.lineno, "expected `from eqsig import AccSignal`")
    if len(sts) != 6:
        raise Untranslatable(pyname, fn.lineno, f"{len(sts)} statements, expected 6")
    sy = S2(pyname, src, names, objs={'asig'})
    sy.env['AccSignal'] = ('builtin', 'AccSignal')
    sy.assign(sts[0])                                             # periods = np.logspace(a, b, n)
    per = sy.env.get('periods')
    if not (isinstance(sts[0].targets[0], ast.Name) and per and per[0] == 'call' and per[1] == 'np.logspace'):
        sy.fail(sts[0], 'period grid')
    pname = sts[0].targets[0].id
    st = sts[1]                                                   # new_sig = AccSignal(asig.values, asig.dt)
    if not (isinstance(st, ast.Assign) and isinstance(st.targets[0], ast.Name)):
        sy.fail(st, 'construction of the new signal')
    v = sy.ev(st.value)
    if v != ('call', 'AccSignal', (('attr', 'asig', 'values'), ('attr', 'asig', 'dt')), ()):
        sy.fail(st, 'construction of the new signal')
    new = st.targets[0].id
    st = sts[2]                                                   # new_sig.generate_response_spectrum(response_times=periods, xi=<lit>)
    c = st.value if isinstance(st, ast.Expr) else None
    if not (isinstance(c, ast.Call) and isinstance(c.func, ast.Attribute) and isinstance(c.func.value, ast.Name) and c.func.value.id == new
            and c.func.attr in ('generate_response_spectrum', 'gen_response_spectrum')):
        sy.fail(st, 'spectrum generation on the new signal')
    meth = find_method(single_mod, 'AccSignal', c.func.attr)
    mnames, _ = signature(meth, c.func.attr)
    if mnames != ['self', 'response_times', 'xi', 'min_dt_ratio']:
        raise Untranslatable(pyname, meth.lineno, f"parameters of {c.func.attr}: {mnames}")
    cargs = [sy.ev(a) for a in c.args]
    ckw = {k.arg: sy.ev(k.value) for k in c.keywords}
    full = {}
    for nme, a in zip(mnames[1:], cargs):
        full[nme] = a
    for k, a in ckw.items():
        if k in full or k not in mnames[1:]:
            sy.fail(st, 'keyword ' + str(k))
        full[k] = a
    if set(full) != {'response_times', 'xi'} or full['response_times'] != per or full['xi'][0] != 'lit':
        sy.fail(st, 'arguments of the spectrum generation')
    xi_lit = full['xi'][1]
    st = sts[3]                                                   # max_index = np.argmax(new_sig.s_?)
    if not (isinstance(st, ast.Assign) and isinstance(st.targets[0], ast.Name) and isinstance(st.value, ast.Call)):
        sy.fail(st, 'argmax statement')
    cv = st.value
    if not (isinstance(cv.func, ast.Attribute) and isinstance(cv.func.value, ast.Name) and cv.func.value.id == 'np' and cv.func.attr == 'argmax'
            and len(cv.args) == 1 and not cv.keywords and isinstance(cv.args[0], ast.Attribute) and isinstance(cv.args[0].value, ast.Name)
            and cv.args[0].value.id == new and cv.args[0].attr in ('s_d', 's_v', 's_a')):
        sy.fail(st, 'argmax statement')
    spec = cv.args[0].attr
    idx = st.targets[0].id
    st = sts[4]                                                   # max_period = periods[max_index]
    if not (isinstance(st, ast.Assign) and isinstance(st.targets[0], ast.Name) and isinstance(st.value, ast.Subscript)
            and isinstance(st.value.value, ast.Name) and st.value.value.id == pname and isinstance(st.value.slice, ast.Name)
            and st.value.slice.id == idx):
        sy.fail(st, 'period lookup')
    out = st.targets[0].id
    st = sts[5]
    if not (isinstance(st, ast.Return) and isinstance(st.value, ast.Name) and st.value.id == out):
        sy.fail(st, 'return')
    pr = Pr(pyname, {}, None)
    kp, tp = pr.tr(per)
    comp = {'s_d': 'r0.1', 's_v': 'r0.2.1', 's_a': 'r0.2.2'}[spec]
    grid = pr.text((kp, tp))
    body = [f"  match objSpectra values dt {grid} {pr.lit(xi_lit)} with", "  | .error e => .error e", "  | .ok r0 =>",
            f"  match NpE.argmaxE {comp} with", "  | .error e => .error e", "  | .ok r1 =>", f"  NpT.pyAt {grid} r1"]
    doc = (f"/-- `{pyname}(asig)`: a NEW `AccSignal(asig.values, asig.dt)`, `{c.func.attr}(response_times=periods, xi={xi_lit})` with the "
           f"default `min_dt_ratio`; `objSpectra values dt response_times xi` stands for that method on a fresh signal (`(s_d, s_v, s_a)`), "
           f"`logspace` is `np.logspace`; the result is the period at the FIRST maximum of `{spec}` -/")
    d = ["\n".join([doc, f"def {lname} (objSpectra : Pseudo α) (logspace : α → α → Nat → List α) (values : List α) (dt : α) :\n    Except ErrKind α :="] + body)]
    return d, pr


def sir_fn(src, mod):
    """calc_sir(acc_sig): 0.7 * acc_sig.arias_intensity / (t75 - t5) with (t5, t75) = calc_significant_duration(values, dt)"""
    pyname, lname = 'calc_sir', 'calcSir'
    fn = find_all(mod, pyname)[-1]
    names, defaults = signature(fn, pyname)
    if names != ['acc_sig'] or defaults:
        raise Untranslatable(pyname, fn.lineno, f"parameters {names}")
    callee = find_all(mod, 'calc_significant_duration')[-1]
    cnames, cdef = signature(callee, 'calc_significant_duration')
    if cnames != ['motion', 'dt', 'start', 'end']:
        raise Untranslatable(pyname, callee.lineno, f"parameters of calc_significant_duration: {cnames}")
    cd = {k: const_default(v, src, pyname, callee.lineno) for k, v in cdef.items()}
    if set(cd) != {'start', 'end'} or cd['start'][0] != 'lit' or cd['end'][0] != 'lit':
        raise Untranslatable(pyname, callee.lineno, "defaults of calc_significant_duration")
    # what `calc_significant_duration` returns: it must forward to calc_sig_dur_vals(motion, dt, start=start, end=end[, se=<bool>])
    cb = [s_ for s_ in body_of(callee) if not (isinstance(s_, ast.Expr) and isinstance(s_.value, ast.Call) and isinstance(s_.value.func, ast.Name)
                                               and s_.value.func.id == 'deprecation')]
    fwd = cb[0].value if len(cb) == 1 and isinstance(cb[0], ast.Return) and isinstance(cb[0].value, ast.Call) else None
    if fwd is None or not (isinstance(fwd.func, ast.Name) and fwd.func.id == 'calc_sig_dur_vals' and [getattr(a, 'id', None) for a in fwd.args] == ['motion', 'dt']):
        raise Untranslatable('calc_significant_duration', callee.lineno, "not a forwarding to calc_sig_dur_vals(motion, dt, …)")
    fkw = {k_.arg: k_.value for k_ in fwd.keywords}
    if set(fkw) - {'start', 'end', 'se'} or getattr(fkw.get('start'), 'id', None) != 'start' or getattr(fkw.get('end'), 'id', None) != 'end':
        raise Untranslatable('calc_significant_duration', callee.lineno, "keywords of the forwarding call")
    sdv = find_all(mod, 'calc_sig_dur_vals')[-1]
    vnames, vdef = signature(sdv, 'calc_sig_dur_vals')
    if vnames != ['motion', 'dt', 'start', 'end', 'se']:
        raise Untranslatable('calc_sig_dur_vals', sdv.lineno, f"parameters {vnames}")
    se = fkw['se'] if 'se' in fkw else vdef['se']
    if not (isinstance(se, ast.Constant) and isinstance(se.value, bool)):
        raise Untranslatable('calc_sig_dur_vals', sdv.lineno, "`se` is not a Boolean literal")
    vb = body_of(sdv)
    if not (len(vb) >= 2 and isinstance(vb[-2], ast.If) and isinstance(vb[-2].test, ast.Name) and vb[-2].test.id == 'se' and not vb[-2].orelse
            and len(vb[-2].body) == 1 and isinstance(vb[-2].body[0], ast.Return) and isinstance(vb[-2].body[0].value, ast.Tuple)
            and len(vb[-2].body[0].value.elts) == 2 and isinstance(vb[-1], ast.Return) and not isinstance(vb[-1].value, ast.Tuple)):
        raise Untranslatable('calc_sig_dur_vals', sdv.lineno, "expected `if se: return a, b` followed by `return <scalar>`")
    pair = se.value                       # True: a pair comes back; False: ONE float comes back and the unpacking raises TypeError
    sy = S2(pyname, src, names, objs={'acc_sig'})
    sy.effectful = {'calc_significant_duration'}
    rt, rline = walk(sy, fn)
    if [c[1] for c, _ in sy.effects] != ['calc_significant_duration']:
        raise Untranslatable(pyname, fn.lineno, "expected exactly one call of calc_significant_duration")
    c, cline = sy.effects[0]
    if c[3] or c[2] != (('attr', 'acc_sig', 'values'), ('attr', 'acc_sig', 'dt')):
        raise Untranslatable(pyname, cline, "arguments of calc_significant_duration")
    leaves = {('attr', 'acc_sig', 'arias_intensity'): ('scal', 'ai'),
              ('tget', ('eff', 0), 0, 2): ('scal', 'r0.1'), ('tget', ('eff', 0), 1, 2): ('scal', 'r0.2')}
    pr = Pr(pyname, leaves, None)
    # the attribute is read BEFORE the duration is computed
    first = [s for s in body_of(fn) if isinstance(s, ast.Assign)][0]
    if sy.ev(first.value) != ('attr', 'acc_sig', 'arias_intensity'):
        raise Untranslatable(pyname, first.lineno, "first statement does not read acc_sig.arias_intensity")
    kr, tr_ = pr.tr(rt)
    if kr != 'scal':
        raise Untranslatable(pyname, rline, "returned value is not a scalar")
    body = ["  match arias_intensity with", "  | none => .error .AttributeError", "  | some ai =>",
            f"  match sigDur values dt {pr.lit(cd['start'][1])} {pr.lit(cd['end'][1])} with", "  | .error e => .error e", "  | .ok r0 =>",
            f"  .ok {tr_}" if pair else "  .error .TypeError"]
    rty = "(α × α)" if pair else "α"
    note = "" if pair else (" — which is called WITHOUT `se`, so ONE float (the duration) comes back and the tuple unpacking "
                            "`a, b = <float>` raises `TypeError`")
    doc = (f"/-- `{pyname}(acc_sig)`; `arias_intensity` is the attribute `acc_sig.arias_intensity` (`none`: the object has no such attribute — "
           f"`AttributeError`, raised first), `sigDur motion dt start end` is `calc_sig_dur_vals` reached through `calc_significant_duration` "
           f"with ITS defaults `start={cd['start'][1]}`, `end={cd['end'][1]}`{note} -/")
    d = ["\n".join([doc, f"def {lname} (sigDur : List α → α → α → α → Except ErrKind {rty}) (arias_intensity : Option α) (values : List α) (dt : α) :\n    Except ErrKind α :="] + body)]
    return d, pr


def gen_spec_im(repo, ns):
    src = open(os.path.join(repo, 'eqsig', 'im.py')).read()
    mod = ast.parse(src)
    sdof_mod = ast.parse(open(os.path.join(repo, 'eqsig', 'sdof.py')).read())
    single_mod = ast.parse(open(os.path.join(repo, 'eqsig', 'single.py')).read())
    # the module-level names the bodies rely on
    imps = {(n.module, a.name, a.asname) for n in mod.body if isinstance(n, ast.ImportFrom) for a in n.names}
    if ('eqsig', 'sdof', None) not in imps or ('scipy.integrate', 'cumulative_trapezoid', None) not in imps:
        raise Untranslatable('im.py', 0, "expected `from eqsig import sdof` and `from scipy.integrate import cumulative_trapezoid`")
    defs, prs = [], []
    for fnc, a in ((intensity_fn, ('calc_asi', 'calcAsi')), (intensity_fn, ('calc_vsi', 'calcVsi'))):
        d, p = fnc(src, mod, sdof_mod, *a)
        defs += d
        prs.append(p)
    for d, p in (vsi_temporal_fn(src, mod, sdof_mod), cumulative_fn(src, mod, sdof_mod),
                 max_period_fn(src, mod, single_mod, 'calc_max_velocity_period', 'calcMaxVelocityPeriod', 's_v'),
                 max_period_fn(src, mod, single_mod, 'max_acceleration_period', 'maxAccelerationPeriod', 's_a'),
                 sir_fn(src, mod)):
        defs += d
        prs.append(p)
    p0 = prs[0]
    for p in prs[1:]:
        p0.ints |= p.ints
        p0.sci = p0.sci or p.sci
    var = "variable {α : Type} [LT α] [DecidableLT α] [Neg α] [Add α] [Sub α] [Mul α] [Div α]\n  " + classes(p0, (0, 2))
    ab = [f"/-- the type of `{NJ}` / `response_series` as a parameter: `(resp_u, resp_v, resp_a)` or the exception raised -/",
          f"abbrev Resp (α : Type) := {RESP_T}", "",
          "/-- the type of `pseudo_response_spectra(motion, dt, periods, xi)` as a parameter: `(sds, svs, sas)` or the exception raised -/",
          f"abbrev Pseudo (α : Type) := {PSEUDO_T}", ""]
    return {"SpecIm.lean": file_text(ns, "SpecIm", "eqsig/im.py (calc_asi, calc_vsi, calc_vsi_temporal, cumulative_response_spectra, "
                                                  "calc_max_velocity_period, max_acceleration_period, calc_sir)", var, ab, defs)}


# ----------------------------------------------------------------------------------------------
# target 2: AccSignal.gen_response_spectrum (single.py)
# ----------------------------------------------------------------------------------------------

GRS = 'gen_response_spectrum'
IAD = 'interp_array_to_approx_dt'


def self_store(st):
    """`self.<attr> = <expr>` -> (attr, value node)"""
    if isinstance(st, ast.Assign) and len(st.targets) == 1 and isinstance(st.targets[0], ast.Attribute) \
            and isinstance(st.targets[0].value, ast.Name) and st.targets[0].value.id == 'self':
        return st.targets[0].attr, st.value
    return None


def gen_spec_object(repo, ns):
    src = open(os.path.join(repo, 'eqsig', 'single.py')).read()
    mod = ast.parse(src)
    fname = 'AccSignal.' + GRS
    fn = find_method(mod, 'AccSignal', GRS)
    names, defaults = signature(fn, fname)
    if names != ['self', 'response_times', 'xi', 'min_dt_ratio']:
        raise Untranslatable(fname, fn.lineno, f"parameters {names}")
    dterm = {k: const_default(v, src, fname, fn.lineno) for k, v in defaults.items()}
    if set(dterm) != {'response_times', 'xi', 'min_dt_ratio'} or dterm['response_times'] != ('none',):
        raise Untranslatable(fname, fn.lineno, f"defaults {sorted(dterm.items())}")
    # module-level names the body relies on
    imp = {(a.name, a.asname) for n in mod.body if isinstance(n, ast.Import) for a in n.names}
    impf = {(n.module, a.name, a.asname) for n in mod.body if isinstance(n, ast.ImportFrom) for a in n.names}
    if ('eqsig.sdof', 'dh') not in imp or ('eqsig.fns.time_step', IAD, None) not in impf:
        raise Untranslatable(fname, 0, f"expected `import eqsig.sdof as dh` and `from eqsig.fns.time_step import {IAD}`")
    ts = ast.parse(open(os.path.join(repo, 'eqsig', 'fns', 'time_step.py')).read())
    iad_names, _ = signature(find_all(ts, IAD)[-1], IAD)
    if iad_names != ['values', 'dt', 'target_dt', 'even']:
        raise Untranslatable(fname, 0, f"parameters of {IAD}: {iad_names}")
    sdof_mod = ast.parse(open(os.path.join(repo, 'eqsig', 'sdof.py')).read())
    prs_names = callee_sig(sdof_mod, 'pseudo_response_spectra', SIG4, fname)
    # the cached damping the sentinel refers to: `self._cached_xi = <lit>` in AccSignal.__init__
    init = find_method(mod, 'AccSignal', '__init__')
    cx = [self_store(s) for s in ast.walk(init) if isinstance(s, ast.Assign) and self_store(s) and self_store(s)[0] == '_cached_xi']
    if len(cx) != 1 or not (isinstance(cx[0][1], ast.Constant) and isinstance(cx[0][1].value, float)):
        raise Untranslatable('AccSignal.__init__', init.lineno, "`self._cached_xi = <literal>` not found exactly once")
    cached_xi = X.lit_text(ast.get_source_segment(src, cx[0][1]))

    sy = S2(fname, src, names, objs={'self'}, modules={'dh'})
    sy.effectful = {IAD, 'dh.pseudo_response_spectra'}
    sts = body_of(fn)
    k = 0
    # (0) optional `if self.verbose: print(…)`
    st = sts[k]
    if isinstance(st, ast.If) and not st.orelse and sy.ev(st.test) == ('attr', 'self', 'verbose') and all(
            isinstance(b, ast.Expr) and isinstance(b.value, ast.Call) and isinstance(b.value.func, ast.Name) and b.value.func.id == 'print' for b in st.body):
        k += 1
    # (1) `if response_times is not None: self.response_times = response_times`
    st = sts[k]
    ss = self_store(st.body[0]) if isinstance(st, ast.If) and len(st.body) == 1 and not st.orelse else None
    if not ss or ss[0] != 'response_times' or sy.ev(st.test) != ('cmp', 'is not', ('param', 'response_times'), ('none',)) \
            or sy.ev(ss[1]) != ('param', 'response_times'):
        sy.fail(st, 'expected `if response_times is not None: self.response_times = response_times`')
    RT = ('rt',)                                  # self.response_times from here on
    sy.attrs[('self', 'response_times')] = RT
    k += 1
    # (2) `if self.response_times[0] != 0: m = self.response_times[0] else: m = self.response_times[1]`
    st = sts[k]
    if not (isinstance(st, ast.If) and len(st.body) == 1 and len(st.orelse) == 1 and all(
            isinstance(b, ast.Assign) and len(b.targets) == 1 and isinstance(b.targets[0], ast.Name) for b in (st.body[0], st.orelse[0]))
            and st.body[0].targets[0].id == st.orelse[0].targets[0].id):
        sy.fail(st, 'expected the two-branch choice of min_non_zero_period')
    test, a, b = sy.ev(st.test), sy.ev(st.body[0].value), sy.ev(st.orelse[0].value)

    def at(t):
        if t[0] == 'sub' and t[1] == RT and len(t[2]) == 1 and t[2][0][0] == 'i' and t[2][0][1][0] == 'lit' and t[2][0][1][1].isdigit():
            return int(t[2][0][1][1])
        return None
    if not (test[0] == 'cmp' and test[1] in ('!=', '==') and at(test[2]) is not None and test[3][0] == 'lit' and at(a) is not None and at(b) is not None):
        sy.fail(st, 'shape of the min_non_zero_period choice')
    pr = Pr(fname, {('attr', 'self', 'dt'): ('scal', 'dt'), ('attr', 'self', 'values'): ('arr', 'values'),
                    ('param', 'min_dt_ratio'): ('scal', 'min_dt_ratio'), ('param', 'xi'): ('scal', 'xi'),
                    ('attr', 'self', '_cached_xi'): ('scal', 'cached_xi'), RT: ('arr', 'rt')}, None)
    op = {'!=': '≠', '==': '='}[test[1]]
    mnz = ["/-- `min_non_zero_period`: the two-branch choice on `self.response_times[…]` (`IndexError` out of range; the test is evaluated first) -/",
           "def genSpecMinNonZeroPeriod (rt : List α) : Except ErrKind α :=",
           f"  match NpT.pyAt rt {at(test[2])} with", "  | .error e => .error e", "  | .ok c0 =>",
           f"  if c0 {op} {pr.lit(test[3][1])} then NpT.pyAt rt {at(a)} else NpT.pyAt rt {at(b)}"]
    MNZ = ('mnz',)
    sy.env[st.body[0].targets[0].id] = MNZ
    pr.leaves[MNZ] = ('scal', 'mnz')
    k += 1
    # (3) `target_dt = max(<mnz-expr>, self.dt / min_dt_ratio)`
    st = sts[k]
    if not (isinstance(st, ast.Assign) and len(st.targets) == 1 and isinstance(st.targets[0], ast.Name)):
        sy.fail(st, 'expected the assignment of target_dt')
    v = sy.ev(st.value)
    if not (v[0] == 'call' and v[1] == 'max' and len(v[2]) == 2 and not v[3]):
        sy.fail(st, 'target_dt is not max(a, b)')

    def pydiv(t):
        """a quotient whose divisor is a parameter is a Python-float division (ZeroDivisionError); a literal non-zero divisor cannot raise"""
        if t[0] == 'bin' and t[1] == '/' and t[3] == ('param', 'min_dt_ratio'):
            return ('raise', pr.text(pr.tr(t[2])), pr.text(pr.tr(t[3])))
        if t[0] == 'bin' and t[1] == '/' and t[3][0] == 'lit' and float(t[3][1]) != 0:
            return ('pure', strip_outer(pr.text(pr.tr(t))))
        sy.fail(st, 'argument of max is not a quotient by a non-zero literal or by min_dt_ratio')
    qa, qb = pydiv(v[2][0]), pydiv(v[2][1])
    tgt = ["/-- `target_dt = max(…, …)` (Python `max`: the first unless the second is larger); a quotient by the parameter `min_dt_ratio` is a Python-float division -/",
           "def genSpecTargetDt (rt : List α) (dt min_dt_ratio : α) : Except ErrKind α :=",
           "  match genSpecMinNonZeroPeriod rt with", "  | .error e => .error e", "  | .ok mnz =>"]
    argt = []
    for n, q in enumerate((qa, qb)):
        if q[0] == 'raise':
            tgt += [f"  match NpR.pyDivE {q[1]} {q[2]} with", "  | .error e => .error e", f"  | .ok q{n} =>"]
            argt.append(f"q{n}")
        else:
            argt.append(f"({q[1]})")
    tgt.append(f"  .ok (Np.max2 {argt[0]} {argt[1]})")
    TD = ('target_dt',)
    sy.env[st.targets[0].id] = TD
    pr.leaves[TD] = ('scal', 'target_dt')
    k += 1
    # (4) `if target_dt < self.dt: vi, di = interp_array_to_approx_dt(…) else: vi = self.values; di = self.dt`
    st = sts[k]
    if not isinstance(st, ast.If):
        sy.fail(st, 'expected the interpolation decision')
    test = sy.ev(st.test)
    if not (test[0] == 'cmp' and test[1] in ('<', '<=', '>', '>=')):
        sy.fail(st, 'test of the interpolation decision')
    ctext = f"{pr.text(pr.tr(test[2]))} {({'<': '<', '<=': '≤', '>': '>', '>=': '≥'})[test[1]]} {pr.text(pr.tr(test[3]))}"

    def branch(body):
        """-> Lean text of the pair (values_interp, dt_interp) computed by the branch, names bound"""
        env0 = dict(sy.env)
        ne = len(sy.effects)
        for b_ in body:
            if not isinstance(b_, ast.Assign):
                sy.fail(b_, 'statement in a branch of the interpolation decision')
            sy.assign(b_)
        newn = {n_: t_ for n_, t_ in sy.env.items() if env0.get(n_) != t_}
        effs = sy.effects[ne:]
        del sy.effects[ne:]
        sy.env = env0
        return newn, effs
    n1, e1 = branch(st.body)
    n2, e2 = branch(st.orelse)
    if set(n1) != set(n2) or len(n1) != 2:
        sy.fail(st, 'the two branches do not bind the same two names')

    def pair_text(nn, effs):
        if effs:
            if len(effs) != 1 or effs[0][0][1] != IAD:
                sy.fail(st, f'a branch calls something other than {IAD}')
            c, cl = effs[0]
            full = bind_call(c, iad_names, fname, cl)
            if full[3][0] != 'bool':
                sy.fail(st, '`even` is not a Boolean literal')
            a3 = [pr.text(pr.tr(x)) for x in full[:3]]
            kinds = [pr.tr(x)[0] for x in full[:3]]
            if kinds != ['arr', 'scal', 'scal']:
                sy.fail(st, f'argument kinds of {IAD}')
            role = {}
            for n_, t_ in nn.items():
                if not (t_[0] == 'tget' and t_[1][0] == 'eff' and t_[3] == 2):
                    sy.fail(st, f'a branch that calls {IAD} binds something else')
                role[n_] = t_[2]
            return f"interp {' '.join(a3)} {'true' if full[3][1] else 'false'}", role
        role = {}
        txt = {}
        for n_, t_ in nn.items():
            kk, pp = pr.tr(t_)
            role[n_] = 0 if kk == 'arr' else 1
            txt[role[n_]] = pr.text((kk, pp))
        if sorted(role.values()) != [0, 1]:
            sy.fail(st, 'the raw branch does not bind one array and one scalar')
        return f".ok ({txt[0]}, {txt[1]})", role
    t1, r1 = pair_text(n1, e1)
    t2, r2 = pair_text(n2, e2)
    if r1 != r2:
        sy.fail(st, 'the two branches bind the names in different roles')
    inp = [f"/-- `(values_interp, dt_interp)`: what is handed to `pseudo_response_spectra`; `interp` is `{IAD}(values, dt, target_dt, even)` -/",
           "def genSpecInput (interp : List α → α → α → Bool → Except ErrKind (List α × α)) (values : List α) (dt : α) (rt : List α) (min_dt_ratio : α) :",
           "    Except ErrKind (List α × α) :=",
           "  match genSpecTargetDt rt dt min_dt_ratio with", "  | .error e => .error e", "  | .ok target_dt =>",
           f"  if {ctext} then {t1} else {t2}"]
    VI, DI = ('vi',), ('di',)
    for n_, r_ in r1.items():
        sy.env[n_] = VI if r_ == 0 else DI
    pr.leaves[VI] = ('arr', 'inp.1')
    pr.leaves[DI] = ('scal', 'inp.2')
    k += 1
    # (5) `if xi == -1: xi = self._cached_xi`
    st = sts[k]
    if not (isinstance(st, ast.If) and not st.orelse and len(st.body) == 1 and isinstance(st.body[0], ast.Assign)):
        sy.fail(st, 'expected the damping sentinel')
    X.run_if(sy, st)
    xi_t = sy.env['xi']
    if not (xi_t[0] == 'ite' and xi_t[1][0] == 'cmp' and xi_t[1][1] == '==' and xi_t[1][2] == ('param', 'xi') and xi_t[3] == ('param', 'xi')):
        sy.fail(st, 'shape of the damping sentinel')
    xis = ["/-- the damping handed on: the sentinel test `if xi == …: xi = self._cached_xi` -/",
           "def genSpecXi (cached_xi xi : α) : α :=",
           f"  if xi = {pr.text(pr.tr(xi_t[1][3]))} then {pr.text(pr.tr(xi_t[2]))} else xi"]
    XI = ('xi2',)
    sy.env['xi'] = XI
    pr.leaves[XI] = ('scal', '(genSpecXi cached_xi xi)')
    k += 1
    # (6) `try: self._s_d, self._s_v, self._s_a = dh.pseudo_response_spectra(…) except MemoryError: raise MemoryError(…)`
    st = sts[k]
    if isinstance(st, ast.Try):
        if not (len(st.body) == 1 and len(st.handlers) == 1 and not st.orelse and not st.finalbody and isinstance(st.handlers[0].type, ast.Name)
                and len(st.handlers[0].body) == 1 and isinstance(st.handlers[0].body[0], ast.Raise)):
            sy.fail(st, 'shape of the try statement')
        h = st.handlers[0]
        rz = h.body[0].exc
        rn = rz.func.id if isinstance(rz, ast.Call) and isinstance(rz.func, ast.Name) else (rz.id if isinstance(rz, ast.Name) else None)
        if rn != h.type.id:
            sy.fail(st, 'the handler raises a different exception class')       # same class re-raised: no change of the outcome kind
        st = st.body[0]
    if not (isinstance(st, ast.Assign) and len(st.targets) == 1 and isinstance(st.targets[0], ast.Tuple) and len(st.targets[0].elts) == 3):
        sy.fail(st, 'expected the assignment of the three spectra')
    tn = []
    for e_ in st.targets[0].elts:
        if not (isinstance(e_, ast.Attribute) and isinstance(e_.value, ast.Name) and e_.value.id == 'self'):
            sy.fail(st, 'target of the spectra assignment')
        tn.append(e_.attr)
    if sorted(tn) != ['_s_a', '_s_d', '_s_v']:
        sy.fail(st, f'targets {tn}')
    ne = len(sy.effects)
    v = sy.ev(st.value)
    if not (v[0] == 'eff' and len(sy.effects) == ne + 1 and sy.effects[-1][0][1] == 'dh.pseudo_response_spectra'):
        sy.fail(st, 'the spectra are not one call of dh.pseudo_response_spectra')
    c, cl = sy.effects[-1]
    full = bind_call(c, prs_names, fname, cl)
    kinds = [pr.tr(x)[0] for x in full]
    if kinds != ['arr', 'scal', 'arr', 'scal']:
        sy.fail(st, 'argument kinds of pseudo_response_spectra')
    pa = [pr.text(pr.tr(x)) for x in full]
    comp = {n_: ('r.1', 'r.2.1', 'r.2.2')[i] for i, n_ in enumerate(tn)}
    k += 1
    # (7) `self._cached_response_spectra = True`
    st = sts[k] if k < len(sts) else None
    ss = self_store(st) if st is not None else None
    if not ss or ss[0] != '_cached_response_spectra' or not (isinstance(ss[1], ast.Constant) and ss[1].value is True) or k != len(sts) - 1:
        raise Untranslatable(fname, getattr(st, 'lineno', fn.lineno), "expected the final `self._cached_response_spectra = True`")
    whole = [f"/-- `AccSignal.{GRS}(response_times=None, xi=…, min_dt_ratio=…)` on a signal with `values`, `dt`, the stored `response_times`\n"
             f"(`self_rt`) and `_cached_xi`; `pseudo` is `dh.pseudo_response_spectra` (arguments in the order of its signature).  Result: the new\n"
             f"`(response_times, _s_d, _s_v, _s_a)`; a `MemoryError` handler re-raises the same class; the cache flag is set afterwards (C04) -/",
             "def genResponseSpectrum (interp : List α → α → α → Bool → Except ErrKind (List α × α)) (pseudo : Pseudo α)",
             "    (values : List α) (dt : α) (self_rt : List α) (cached_xi : α) (response_times : Option (List α)) (xi min_dt_ratio : α) :",
             "    Except ErrKind (List α × List α × List α × List α) :=",
             "  let rt := (match response_times with | none => self_rt | some v => v)",
             "  match genSpecInput interp values dt rt min_dt_ratio with", "  | .error e => .error e", "  | .ok inp =>",
             f"  match pseudo {' '.join(pa)} with", "  | .error e => .error e", "  | .ok r =>",
             f"  .ok (rt, {comp['_s_d']}, {comp['_s_v']}, {comp['_s_a']})"]
    # the forwarding method and the defaults
    fw = find_method(mod, 'AccSignal', 'generate_response_spectrum')
    fnames, fdef = signature(fw, 'AccSignal.generate_response_spectrum')
    fd = {k_: const_default(v_, src, fname, fw.lineno) for k_, v_ in fdef.items()}
    fb = body_of(fw)
    ok = fnames == names and fd == dterm and len(fb) == 1 and isinstance(fb[0], ast.Expr) and isinstance(fb[0].value, ast.Call)
    if ok:
        c_ = fb[0].value
        ok = isinstance(c_.func, ast.Attribute) and isinstance(c_.func.value, ast.Name) and c_.func.value.id == 'self' and c_.func.attr == GRS \
            and not c_.args and sorted((k_.arg, getattr(k_.value, 'id', None)) for k_ in c_.keywords) == sorted((n_, n_) for n_ in names[1:])
    if not ok:
        raise Untranslatable('AccSignal.generate_response_spectrum', fw.lineno, "not a plain forwarding of (response_times, xi, min_dt_ratio) with the same defaults")
    dfl = [f"/-- default of parameter `xi` of `{GRS}` / `generate_response_spectrum` (the sentinel) -/\ndef genSpecXiDefault : α := {pr.text(pr.tr(dterm['xi']))}",
           f"/-- default of parameter `min_dt_ratio` of `{GRS}` / `generate_response_spectrum` -/\ndef genSpecMinDtRatioDefault : α := {pr.text(pr.tr(dterm['min_dt_ratio']))}",
           f"/-- `self._cached_xi` as set by `AccSignal.__init__` -/\ndef genSpecCachedXiInit : α := {pr.lit(cached_xi)}"]
    defs = dfl + ["\n".join(mnz), "\n".join(tgt), "\n".join(inp), "\n".join(xis), "\n".join(whole)]
    var = "variable {α : Type} [LT α] [DecidableLT α] [LE α] [DecidableLE α] [Neg α] [Add α] [Sub α] [Mul α] [Div α] [DecidableEq α]\n  " + classes(pr, (0,))
    ab = ["/-- the type of `pseudo_response_spectra(motion, dt, periods, xi)` as a parameter: `(sds, svs, sas)` or the exception raised -/",
          f"abbrev Pseudo (α : Type) := {PSEUDO_T}", ""]
    return {"SpecObject.lean": file_text(ns, "SpecObject", "eqsig/single.py (AccSignal.gen_response_spectrum, generate_response_spectrum, __init__)", var, ab, defs)}


# ----------------------------------------------------------------------------------------------
# target 4: single_elastic_response (Duhamel loop), slow_response_spectra
# ----------------------------------------------------------------------------------------------

SER = 'single_elastic_response'


def range_len(sy, it, what):
    """`range(<n>)` -> the term of n"""
    if not (isinstance(it, ast.Call) and isinstance(it.func, ast.Name) and it.func.id == 'range' and len(it.args) == 1 and not it.keywords):
        sy.fail(it, 'loop range ' + what)
    return sy.ev(it.args[0])


def ser_fn(src, mod):
    fn = find_all(mod, SER)[-1]
    names, defaults = signature(fn, SER)
    if names != ['motion', 'step', 'period', 'xi'] or defaults:
        raise Untranslatable(SER, fn.lineno, f"parameters {names}")
    sy = S2(SER, src, names)
    sts = body_of(fn)
    loops = [k for k, st in enumerate(sts) if isinstance(st, ast.For)]
    if len(loops) != 1 or loops[0] != len(sts) - 2 or not isinstance(sts[-1], ast.Return):
        raise Untranslatable(SER, fn.lineno, "expected: assignments, one for loop, return")
    for st in sts[:loops[0]]:
        if not isinstance(st, ast.Assign):
            sy.fail(st, 'statement ' + type(st).__name__)
        sy.assign(st)
    loop = sts[loops[0]]
    if loop.orelse or not isinstance(loop.target, ast.Name):
        sy.fail(loop, 'loop shape')
    n = range_len(sy, loop.iter, '')
    if ident(n, SER, '') != ('call', 'len', (('param', 'motion'),), ()):
        sy.fail(loop, 'loop bound is not len(motion)')
    iv = loop.target.id
    sy.env[iv] = ('loopvar', iv)
    aug = None
    for st in loop.body:
        if aug is not None:
            sy.fail(st, 'statement after the accumulation')
        if isinstance(st, ast.Assign):
            sy.assign(st)
        elif isinstance(st, ast.AugAssign) and isinstance(st.op, ast.Add) and isinstance(st.target, ast.Subscript):
            base = sy.ev(st.target.value)
            idx = sy.index(st.target.slice)
            if base[0] != 'alloc' or idx != (('sl', ('loopvar', iv), None),):
                sy.fail(st, 'accumulation target is not `<zeros array>[i:]`')
            aug = (base, sy.ev(st.value), st.lineno)
        else:
            sy.fail(st, 'statement in the loop')
    if aug is None:
        sy.fail(loop, 'no `disp[i:] += …` in the loop')
    base, val, aline = aug
    kind, shape, _ = sy.allocs[base[1]]
    if kind != 'zeros' or ident(shape, SER, '') != ('call', 'len', (('param', 'motion'),), ()) or sy.writes:
        raise Untranslatable(SER, aline, "the accumulator is not np.zeros(len(motion)) written only by the loop")
    if sy.ev(sts[-1].value) != base:
        sy.fail(sts[-1], 'the accumulator is not what is returned')
    leaves = {('param', 'motion'): ('arr', 'motion'), ('param', 'step'): ('scal', 'step'), ('param', 'period'): ('scal', 'period'),
              ('param', 'xi'): ('scal', 'xi'), ('loopvar', iv): ('nat', 'i'), ('inrange', ('loopvar', iv)): 'motion'}
    pr = Pr(SER, leaves, None)
    k, p = pr.tr(val)
    if k != 'arr':
        raise Untranslatable(SER, aline, "the added value is not a 1-D array")
    # len(d_new) = len(disp) - i: the only 1-D source must be time[:-i-1] with len(time) = len(motion) + 1
    srcs = p[0]
    want = re.compile(r"^\((.*)\.take \(\1\.length - \(i \+ 1\)\)\)$")
    mo = want.match(srcs[0]) if len(srcs) == 1 else None
    if not mo or "List.range (motion.length + 1)" not in mo.group(1):
        raise Untranslatable(SER, aline, "cannot show len(d_new) == len(disp) - i")
    fpar = "".join(f"({f} : α → α) " for f in ('sqrt', 'exp', 'sin') if f in pr.uses)
    fargs = "".join(f"{f} " for f in ('sqrt', 'exp', 'sin') if f in pr.uses)
    pi = "(pi : α) " if 'pi' in pr.uses else ""
    piarg = "pi " if 'pi' in pr.uses else ""
    d = ["\n".join([f"/-- the value added by pass `i` of the loop of `{SER}`: `d_new` (entry `k` belongs to sample `i + k`) -/",
                    f"def serDNew {pi}{fpar}(motion : List α) (step period xi : α) (i : Nat) : List α :=", f"  {strip_outer(pr.text((k, p)))}"]),
         "\n".join([f"/-- one pass of the loop of `{SER}`: `disp[i:] += d_new` -/",
                    f"def serStep {pi}{fpar}(motion : List α) (step period xi : α) (disp : List α) (i : Nat) : List α :=",
                    f"  NpT.addFrom i disp (serDNew {piarg}{fargs}motion step period xi i)"]),
         "\n".join([f"/-- `{SER}(motion, step, period, xi)`: `disp = np.zeros(len(motion))`, then `for i in range(len(motion))` the pass above;\n"
                    f"`pi`, `sqrt`, `exp`, `sin` are `np.pi`, `np.sqrt`, `np.exp`, `np.sin`; domain: `period ≠ 0` (a Python-float zero period raises) -/",
                    f"def singleElasticResponse {pi}{fpar}(motion : List α) (step period xi : α) : List α :=",
                    f"  (List.range motion.length).foldl (serStep {piarg}{fargs}motion step period xi) (List.replicate motion.length 0)"])]
    pr.ints.add(0)
    return d, pr


def slow_fn(src, mod):
    pyname = 'slow_response_spectra'
    fn = find_all(mod, pyname)[-1]
    names, defaults = signature(fn, pyname)
    if names != ['motion', 'step', 'periods', 'xis'] or defaults:
        raise Untranslatable(pyname, fn.lineno, f"parameters {names}")
    callee = callee_sig(mod, SER, ['motion', 'step', 'period', 'xi'], pyname)
    sy = S2(pyname, src, names)
    sts = body_of(fn)
    loops = [k for k, st in enumerate(sts) if isinstance(st, ast.For)]
    if len(loops) != 1 or not isinstance(sts[-1], ast.Return):
        raise Untranslatable(pyname, fn.lineno, "expected: assignments, one for loop, assignments, return")
    for st in sts[:loops[0]]:
        if not isinstance(st, ast.Assign):
            sy.fail(st, 'statement ' + type(st).__name__)
        sy.assign(st)
    loop = sts[loops[0]]
    if loop.orelse or not isinstance(loop.target, ast.Name) or len(loop.body) != 1 or not isinstance(loop.body[0], ast.Assign):
        sy.fail(loop, 'loop shape')
    n = range_len(sy, loop.iter, '')
    if ident(n, pyname, '') != ('call', 'len', (('param', 'periods'),), ()):
        sy.fail(loop, 'loop bound is not len(periods)')
    iv = loop.target.id
    sy.env[iv] = ('loopvar', iv)
    st = loop.body[0]
    tg = st.targets[0]
    if not isinstance(tg, ast.Subscript):
        sy.fail(st, 'loop body is not `s_d[i] = …`')
    base = sy.ev(tg.value)
    if base[0] != 'alloc' or sy.index(tg.slice) != (('i', ('loopvar', iv)),):
        sy.fail(st, 'loop body is not `<zeros array>[i] = …`')
    kind, shape, _ = sy.allocs[base[1]]
    if kind != 'zeros' or ident(shape, pyname, '') != ('call', 'len', (('param', 'periods'),), ()):
        sy.fail(st, 'the written array is not np.zeros(len(periods))')
    v = sy.ev(st.value)
    # max(abs(single_elastic_response(motion, step, periods[i], xi)))
    if not (v[0] == 'call' and v[1] == 'max' and len(v[2]) == 1 and not v[3] and v[2][0][0] == 'call' and v[2][0][1] == 'abs'
            and len(v[2][0][2]) == 1 and v[2][0][2][0][0] == 'call' and v[2][0][2][0][1] == SER):
        sy.fail(st, f'loop body is not max(abs({SER}(…)))')
    cargs = bind_call(v[2][0][2][0], callee, pyname, st.lineno)
    XI = ('sub', ('param', 'xis'), (('i', ('lit', '0')),))
    if cargs != (('param', 'motion'), ('param', 'step'), ('sub', ('param', 'periods'), (('i', ('loopvar', iv)),)), XI):
        sy.fail(st, f'arguments of {SER}')
    for st2 in sts[loops[0] + 1:-1]:
        if not isinstance(st2, ast.Assign):
            sy.fail(st2, 'statement ' + type(st2).__name__)
        sy.assign(st2)
    if any(w[0] == base[1] for w in sy.writes):
        sy.fail(loop, 'the spectrum array is written outside the loop')
    rt = sy.ev(sts[-1].value)
    if rt[0] != 'list' or len(rt[1]) != 3:
        sy.fail(sts[-1], 'return is not a triple')
    # `xis[0]` must be evaluated before the loop
    pre = [sy_ for sy_ in sts[:loops[0]] if isinstance(sy_, ast.Assign) and sy.ev(sy_.value) == XI]
    if not pre:
        sy.fail(loop, '`xis[0]` is not read before the loop')
    pr = Pr(pyname, {('param', 'periods'): ('arr', 'periods'), base: ('arr', 's_d')}, None)
    comps = []
    for x in rt[1]:
        k, p = pr.tr(x)
        if k != 'arr':
            sy.fail(sts[-1], 'returned value is not a 1-D array')
        comps.append(strip_outer(pr.text((k, p))))
    pi = "(pi : α) " if 'pi' in pr.uses else ""
    d = ["\n".join([f"/-- one pass of the loop of `{pyname}`: `max(abs({SER}(motion, step, T, xi)))` for `T = periods[i]` -/",
                    "def slowSd (ser : List α → α → α → α → List α) (motion : List α) (step xi T : α) : Except ErrKind α :=",
                    "  match Np.maxL? (Np.absL (ser motion step T xi)) with", "  | none => .error .ValueError", "  | some m => .ok m"]),
         "\n".join([f"/-- `{pyname}(motion, step, periods, xis)`: `xis[0]` (`IndexError`), then period by period\n"
                    f"`s_d[i] = max(abs({SER}(motion, step, periods[i], xi)))` (`ValueError` of Python `max` for an empty record), then the\n"
                    f"pseudo relations on whole arrays; `ser` is `{SER}` (arguments in the order of its signature); domain: array-like `periods` -/",
                    f"def slowResponseSpectra (ser : List α → α → α → α → List α) {pi}(motion : List α) (step : α) (periods xis : List α) :",
                    "    Except ErrKind (List α × List α × List α) :=",
                    "  match NpT.pyAt xis 0 with", "  | .error e => .error e", "  | .ok xi =>",
                    "  match periods.mapM (slowSd ser motion step xi) with",
                    "  | .error e => .error e", "  | .ok s_d =>",
                    "  .ok (" + ",\n       ".join(comps) + ")"])]
    return d, pr


def gen_spec_slow(repo, ns):
    src = open(os.path.join(repo, 'eqsig', 'sdof.py')).read()
    mod = ast.parse(src)
    d1, p1 = ser_fn(src, mod)
    d2, p2 = slow_fn(src, mod)
    p1.ints |= p2.ints
    p1.sci = p1.sci or p2.sci
    var = "variable {α : Type} [LT α] [DecidableLT α] [Neg α] [Add α] [Sub α] [Mul α] [Div α] [NatCast α]\n  " + classes(p1, (0,))
    return {"SpecSlow.lean": file_text(ns, "SpecSlow", "eqsig/sdof.py (single_elastic_response, slow_response_spectra)", var, [], d1 + d2)}


TARGETS = [gen_spec_energy, gen_spec_object, gen_spec_im, gen_spec_slow]
