#!/bin/bash
# (maintenance) tools/try_seed.sh <PROP> <dir with patchK.diff demoK.py metaK.json> <K> [extra props to run…]
# 1. confirms in a scratch worktree that the change passes the suite, that the demo fails with it and passes without it;
# 2. applies it to /repo, runs ./check for the property (and extra ones), reverts /repo.
PROP=$1; DIR=$2; K=$3; shift 3
W=/tmp/seedcheck_$$
git -C /repo worktree add -q $W HEAD || exit 2
cd $W
ok=1
if ! git apply $DIR/patch$K.diff; then echo "SEED $PROP/$K: patch does not apply"; git -C /repo worktree remove --force $W; exit 2; fi
T=$(PYTHONPATH=$W /venv/bin/python -m pytest -q -p no:cacheprovider 2>&1 | tail -1)
echo "  suite with patch: $T"
case "$T" in *"63 passed"*) ;; *) ok=0;; esac
PYTHONPATH=$W /venv/bin/python $DIR/demo$K.py >/dev/null 2>&1; D1=$?
git checkout -q -- . ; git clean -qfd
PYTHONPATH=$W /venv/bin/python $DIR/demo$K.py >/dev/null 2>&1; D0=$?
echo "  demo exit with patch: $D1   without: $D0"
[ $D1 -ne 0 ] && [ $D0 -eq 0 ] || ok=0
cd /; git -C /repo worktree remove --force $W
if [ $ok -ne 1 ]; then echo "SEED $PROP/$K: NOT CONFIRMED"; exit 3; fi
cd /repo && git apply $DIR/patch$K.diff || { echo "cannot apply to /repo"; exit 2; }
cd /verif
for P in $PROP "$@"; do
  OUT=$(./check $P 2>&1 | grep -v "^KNOWN-FINDING" | tail -2)
  echo "  check $P: $(echo "$OUT" | tr '\n' ' ' | cut -c1-400)"
done
git -C /repo checkout -q -- . ; git -C /repo clean -qfd eqsig
git -C /repo status --short | head -3
