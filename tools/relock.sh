#!/bin/bash
# (maintenance) re-pin the statement hashes of the property theorems after Props files changed
cd "$(dirname "$0")/.."
/venv/bin/python harness/build.py lock "$@" 2>&1 | grep -v condarc
