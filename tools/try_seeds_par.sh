#!/bin/bash
# (maintenance) tools/try_seeds_par.sh <round dir> [workers=4] [only: "C01-1 C07-2 …"]      -- never touches /repo or /verif/lean
# <round dir>/<Cxx>/out/{patchK.diff,demoK.py,metaK.json}: for every such triple
#   1. confirm in a scratch copy: suite passes with the patch, demo fails with it and passes on /repo as it is;
#   2. run ./check Cxx (quick tier) from a private copy of /verif against the patched scratch copy (EQSIG_REPO).
# results: <round dir>/results/<Cxx>-<K>.txt  (first word: CAUGHT | NOFAIL | MISSED | ERROR | NOTCONFIRMED | PATCHFAILED)
R=$1; W=${2:-4}; ONLY=$3
mkdir -p $R/${RES:-results}
ls $R/*/out/patch*.diff 2>/dev/null | sed -E "s#$R/(C[0-9]+)/out/patch([0-9]+)\.diff#\1-\2#" | sort > $R/all.txt
if [ -n "$ONLY" ]; then echo $ONLY | tr ' ' '\n' > $R/todo.txt; else
  : > $R/todo.txt; for id in $(cat $R/all.txt); do [ -s $R/${RES:-results}/$id.txt ] || echo $id >> $R/todo.txt; done; fi
n=$(wc -l < $R/todo.txt); [ $n -eq 0 ] && { echo "nothing to do"; exit 0; }
[ $n -lt $W ] && W=$n
for w in $(seq 1 $W); do
  (
    V=/tmp/tsp_$$_$w; rm -rf $V; mkdir -p $V
    rsync -a --exclude .git --exclude incoming --exclude seeded --exclude replays --exclude design-evidence ${V_SRC:-/verif}/ $V/verif/
    awk -v w=$w -v W=$W 'NR % W == w % W' $R/todo.txt | while read id; do
      prop=${id%%-*}; K=${id##*-}; DIR=$R/$prop/out
      S=$V/lib; rm -rf $S; mkdir -p $S; cp -r /repo/eqsig /repo/tests $S/; cp /repo/setup.py /repo/setup.cfg $S/ 2>/dev/null
      if ! (cd $S && patch -p1 -s < $DIR/patch$K.diff); then echo "PATCHFAILED" > $R/${RES:-results}/$id.txt; continue; fi
      T=$(cd $S && PYTHONPATH=$S /venv/bin/python -m pytest -q -p no:cacheprovider 2>&1 | tail -1)
      (cd $S && PYTHONPATH=$S timeout 600 /venv/bin/python $DIR/demo$K.py >/dev/null 2>&1); D1=$?
      (cd /repo && PYTHONPATH=/repo timeout 600 /venv/bin/python $DIR/demo$K.py >/dev/null 2>&1); D0=$?
      conf="suite=[$T] demo_with=$D1 demo_without=$D0"
      case "$T" in *"63 passed"*) ok=1;; *) ok=0;; esac
      [ $D1 -ne 0 ] && [ $D0 -eq 0 ] || ok=0
      if [ $ok -ne 1 ]; then echo "NOTCONFIRMED $conf" > $R/${RES:-results}/$id.txt; continue; fi
      OUT=$(cd $V/verif && EQSIG_REPO=$S VERIF_SEED=${VERIF_SEED:-0} ./check $prop 2>&1 | grep -v "^KNOWN-FINDING")
      if echo "$OUT" | grep -q "no-failing-input-found"; then r=NOFAIL; elif echo "$OUT" | grep -q "^VIOLATION"; then r=CAUGHT; elif echo "$OUT" | grep -q -- "-> ok"; then r=MISSED; else r=ERROR; fi
      { echo "$r $conf"; echo "$OUT" | tail -3 | cut -c1-600; rp=$(echo "$OUT" | grep -o 'replay=[^ ]*' | head -1 | cut -d= -f2); [ -n "$rp" ] && [ -f "$rp" ] && head -c 1500 "$rp"; } > $R/${RES:-results}/$id.txt
    done
    rm -rf $V
  ) &
done
wait
for id in $(cat $R/todo.txt); do echo "$id $(head -1 $R/${RES:-results}/$id.txt | cut -c1-150)"; done
