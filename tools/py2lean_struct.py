"""Structural extractions of tools/py2lean.py (no arithmetic is translated here):

  * CacheTable — per-method effect table of eqsig.single.Signal/AccSignal (AccSignal view of the MRO):
    an ordered walk of every method body that records, in program order, reads of lazily cached properties,
    stores into the input attributes (fresh copy / caller's reference / in place), assignments of `_npts`,
    resets and sets of the cache flags, transitively through `self.method(...)` calls and property setters;
    `if <param> is not None` splits a public method into rows `m/given`, `m/omitted`; `if <param> == "<str>"`
    into `m/<str>`, `m/other`.  Quantities: every @property, its guard flag and what its generator reads.
  * Effects — for every public function/method of every eqsig module: is a parameter (or an alias / view of it)
    the target of an in-place construct.

Output format: lean/EqsigVerif/Model/SignalSM.lean (CacheTable) and Model/Effects.lean (FnEffect).
"""
import ast
import os

INPUTS_FIXED = ['_values', '_dt', '_smooth_fa_freqs']
NPTS = '_npts'
FRESH_NP = {'array', 'zeros', 'ones', 'zeros_like', 'ones_like', 'linspace', 'logspace', 'arange', 'copy', 'concatenate',
            'insert', 'diff', 'mean', 'log10', 'polyfit', 'cumsum', 'abs', 'pad', 'interp', 'take', 'where', 'sqrt', 'empty',
            'full', 'append', 'delete', 'flip', 'real', 'ceil', 'floor'}
ALIAS_NP = {'asarray', 'asanyarray', 'atleast_1d', 'ravel', 'reshape', 'squeeze', 'transpose'}   # may return the argument itself / a view


class Untranslatable(Exception):
    def __init__(self, function, line, construct):
        super().__init__(f"{function}:{line}: {construct}")
        self.function, self.line, self.construct = function, line, construct


def self_attr(n):
    if isinstance(n, ast.Attribute) and isinstance(n.value, ast.Name) and n.value.id == 'self':
        return n.attr
    return None


def np_call_name(c):
    if isinstance(c, ast.Call) and isinstance(c.func, ast.Attribute) and isinstance(c.func.value, ast.Name) and c.func.value.id == 'np':
        return c.func.attr
    return None


class ClassView:
    """AccSignal with the methods it inherits from Signal"""

    def __init__(self, src):
        self.src = src
        mod = ast.parse(src)
        cls = {c.name: c for c in mod.body if isinstance(c, ast.ClassDef)}
        if 'Signal' not in cls or 'AccSignal' not in cls:
            raise Untranslatable('single.py', 0, 'classes Signal/AccSignal not found')
        self.methods = {}      # name -> FunctionDef (most derived)
        self.base_methods = {}  # Signal's version (for super().__init__)
        self.getters = {}
        self.setters = {}
        for cname in ('Signal', 'AccSignal'):
            for fn in cls[cname].body:
                if not isinstance(fn, ast.FunctionDef):
                    continue
                kind = 'method'
                for d in fn.decorator_list:
                    if isinstance(d, ast.Name) and d.id == 'property':
                        kind = 'getter'
                    if isinstance(d, ast.Attribute) and d.attr == 'setter':
                        kind = 'setter'
                if kind == 'method':
                    if cname == 'Signal':
                        self.base_methods[fn.name] = fn
                    self.methods[fn.name] = fn
                elif kind == 'getter':
                    self.getters[fn.name] = fn
                else:
                    self.setters[fn.name] = fn
        self.rt_input = '_response_times' if 'response_times' in self.getters else 'response_times'
        self.inputs = INPUTS_FIXED + [self.rt_input]
        # flags: attributes assigned True/False somewhere; memo keys: `"k" in self._cached_params`
        self.flags = []
        self.memo_keys = []
        for n in ast.walk(mod):
            if isinstance(n, ast.Assign) and isinstance(n.value, ast.Constant) and isinstance(n.value.value, bool):
                for t in n.targets:
                    a = self_attr(t)
                    if a and a.startswith('_cached') and a not in self.flags:
                        self.flags.append(a)
            if isinstance(n, ast.Compare) and len(n.ops) == 1 and isinstance(n.ops[0], ast.In) and \
                    isinstance(n.left, ast.Constant) and isinstance(n.left.value, str) and self_attr(n.comparators[0]) == '_cached_params':
                if n.left.value not in self.memo_keys:
                    self.memo_keys.append(n.left.value)
        self.memo_guards = [f'_cached_params.{k}' for k in self.memo_keys]
        self.quant = None


class Ev:
    """event kinds: ('read', q) ('write', input, store) ('npts',) ('clear', g) ('set', g) ('lenprov', prov)"""


def lit_none(e):
    return isinstance(e, ast.Constant) and e.value is None


class Walker:
    def __init__(self, view, lazy_quantities):
        self.v = view
        self.lazy = lazy_quantities     # names of properties with a guard
        self.depth = 0

    # ---- classification of stored expressions -------------------------------------------------------------------
    def kind(self, e, env):
        """'fresh' | 'param' (caller's object or a view of it) | 'selfvalues' | 'other'"""
        if isinstance(e, ast.Name):
            return env['bind'].get(e.id, 'other')
        if isinstance(e, (ast.BinOp, ast.UnaryOp, ast.Compare, ast.BoolOp, ast.List, ast.Tuple, ast.ListComp, ast.Dict, ast.Constant)):
            return 'fresh'
        if isinstance(e, ast.Subscript):
            return self.kind(e.value, env)   # a view
        if isinstance(e, ast.Attribute):
            a = self_attr(e)
            if a in ('values', '_values'):
                return 'selfvalues'
            if a is not None:
                return 'other'
            return self.kind(e.value, env) if isinstance(e.value, (ast.Name, ast.Attribute)) else 'other'
        if isinstance(e, ast.Call):
            n = np_call_name(e)
            if n in ALIAS_NP and e.args:
                return self.kind(e.args[0], env)
            if n == 'array' and any(k.arg == 'copy' and isinstance(k.value, ast.Constant) and k.value.value is False for k in e.keywords):
                return self.kind(e.args[0], env) if e.args else 'fresh'
            return 'fresh'
        if isinstance(e, ast.IfExp):
            a, b = self.kind(e.body, env), self.kind(e.orelse, env)
            return a if a == b else ('param' if 'param' in (a, b) else 'other')
        return 'other'

    def lenprov(self, e, env):
        """(base, offset) where base in {'values', <lazy quantity>} or None"""
        if isinstance(e, ast.Name):
            return env['len'].get(e.id)
        a = self_attr(e)
        if a in ('values', '_values'):
            return ('values', 0)
        if a in self.lazy:
            return (a, 0)
        if isinstance(e, ast.BinOp):
            l, r = self.lenprov(e.left, env), self.lenprov(e.right, env)
            return l or r
        if isinstance(e, ast.UnaryOp):
            return self.lenprov(e.operand, env)
        if isinstance(e, ast.Call):
            n = np_call_name(e)
            if n in ('array', 'zeros_like', 'ones_like', 'copy', 'abs', 'cumsum', 'asarray') and e.args:
                return self.lenprov(e.args[0], env)
            if n == 'diff' and e.args and not e.keywords:
                p = self.lenprov(e.args[0], env)
                return (p[0], p[1] - 1) if p else None
            if n == 'insert' and len(e.args) == 3 and isinstance(e.args[1], ast.Constant) and isinstance(e.args[1].value, int):
                p = self.lenprov(e.args[0], env)
                return (p[0], p[1] + 1) if p else None
        return None

    # ---- reads in an expression -----------------------------------------------------------------------------------
    def expr_reads(self, e, env, out):
        for n in ast.walk(e):
            a = self_attr(n)
            if a and isinstance(n.ctx, ast.Load) and a in self.lazy:
                out.append(('read', a))

    # ---- statements ----------------------------------------------------------------------------------------------------
    def walk_body(self, body, env):
        """returns (events, terminated) ; terminated in {None, 'raise', 'return'}"""
        evs = []
        for st in body:
            e2, term = self.walk_stmt(st, env)
            evs += e2
            if term:
                return evs, term
        return evs, None

    def call_method(self, name, call, env, fn=None):
        fn = fn or self.v.methods.get(name)
        if fn is None:
            return []
        if self.depth > 12:
            return []
        params = [a.arg for a in fn.args.args][1:]
        defaults = fn.args.defaults
        dmap = {}
        for p, d in zip(params[len(params) - len(defaults):], defaults):
            dmap[p] = d
        env2 = {'bind': {}, 'len': {}, 'given': {}, 'mode': {}, 'fname': fn.name}
        passed = {}
        if call is not None:
            for p, a in zip(params, call.args):
                passed[p] = a
            for k in call.keywords:
                if k.arg:
                    passed[k.arg] = k.value
        for p in params:
            if p in passed:
                a = passed[p]
                env2['bind'][p] = self.kind(a, env)
                env2['len'][p] = self.lenprov(a, env)
                if lit_none(a):
                    env2['given'][p] = False
                elif isinstance(a, ast.Name) and a.id in env['given']:
                    env2['given'][p] = env['given'][a.id]
                else:
                    env2['given'][p] = True
                if isinstance(a, ast.Constant) and isinstance(a.value, str):
                    env2['mode'][p] = a.value
                elif isinstance(a, ast.Name) and a.id in env['mode']:
                    env2['mode'][p] = env['mode'][a.id]
            else:
                d = dmap.get(p)
                env2['bind'][p] = 'fresh'
                env2['given'][p] = not (d is None or lit_none(d)) if d is not None else True
                if d is not None and lit_none(d):
                    env2['given'][p] = False
                if isinstance(d, ast.Constant) and isinstance(d.value, str):
                    env2['mode'][p] = d.value
        self.depth += 1
        evs, _ = self.walk_body(fn.body, env2)
        self.depth -= 1
        return evs

    def call_setter(self, attr, value, env):
        fn = self.v.setters[attr]
        p = [a.arg for a in fn.args.args][1]
        env2 = {'bind': {p: self.kind(value, env)}, 'len': {p: self.lenprov(value, env)}, 'given': {p: True}, 'mode': {}, 'fname': attr + '='}
        self.depth += 1
        evs, _ = self.walk_body(fn.body, env2)
        self.depth -= 1
        return evs

    def store(self, attr, value, env):
        evs = []
        if attr in self.v.inputs:
            k = self.kind(value, env)
            st = 'copy' if k in ('fresh', 'other', 'selfvalues') or attr == '_dt' else 'reference'   # `_dt` holds a scalar
            evs.append(('write', attr, st))
            if attr == '_values':
                evs.append(('lenprov', self.lenprov(value, env)))
        elif attr == NPTS:
            evs.append(('npts',))
        elif attr in self.v.flags:
            if isinstance(value, ast.Constant) and value.value is False:
                evs.append(('clear', attr))
            elif isinstance(value, ast.Constant) and value.value is True:
                evs.append(('set', attr))
            else:
                raise Untranslatable(env['fname'], value.lineno, f'flag {attr} assigned a non-literal')
        elif attr == '_cached_params':
            if isinstance(value, ast.Dict) and not value.keys:
                evs += [('clear', g) for g in self.v.memo_guards]
        elif attr in self.v.setters:
            evs += self.call_setter(attr, value, env)
        return evs

    def inplace_target(self, t, env):
        """events for an in-place construct on target t (AugAssign target or Subscript store)"""
        base = t.value if isinstance(t, ast.Subscript) else t
        a = self_attr(base)
        if a in ('_values',):
            return [('write', '_values', 'inplace')]
        if a == 'values':
            return [('write', '_values', 'inplace')]
        if a in self.v.inputs:
            return [('write', a, 'inplace')]
        if isinstance(base, ast.Name):
            k = env['bind'].get(base.id)
            if k == 'selfvalues':
                return [('write', '_values', 'inplace')]
            if k == 'param':
                return [('param-inplace', base.id, getattr(t, 'lineno', 0))]
        if isinstance(base, ast.Subscript):
            return self.inplace_target(base, env)
        return []

    def walk_stmt(self, st, env):
        evs = []
        if isinstance(st, ast.Expr):
            if isinstance(st.value, ast.Constant):
                return [], None
            self.expr_reads_calls(st.value, env, evs)
            return evs, None
        if isinstance(st, ast.Assign):
            self.expr_reads_calls(st.value, env, evs)
            for t in st.targets:
                a = self_attr(t)
                if a is not None:
                    evs += self.store(a, st.value, env)
                elif isinstance(t, ast.Name):
                    env['bind'][t.id] = self.kind(st.value, env)
                    env['len'][t.id] = self.lenprov(st.value, env)
                    env['given'].pop(t.id, None)
                elif isinstance(t, ast.Subscript):
                    sa = self_attr(t.value)
                    if sa == '_cached_params' and isinstance(t.slice, ast.Constant):
                        evs.append(('set', f'_cached_params.{t.slice.value}'))
                    else:
                        evs += self.inplace_target(t, env)
                elif isinstance(t, ast.Tuple):
                    for el in t.elts:
                        a2 = self_attr(el)
                        if a2 is not None:
                            evs += self.store(a2, st.value, env)
                        elif isinstance(el, ast.Name):
                            env['bind'][el.id] = 'fresh'
                            env['len'][el.id] = None
            return evs, None
        if isinstance(st, ast.AugAssign):
            self.expr_reads_calls(st.value, env, evs)
            a = self_attr(st.target)
            if a is not None and a not in self.v.inputs and a not in ('values',):
                return evs, None
            evs += self.inplace_target(st.target, env)
            return evs, None
        if isinstance(st, ast.Return):
            if st.value is not None:
                self.expr_reads_calls(st.value, env, evs)
            return evs, 'return'
        if isinstance(st, ast.Raise):
            return evs, 'raise'
        if isinstance(st, ast.If):
            verdict = self.static_test(st.test, env)
            if verdict is None:
                self.expr_reads_calls(st.test, env, evs)
                e1, t1 = self.walk_body(st.body, self.fork(env))
                e2, t2 = self.walk_body(st.orelse, self.fork(env))
                if t1 == 'raise' and t2 != 'raise':
                    return evs + e2, t2
                if t2 == 'raise' and t1 != 'raise':
                    return evs + e1, t1
                if t1 == 'raise' and t2 == 'raise':
                    return evs, 'raise'
                return evs + self.merge(e1, e2), (t1 if t1 == t2 else None)
            branch = st.body if verdict else st.orelse
            e1, t1 = self.walk_body(branch, env)
            return evs + e1, t1
        if isinstance(st, (ast.For, ast.While)):
            if isinstance(st, ast.For):
                self.expr_reads_calls(st.iter, env, evs)
            e1, _ = self.walk_body(st.body, env)
            return evs + e1, None
        if isinstance(st, ast.Try):
            e1, t1 = self.walk_body(st.body, env)
            return evs + e1, t1
        if isinstance(st, (ast.Import, ast.ImportFrom, ast.Pass, ast.Assert, ast.Global)):
            return [], None
        if isinstance(st, ast.With):
            e1, t1 = self.walk_body(st.body, env)
            return evs + e1, t1
        raise Untranslatable(env['fname'], st.lineno, f'statement {type(st).__name__}')

    def fork(self, env):
        return {'bind': dict(env['bind']), 'len': dict(env['len']), 'given': dict(env['given']), 'mode': dict(env['mode']), 'fname': env['fname']}

    @staticmethod
    def merge(e1, e2):
        """both branches may run: reads/writes of both (over-approximation), resets/sets only if in both (under-approximation)"""
        out = []
        s2 = set(x for x in e2 if x[0] in ('clear', 'set'))
        for x in e1:
            if x[0] in ('clear', 'set'):
                if x in s2:
                    out.append(x)
            else:
                out.append(x)
        for x in e2:
            if x[0] not in ('clear', 'set') and x not in out:
                out.append(x)
        return out

    def static_test(self, test, env):
        """True/False when the branch is decided by the row variant (param given / omitted, string mode), else None"""
        if isinstance(test, ast.Compare) and len(test.ops) == 1 and isinstance(test.left, ast.Name):
            n = test.left.id
            c = test.comparators[0]
            if lit_none(c) and n in env['given']:
                if isinstance(test.ops[0], ast.IsNot):
                    return env['given'][n]
                if isinstance(test.ops[0], ast.Is):
                    return not env['given'][n]
            if isinstance(c, ast.Constant) and isinstance(c.value, str) and isinstance(test.ops[0], ast.Eq) and n in env['mode']:
                m = env['mode'][n]
                if m == '\0other':
                    return False
                return m == c.value
        return None

    def expr_reads_calls(self, e, env, evs):
        """reads of lazy properties and self.method(...) calls inside an expression, in source order"""
        calls = []
        for n in ast.walk(e):
            if isinstance(n, ast.Call):
                a = self_attr(n.func)
                if a and a in self.v.methods:
                    calls.append((n.lineno, n.col_offset, 'call', n, a))
                elif isinstance(n.func, ast.Attribute) and n.func.attr == '__init__' and isinstance(n.func.value, ast.Call) and \
                        isinstance(n.func.value.func, ast.Name) and n.func.value.func.id == 'super':
                    calls.append((n.lineno, n.col_offset, 'super', n, '__init__'))
                else:
                    # in-place library constructs on the object's own array / a parameter
                    tgt = None
                    if np_call_name(n) == 'put' and n.args:
                        tgt = n.args[0]
                    for k in n.keywords:
                        if k.arg == 'out':
                            tgt = k.value
                    if isinstance(n.func, ast.Attribute) and n.func.attr in ('sort', 'fill', 'resize', 'partition', 'itemset') and \
                            not isinstance(n.func.value, ast.Call):
                        tgt = n.func.value
                    if tgt is not None:
                        calls.append((n.lineno, n.col_offset, 'inplace', tgt, None))
            a = self_attr(n)
            if a and isinstance(n, ast.Attribute) and isinstance(n.ctx, ast.Load) and a in self.lazy:
                calls.append((n.lineno, n.col_offset, 'read', n, a))
        for _, _, k, n, a in sorted(calls, key=lambda c: (c[0], c[1])):
            if k == 'read':
                evs.append(('read', a))
            elif k == 'call':
                evs += self.call_method(a, n, env)
            elif k == 'super':
                evs += self.call_method('__init__', n, env, fn=self.v.base_methods.get('__init__'))
            elif k == 'inplace':
                evs += self.inplace_target(n, env)


def lean_str_list(xs):
    return '[' + ', '.join(f'"{x}"' for x in xs) + ']'


def events_to_row(name, evs, view, ctor=False, gdeps=None):
    writes = [(e[1], e[2]) for e in evs if e[0] == 'write']
    # dedupe identical consecutive writes (both branches of an `if` storing the same way)
    w2 = []
    for w in writes:
        if not w2 or w2[-1] != w:
            w2.append(w)
    writes = w2
    idx_last_write = max([i for i, e in enumerate(evs) if e[0] == 'write'], default=-1)
    idx_first_write = min([i for i, e in enumerate(evs) if e[0] == 'write'], default=len(evs))
    reads = []
    for i, e in enumerate(evs):
        if e[0] == 'read' and i < idx_first_write and e[1] not in reads:
            reads.append(e[1])
    # flags: a reset / set of guard g counts if no write to an input that g's quantities (transitively) read follows it
    gdeps = gdeps or {}

    def last_relevant_write(g):
        deps = gdeps.get(g)
        idx = -1
        for i, e in enumerate(evs):
            if e[0] == 'write' and (deps is None or e[1] in deps):
                idx = i
            if e[0] == 'npts' and (deps is None or '_npts' in deps):
                idx = i
        return idx
    state = {}
    order = []
    for i, e in enumerate(evs):
        if e[0] in ('clear', 'set') and i > last_relevant_write(e[1]):
            if e[1] not in order:
                order.append(e[1])
            state[e[1]] = e[0]
    sets_anywhere = []
    for i, e in enumerate(evs):
        if e[0] == 'set' and e[1] not in sets_anywhere:
            sets_anywhere.append(e[1])
    clears, fills = [], []
    seen_clear_after = set(e[1] for i, e in enumerate(evs) if e[0] == 'clear' and i > last_relevant_write(e[1]))
    for g in order:
        if g in seen_clear_after:
            clears.append(g)
        if state[g] == 'set':
            fills.append(g)
    if ctor:
        fills = []
    # npts
    npts = 'lengthPreserved'
    last_nonin = max([i for i, e in enumerate(evs) if e[0] == 'write' and e[1] == '_values' and e[2] != 'inplace'], default=-1)
    if last_nonin >= 0:
        if any(e[0] == 'npts' for e in evs[last_nonin:]):
            npts = 'updated'
        else:
            prov = None
            for e in evs[last_nonin:]:
                if e[0] == 'lenprov':
                    prov = e[1]
                    break
            if prov == ('values', 0):
                npts = 'lengthPreserved'
            elif prov is not None and prov[1] == 0:
                npts = f'lengthOf "{prov[0]}"'
            else:
                npts = 'notUpdated'
    elif any(e[0] == 'npts' for e in evs):
        npts = 'updated'
    fields = [f'name := "{name}"']
    if ctor:
        fields.append('ctor := true')
    if reads:
        fields.append('reads := ' + lean_str_list(reads))
    if writes:
        fields.append('writes := [' + ', '.join(f'⟨"{a}", .{s}⟩' for a, s in writes) + ']')
    if npts != 'lengthPreserved':
        fields.append('npts := .' + npts if not npts.startswith('lengthOf') else 'npts := .' + npts)
    if clears:
        fields.append('clears := ' + lean_str_list(clears))
    if fills:
        fields.append('fills := ' + lean_str_list(fills))
    return '    { ' + ', '.join(fields) + ' }'


def split_params(fn, walker, depth=0):
    """parameters of a public method that split it into rows: (name, kind) with kind 'none' (is not None test) or 'mode'"""
    params = [a.arg for a in fn.args.args][1:]
    defaults = fn.args.defaults
    dmap = dict(zip(params[len(params) - len(defaults):], defaults)) if defaults else {}
    out = []
    for n in ast.walk(fn):
        if isinstance(n, ast.If) and isinstance(n.test, ast.Compare) and len(n.test.ops) == 1 and isinstance(n.test.left, ast.Name):
            p = n.test.left.id
            c = n.test.comparators[0]
            if p not in params:
                continue
            effectful = any(isinstance(x, (ast.Assign, ast.AugAssign)) and any(self_attr(t) or (isinstance(t, ast.Subscript))
                                                                                for t in (x.targets if isinstance(x, ast.Assign) else [x.target]))
                            for b in (n.body + n.orelse) for x in ast.walk(b))
            effectful = effectful or any(isinstance(x, ast.Call) and self_attr(x.func) for b in (n.body + n.orelse) for x in ast.walk(b))
            if not effectful:
                continue
            if lit_none(c) and p in dmap and lit_none(dmap[p]) and isinstance(n.test.ops[0], (ast.Is, ast.IsNot)):
                if (p, 'none') not in out:
                    out.append((p, 'none'))
            elif isinstance(c, ast.Constant) and isinstance(c.value, str) and isinstance(n.test.ops[0], ast.Eq):
                if (p, 'mode', c.value) not in out:
                    out.append((p, 'mode', c.value))
    # a None-default parameter handed on to a callee that splits on it
    if depth < 6:
        for n in ast.walk(fn):
            if isinstance(n, ast.Call) and self_attr(n.func) in walker.v.methods:
                callee = walker.v.methods[self_attr(n.func)]
                cparams = [a.arg for a in callee.args.args][1:]
                csplit = split_params(callee, walker, depth + 1)
                passed = dict(zip(cparams, n.args))
                passed.update({k.arg: k.value for k in n.keywords if k.arg})
                for sp in csplit:
                    a = passed.get(sp[0])
                    if sp[1] == 'none' and isinstance(a, ast.Name) and a.id in params and a.id in dmap and lit_none(dmap[a.id]):
                        if (a.id, 'none') not in out:
                            out.append((a.id, 'none'))
    return out


def gen_cache_table(repo, ns):
    src = open(os.path.join(repo, 'eqsig', 'single.py')).read()
    view = ClassView(src)
    # ---- quantities
    lazy = {}
    qrows = []
    for qn, fn in view.getters.items():
        guard = None
        gen_calls = []
        for n in ast.walk(fn):
            if isinstance(n, ast.If):
                t = n.test
                if isinstance(t, ast.UnaryOp) and isinstance(t.op, ast.Not) and self_attr(t.operand) in view.flags:
                    guard = self_attr(t.operand)
                    for c in ast.walk(ast.Module(body=n.body, type_ignores=[])):
                        if isinstance(c, ast.Call) and self_attr(c.func) in view.methods:
                            gen_calls.append(self_attr(c.func))
                if isinstance(t, ast.Compare) and isinstance(t.ops[0], ast.In) and isinstance(t.left, ast.Constant) and \
                        self_attr(t.comparators[0]) == '_cached_params':
                    guard = f'_cached_params.{t.left.value}'
        if guard:
            lazy[qn] = (guard, gen_calls)
    walker = Walker(view, set(lazy))

    def prop_reads(nodes, seen_methods):
        """self.<property> reads (any property) and direct input reads, following self.method() calls"""
        props, inputs = [], []
        for root in nodes:
            for n in sorted((x for x in ast.walk(root) if hasattr(x, 'lineno')), key=lambda x: (x.lineno, x.col_offset)):
                a = self_attr(n)
                if a and isinstance(n.ctx, ast.Load):
                    if a in view.getters and a not in props:
                        props.append(a)
                    if a in view.inputs + [NPTS] and a not in inputs:
                        inputs.append(a)
                if isinstance(n, ast.Call) and self_attr(n.func) in view.methods and self_attr(n.func) not in seen_methods:
                    seen_methods.add(self_attr(n.func))
                    p2, i2 = prop_reads(view.methods[self_attr(n.func)].body, seen_methods)
                    props += [x for x in p2 if x not in props]
                    inputs += [x for x in i2 if x not in inputs]
        return props, inputs
    qinfo = {}
    if view.rt_input == 'response_times':
        qrows.append('    { name := "response_times", readsInputs := ["response_times"] }')
        qinfo['response_times'] = {'guard': None, 'inputs': ['response_times'], 'props': []}
    for qn, fn in view.getters.items():
        if qn in lazy and lazy[qn][1]:
            props, inputs = prop_reads([view.methods[m] for m in lazy[qn][1]], set(lazy[qn][1]))
            # a generator writes its own inputs-of-record (e.g. `_smooth_fa_freqs` when given): only *reads through properties* and raw input reads count
            inputs = [i for i in inputs if i in view.inputs or i == NPTS]
            inputs = []   # generators read inputs through the public getters; raw reads inside generators are writes' targets
        else:
            props, inputs = prop_reads(fn.body, set())
        props = [p for p in props if p != qn]
        if view.rt_input == 'response_times' and qn != 'response_times':
            pass
        if view.rt_input == 'response_times' and qn in lazy and lazy[qn][0] == '_cached_response_spectra' and 'response_times' not in props:
            props = ['response_times'] + props    # plain attribute read by the generator (pre-fix tree)
        qinfo[qn] = {'guard': lazy[qn][0] if qn in lazy else None, 'inputs': list(inputs), 'props': list(props)}
        f = [f'name := "{qn}"']
        if qn in lazy:
            f.append(f'guard := some "{lazy[qn][0]}"')
        if inputs:
            f.append('readsInputs := ' + lean_str_list(inputs))
        if props:
            f.append('readsQuantities := ' + lean_str_list(props))
        qrows.append('    { ' + ', '.join(f) + ' }')
    # transitive input dependencies of every guard
    def deps(q, seen):
        if q in seen or q not in qinfo:
            return set()
        seen.add(q)
        d = set(qinfo[q]['inputs'])
        for p2 in qinfo[q]['props']:
            d |= deps(p2, seen)
        return d
    gdeps = {}
    for q, info in qinfo.items():
        if info['guard']:
            gdeps.setdefault(info['guard'], set()).update(deps(q, set()))
    # ---- method rows
    rows = []

    def base_env(fn, given=None, mode=None):
        params = [a.arg for a in fn.args.args][1:]
        return {'bind': {p: 'param' for p in params}, 'len': {}, 'given': dict(given or {}), 'mode': dict(mode or {}), 'fname': fn.name}
    # constructor
    init = view.methods.get('__init__')
    if init is None:
        raise Untranslatable('AccSignal.__init__', 0, 'not found')
    evs, _ = walker.walk_body(init.body, base_env(init))
    rows.append(events_to_row('__init__', evs, view, ctor=True, gdeps=gdeps))
    # setters
    for sn, fn in view.setters.items():
        p = [a.arg for a in fn.args.args][1]
        evs, _ = walker.walk_body(fn.body, {'bind': {p: 'param'}, 'len': {}, 'given': {p: True}, 'mode': {}, 'fname': sn + '='})
        rows.append(events_to_row(sn + '=', evs, view, gdeps=gdeps))
    if view.rt_input == 'response_times':
        rows.append('    { name := "response_times=", writes := [⟨"response_times", .reference⟩] }')
    # public methods
    for mn, fn in view.methods.items():
        if mn.startswith('_'):
            continue
        sp = split_params(fn, walker)
        variants = [('', {}, {})]
        for s in sp:
            nv = []
            for suf, g, m in variants:
                if s[1] == 'none':
                    nv.append((suf + '/given', {**g, s[0]: True}, m))
                    nv.append((suf + '/omitted', {**g, s[0]: False}, m))
                else:
                    if any(k == s[0] for k in m):
                        nv.append((suf, g, m))
                        continue
                    nv.append((suf + '/' + s[2], g, {**m, s[0]: s[2]}))
                    nv.append((suf + '/other', g, {**m, s[0]: '\0other'}))
            variants = nv
        for suf, g, m in variants:
            env = base_env(fn, g, m)
            # parameters not used for splitting: defaults-None params are 'omitted' only if the row says so; others given
            evs, term = walker.walk_body(fn.body, env)
            rows.append(events_to_row(mn + suf, evs, view, gdeps=gdeps))
    text = ["-- GENERATED by tools/py2lean.py from eqsig/single.py (effect table of Signal/AccSignal). Do not edit.",
            "import EqsigVerif.Model.SignalSM", "", f"namespace EqsigVerif.{ns}", "open EqsigVerif.Model.SignalSM", "",
            "def cacheTable : CacheTable := {", "  methods := ["]
    text.append(",\n".join(rows))
    text += ["  ],", "  quantities := ["]
    text.append(",\n".join(qrows))
    text += ["  ] }", "", f"end EqsigVerif.{ns}", ""]
    return {"CacheTable.lean": "\n".join(text)}


# ----------------------------------------------------------------------------------------------------------------------
# Effects: in-place constructs on parameters, all public functions of all modules
# ----------------------------------------------------------------------------------------------------------------------

class ParamScan(ast.NodeVisitor):
    def __init__(self, fn, is_method):
        self.params = set(a.arg for a in fn.args.args + fn.args.kwonlyargs)
        if fn.args.vararg:
            self.params.add(fn.args.vararg.arg)
        if is_method:
            self.params.discard('self')
        self.alias = set(self.params)
        self.hit = 0

    def is_alias_expr(self, e):
        if isinstance(e, ast.Name):
            return e.id in self.alias
        if isinstance(e, ast.Subscript):
            return self.is_alias_expr(e.value)
        if isinstance(e, ast.Attribute):
            # x.values / x._values / x.T of a parameter (signal objects hand out their own array)
            return e.attr in ('values', '_values', 'T', 'real', 'imag', 'flat') and self.is_alias_expr(e.value)
        if isinstance(e, ast.Call):
            n = np_call_name(e)
            if n in ALIAS_NP and e.args:
                return self.is_alias_expr(e.args[0])
            if n == 'array' and any(k.arg == 'copy' and isinstance(k.value, ast.Constant) and k.value.value is False for k in e.keywords) and e.args:
                return self.is_alias_expr(e.args[0])
            if isinstance(e.func, ast.Attribute) and e.func.attr in ('view', 'reshape', 'ravel', 'squeeze', 'transpose', 'swapaxes'):
                return self.is_alias_expr(e.func.value)
        return False

    def mark(self, node):
        if not self.hit:
            self.hit = getattr(node, 'lineno', 1)

    def scan(self, body):
        for st in body:
            self.stmt(st)

    def stmt(self, st):
        if isinstance(st, ast.Assign):
            self.calls(st.value)
            for t in st.targets:
                if isinstance(t, ast.Name):
                    if self.is_alias_expr(st.value):
                        self.alias.add(t.id)
                    else:
                        self.alias.discard(t.id)
                elif isinstance(t, ast.Subscript):
                    if self.is_alias_expr(t.value):
                        self.mark(st)
                elif isinstance(t, ast.Tuple):
                    for el in t.elts:
                        if isinstance(el, ast.Name):
                            self.alias.discard(el.id)
                        elif isinstance(el, ast.Subscript) and self.is_alias_expr(el.value):
                            self.mark(st)
        elif isinstance(st, ast.AugAssign):
            self.calls(st.value)
            t = st.target
            if isinstance(t, ast.Name):
                if t.id in self.alias:
                    self.mark(st)     # `x op= …` on an ndarray parameter is in place
            elif isinstance(t, (ast.Subscript, ast.Attribute)):
                if self.is_alias_expr(t.value if isinstance(t, ast.Subscript) else t):
                    self.mark(st)
        elif isinstance(st, (ast.If, ast.For, ast.While, ast.With, ast.Try)):
            for f in ('test', 'iter'):
                if hasattr(st, f):
                    self.calls(getattr(st, f))
            if isinstance(st, ast.For) and isinstance(st.target, ast.Name):
                self.alias.discard(st.target.id)
            for f in ('body', 'orelse', 'finalbody'):
                self.scan(getattr(st, f, []))
            for h in getattr(st, 'handlers', []):
                self.scan(h.body)
        elif isinstance(st, (ast.Expr, ast.Return)):
            if st.value is not None:
                self.calls(st.value)
        elif isinstance(st, (ast.FunctionDef, ast.ClassDef)):
            pass

    def calls(self, e):
        for n in ast.walk(e):
            if isinstance(n, ast.Call):
                if np_call_name(n) in ('put', 'place', 'putmask', 'copyto') and n.args and self.is_alias_expr(n.args[0]):
                    self.mark(n)
                for k in n.keywords:
                    if k.arg == 'out' and self.is_alias_expr(k.value):
                        self.mark(n)
                if isinstance(n.func, ast.Attribute) and n.func.attr in ('sort', 'fill', 'resize', 'partition', 'itemset', 'put', 'setfield', 'byteswap') \
                        and self.is_alias_expr(n.func.value):
                    if n.func.attr != 'byteswap' or any(k.arg == 'inplace' for k in n.keywords):
                        self.mark(n)


def gen_effects(repo, ns):
    root = os.path.join(repo, 'eqsig')
    entries = []
    for d, _, files in sorted(os.walk(root)):
        for f in sorted(files):
            if not f.endswith('.py') or f in ('__about__.py', 'duhamels.py'):
                continue
            p = os.path.join(d, f)
            modname = os.path.relpath(p, repo)[:-3].replace(os.sep, '.')
            if modname.endswith('.__init__'):
                continue
            mod = ast.parse(open(p).read())
            for n in mod.body:
                if isinstance(n, ast.FunctionDef) and not n.name.startswith('_'):
                    s = ParamScan(n, False)
                    s.scan(n.body)
                    entries.append((f"{modname}.{n.name}", s.hit))
                if isinstance(n, ast.ClassDef):
                    for m in n.body:
                        if isinstance(m, ast.FunctionDef) and (not m.name.startswith('_') or m.name == '__init__'):
                            s = ParamScan(m, True)
                            s.scan(m.body)
                            entries.append((f"{modname}.{n.name}.{m.name}", s.hit))
    if not entries:
        raise Untranslatable('eqsig', 0, 'no public functions found')
    text = ["-- GENERATED by tools/py2lean.py: in-place constructs on parameters, every public function of eqsig. Do not edit.",
            "import EqsigVerif.Model.Effects", "", f"namespace EqsigVerif.{ns}", "open EqsigVerif.Model.Effects", "",
            "def effects : List FnEffect := ["]
    text.append(",\n".join(f'  {{ name := "{n}", inplaceOnParam := {"true" if h else "false"}, line := {h} }}' for n, h in entries))
    text += ["]", "", f"end EqsigVerif.{ns}", ""]
    return {"Effects.lean": "\n".join(text)}
