"""py2lean plug-in: eqsig/sdof.py (response recurrence, spectra assembly) and eqsig/displacements.py.

Targets (each `gen(repo, ns) -> {file name: Lean text}`):
  * gen_sdof_loop  -> SdofLoop.lean     nigam_and_jennings_response: sign convention, zero-period rule, the recurrence loop
                                        (as a step function + the loop itself), zero initialisation, third series, assembly
  * gen_sdof_spectra -> SdofSpectra.lean  pseudo_response_spectra / true_response_spectra / response_series
  * gen_displ      -> Displ.lean        calc_velo_and_disp_from_accel_arr / velocity_and_displacement_from_acceleration

Method: every function body is *symbolically evaluated* statement by statement into a small term language (names are
inlined, so renaming a temporary or introducing/removing one does not change the result); allocations (`np.zeros…`) get
an identity so that in-place writes can be attributed.  The resulting terms are then matched against the one shape each
Lean emitter understands; arithmetic inside is printed by a fixed operator-by-operator rule with the leaves
(array reads) mapped by pattern.  Anything else raises Untranslatable(function, line, construct) — never a guess.
Standard library only.
"""
import ast
import os

from py2lean_struct import Untranslatable


# ----------------------------------------------------------------------------------------------
# term language (nested tuples; hashable, comparable)
# ----------------------------------------------------------------------------------------------
#   ('param', name) | ('lit', text) | ('str', s) | ('none',) | ('bool', b) | ('np', attr)
#   ('neg', t) | ('bin', op, l, r) | ('pow', t, e) | ('cmp', op, l, r)
#   ('call', fname, (args…), ((kw, t)…)) | ('sub', base, (idx…)) with idx = ('i', t) | ('sl', lo|None, hi|None) | ('newaxis',)
#   ('alloc', k) | ('tget', t, k) | ('ite', c, a, b) | ('loopvar', name) | ('list', (t…))

def lit_text(seg):
    t = seg.replace('_', '')
    if t.endswith('.'):
        t = t[:-1]
    if t.startswith('.'):
        t = '0' + t
    if 'e' in t.lower():
        mant, exp = t.lower().split('e')
        if '.' not in mant:
            mant += '.0'
        t = f"{mant}e{int(exp)}"
    # `1.0` and `1.` and `1` denote the same number; print integers without a fraction so that respelling survives
    if '.' in t and 'e' not in t and set(t.split('.')[1]) <= {'0'}:
        t = t.split('.')[0]
    return t


def find_function(mod, name):
    for n in mod.body:
        if isinstance(n, ast.FunctionDef) and n.name == name:
            return n
    raise Untranslatable(name, 0, "function not found")


def body_of(fn):
    b = list(fn.body)
    if b and isinstance(b[0], ast.Expr) and isinstance(b[0].value, ast.Constant) and isinstance(b[0].value.value, str):
        b = b[1:]
    return b


class Sym:
    """symbolic evaluator of a function body"""

    def __init__(self, fname, src, params):
        self.fname, self.src = fname, src
        self.env = {p: ('param', p) for p in params}
        self.allocs = []          # k -> ('zeros'|'zeros_like', shape term, line)
        self.writes = []          # (alloc k, idx tuple, value term, ctx) in program order
        self.ctx = 'top'
        self.effectful = set()    # call names whose evaluation is sequenced (may raise): term ('eff', k)
        self.effects = []         # k -> call term, in program order

    def fail(self, node, what):
        seg = ''
        try:
            seg = ast.get_source_segment(self.src, node) or ''
        except Exception:
            pass
        raise Untranslatable(self.fname, getattr(node, 'lineno', 0), f"{what}: {seg.splitlines()[0] if seg else ''}")

    # ---- expressions
    def ev(self, e):
        if isinstance(e, ast.Name):
            if e.id in self.env:
                return self.env[e.id]
            self.fail(e, 'unknown name')
        if isinstance(e, ast.Constant):
            if isinstance(e.value, bool):
                return ('bool', e.value)
            if e.value is None:
                return ('none',)
            if isinstance(e.value, (int, float)):
                return ('lit', lit_text(ast.get_source_segment(self.src, e)))
            if isinstance(e.value, str):
                return ('str', e.value)
            self.fail(e, 'literal')
        if isinstance(e, ast.Attribute) and isinstance(e.value, ast.Name) and e.value.id == 'np':
            return ('np', e.attr)
        if isinstance(e, ast.UnaryOp) and isinstance(e.op, ast.USub):
            return ('neg', self.ev(e.operand))
        if isinstance(e, ast.UnaryOp) and isinstance(e.op, ast.Not):
            return ('not', self.ev(e.operand))
        if isinstance(e, ast.BinOp):
            if isinstance(e.op, ast.Pow):
                return ('pow', self.ev(e.left), self.ev(e.right))
            op = {ast.Add: '+', ast.Sub: '-', ast.Mult: '*', ast.Div: '/'}.get(type(e.op))
            if op is None:
                self.fail(e, 'operator')
            return ('bin', op, self.ev(e.left), self.ev(e.right))
        if isinstance(e, ast.Compare) and len(e.ops) == 1:
            op = {ast.Lt: '<', ast.LtE: '<=', ast.Gt: '>', ast.GtE: '>=', ast.Eq: '==', ast.NotEq: '!=',
                  ast.Is: 'is', ast.IsNot: 'is not'}.get(type(e.ops[0]))
            if op is None:
                self.fail(e, 'comparison')
            return ('cmp', op, self.ev(e.left), self.ev(e.comparators[0]))
        if isinstance(e, (ast.List, ast.Tuple)):
            return ('list', tuple(self.ev(x) for x in e.elts))
        if isinstance(e, ast.Subscript):
            return ('sub', self.ev(e.value), self.index(e.slice))
        if isinstance(e, ast.Call):
            f = e.func
            if isinstance(f, ast.Attribute) and isinstance(f.value, ast.Name) and f.value.id == 'np':
                name = 'np.' + f.attr
                recv = ()
            elif isinstance(f, ast.Name) and (f.id not in self.env or self.env[f.id][0] == 'builtin'):
                name = f.id
                recv = ()
            elif isinstance(f, ast.Attribute):
                name = '.' + f.attr                     # method call: receiver is the first argument
                recv = (self.ev(f.value),)
            else:
                self.fail(e, 'call')
            if any(k.arg is None for k in e.keywords) or any(isinstance(a, ast.Starred) for a in e.args):
                self.fail(e, 'star arguments')
            args = recv + tuple(self.ev(a) for a in e.args)
            kws = tuple(sorted((k.arg, self.ev(k.value)) for k in e.keywords))
            if name in self.effectful:
                self.effects.append((('call', name, args, kws), e.lineno))
                return ('eff', len(self.effects) - 1)
            return ('call', name, args, kws)
        self.fail(e, 'expression ' + type(e).__name__)

    def index(self, s):
        items = s.elts if isinstance(s, ast.Tuple) else [s]
        out = []
        for it in items:
            if isinstance(it, ast.Slice):
                if it.step is not None:
                    self.fail(it, 'slice step')
                out.append(('sl', None if it.lower is None else self.ev(it.lower), None if it.upper is None else self.ev(it.upper)))
            else:
                t = self.ev(it)
                out.append(('newaxis',) if t == ('np', 'newaxis') else ('i', t))
        return tuple(out)

    # ---- statements
    def alloc(self, node, kind, shape):
        self.allocs.append((kind, shape, node.lineno))
        return ('alloc', len(self.allocs) - 1)

    def assign(self, st):
        if len(st.targets) != 1:
            self.fail(st, 'chained assignment')
        tg = st.targets[0]
        if isinstance(tg, ast.Name):
            v = self.ev(st.value)
            if v[0] == 'call' and v[1] in ('np.zeros', 'np.zeros_like', 'np.ones_like'):
                kws = dict(v[3])
                if set(kws) - {'dtype'} or (('dtype' in kws) and kws['dtype'] != ('builtin', 'float')):
                    self.fail(st, 'allocation keywords')
                if len(v[2]) != 1:
                    self.fail(st, 'allocation arguments')
                v = self.alloc(st, v[1][3:], v[2][0])
            self.env[tg.id] = v
            return
        if isinstance(tg, ast.Tuple) and all(isinstance(x, ast.Name) for x in tg.elts):
            v = self.ev(st.value)
            if v[0] not in ('call', 'eff'):
                self.fail(st, 'tuple unpacking of a non-call')
            for k, x in enumerate(tg.elts):
                self.env[x.id] = ('tget', v, k, len(tg.elts))
            return
        if isinstance(tg, ast.Subscript):
            base = self.ev(tg.value)
            if base[0] != 'alloc':
                self.fail(st, 'in-place write into something that is not a fresh np.zeros array')
            self.writes.append((base[1], self.index(tg.slice), self.ev(st.value), self.ctx, st.lineno))
            return
        self.fail(st, 'assignment target')


def is_float_name(sym):
    sym.env.setdefault('float', ('builtin', 'float'))


def ident(t, fname, what, line=0):
    """strip value-preserving conversions: np.array(x, dtype=float), float(x)"""
    while True:
        if t[0] == 'call' and t[1] == 'np.array' and len(t[2]) == 1 and dict(t[3]) in ({}, {'dtype': ('builtin', 'float')}):
            t = t[2][0]
            continue
        if t[0] == 'call' and t[1] == 'float' and len(t[2]) == 1 and not t[3]:
            t = t[2][0]
            continue
        return t


class Arith:
    """operator-by-operator printer of scalar arithmetic; `leaf(t)` returns Lean text for a leaf or None"""

    def __init__(self, fname, line, leaf):
        self.fname, self.line, self.leaf = fname, line, leaf

    def pr(self, t):
        r = self.leaf(t)
        if r is not None:
            return r
        if t[0] == 'lit':
            return t[1]
        if t[0] == 'neg':
            return f"(-{self.pr(t[1])})"
        if t[0] == 'bin':
            return f"({self.pr(t[2])} {t[1]} {self.pr(t[3])})"
        if t[0] == 'pow' and t[2] == ('lit', '2'):
            b = self.pr(t[1])
            return f"({b} * {b})"
        raise Untranslatable(self.fname, self.line, f"term {show(t)}")


def show(t, depth=0):
    if depth > 4:
        return '…'
    if isinstance(t, tuple):
        return '(' + ' '.join(show(x, depth + 1) for x in t) + ')'
    return str(t)


def strip_outer(t):
    if t.startswith('(') and t.endswith(')'):
        depth = 0
        for i, ch in enumerate(t):
            depth += ch == '('
            depth -= ch == ')'
            if depth == 0 and i < len(t) - 1:
                return t
        return t[1:-1]
    return t


# ----------------------------------------------------------------------------------------------
# target 1: nigam_and_jennings_response
# ----------------------------------------------------------------------------------------------

NJ = 'nigam_and_jennings_response'


def gen_sdof_loop(repo, ns):
    src = open(os.path.join(repo, 'eqsig', 'sdof.py')).read()
    mod = ast.parse(src)
    fn = find_function(mod, NJ)
    params = [a.arg for a in fn.args.args]
    if params != ['acc', 'dt', 'periods', 'xi'] or fn.args.vararg or fn.args.kwarg or fn.args.kwonlyargs or fn.args.defaults:
        raise Untranslatable(NJ, fn.lineno, f"parameters {params}")
    sy = Sym(NJ, src, params)
    is_float_name(sy)
    loop = None           # (var, range term, line, env snapshot at the loop)
    s_term = None
    post_if = None
    ret = None
    for st in body_of(fn):
        if ret is not None:
            sy.fail(st, 'statement after return')
        if isinstance(st, ast.Assign):
            sy.assign(st)
        elif isinstance(st, ast.If) and loop is None:
            # `if <cond>: s = <int> else: s = <int>`
            if not (len(st.body) == 1 and len(st.orelse) == 1 and all(
                    isinstance(b, ast.Assign) and len(b.targets) == 1 and isinstance(b.targets[0], ast.Name)
                    for b in (st.body[0], st.orelse[0])) and st.body[0].targets[0].id == st.orelse[0].targets[0].id):
                sy.fail(st, 'if statement before the loop is not `if c: s = k1 else: s = k2`')
            a, b = sy.ev(st.body[0].value), sy.ev(st.orelse[0].value)
            sy.env[st.body[0].targets[0].id] = ('ite', sy.ev(st.test), a, b)
        elif isinstance(st, ast.For):
            if loop is not None:
                sy.fail(st, 'second loop')
            if st.orelse or not isinstance(st.target, ast.Name):
                sy.fail(st, 'loop form')
            rng = sy.ev(st.iter)
            saved = sy.env.get(st.target.id)
            sy.env[st.target.id] = ('loopvar', st.target.id)
            sy.ctx = 'loop'
            for b in st.body:
                if not isinstance(b, ast.Assign) or not isinstance(b.targets[0], ast.Subscript):
                    sy.fail(b, 'loop body statement is not an indexed assignment')
                sy.assign(b)
            sy.ctx = 'top'
            loop = (st.target.id, rng, st.lineno, dict(sy.env))
            if saved is None:
                pass
        elif isinstance(st, ast.If) and loop is not None:
            if post_if is not None:
                sy.fail(st, 'second if statement after the loop')
            test = sy.ev(st.test)
            env0 = dict(sy.env)
            sy.ctx = 'then'
            for b in st.body:
                if not isinstance(b, ast.Assign):
                    sy.fail(b, 'statement in branch')
                sy.assign(b)
            env_then = sy.env
            sy.env = dict(env0)
            sy.ctx = 'else'
            for b in st.orelse:
                if not isinstance(b, ast.Assign):
                    sy.fail(b, 'statement in branch')
                sy.assign(b)
            env_else = sy.env
            sy.ctx = 'top'
            new = {}
            for k in set(env_then) | set(env_else):
                if env_then.get(k) == env_else.get(k):
                    new[k] = env_then[k]
                elif k in env_then and k in env_else:
                    new[k] = ('ite', test, env_then[k], env_else[k])
            sy.env = new
            post_if = (test, st.lineno)
        elif isinstance(st, ast.Return):
            ret = (sy.ev(st.value), st.lineno) if st.value is not None else None
            if ret is None:
                sy.fail(st, 'bare return')
        else:
            sy.fail(st, 'statement ' + type(st).__name__)
    if loop is None or ret is None or post_if is None:
        raise Untranslatable(NJ, fn.lineno, "expected shape: prologue, one for-loop, `if s:` assembly, return")

    lvar, rng, lline, lenv = loop
    I = ('loopvar', lvar)
    # ---- returned triple
    rt, rline = ret
    if rt[0] != 'list' or len(rt[1]) != 3:
        raise Untranslatable(NJ, rline, "return is not a triple")
    U, V, A = rt[1]
    if U[0] != 'alloc' or V[0] != 'alloc' or U == V:
        raise Untranslatable(NJ, rline, "first two returned values are not two distinct np.zeros arrays")
    ku, kv = U[1], V[1]

    # ---- (a) the record the loop reads
    # find the record term: the array whose len() bounds the loop
    if not (rng[0] == 'call' and rng[1] == 'range' and len(rng[2]) == 1 and not rng[3]):
        raise Untranslatable(NJ, lline, "loop is not `for i in range(<one bound>)`")
    bound = rng[2][0]
    if not (bound[0] == 'bin' and bound[1] == '-' and bound[3] == ('lit', '1') and bound[2][0] == 'call' and bound[2][1] == 'len'
            and len(bound[2][2]) == 1):
        raise Untranslatable(NJ, lline, "loop bound is not `len(<record>) - 1`")
    NACC = bound[2][2][0]

    def rec_text(t, line):
        """1-D record expression over the parameter `acc`"""
        t = ident(t, NJ, 'record')
        if t == ('param', 'acc'):
            return 'acc'
        if t[0] == 'neg':
            return f"({rec_text(t[1], line)}).map (fun x => -x)".replace('(acc).map', 'acc.map')
        raise Untranslatable(NJ, line, f"record expression {show(t)}")
    neg_text = rec_text(NACC, lline)

    PER = None   # the periods array term
    XI = lenv['xi']
    DT = lenv['dt']
    if ident(XI, NJ, 'xi') != ('param', 'xi') or ident(DT, NJ, 'dt') != ('param', 'dt'):
        raise Untranslatable(NJ, lline, "xi / dt are not plain conversions of the parameters at the loop")

    # ---- allocations U, V: np.zeros([len(periods), len(acc)])
    def check_zeros(k):
        kind, shape, line = sy.allocs[k]
        if kind != 'zeros' or shape[0] != 'list' or len(shape[1]) != 2:
            raise Untranslatable(NJ, line, "allocation is not np.zeros([rows, cols])")
        r, c = shape[1]
        if not (r[0] == 'call' and r[1] == 'len' and len(r[2]) == 1 and ident(r[2][0], NJ, 'periods') == ('param', 'periods')):
            raise Untranslatable(NJ, line, "rows of the allocation are not len(periods)")
        if c != ('call', 'len', (NACC,), ()):
            raise Untranslatable(NJ, line, "columns of the allocation are not len(<record read by the loop>)")
        return r[2][0]
    PER = check_zeros(ku)
    if check_zeros(kv) != PER:
        raise Untranslatable(NJ, sy.allocs[kv][2], "the two allocations use different period arrays")

    # ---- (b) zero-period rule: s and w, found through the loop's writes
    lw = [w for w in sy.writes if w[3] == 'loop']
    if len(lw) != 2 or {w[0] for w in lw} != {ku, kv}:
        raise Untranslatable(NJ, lline, "loop body does not write exactly once to each of the two returned arrays")
    S = None
    for (k, idx, val, ctx, line) in lw:
        if not (len(idx) == 2 and idx[0][0] == 'sl' and idx[0][2] is None and idx[0][1] is not None and idx[1] == ('i', ('bin', '+', I, ('lit', '1')))):
            raise Untranslatable(NJ, line, "loop write is not `arr[s:, i + 1] = …`")
        if S is None:
            S = idx[0][1]
        elif S != idx[0][1]:
            raise Untranslatable(NJ, line, "the two loop writes use different row offsets")
    if not (S[0] == 'ite' and S[1][0] == 'cmp' and S[1][2] == ('sub', PER, (('i', ('lit', '0')),)) and S[1][3][0] == 'lit'
            and S[2][0] == 'lit' and S[3][0] == 'lit' and S[2][1].isdigit() and S[3][1].isdigit()):
        raise Untranslatable(NJ, lline, "row offset is not `if periods[0] <cmp> <literal>: s = k1 else: s = k2`")
    cmp_op = {'==': '==', '<': '<', '<=': '≤', '>': '>', '>=': '≥', '!=': '!='}[S[1][1]]
    if cmp_op != '==':
        # only `==` is expressible with the BEq instance the generic twin carries
        raise Untranslatable(NJ, lline, f"zero-period test uses `{S[1][1]}` (only `==` is supported)")
    s_cond = f"p0 == {S[1][3][1]}"
    s_then, s_else = S[2][1], S[3][1]

    # ---- coefficients: a, b = compute_a_and_b(xi, w, dt)
    def coeff_leaf(t):
        # a[r][c] / b[r][c]
        if t[0] == 'sub' and len(t[2]) == 1 and t[2][0][0] == 'i' and t[1][0] == 'sub' and len(t[1][2]) == 1 and t[1][2][0][0] == 'i':
            base = t[1][1]
            r, c = t[1][2][0][1], t[2][0][1]
            if base[0] == 'tget' and base[3] == 2 and base[1][0] == 'call' and base[1][1] == 'compute_a_and_b' and r[0] == 'lit' and c[0] == 'lit' \
                    and r[1] in ('0', '1') and c[1] in ('0', '1'):
                return base[1], 'ab'[base[2]] + str(int(r[1]) + 1) + str(int(c[1]) + 1)
        return None
    cab_calls = set()

    def step_leaf(t):
        cl = coeff_leaf(t)
        if cl is not None:
            cab_calls.add(cl[0])
            return 'm.' + cl[1]
        if t == ('sub', U, (('sl', S, None), ('i', I))):
            return 'x.1'
        if t == ('sub', V, (('sl', S, None), ('i', I))):
            return 'x.2'
        if t == ('sub', NACC, (('i', I),)):
            return 'ai'
        if t == ('sub', NACC, (('i', ('bin', '+', I, ('lit', '1'))),)):
            return 'ai1'
        if t[0] in ('sub', 'alloc', 'param', 'loopvar', 'call', 'tget', 'ite'):
            raise Untranslatable(NJ, lline, f"loop body reads {show(t)} (allowed: a[r][c], b[r][c], resp_u[s:, i], resp_v[s:, i], acc[i], acc[i + 1])")
        return None
    comp = {}
    for (k, idx, val, ctx, line) in lw:
        comp[k] = strip_outer(Arith(NJ, line, step_leaf).pr(val))
    if len(cab_calls) != 1:
        raise Untranslatable(NJ, lline, "coefficients do not come from one compute_a_and_b call")
    cab = cab_calls.pop()
    if cab[3] or len(cab[2]) != 3:
        raise Untranslatable(NJ, lline, "compute_a_and_b call form")
    W = None
    cab_args = []
    for a in cab[2]:
        if ident(a, NJ, 'arg') == ('param', 'xi'):
            cab_args.append('xi')
        elif ident(a, NJ, 'arg') == ('param', 'dt'):
            cab_args.append('dt')
        elif a[0] == 'bin' and a[1] == '/' and a[2][0] == 'lit' and a[3] == ('sub', PER, (('sl', S, None),)):
            if W is not None:
                raise Untranslatable(NJ, lline, "two frequency arguments")
            W = a
            cab_args.append('wj')
        else:
            raise Untranslatable(NJ, lline, f"compute_a_and_b argument {show(a)} (expected xi, dt or <literal> / periods[s:])")
    if W is None or sorted(cab_args) != ['dt', 'wj', 'xi']:
        raise Untranslatable(NJ, lline, "compute_a_and_b arguments are not a permutation of (xi, w, dt)")
    const = W[2][1]

    # ---- (d) third series
    test, iline = post_if
    if test != S:
        raise Untranslatable(NJ, iline, "assembly branch is not `if s:`")
    if not (A[0] == 'ite' and A[1] == S and A[2][0] == 'alloc'):
        raise Untranslatable(NJ, iline, "third returned value is not built as `if s: <np.zeros_like + writes> else: <expression>`")
    ka = A[2][1]
    kind, shape, aline = sy.allocs[ka]
    if kind != 'zeros_like' or shape != U:
        raise Untranslatable(NJ, aline, "sdof_acc is not np.zeros_like(<first returned array>)")
    aw = [w for w in sy.writes if w[0] == ka]
    if len(aw) != 2 or any(w[3] != 'then' for w in aw):
        raise Untranslatable(NJ, aline, "expected exactly two writes into sdof_acc in the `if s:` branch")
    if any(w[3] != 'loop' for w in sy.writes if w[0] in (ku, kv)) or len([w for w in sy.writes]) != 4:
        raise Untranslatable(NJ, iline, "unexpected in-place writes")
    (_, idx1, val1, _, l1), (_, idx2, val2, _, l2) = aw
    if idx1 != (('sl', S, None),):
        raise Untranslatable(NJ, l1, "first write in the `if s:` branch is not `sdof_acc[s:] = …`")
    if idx2 != (('i', ('lit', '0')),) or val2 != NACC:
        raise Untranslatable(NJ, l2, "second write in the `if s:` branch is not `sdof_acc[0] = <negated record>`")

    def acc_leaf_for(line):
        def acc_leaf(t):
            if t[0] == 'sub' and t[2] == (('sl', None, None), ('newaxis',)):
                # per-period factor broadcast over time: an expression in w
                def wleaf(u):
                    if u == W:
                        return 'w'
                    if u[0] in ('sub', 'alloc', 'param', 'call', 'tget', 'ite'):
                        raise Untranslatable(NJ, line, f"per-period factor {show(u)}")
                    return None
                return Arith(NJ, line, wleaf).pr(t[1])
            if t == ('sub', U, (('sl', S, None),)):
                return 'x.1'
            if t == ('sub', V, (('sl', S, None),)):
                return 'x.2'
            if ident(t, NJ, 'xi') == ('param', 'xi'):
                return 'xi'
            if t[0] in ('sub', 'alloc', 'param', 'call', 'tget', 'ite'):
                raise Untranslatable(NJ, line, f"third series reads {show(t)}")
            return None
        return acc_leaf
    acc_lead = strip_outer(Arith(NJ, l1, acc_leaf_for(l1)).pr(val1))
    acc_else = strip_outer(Arith(NJ, iline, acc_leaf_for(iline)).pr(A[3]))

    L = []
    L += [f"-- GENERATED by tools/py2lean_x_sdof.py from eqsig/sdof.py ({NJ}). Do not edit.",
          "import EqsigVerif.Model.Sdof", "import EqsigVerif.Model.SdofLoopGen", "",
          f"namespace EqsigVerif.{ns}.SdofLoop", "open EqsigVerif.Model.Sdof (AB)", "open EqsigVerif.Model.SdofLoopGen", "",
          "variable {α : Type} [Add α] [Sub α] [Mul α] [Div α] [Neg α] [BEq α] [OfNat α 0] [OfNat α 2] [OfScientific α]", "",
          "/-- the record read by the loop, from the parameter `acc` (sign convention) -/",
          "def negAcc (acc : List α) : List α :=", f"  {neg_text}", "",
          "/-- the literal of `w = <literal> / periods[s:]` -/",
          f"def njConst : α := {const}", "",
          "/-- the row offset `s` from `p0 = periods[0]` -/",
          "def startIdx (p0 : α) : Nat :=", f"  if {s_cond} then {s_then} else {s_else}", "",
          "/-- `w = <literal> / periods[s:]` -/",
          "def omegas (s : Nat) (periods : List α) : List α :=", f"  (periods.drop s).map (fun p => {const} / p)", "",
          "/-- body of `for i in range(len(acc) - 1)` on one row: the values written to `(resp_u[s:, i + 1], resp_v[s:, i + 1])`",
          "from `x = (resp_u[s:, i], resp_v[s:, i])`, `ai = acc[i]`, `ai1 = acc[i + 1]`, `m` = the row's entries of `a`, `b` -/",
          "def step (m : AB α) (x : α × α) (ai ai1 : α) : α × α :=",
          f"  ({comp[ku]},", f"   {comp[kv]})", "",
          "/-- one row of `(resp_u, resp_v)`: `np.zeros([len(periods), len(acc)])` then the loop; `acc` is the record read by the loop -/",
          "def runRow (m : AB α) (acc : List α) : List α × List α :=",
          "  forRange (acc.length - 1) (fun i st =>",
          "      let x := step m (st.1.getD i 0, st.2.getD i 0) (acc.getD i 0) (acc.getD (i + 1) 0)",
          "      (st.1.set (i + 1) x.1, st.2.set (i + 1) x.2))",
          "    (List.replicate acc.length 0, List.replicate acc.length 0)", "",
          "/-- `sdof_acc[s:] = …` of the branch `if s:` for one sample of one row (`x = (resp_u, resp_v)` at that sample) -/",
          "def accExprLead (xi w : α) (x : α × α) : α :=", f"  {acc_lead}", "",
          "/-- `sdof_acc = …` of the `else:` branch for one sample of one row -/",
          "def accExpr (xi w : α) (x : α × α) : α :=", f"  {acc_else}", "",
          f"/-- `{NJ}(acc, dt, periods, xi)`: `(resp_u, resp_v, sdof_acc)` as lists of rows;",
          "`cab` is `compute_a_and_b`; `none` = `IndexError` of `periods[0]` -/",
          "def response (cab : α → α → α → AB α) (xi dt : α) (acc periods : List α) :",
          "    Option (List (List α) × List (List α) × List (List α)) :=",
          "  match periods with", "  | [] => none", "  | p0 :: _ =>",
          "    let nacc := negAcc acc", "    let s := startIdx p0", "    let w := omegas s periods",
          f"    let uv := w.map (fun wj => runRow (cab {' '.join(cab_args)}) nacc)",
          "    let resp_u := setRowsFrom s (zeros2 periods.length nacc.length) (uv.map (·.1))",
          "    let resp_v := setRowsFrom s (zeros2 periods.length nacc.length) (uv.map (·.2))",
          "    let sdof_acc :=", "      if s ≠ 0 then",
          "        (setRowsFrom s (zeros2 periods.length nacc.length)",
          "          (List.zipWith (fun wj r => (List.zip r.1 r.2).map (accExprLead xi wj)) w uv)).set 0 nacc",
          "      else", "        List.zipWith (fun wj r => (List.zip r.1 r.2).map (accExpr xi wj)) w uv",
          "    some (resp_u, resp_v, sdof_acc)", "",
          f"end EqsigVerif.{ns}.SdofLoop", ""]
    return {"SdofLoop.lean": "\n".join(L)}


# ----------------------------------------------------------------------------------------------
# shared: branch merging, array expression printer
# ----------------------------------------------------------------------------------------------

def run_if(sy, st, allowed=(ast.Assign,)):
    """evaluate `if c: … else: …` (assignments only) in both branches and merge the environments with ('ite', c, a, b)"""
    test = sy.ev(st.test)
    env0 = dict(sy.env)
    outs = []
    for ctx, body in (('then', st.body), ('else', st.orelse)):
        sy.env = dict(env0)
        old = sy.ctx
        sy.ctx = ctx if old == 'top' else old + '/' + ctx
        ne = len(sy.effects)
        for b in body:
            if isinstance(b, ast.Assign):
                sy.assign(b)
            elif isinstance(b, ast.Expr) and ast.Expr in allowed:
                inplace_call(sy, b)
            else:
                sy.fail(b, 'statement in branch')
        if len(sy.effects) != ne:
            sy.fail(st, 'call that may raise inside a branch')
        sy.ctx = old
        outs.append(sy.env)
    new = {}
    for k in set(outs[0]) | set(outs[1]):
        if outs[0].get(k) == outs[1].get(k):
            new[k] = outs[0][k]
        elif k in outs[0] and k in outs[1]:
            new[k] = ('ite', test, outs[0][k], outs[1][k])
    sy.env = new
    return test


def inplace_call(sy, st):
    """`np.cumsum(x, out=x)` on a fresh, unaliased local array `x`: rebinding of `x` to `np.cumsum(<old x>)`"""
    c = st.value
    if not (isinstance(c, ast.Call) and isinstance(c.func, ast.Attribute) and isinstance(c.func.value, ast.Name) and c.func.value.id == 'np'
            and c.func.attr == 'cumsum' and len(c.args) == 1 and isinstance(c.args[0], ast.Name) and len(c.keywords) == 1
            and c.keywords[0].arg == 'out' and isinstance(c.keywords[0].value, ast.Name) and c.keywords[0].value.id == c.args[0].id):
        sy.fail(st, 'expression statement is not `np.cumsum(x, out=x)`')
    x = c.args[0].id
    if x not in sy.env:
        sy.fail(st, 'unknown name')
    t = sy.env[x]
    if t[0] not in ('alloc', 'bin') and not (t[0] == 'call' and t[1] in ('np.cumsum', 'cumulative_trapezoid')):
        sy.fail(st, 'in-place operation on something that is not a fresh local array')
    if any(k != x and v == t for k, v in sy.env.items()):
        sy.fail(st, 'in-place operation on an aliased array')
    sy.env[x] = ('call', 'np.cumsum', (t,), ())


class ArrP:
    """operator-by-operator printer of 1-D array / scalar expressions (kinds 'arr', 'scal', 'mat')"""

    def __init__(self, sy, fname, leaves, effkind):
        self.sy, self.fname, self.leaves, self.effkind = sy, fname, leaves, effkind
        self.int_lits = set()
        self.scientific = False

    def fail(self, t, line=0):
        raise Untranslatable(self.fname, line, f"term {show(t)}")

    def lit(self, text):
        if text.isdigit():
            self.int_lits.add(int(text))
        else:
            self.scientific = True
        return text

    def lenof(self, t):
        """symbolic length (array parameter name, offset) of a 1-D array term, or None"""
        t = ident(t, self.fname, '')
        if t[0] == 'param' and self.leaves.get(t, ('',))[0] == 'arr':
            return (t[1], 0)
        if t[0] == 'bin':
            ls = [x for x in (self.lenof(t[2]), self.lenof(t[3])) if x is not None]
            return ls[0] if ls and all(x == ls[0] for x in ls) else None
        if t[0] == 'pow':
            return self.lenof(t[1])
        if t[0] == 'sub' and len(t[2]) == 1 and t[2][0][0] == 'sl':
            b = self.lenof(t[1])
            lo, hi = t[2][0][1], t[2][0][2]
            if b is None:
                return None
            if hi is None and lo is not None and lo[0] == 'lit' and lo[1].isdigit():
                return (b[0], b[1] - int(lo[1]))
            if lo is None and hi == ('neg', ('lit', '1')):
                return (b[0], b[1] - 1)
            return None
        if t[0] == 'call' and t[1] in ('np.cumsum', 'cumulative_trapezoid') and len(t[2]) == 1:
            return self.lenof(t[2][0])
        if t[0] == 'alloc':
            kind, shape, line = self.sy.allocs[t[1]]
            if kind == 'ones_like':
                return self.lenof(shape)
            if kind == 'zeros' and shape[0] == 'bin' and shape[1] == '+' and shape[3][0] == 'lit' and shape[3][1].isdigit() \
                    and shape[2][0] == 'call' and shape[2][1] == 'len' and len(shape[2][2]) == 1:
                b = self.lenof(shape[2][2][0])
                return None if b is None else (b[0], b[1] + int(shape[3][1]))
        return None

    def check_block_write(self, base_t, start, val, line):
        lb, lv = self.lenof(base_t), self.lenof(val)
        if lb is None or lv is None or lb[0] != lv[0] or lv[1] != lb[1] - start:
            raise Untranslatable(self.fname, line, f"`x[{start}:] = v`: cannot show len(v) == len(x) - {start} (lengths {lb} / {lv})")

    def tr(self, t):
        t0 = ident(t, self.fname, '')
        if t0 in self.leaves:
            return self.leaves[t0]
        t = t0
        if t[0] == 'lit':
            return ('scal', self.lit(t[1]))
        if t == ('np', 'pi'):
            return ('scal', 'pi')
        if t[0] == 'eff':
            return self.effkind(t[1])
        if t[0] == 'tget' and t[1][0] == 'eff' and t[3] == 3:
            k, txt = self.effkind(t[1][1])
            if k == 'triple':
                return ('mat', txt + ('.1', '.2.1', '.2.2')[t[2]])
            self.fail(t)
        if t[0] == 'neg':
            k, x = self.tr(t[1])
            if k == 'scal':
                return ('scal', f"(-{x})")
            self.fail(t)
        if t[0] == 'pow' and t[2] == ('lit', '2'):
            k, x = self.tr(t[1])
            if k == 'arr':
                return ('arr', f"(Np.sq {x})")
            if k == 'scal':
                return ('scal', f"({x} * {x})")
            self.fail(t)
        if t[0] == 'bin':
            (kl, l), (kr, r) = self.tr(t[2]), self.tr(t[3])
            op = t[1]
            if kl == kr == 'scal':
                return ('scal', f"({l} {op} {r})")
            if kl == 'scal' and kr == 'arr' and op == '/':
                return ('arr', f"({r}.map (fun p => {l} / p))")
            if kl == 'scal' and kr == 'arr' and op == '*':
                return ('arr', f"(Np.scale {l} {r})")
            if kl == 'arr' and kr == 'scal' and op in '*/':
                return ('arr', f"({l}.map (· {op} {r}))")
            if kl == kr == 'arr' and op in '*+-':
                return ('arr', f"(List.zipWith (· {op} ·) {l} {r})")
            self.fail(t)
        if t[0] == 'sub' and len(t[2]) == 1 and t[2][0][0] == 'sl' and t[2][0][2] is None and t[2][0][1] is not None \
                and t[2][0][1][0] == 'lit' and t[2][0][1][1].isdigit():
            k, x = self.tr(t[1])
            if k == 'arr':
                return ('arr', f"({x}.drop {t[2][0][1][1]})")
            self.fail(t)
        if t[0] == 'call' and t[1] == 'np.where' and len(t[2]) == 3 and not t[3] and t[2][0][0] == 'cmp':
            c = t[2][0]
            opc = {'<': '<', '>': '>'}.get(c[1])
            (k1, a), (k2, b) = self.tr(c[2]), self.tr(c[3])
            (k3, x), (k4, y) = self.tr(t[2][1]), self.tr(t[2][2])
            if opc and (k1, k2, k3, k4) == ('arr', 'scal', 'scal', 'arr'):
                return ('arr', f"(List.zipWith (fun c y => if c {opc} {b} then {x} else y) {a} {y})")
            self.fail(t)
        if t[0] == 'ite':
            c = t[1]
            ctext = None
            if c[0] == 'cmp' and c[1] == '==' and ('p0', c[2]) in self.leaves.get('__index0__', ()) and c[3][0] == 'lit':
                ctext = f"p0 = {self.lit(c[3][1])}"
            elif c[0] == 'cmp' and c[1] == 'is' and c[3][0] == 'bool' and self.leaves.get(c[2], ('', ''))[0] == 'bool':
                ctext = f"{self.leaves[c[2]][1]} = {'true' if c[3][1] else 'false'}"
            elif c[0] == 'not' and self.leaves.get(c[1], ('', ''))[0] == 'bool':
                ctext = f"{self.leaves[c[1]][1]} = false"
            elif self.leaves.get(c, ('', ''))[0] == 'bool':
                ctext = f"{self.leaves[c][1]} = true"
            if ctext is not None:
                (k1, a), (k2, b) = self.tr(t[2]), self.tr(t[3])
                if k1 == k2:
                    return (k1, f"(if {ctext} then {a} else {b})")
            self.fail(t)
        if t[0] == 'call' and t[1] == 'np.cumsum' and len(t[2]) == 1 and not t[3]:
            k, x = self.tr(t[2][0])
            if k == 'arr':
                return ('arr', f"(Np.cumsum {x})")
            self.fail(t)
        if t[0] == 'call' and t[1] == 'cumulative_trapezoid' and len(t[2]) == 1 and set(dict(t[3])) == {'dx', 'initial'} \
                and dict(t[3])['initial'] == ('lit', '0'):
            k, x = self.tr(t[2][0])
            kd, d = self.tr(dict(t[3])['dx'])
            if k == 'arr' and kd == 'scal':
                return ('arr', f"(Np.cumtrapz {d} {x})")
            self.fail(t)
        if t[0] == 'sub' and t[2] == (('sl', None, ('neg', ('lit', '1'))),):
            k, x = self.tr(t[1])
            if k == 'arr':
                return ('arr', f"{x}.dropLast")
            self.fail(t)
        if t[0] == 'alloc':
            kind, shape, line = self.sy.allocs[t[1]]
            ws = [w for w in self.sy.writes if w[0] == t[1]]
            if kind == 'zeros' and len(ws) == 1 and shape[0] == 'bin' and shape[1] == '+' and shape[3][0] == 'lit' and shape[3][1].isdigit() \
                    and shape[2][0] == 'call' and shape[2][1] == 'len' and len(shape[2][2]) == 1:
                kb, base = self.tr(shape[2][2][0])
                (_, idx, val, ctx, wl) = ws[0]
                if kb == 'arr' and len(idx) == 1 and idx[0][0] == 'sl' and idx[0][2] is None and idx[0][1] is not None \
                        and idx[0][1][0] == 'lit' and idx[0][1][1].isdigit():
                    kv, v = self.tr(val)
                    if kv == 'arr':
                        self.check_block_write(t, int(idx[0][1][1]), val, wl)
                        self.int_lits.add(0)
                        return ('arr', f"(setRowsFrom {idx[0][1][1]} (List.replicate ({base}.length + {shape[3][1]}) 0) {v})")
            if kind == 'ones_like' and len(ws) == 1:
                kb, base = self.tr(shape)
                (_, idx, val, ctx, wl) = ws[0]
                if kb == 'arr' and len(idx) == 1 and idx[0][0] == 'sl' and idx[0][2] is None and idx[0][1] is not None \
                        and idx[0][1][0] == 'lit' and idx[0][1][1].isdigit():
                    kv, v = self.tr(val)
                    if kv == 'arr':
                        self.check_block_write(t, int(idx[0][1][1]), val, wl)
                        self.int_lits.add(1)
                        return ('arr', f"(setRowsFrom {idx[0][1][1]} ({base}.map (fun _ => 1)) {v})")
            self.fail(t, line)
        self.fail(t)


# ----------------------------------------------------------------------------------------------
# target 2: pseudo_response_spectra, true_response_spectra, response_series
# ----------------------------------------------------------------------------------------------

def spectra_fn(src, mod, pyname, lname, nj_params):
    fn = find_function(mod, pyname)
    params = [a.arg for a in fn.args.args]
    if params != ['motion', 'dt', 'periods', 'xi'] or fn.args.defaults or fn.args.vararg or fn.args.kwarg or fn.args.kwonlyargs:
        raise Untranslatable(pyname, fn.lineno, f"parameters {params}")
    sy = Sym(pyname, src, params)
    is_float_name(sy)
    sy.effectful = {NJ, 'absmax'}
    ret = None
    index0 = None       # line of the statement that evaluates periods[0]
    for st in body_of(fn):
        if ret is not None:
            sy.fail(st, 'statement after return')
        if isinstance(st, ast.Assign):
            sy.assign(st)
        elif isinstance(st, ast.If):
            if sy.effects:
                sy.fail(st, 'if statement after a call that may raise')
            run_if(sy, st)
            index0 = st.lineno
        elif isinstance(st, ast.Return) and st.value is not None:
            ret = (sy.ev(st.value), st.lineno)
        else:
            sy.fail(st, 'statement ' + type(st).__name__)
    if ret is None:
        raise Untranslatable(pyname, fn.lineno, "no return")
    rt, rline = ret
    PERt = sy.env['periods']
    if ident(PERt, pyname, '') != ('param', 'periods'):
        raise Untranslatable(pyname, rline, "periods is not a plain conversion of the parameter")
    leaves = {('param', 'periods'): ('arr', 'periods'), ('param', 'motion'): ('arr', 'motion'), ('param', 'dt'): ('scal', 'dt'),
              ('param', 'xi'): ('scal', 'xi'),
              ('sub', PERt, (('i', ('lit', '0')),)): ('scal', 'p0'),
              '__index0__': (('p0', ('sub', PERt, (('i', ('lit', '0')),))),)}
    nj_idx = [k for k, (c, _) in enumerate(sy.effects) if c[1] == NJ]
    if len(nj_idx) != 1:
        raise Untranslatable(pyname, fn.lineno, f"expected exactly one call of {NJ}")

    def effkind(k):
        c, line = sy.effects[k]
        if c[1] == NJ:
            return ('triple', f"r{k}")
        kws = dict(c[3])
        if c[1] == 'absmax' and len(c[2]) == 1 and kws == {'axis': ('lit', '1')}:
            return ('arr', f"r{k}")
        if c[1] == 'absmax' and len(c[2]) == 1 and not kws:
            return ('scal', f"r{k}")
        raise Untranslatable(pyname, line, f"call {show(c)}")
    pr = ArrP(sy, pyname, leaves, effkind)
    body = []
    for k, (c, line) in enumerate(sy.effects):
        if c[1] == NJ:
            if c[3] or len(c[2]) != 4:
                raise Untranslatable(pyname, line, f"{NJ} must be called with four positional arguments")
            args = []
            for a, want in zip(c[2], ('arr', 'scal', 'arr', 'scal')):
                ka, ta = pr.tr(a)
                if ka != want:
                    raise Untranslatable(pyname, line, f"argument kind of {NJ}: {show(a)}")
                args.append(ta)
            body += [f"  match resp {' '.join(args)} with", "  | .error e => .error e", f"  | .ok r{k} =>"]
        else:
            kind, _ = effkind(k)
            ka, ta = pr.tr(c[2][0])
            if kind == 'arr':
                if ka != 'mat':
                    raise Untranslatable(pyname, line, "absmax(…, axis=1) of something that is not a response array")
                body += [f"  match rowsAbsmax {ta} with", "  | .error e => .error e", f"  | .ok r{k} =>"]
            else:
                if ka != 'arr':
                    raise Untranslatable(pyname, line, "absmax(…) of something that is not a 1-D array")
                body += [f"  match absmaxL {ta} with", "  | none => .error .ValueError", f"  | some r{k} =>"]
    if rt[0] == 'eff' and sy.effects[rt[1]][0][1] == NJ and len(sy.effects) == 1:
        body = body[:-2] if False else body
        out = f"  .ok r{rt[1]}"
        rtype = "Except ErrKind (List (List α) × List (List α) × List (List α))"
    else:
        if rt[0] != 'list' or len(rt[1]) != 3:
            raise Untranslatable(pyname, rline, "return is not a triple")
        comps = []
        for x in rt[1]:
            k, txt = pr.tr(x)
            if k != 'arr':
                raise Untranslatable(pyname, rline, f"returned value {show(x)} is not a 1-D array")
            comps.append(strip_outer(txt))
        out = "  .ok (" + ",\n       ".join(comps) + ")"
        rtype = "Except ErrKind (List α × List α × List α)"
    uses_p0 = any('p0' in l for l in body) or 'p0' in out
    head = []
    if uses_p0:
        if index0 is None:
            raise Untranslatable(pyname, fn.lineno, "periods[0] outside the leading if statement")
        head = ["  match periods with", "  | [] => .error .IndexError", "  | p0 :: _ =>"]
    uses_pi = 'pi' in (out + ' '.join(body)).replace('(', ' ').replace(')', ' ').split()
    sig = f"def {lname} {'(pi : α) ' if uses_pi else ''}(resp : Resp α) (motion : List α) (dt : α) (periods : List α) (xi : α) :\n    {rtype} :="
    doc = f"/-- `{pyname}(motion, dt, periods, xi)`; `resp` is `{NJ}` (arguments in the order of the source);\nevery call that may raise is one `match` layer, in program order -/"
    return "\n".join([doc, sig] + head + body + [out]), pr.int_lits, pr.scientific, uses_pi


def gen_sdof_spectra(repo, ns):
    src = open(os.path.join(repo, 'eqsig', 'sdof.py')).read()
    mod = ast.parse(src)
    nj = find_function(mod, NJ)
    nj_params = [a.arg for a in nj.args.args]
    if nj_params != ['acc', 'dt', 'periods', 'xi']:
        raise Untranslatable(NJ, nj.lineno, f"parameters {nj_params}")
    defs, ints, sci = [], {0}, False
    for pyname, lname in (('pseudo_response_spectra', 'pseudoResponseSpectra'), ('true_response_spectra', 'trueResponseSpectra'),
                          ('response_series', 'responseSeries')):
        d, i, s_, _ = spectra_fn(src, mod, pyname, lname, nj_params)
        defs.append(d)
        ints |= i
        sci = sci or s_
    classes = " ".join(f"[OfNat α {n}]" for n in sorted(ints)) + (" [OfScientific α]" if sci else "")
    L = [f"-- GENERATED by tools/py2lean_x_sdof.py from eqsig/sdof.py (pseudo_response_spectra, true_response_spectra, response_series). Do not edit.",
         "import EqsigVerif.Prelude.Np", "import EqsigVerif.Prelude.Wire", "import EqsigVerif.Model.SpectraFns", "import EqsigVerif.Model.SdofLoopGen", "",
         f"namespace EqsigVerif.{ns}.SdofSpectra", "open EqsigVerif", "open EqsigVerif.Wire (ErrKind)",
         "open EqsigVerif.Model.SpectraFns (rowsAbsmax absmaxL)", "open EqsigVerif.Model.SdofLoopGen (setRowsFrom)", "",
         "variable {α : Type} [LT α] [DecidableLT α] [Neg α] [Add α] [Sub α] [Mul α] [Div α] [DecidableEq α]", f"  {classes}", "",
         f"/-- the type of `{NJ}(acc, dt, periods, xi)` as a parameter: `(resp_u, resp_v, sdof_acc)` or the exception raised -/",
         "abbrev Resp (α : Type) := List α → α → List α → α → Except ErrKind (List (List α) × List (List α) × List (List α))", ""]
    L += ["\n\n".join(defs), "", f"end EqsigVerif.{ns}.SdofSpectra", ""]
    return {"SdofSpectra.lean": "\n".join(L)}


# ----------------------------------------------------------------------------------------------
# target 3: eqsig/displacements.py
# ----------------------------------------------------------------------------------------------

CVD = 'calc_velo_and_disp_from_accel_arr'
VDA = 'velocity_and_displacement_from_acceleration'


def bool_default(fn, fname):
    params = [a.arg for a in fn.args.args]
    if params != ['acceleration', 'dt', 'trap'] or fn.args.vararg or fn.args.kwarg or fn.args.kwonlyargs or len(fn.args.defaults) != 1:
        raise Untranslatable(fname, fn.lineno, f"parameters {params}")
    d = fn.args.defaults[0]
    if not (isinstance(d, ast.Constant) and isinstance(d.value, bool)):
        raise Untranslatable(fname, fn.lineno, "default of trap is not a bool literal")
    return 'true' if d.value else 'false'


def gen_displ(repo, ns):
    src = open(os.path.join(repo, 'eqsig', 'displacements.py')).read()
    mod = ast.parse(src)
    fn = find_function(mod, CVD)
    dflt = bool_default(fn, CVD)
    sy = Sym(CVD, src, ['acceleration', 'dt', 'trap'])
    ret = None
    for st in body_of(fn):
        if ret is not None:
            sy.fail(st, 'statement after return')
        if isinstance(st, ast.ImportFrom):
            if not (st.module == 'scipy.integrate' and [a.name for a in st.names] == ['cumulative_trapezoid'] and st.names[0].asname is None):
                sy.fail(st, 'import')
        elif isinstance(st, ast.Assign):
            sy.assign(st)
        elif isinstance(st, ast.Expr):
            inplace_call(sy, st)
        elif isinstance(st, ast.If):
            run_if(sy, st, allowed=(ast.Assign, ast.Expr))
        elif isinstance(st, ast.Return) and st.value is not None:
            ret = (sy.ev(st.value), st.lineno)
        else:
            sy.fail(st, 'statement ' + type(st).__name__)
    if ret is None or ret[0][0] != 'list' or len(ret[0][1]) != 2:
        raise Untranslatable(CVD, fn.lineno, "return is not a pair")
    leaves = {('param', 'acceleration'): ('arr', 'acceleration'), ('param', 'dt'): ('scal', 'dt'), ('param', 'trap'): ('bool', 'trap')}
    pr = ArrP(sy, CVD, leaves, lambda k: (_ for _ in ()).throw(Untranslatable(CVD, 0, 'effect')))
    comps = []
    for x in ret[0][1]:
        k, txt = pr.tr(x)
        if k != 'arr':
            raise Untranslatable(CVD, ret[1], f"returned value {show(x)} is not a 1-D array")
        comps.append(strip_outer(txt))
    if pr.int_lits - {0, 1} or pr.scientific:
        raise Untranslatable(CVD, fn.lineno, f"numeric literals {sorted(pr.int_lits)}")
    # wrapper
    wf = find_function(mod, VDA)
    wdflt = bool_default(wf, VDA)
    wb = body_of(wf)
    if len(wb) != 1 or not isinstance(wb[0], ast.Return) or wb[0].value is None:
        raise Untranslatable(VDA, wf.lineno, "body is not a single return")
    ws = Sym(VDA, src, ['acceleration', 'dt', 'trap'])
    c = ws.ev(wb[0].value)
    if not (c[0] == 'call' and c[1] == CVD):
        raise Untranslatable(VDA, wb[0].lineno, f"does not return a call of {CVD}")
    names = ['acceleration', 'dt', 'trap']
    bound = dict(zip(names, c[2]))
    for k, v in c[3]:
        if k in bound or k not in names:
            raise Untranslatable(VDA, wb[0].lineno, f"keyword {k}")
        bound[k] = v
    wargs = []
    for n in names:
        if n not in bound:
            wargs.append(f"({dflt} : Bool)" if n == 'trap' else None)
            if wargs[-1] is None:
                raise Untranslatable(VDA, wb[0].lineno, f"argument {n} missing")
        elif bound[n][0] == 'param':
            wargs.append(bound[n][1])
        elif bound[n][0] == 'bool':
            wargs.append('true' if bound[n][1] else 'false')
        else:
            raise Untranslatable(VDA, wb[0].lineno, f"argument {show(bound[n])}")
    L = ["-- GENERATED by tools/py2lean_x_sdof.py from eqsig/displacements.py. Do not edit.",
         "import EqsigVerif.Prelude.Np", "import EqsigVerif.Model.SdofLoopGen", "",
         f"namespace EqsigVerif.{ns}.Displ", "open EqsigVerif", "open EqsigVerif.Model.SdofLoopGen (setRowsFrom)", "",
         "variable {α : Type} [Add α] [Mul α] [Div α] [OfNat α 0] [OfNat α 2]", "",
         f"/-- `{CVD}(acceleration, dt, trap)`: `(velocity, displacement)`; an in-place `np.cumsum(x, out=x)` is the rebinding",
         "`x := Np.cumsum x`, `x[1:] = v` on `np.zeros(n + 1)` is `setRowsFrom 1`, `x[:-1]` is `dropLast` -/",
         "def calcVeloDisp (acceleration : List α) (dt : α) (trap : Bool) : List α × List α :=",
         f"  ({comps[0]},", f"   {comps[1]})", "",
         f"/-- default of the parameter `trap` of `{CVD}` -/", f"def calcVeloDispTrapDefault : Bool := {dflt}", "",
         f"/-- `{VDA}(acceleration, dt, trap)`: the forwarded call -/",
         "def velocityAndDisplacement (acceleration : List α) (dt : α) (trap : Bool) : List α × List α :=",
         f"  calcVeloDisp {' '.join(wargs)}", "",
         f"/-- default of the parameter `trap` of `{VDA}` -/", f"def velocityAndDisplacementTrapDefault : Bool := {wdflt}", "",
         f"end EqsigVerif.{ns}.Displ", ""]
    return {"Displ.lean": "\n".join(L)}


TARGETS = [gen_sdof_loop, gen_sdof_spectra, gen_displ]
