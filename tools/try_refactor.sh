#!/bin/bash
# (maintenance) tools/try_refactor.sh <patch> <props…>: applies a BEHAVIOUR-PRESERVING rewrite to /repo, confirms the suite passes, runs
# the checks of the given properties (they should stay quiet, or report a broken tie with no-failing-input-found), reverts /repo.
PATCH=$1; shift
cd /repo && git apply $PATCH || { echo "cannot apply"; exit 2; }
T=$(PYTHONPATH=/repo /venv/bin/python -m pytest -q -p no:cacheprovider 2>&1 | tail -1); echo "  suite: $T"
cd /verif
for P in "$@"; do
  OUT=$(./check $P 2>&1 | grep -v "^KNOWN-FINDING" | tail -2 | tr '\n' ' ' | cut -c1-330)
  echo "  check $P: $OUT"
  python3 - $P <<'PY'
import json,sys
e=json.load(open('/verif/evidence/%s.json'%sys.argv[1]))['coverage']
if e.get('untranslatable') or e.get('translator_fallback'): print('    untranslatable:', [ (u.get('target'),u.get('function'),u.get('construct')) for u in e.get('untranslatable',[])], 'fallback:', e.get('translator_fallback'))
PY
done
git -C /repo checkout -q -- . ; git -C /repo clean -qfd eqsig
git -C /repo status --short | head -3
