#!/bin/bash
# (maintenance) tools/try_refactors_par.sh [workers=6]: re-run every archived behaviour-preserving rewrite (refactors/<k>/patch.diff) against the
# CURRENT checks without touching /repo or /verif/lean (private copies, EQSIG_REPO); the properties per rewrite come from refactors/PROPS.txt.
# A rewrite whose patch no longer applies to the current /repo (later fix: commits) is reported as SKIP.  -> refactors/RERUN.md
W=${1:-6}
cd /verif
rm -rf /tmp/rf_out; mkdir -p /tmp/rf_out
grep -v '^#' refactors/PROPS.txt > /tmp/rf_todo.txt
for w in $(seq 1 $W); do
  (
    V=/tmp/rfp_$$_$w; rm -rf $V; mkdir -p $V
    rsync -a --exclude .git --exclude incoming --exclude seeded --exclude replays --exclude design-evidence /verif/ $V/verif/
    awk -v w=$w -v W=$W 'NR % W == w % W' /tmp/rf_todo.txt | while read k props; do
      S=$V/lib; rm -rf $S; mkdir -p $S; cp -r /repo/eqsig /repo/tests $S/
      if ! (cd $S && patch -p1 -s < /verif/refactors/$k/patch.diff >/dev/null 2>&1); then echo "$k SKIP patch does not apply to the current tree" > /tmp/rf_out/$k; continue; fi
      T=$(cd $S && PYTHONPATH=$S /venv/bin/python -m pytest -q -p no:cacheprovider 2>&1 | tail -1)
      line="$k suite=[$T]"
      for P in $props; do
        OUT=$(cd $V/verif && EQSIG_REPO=$S ./check $P 2>&1 | grep -v "^KNOWN-FINDING")
        if echo "$OUT" | grep -q "no-failing-input-found"; then r=NOFAIL; elif echo "$OUT" | grep -q "^VIOLATION"; then r=ALARM; elif echo "$OUT" | grep -q -- "-> ok"; then r=quiet; else r=ERROR; fi
        esc=$(python3 -c "
import json
try:
    c=json.load(open('$V/verif/.work/evidence_scratch/$P.json'))['coverage']; print('escalated' if c.get('escalated') else 'not-escalated', 'untranslatable=%d' % len(c.get('untranslatable',[])))
except Exception as e: print('?')")
        line="$line | $P $r ($esc; $(echo "$OUT" | tail -1 | grep -o 'wall=[0-9.]*s'))"
      done
      echo "$line" > /tmp/rf_out/$k
    done
    rm -rf $V
  ) &
done
wait
{ echo "# Re-run of the archived behaviour-preserving rewrites against the current checks ($(date -u +%F\ %H:%MZ), quick tier with escalation)"; echo; for k in $(cut -d' ' -f1 /tmp/rf_todo.txt); do echo "* $(cat /tmp/rf_out/$k 2>/dev/null)"; done; } > refactors/RERUN.md
cat refactors/RERUN.md | tail -30
