#!/usr/bin/env python3
"""py2lean_x_freq2 — plug-in of tools/py2lean.py: the Fourier / smoothing leftovers of C06 and C07.

  Gen/FreqMoments.lean   eqsig/fns/frequency.py: calc_fourier_moment, get_bandwidth_boore_2003, fas2signal           (C06)
  Gen/SmoothFreqs.lean   eqsig/fns/frequency.py: get_sig_freq_range, generate_smooth_fa_spectrum (deprecated alias);
                         eqsig/single.py: Signal.set_smooth_fa_frequecies_by_range, the smooth_freq_range / smooth_freq_points
                         properties and setters, smooth_fa_freqs / smooth_fa_frequencies (getters, setters), gen_smooth_fa_spectrum,
                         generate_smooth_fa_spectrum, the constructor's default smoothing grid                            (C07)

Engine: the symbolic executor `SymExec` of tools/py2lean_x_freq.py (one `Except ErrKind` `do` block per function, one fixed Lean
rendering per (operator, kinds) and per call, `Untranslatable` for everything else), EXTENDED here by a subclass with the rules these
functions need.  A PRIVATE copy of that module is loaded (importlib, another module name), so the tables patched here (`LEAN_TYPE`,
`CLASS_ORDER`, the class `SymExec` used by `translate_function`) never affect the plug-in `py2lean_x_freq` itself.

New rules (all others are inherited):
  np.pi                         ↦ the parameter `pi`
  <real> * <real array>         ↦ `(x.map (fun w => c * w))`
  <real array> ** <int>         ↦ `(x.map (fun w => NpF.powN w n))`              (NpF.powN: `np.power(x, n)`, n >= 0)
  <complex array> ** 2          ↦ `(z.map (fun z => z * z))`                     (any other exponent: Untranslatable)
  <real array> * <complex arr.> ↦ `let eK ← NpF.zipBE (fun r z => CxLike.ofReal r * z) x z`   (1-D broadcasting, ValueError)
  np.trapz(y, x=x)              ↦ `let _ ← NpF.attrE hasTrapz` (the attribute lookup, BEFORE the arguments are evaluated) and
                                  `let eK ← NpF.trapzE (CxLike.ofReal (2 : α)) y (x.map CxLike.ofReal)`
  <int literal> * <complex>     ↦ `(CxLike.ofReal (k : α) * z)`;   <complex> ** 2 ↦ `(z * z)`;   complex * and /;   np.sqrt(<complex>) ↦ `(csqrt z)`
  calc_fourier_moment(asig, k)  ↦ `let eK ← moment k`   (first argument must be the function's own parameter)
  Signal(s, dt) / AccSignal(s, dt) (imported by `from eqsig.single import …` inside the function) ↦ `(SigClass.<cls>, s, dt)`
  get_sig_array_indexes_range(x, ratio=r) ↦ `let eK ← idxRange x r` (keywords resolved against the callee's signature in the source)
  np.take(x, <index pair>)      ↦ `let eK ← NpF.takeE x [p.1, p.2]`
  calc_smooth_fa_spectrum(…)    ↦ `let eK ← calcSmooth f A sm band` (positional + keyword arguments resolved against the callee's signature)
  np.log10(<real array>)        ↦ `(x.map log10)`;  np.log10(<the smooth_freq_range property>) ↦ `[log10 first, log10 last]` after `getE`/`lastE`
  np.logspace(a, b, n, base=10) ↦ `(NpF.logspace pow10 a b n)`;   np.array(x, dtype=float) ↦ x;   deprecation('<text>') ↦ nothing
  `pass` ↦ nothing; statements after an executed `return` (in a flag-resolved branch) are dead and skipped
  reads of `self.smooth_fa_freqs` / `self.smooth_fa_frequencies` / `self._smooth_fa_freqs` ↦ the current value of `self._smooth_fa_freqs` (both getters are pattern-checked)
"""
import ast
import importlib.util
import os
import sys

_here = os.path.dirname(os.path.abspath(__file__))
_spec = importlib.util.spec_from_file_location('_py2lean_x_freq_private_copy_for_freq2', os.path.join(_here, 'py2lean_x_freq.py'))
F = importlib.util.module_from_spec(_spec)
sys.modules[_spec.name] = F
_spec.loader.exec_module(F)

Untranslatable = F.Untranslatable
V = F.V

F.LEAN_TYPE.update({'sigobj': 'SigClass × List β × α', 'natpair': 'Nat × Nat'})
F.CLASS_ORDER[:] = ['[Add β]', '[Sub β]', '[Mul β]', '[Div β]', '[OfNat β 0]', '[Add α]', '[Sub α]', '[Mul α]', '[Div α]', '[Neg α]',
                    '[NatCast α]', '[OfNat α 0]', '[OfNat α 1]', '[OfNat α 2]', '[OfScientific α]', '[LT α]', '[DecidableLT α]', '[LE α]',
                    '[DecidableLE α]', '[BEq α]', '[CxLike α β]']

SIG_CLASSES = {'Signal': 'signal', 'AccSignal': 'accSignal'}
FREQ_ALIASES = {'smooth_fa_freqs': '_smooth_fa_freqs', 'smooth_fa_frequencies': '_smooth_fa_freqs', '_smooth_fa_freqs': '_smooth_fa_freqs'}


def callee_params(mod, name, fname, node):
    """(parameter names, defaults) of a module-level function of the same source file"""
    fn = F.find_function(mod, name)
    return F.py_params(fn, name)


def bind_call_args(ex, e, names, defaults):
    """positional + keyword arguments of the call `e` against the callee's parameter list -> {param: ast or None}"""
    if len(e.args) > len(names):
        ex.fail(e, 'too many positional arguments')
    got = dict(zip(names, e.args))
    for k in e.keywords:
        if k.arg is None or k.arg not in names or k.arg in got:
            ex.fail(e, f"keyword argument {k.arg}")
        got[k.arg] = k.value
    for p in names:
        if p not in got and p not in defaults:
            ex.fail(e, f"missing argument {p}")
    return got


_Base = F.SymExec


class SymExec2(_Base):
    def __init__(self, fname, src, sig, flags):
        super().__init__(fname, src, sig, flags)
        self.imported = set()
        for attr, (k, t) in sig.get('initial_outputs', {}).items():
            self.outputs[attr] = V(k, t)

    # -- expressions ---------------------------------------------------------------------------
    def tr(self, e):
        if isinstance(e, ast.Attribute):
            if isinstance(e.value, ast.Name) and e.value.id == 'np' and e.attr == 'pi':
                if 'pi' not in self.sig.get('np_consts', ()):
                    self.fail(e, 'np.pi')
                return V('real', 'pi')
            if isinstance(e.value, ast.Name) and e.value.id == 'self' and e.attr in self.sig.get('aliases', {}):
                tgt = self.sig['aliases'][e.attr]
                if tgt in self.outputs:
                    return self.outputs[tgt]
                self.fail(e, f"self.{e.attr} before self.{tgt} is known")
        return super().tr(e)

    def tr_binop(self, e):
        op = type(e.op)
        l, r = self.tr(e.left), self.tr(e.right)
        k = (l.kind, r.kind)
        if k == ('real', 'rarr') and op is ast.Mult:
            self.need('[Mul α]')
            return V('rarr', f"({r.text}.map (fun w => {l.text} * w))")
        if l.kind == 'rarr' and r.kind == 'nat' and op is ast.Pow:
            self.need('[Mul α]', '[OfNat α 1]')
            return V('rarr', f"({l.text}.map (fun w => NpF.powN w {r.text}))")
        if l.kind == 'carr' and op is ast.Pow:
            if r.kind == 'nat' and r.aux == 'lit' and r.text == '2':
                self.need('[Mul β]')
                return V('carr', f"({l.text}.map (fun z => z * z))")
            self.fail(e, 'power of a complex array with an exponent other than the literal 2')
        if k == ('rarr', 'carr') and op is ast.Mult:
            self.need('[Mul β]', '[CxLike α β]')
            return self.bind(f"NpF.zipBE (fun r z => CxLike.ofReal r * z) {l.text} {r.text}", 'carr')
        if k == ('nat', 'cx') and l.aux == 'lit' and op is ast.Mult:
            self.need('[Mul β]', '[CxLike α β]', f'[OfNat α {l.text}]')
            return V('cx', f"(CxLike.ofReal ({l.text} : α) * {r.text})")
        if l.kind == 'cx' and op is ast.Pow:
            if r.kind == 'nat' and r.aux == 'lit' and r.text == '2':
                self.need('[Mul β]')
                return V('cx', f"({l.text} * {l.text})")
            self.fail(e, 'power of a complex scalar with an exponent other than the literal 2')
        if k == ('cx', 'cx') and op in (ast.Mult, ast.Div):
            self.need('[Mul β]' if op is ast.Mult else '[Div β]')
            return V('cx', f"({l.text} {'*' if op is ast.Mult else '/'} {r.text})")
        # everything else: the inherited table (it re-translates the operands: no bind may have happened above)
        if 'cx' in k or (k[0] in ('rarr', 'carr') and op is ast.Pow):
            self.fail(e, f"operator on kinds {k}")
        return self._binop_from(e, l, r)

    def _binop_from(self, e, l, r):
        """the inherited operator table on already translated operands (operands are translated exactly once: translation may bind)"""
        saved = self.tr
        vals = {id(e.left): l, id(e.right): r}
        self.tr = lambda n: vals[id(n)] if id(n) in vals else saved(n)
        try:
            return _Base.tr_binop(self, e)
        finally:
            self.tr = saved

    def tr_subscript(self, e):
        return super().tr_subscript(e)

    def tr_call(self, e):
        name = self.np_name(e.func)
        kw = {k.arg: k.value for k in e.keywords}
        a = e.args
        if name == 'np.trapz' and len(a) == 1 and set(kw) == {'x'}:
            if 'hasTrapz' not in self.sig.get('np_consts', ()):
                self.fail(e, 'np.trapz')
            self.lines.append("let _ ← NpF.attrE hasTrapz")          # attribute lookup precedes the evaluation of the arguments
            y = self.tr(a[0])
            x = self.tr(kw['x'])
            if y.kind != 'carr' or x.kind != 'rarr':
                self.fail(e, f"np.trapz on kinds ({y.kind}, {x.kind})")
            self.need('[Add β]', '[Sub β]', '[Mul β]', '[Div β]', '[OfNat β 0]', '[CxLike α β]', '[OfNat α 2]')
            return self.bind(f"NpF.trapzE (CxLike.ofReal (2 : α)) {y.text} ({x.text}.map CxLike.ofReal)", 'cx')
        if name == 'np.sqrt' and len(a) == 1 and not kw:
            z = self.tr(a[0])
            if z.kind == 'cx':
                return V("cx", f"(csqrt {z.text})")
            self.fail(e, 'np.sqrt')
        if name == 'calc_fourier_moment' and len(a) == 2 and not kw and 'moment' in self.sig.get('calls', ()):
            if not (isinstance(a[0], ast.Name) and a[0].id in self.env and self.env[a[0].id].kind == 'obj' and a[0].id == self.sig['calls']['moment']):
                self.fail(e, 'calc_fourier_moment: first argument is not the object this function was called with')
            kk = self.tr(a[1])
            if kk.kind != 'nat':
                self.fail(e, 'calc_fourier_moment: order')
            return self.bind(f"moment {kk.text}", 'cx')
        if name in SIG_CLASSES and len(a) == 2 and not kw:
            if name not in self.imported:
                self.fail(e, f"{name} is not imported from eqsig.single in this function")
            s, dt = self.tr(a[0]), self.tr(a[1])
            if (s.kind, dt.kind) != ('carr', 'real'):
                self.fail(e, f"{name}(values, dt) on kinds ({s.kind}, {dt.kind})")
            return V('sigobj', f"(SigClass.{SIG_CLASSES[name]}, {s.text}, {dt.text})")
        if name == 'get_sig_array_indexes_range' and 'idxRange' in self.sig.get('calls', ()):
            names, dflt = self.sig['calls']['idxRange']
            got = bind_call_args(self, e, names, dflt)
            if names != ['fas1_smooth', 'ratio'] or set(got) != {'fas1_smooth', 'ratio'}:
                self.fail(e, 'get_sig_array_indexes_range: signature / arguments')
            x, r = self.tr(got['fas1_smooth']), self.tr(got['ratio'])
            if x.kind != 'rarr' or r.kind not in ('real', 'nat'):
                self.fail(e, 'get_sig_array_indexes_range: argument kinds')
            return self.bind(f"idxRange {x.text} {self.as_real(r, e)}", 'natpair')
        if name == 'np.take' and len(a) == 2 and not kw:
            x, p = self.tr(a[0]), self.tr(a[1])
            if x.kind == 'rarr' and p.kind == 'natpair':
                return self.bind(f"NpF.takeE {x.text} [{p.text}.1, {p.text}.2]", 'rarr')
            self.fail(e, 'np.take')
        if name == 'calc_smooth_fa_spectrum' and 'calcSmooth' in self.sig.get('calls', ()):
            names, dflt = self.sig['calls']['calcSmooth']
            got = bind_call_args(self, e, names, dflt)
            if names != ['fa_frequencies', 'fa_spectrum', 'smooth_fa_frequencies', 'band'] or set(got) != set(names):
                self.fail(e, 'calc_smooth_fa_spectrum: signature / arguments')
            f, A, sm, b = (self.tr(got[p]) for p in names)
            if f.kind != 'rarr' or A.kind != 'rarr' or sm.kind not in ('rarr', 'none') or b.kind not in ('real', 'nat'):
                self.fail(e, 'calc_smooth_fa_spectrum: argument kinds')
            smt = 'none' if sm.kind == 'none' else f"(some {sm.text})"
            return self.bind(f"calcSmooth {f.text} {A.text} {smt} {self.as_real(b, e)}", 'rarr')
        if name == 'np.log10' and len(a) == 1 and not kw:
            x = self.tr(a[0])
            if x.kind == 'rarr':
                return V('rarr', f"({x.text}.map log10)")
            if x.kind == 'rangeprop':
                first = self.bind(f"NpE.getE {x.text} 0", 'real')
                last = self.bind(f"NpE.lastE {x.text}", 'real')
                return V('rarr', f"[log10 {first.text}, log10 {last.text}]")
            self.fail(e, 'np.log10')
        if name == 'np.logspace' and len(a) == 3 and set(kw) == {'base'}:
            if not (isinstance(kw['base'], ast.Constant) and kw['base'].value == 10 and not isinstance(kw['base'].value, bool)):
                self.fail(e, 'np.logspace base')
            lo, hi, n = (self.tr(x) for x in a)
            if lo.kind != 'real' or hi.kind != 'real' or n.kind != 'nat':
                self.fail(e, 'np.logspace argument kinds')
            self.need('[Add α]', '[Sub α]', '[Mul α]', '[Div α]', '[NatCast α]', '[BEq α]', '[OfNat α 0]')
            return V('rarr', f"(NpF.logspace pow10 {lo.text} {hi.text} {n.text})")
        if name == 'np.array' and len(a) == 1 and set(kw) == {'dtype'} and isinstance(kw['dtype'], ast.Name) and kw['dtype'].id == 'float':
            v = self.tr(a[0])
            if v.kind == 'rarr':
                return v
            self.fail(e, 'np.array(dtype=float)')
        return super().tr_call(e)

    # -- statements ----------------------------------------------------------------------------
    def run(self, body, top=True):
        for st in body:
            if self.returned is not None:
                return                       # Python never executes what follows an executed `return` (flag-resolved `if c: return …`)
            self.stmt(st)

    def stmt(self, st):
        if isinstance(st, ast.Pass):
            return
        if isinstance(st, ast.ImportFrom):
            if st.module == 'eqsig.single' and st.level == 0 and all(x.name in SIG_CLASSES and x.asname is None for x in st.names):
                self.imported |= {x.name for x in st.names}
                return
            self.fail(st, 'import')
        if isinstance(st, ast.Expr) and isinstance(st.value, ast.Call) and isinstance(st.value.func, ast.Name) and st.value.func.id == 'deprecation':
            c = st.value
            if len(c.args) == 1 and not c.keywords and isinstance(c.args[0], ast.Constant) and isinstance(c.args[0].value, str):
                return                       # a warning: no effect on values
            self.fail(st, 'deprecation(...)')
        if isinstance(st, ast.Assign) and len(st.targets) == 1 and isinstance(st.targets[0], ast.Attribute) and \
                isinstance(st.targets[0].value, ast.Name) and st.targets[0].value.id == 'self' and st.targets[0].attr in self.sig.get('setter_stores', {}):
            # `self.smooth_fa_freqs = X`: the property setter (pattern-checked separately) stores np.array(X, dtype=float)
            self.outputs[self.sig['setter_stores'][st.targets[0].attr]] = self.tr(st.value)
            return
        return super().stmt(st)


F.SymExec = SymExec2        # in the PRIVATE copy only: its translate_function instantiates this class


# ----------------------------------------------------------------------------------------------
# small pattern checks
# ----------------------------------------------------------------------------------------------

def body_of(fn):
    return [s for s in fn.body if not (isinstance(s, ast.Expr) and isinstance(s.value, ast.Constant) and isinstance(s.value.value, str))]


def find_method(mod, cls, name, role):
    """role: 'getter' (decorated @property), 'setter' (decorated @<name>.setter), 'plain' (no decorator)"""
    for n in mod.body:
        if isinstance(n, ast.ClassDef) and n.name == cls:
            found = []
            for m in n.body:
                if isinstance(m, ast.FunctionDef) and m.name == name:
                    decs = m.decorator_list
                    if role == 'plain' and not decs:
                        found.append(m)
                    if role == 'getter' and len(decs) == 1 and isinstance(decs[0], ast.Name) and decs[0].id == 'property':
                        found.append(m)
                    if role == 'setter' and len(decs) == 1 and isinstance(decs[0], ast.Attribute) and decs[0].attr == 'setter' and \
                            isinstance(decs[0].value, ast.Name) and decs[0].value.id == name:
                        found.append(m)
            if len(found) != 1:
                raise Untranslatable(f"{cls}.{name}", 0, f"{len(found)} definitions with role {role}")
            return found[0]
    raise Untranslatable(f"{cls}.{name}", 0, "class not found")


def is_self_attr(n, attr):
    return isinstance(n, ast.Attribute) and n.attr == attr and isinstance(n.value, ast.Name) and n.value.id == 'self'


def check_plain_getter(mod, cls, prop, attr):
    fn = find_method(mod, cls, prop, 'getter')
    b = body_of(fn)
    if not (len(b) == 1 and isinstance(b[0], ast.Return) and is_self_attr(b[0].value, attr) and [x.arg for x in fn.args.args] == ['self']):
        raise Untranslatable(f"{cls}.{prop}", fn.lineno, f"getter is not `return self.{attr}`")


def num_const(n, fname):
    if isinstance(n, ast.Constant) and isinstance(n.value, (int, float)) and not isinstance(n.value, bool):
        return n
    raise Untranslatable(fname, getattr(n, 'lineno', 0), 'numeric constant expected')


HEADER = ["set_option linter.unusedVariables false", ""]


# ----------------------------------------------------------------------------------------------
# target 1: Gen/FreqMoments.lean (C06)
# ----------------------------------------------------------------------------------------------

def gen_freq_moments(repo, ns):
    fsrc = open(os.path.join(repo, 'eqsig', 'fns', 'frequency.py')).read()
    fmod = ast.parse(fsrc)
    defs = []
    # ---- calc_fourier_moment(asig, n)
    fn = F.find_function(fmod, 'calc_fourier_moment')
    sig = dict(qualname='calc_fourier_moment', np_consts=('pi', 'hasTrapz'), extra_binders=['(hasTrapz : Bool)', '(pi : α)'],
               params={'asig': ('obj', {'fa_frequencies': ('rarr', 'freqs'), 'fa_spectrum': ('carr', 'fas')}, ['(freqs : List α)', '(fas : List β)']),
                       'n': ('nat', 'n')})
    t, info = F.translate_function(fn, fsrc, sig, 'calcFourierMoment',
                                   '`eqsig.fns.frequency.calc_fourier_moment(asig, n)` on `(asig.fa_frequencies, asig.fa_spectrum)`, `n` a '
                                   'non-negative integer; `hasTrapz`: the installed NumPy has `np.trapz`; `pi` = `np.pi`', 'return')
    if info['defaults']:
        raise Untranslatable('calc_fourier_moment', fn.lineno, 'unexpected default values')
    defs.append(t)
    # ---- get_bandwidth_boore_2003(asig)
    fn = F.find_function(fmod, 'get_bandwidth_boore_2003')
    sig = dict(qualname='get_bandwidth_boore_2003', calls={'moment': 'asig'}, extra_binders=['(moment : Nat → Except ErrKind β)', '(csqrt : β → β)'],
               params={'asig': ('obj', {}, [])})
    t, info = F.translate_function(fn, fsrc, sig, 'getBandwidthBoore2003',
                                   '`eqsig.fns.frequency.get_bandwidth_boore_2003(asig)`; `moment k` = `calc_fourier_moment(asig, k)` (the calls are '
                                   'checked to pass the same object), `csqrt` = `np.sqrt` on the moments\' number type', 'return')
    defs.append(t)
    # ---- fas2signal(fas, dt, stype="signal")
    fn = F.find_function(fmod, 'fas2signal')
    sig = dict(qualname='fas2signal', params={'fas': ('carr', 'fas'), 'dt': ('real', 'dt'), 'stype': ('str', 'stype', 'SType')})
    t, info = F.translate_function(fn, fsrc, sig, 'fas2signal', '`eqsig.fns.frequency.fas2signal(fas, dt, stype)`: the class instantiated and its constructor '
                                   'arguments `(values, dt)`; `stype` by the string literals the code compares it with', 'return')
    lits = info['str_domains']['stype']
    d = info['defaults'].get('stype')
    if set(info['defaults']) != {'stype'} or not (isinstance(d, ast.Constant) and isinstance(d.value, str)):
        raise Untranslatable('fas2signal', fn.lineno, 'default of stype')
    dlit = d.value if d.value in lits else None
    defs.append("/-- the classes `fas2signal` can instantiate -/\ninductive SigClass | " + " | ".join(sorted(set(SIG_CLASSES.values()), reverse=True)) +
                "\n  deriving Repr, DecidableEq, Inhabited")
    defs.append("/-- the values of `stype` the code of `fas2signal` distinguishes: the string literals it compares `stype` with, in source order, and "
                "`other` -/\ninductive SType | " + " | ".join(x if x is not None else 'other' for x in lits) + "\n  deriving Repr, DecidableEq, Inhabited")
    defs.append(f"/-- default of `stype` -/\ndef fas2signalDefaultStype : SType := .{dlit if dlit is not None else 'other'}")
    defs.append(t)
    text = ["-- GENERATED by tools/py2lean_x_freq2.py from eqsig/fns/frequency.py (calc_fourier_moment, get_bandwidth_boore_2003, fas2signal).",
            "-- Do not edit.", "import EqsigVerif.Prelude.NpE", "import EqsigVerif.Prelude.NpF", ""] + HEADER + [f"namespace EqsigVerif.{ns}.FreqMoments",
            "open EqsigVerif EqsigVerif.Wire EqsigVerif.Cplx", ""] + ["\n\n".join(defs)] + ["", f"end EqsigVerif.{ns}.FreqMoments", ""]
    return {"FreqMoments.lean": "\n".join(text)}


# ----------------------------------------------------------------------------------------------
# target 2: Gen/SmoothFreqs.lean (C07)
# ----------------------------------------------------------------------------------------------

SELF_FREQS = ('obj', {'smooth_freq_points': ('nat', 'cur.length'), 'smooth_freq_range': ('rangeprop', 'cur')}, ['(cur : List α)'])


def gen_smooth_freqs(repo, ns):
    fsrc = open(os.path.join(repo, 'eqsig', 'fns', 'frequency.py')).read()
    fmod = ast.parse(fsrc)
    ssrc = open(os.path.join(repo, 'eqsig', 'single.py')).read()
    smod = ast.parse(ssrc)
    defs = []
    # ---- get_sig_freq_range(asig, ratio=15)
    fn = F.find_function(fmod, 'get_sig_freq_range')
    sig = dict(qualname='get_sig_freq_range', calls={'idxRange': callee_params(fmod, 'get_sig_array_indexes_range', 'get_sig_freq_range', fn)},
               extra_binders=['(idxRange : List α → α → Except ErrKind (Nat × Nat))'],
               params={'asig': ('obj', {'smooth_fa_spectrum': ('rarr', 'smooth'), 'smooth_fa_frequencies': ('rarr', 'freqs')},
                                ['(smooth : List α)', '(freqs : List α)']), 'ratio': ('real', 'ratio')})
    t, info = F.translate_function(fn, fsrc, sig, 'getSigFreqRange', '`eqsig.fns.frequency.get_sig_freq_range(asig, ratio)` on `(asig.smooth_fa_spectrum, '
                                   'asig.smooth_fa_frequencies)`; `idxRange` = `get_sig_array_indexes_range`', 'return')
    defs.append(t)
    defs.append("/-- default of `ratio` in `get_sig_freq_range` -/\ndef getSigFreqRangeDefaultRatio : Rat := "
                f"{F.default_text('get_sig_freq_range', info['defaults'].get('ratio'), 'real', fsrc)}")
    # ---- generate_smooth_fa_spectrum(smooth_fa_frequencies, fa_frequencies, fa_spectrum, band=40)
    fn = F.find_function(fmod, 'generate_smooth_fa_spectrum')
    cs = callee_params(fmod, 'calc_smooth_fa_spectrum', 'generate_smooth_fa_spectrum', fn)
    CALC = '(calcSmooth : List α → List α → Option (List α) → α → Except ErrKind (List α))'
    sig = dict(qualname='generate_smooth_fa_spectrum', calls={'calcSmooth': cs}, extra_binders=[CALC],
               params={'smooth_fa_frequencies': ('optrarr', 'smooth'), 'fa_frequencies': ('rarr', 'faFreqs'), 'fa_spectrum': ('rarr', 'A'),
                       'band': ('real', 'band')})
    t, info = F.translate_function(fn, fsrc, sig, 'generateSmoothFaSpectrum', 'the deprecated `eqsig.fns.frequency.generate_smooth_fa_spectrum('
                                   'smooth_fa_frequencies, fa_frequencies, fa_spectrum, band)`; `calcSmooth` = `calc_smooth_fa_spectrum`', 'return')
    defs.append(t)
    defs.append("/-- default of `band` in `generate_smooth_fa_spectrum` -/\ndef generateSmoothFaSpectrumDefaultBand : Rat := "
                f"{F.default_text('generate_smooth_fa_spectrum', info['defaults'].get('band'), 'real', fsrc)}")
    # ---- Signal: getters that are plain reads of `_smooth_fa_freqs`, and the two setters that store np.array(x, dtype=float)
    for prop in ('smooth_fa_freqs', 'smooth_fa_frequencies'):
        check_plain_getter(smod, 'Signal', prop, '_smooth_fa_freqs')
        fn = find_method(smod, 'Signal', prop, 'setter')
        pn = [x.arg for x in fn.args.args]
        if len(pn) != 2 or pn[0] != 'self':
            raise Untranslatable(f"Signal.{prop} (setter)", fn.lineno, 'parameters')
        sig = dict(qualname=f"Signal.{prop} (setter)", params={'self': ('obj', {}, []), pn[1]: ('rarr', 'freqs')},
                   outputs=('_smooth_fa_freqs',), attr_flags={'_cached_smooth_fa': False})
        t, _ = F.translate_function(fn, ssrc, sig, 'set' + ''.join(w.capitalize() for w in prop.split('_')),
                                    f"setter `Signal.{prop} = freqs`: the value stored in `self._smooth_fa_freqs` (and `self._cached_smooth_fa = False`)",
                                    ['_smooth_fa_freqs'])
        defs.append(t)
    STORES = {'smooth_fa_freqs': '_smooth_fa_freqs', 'smooth_fa_frequencies': '_smooth_fa_freqs'}
    # ---- Signal.set_smooth_fa_frequecies_by_range(self, limits, n_points)
    fn = find_method(smod, 'Signal', 'set_smooth_fa_frequecies_by_range', 'plain')
    sig = dict(qualname='Signal.set_smooth_fa_frequecies_by_range', extra_binders=['(log10 pow10 : α → α)'],
               params={'self': ('obj', {}, []), 'limits': ('rarr', 'limits'), 'n_points': ('nat', 'n_points')},
               outputs=('_smooth_fa_freqs', '_smooth_freq_range'), attr_flags={'_cached_smooth_fa': False})
    t, _ = F.translate_function(fn, ssrc, sig, 'setSmoothFaFrequeciesByRange', '`Signal.set_smooth_fa_frequecies_by_range(limits, n_points)`: the pair stored in '
                                '`(self._smooth_fa_freqs, self._smooth_freq_range)` (and `self._cached_smooth_fa = False`); `pow10 y` = `10.0 ** y`',
                                ['_smooth_fa_freqs', '_smooth_freq_range'])
    defs.append(t)
    # ---- the constructor's default grid: `self.set_smooth_fa_frequecies_by_range(smooth_freq_range, <int>)`, default `smooth_freq_range=(lo, hi)`
    init = find_method(smod, 'Signal', '__init__', 'plain')
    calls = [n for n in ast.walk(init) if isinstance(n, ast.Call) and is_self_attr(n.func, 'set_smooth_fa_frequecies_by_range')]
    names, dflt = F.py_params(init, 'Signal.__init__')
    ok = len(calls) == 1 and len(calls[0].args) == 2 and not calls[0].keywords and isinstance(calls[0].args[0], ast.Name) and \
        calls[0].args[0].id in dflt and isinstance(dflt[calls[0].args[0].id], ast.Tuple) and len(dflt[calls[0].args[0].id].elts) == 2 and \
        isinstance(calls[0].args[1], ast.Constant) and isinstance(calls[0].args[1].value, int) and not isinstance(calls[0].args[1].value, bool) and \
        calls[0].args[1].value >= 0
    if not ok:
        raise Untranslatable('Signal.__init__', init.lineno, 'default smoothing grid: `self.set_smooth_fa_frequecies_by_range(<parameter with a 2-tuple default>, <int>)`')
    lo, hi = (num_const(x, 'Signal.__init__') for x in dflt[calls[0].args[0].id].elts)
    defs.append("/-- the constructor's default smoothing grid: `set_smooth_fa_frequecies_by_range(smooth_freq_range, <points>)` with the default "
                "`smooth_freq_range` of the signature -/\n"
                f"def ctorSmoothFreqRange : List Rat := [{F.lit_text(ast.get_source_segment(ssrc, lo))}, {F.lit_text(ast.get_source_segment(ssrc, hi))}]\n"
                f"def ctorSmoothFreqPoints : Nat := {calls[0].args[1].value}")
    # ---- property smooth_freq_points (getter): len(self.smooth_fa_freqs)
    fn = find_method(smod, 'Signal', 'smooth_freq_points', 'getter')
    sig = dict(qualname='Signal.smooth_freq_points', aliases=FREQ_ALIASES, initial_outputs={'_smooth_fa_freqs': ('rarr', 'cur')},
               params={'self': ('obj', {}, ['(cur : List α)'])})
    t, _ = F.translate_function(fn, ssrc, sig, 'smoothFreqPoints', 'getter `Signal.smooth_freq_points` on the current `_smooth_fa_freqs`', 'return')
    defs.append(t)
    if 'pure (cur.length)' not in t:
        raise Untranslatable('Signal.smooth_freq_points', fn.lineno, 'getter is not `len(self.smooth_fa_freqs)` (the setters below read it as such)')
    # ---- property smooth_freq_range (getter)
    fn = find_method(smod, 'Signal', 'smooth_freq_range', 'getter')
    sig = dict(qualname='Signal.smooth_freq_range', aliases=FREQ_ALIASES, initial_outputs={'_smooth_fa_freqs': ('rarr', 'cur')},
               params={'self': ('obj', {}, ['(cur : List α)'])})
    t, _ = F.translate_function(fn, ssrc, sig, 'smoothFreqRange', 'getter `Signal.smooth_freq_range` on the current `_smooth_fa_freqs`', 'return')
    defs.append(t)
    if 'NpE.getE cur 0' not in t or 'NpE.lastE cur' not in t or 'pure ((e1, e2))' not in t:
        raise Untranslatable('Signal.smooth_freq_range', fn.lineno, 'getter is not `(self.smooth_fa_freqs[0], self.smooth_fa_freqs[-1])` (the setter of '
                             'smooth_freq_points reads it as such)')
    # ---- smooth_freq_range setter / smooth_freq_points setter
    fn = find_method(smod, 'Signal', 'smooth_freq_range', 'setter')
    sig = dict(qualname='Signal.smooth_freq_range (setter)', extra_binders=['(log10 pow10 : α → α)'], aliases=FREQ_ALIASES, setter_stores=STORES,
               initial_outputs={'_smooth_fa_freqs': ('rarr', 'cur')}, params={'self': SELF_FREQS, 'limits': ('rarr', 'limits')})
    t, _ = F.translate_function(fn, ssrc, sig, 'setSmoothFreqRange', 'setter `Signal.smooth_freq_range = limits`: the array handed to the `smooth_fa_freqs` setter; '
                                '`self.smooth_freq_points` is the length of the current `_smooth_fa_freqs` (`cur`)', ['_smooth_fa_freqs'])
    defs.append(t)
    fn = find_method(smod, 'Signal', 'smooth_freq_points', 'setter')
    sig = dict(qualname='Signal.smooth_freq_points (setter)', extra_binders=['(log10 pow10 : α → α)'], aliases=FREQ_ALIASES, setter_stores=STORES,
               initial_outputs={'_smooth_fa_freqs': ('rarr', 'cur')}, params={'self': SELF_FREQS, 'value': ('nat', 'value')})
    t, _ = F.translate_function(fn, ssrc, sig, 'setSmoothFreqPoints', 'setter `Signal.smooth_freq_points = value` (`int(value)` of a non-negative integer): the array '
                                'handed to the `smooth_fa_freqs` setter; `self.smooth_freq_range` is `(cur[0], cur[-1])`', ['_smooth_fa_freqs'])
    defs.append(t)
    # ---- Signal.gen_smooth_fa_spectrum(self, smooth_fa_freqs=None, band=40)
    fn = find_method(smod, 'Signal', 'gen_smooth_fa_spectrum', 'plain')
    imp = [n for n in smod.body if isinstance(n, ast.ImportFrom) and n.module == 'eqsig.fns.frequency' and any(x.name == 'calc_smooth_fa_spectrum' and x.asname is None for x in n.names)]
    if len(imp) != 1:
        raise Untranslatable('Signal.gen_smooth_fa_spectrum', fn.lineno, '`from eqsig.fns.frequency import calc_smooth_fa_spectrum` not found in single.py')
    sig = dict(qualname='Signal.gen_smooth_fa_spectrum', calls={'calcSmooth': cs}, extra_binders=[CALC], aliases=FREQ_ALIASES,
               initial_outputs={'_smooth_fa_freqs': ('rarr', 'cur')},
               params={'self': ('obj', {'fa_freqs': ('rarr', 'faFreqs'), 'fa_spectrum': ('rarr', 'absFas')},
                                ['(faFreqs : List α)', '(absFas : List α)', '(cur : List α)']),
                       'smooth_fa_freqs': ('optrarr', 'given'), 'band': ('real', 'band')},
               outputs=('_smooth_fa_spectrum', '_smooth_fa_freqs'), attr_flags={'_cached_smooth_fa': True})
    t, info = F.translate_function(fn, ssrc, sig, 'signalGenSmoothFaSpectrum', '`Signal.gen_smooth_fa_spectrum(smooth_fa_freqs, band)` on the object\'s Fourier spectrum '
                                   '`(self.fa_freqs, self.fa_spectrum)` (`absFas`: its moduli — `calc_smooth_fa_spectrum` smooths `abs(fa_spectrum)`) and current '
                                   '`_smooth_fa_freqs` (`cur`): the pair stored in `(self._smooth_fa_spectrum, self._smooth_fa_freqs)` (and `self._cached_smooth_fa = True`)',
                                   ['_smooth_fa_spectrum', '_smooth_fa_freqs'])
    defs.append(t)
    d = info['defaults']
    if set(d) != {'smooth_fa_freqs', 'band'} or F.default_text('Signal.gen_smooth_fa_spectrum', d['smooth_fa_freqs'], 'optrarr') != 'none':
        raise Untranslatable('Signal.gen_smooth_fa_spectrum', fn.lineno, 'defaults')
    dband = F.default_text('Signal.gen_smooth_fa_spectrum', d['band'], 'real', ssrc)
    # ---- Signal.generate_smooth_fa_spectrum(self, band=40): `self.gen_smooth_fa_spectrum(band=band)`
    g = find_method(smod, 'Signal', 'generate_smooth_fa_spectrum', 'plain')
    gn, gd = F.py_params(g, 'Signal.generate_smooth_fa_spectrum')
    b = body_of(g)
    ok = gn == ['self', 'band'] and len(b) == 1 and isinstance(b[0], ast.Expr) and isinstance(b[0].value, ast.Call) and \
        is_self_attr(b[0].value.func, 'gen_smooth_fa_spectrum') and not b[0].value.args and len(b[0].value.keywords) == 1 and \
        b[0].value.keywords[0].arg == 'band' and isinstance(b[0].value.keywords[0].value, ast.Name) and b[0].value.keywords[0].value.id == 'band'
    if not ok:
        raise Untranslatable('Signal.generate_smooth_fa_spectrum', g.lineno, 'body is not `self.gen_smooth_fa_spectrum(band=band)`')
    gband = F.default_text('Signal.generate_smooth_fa_spectrum', gd.get('band'), 'real', ssrc)
    defs.append("/-- defaults of `band` in `Signal.gen_smooth_fa_spectrum` and `Signal.generate_smooth_fa_spectrum` (`smooth_fa_freqs` defaults to `None`); "
                "`generate_smooth_fa_spectrum(band)` is `self.gen_smooth_fa_spectrum(band=band)` -/\n"
                f"def signalGenSmoothDefaultBand : Rat := {dband}\ndef signalGenerateSmoothDefaultBand : Rat := {gband}")
    # ---- property smooth_fa_spectrum: `if not self._cached_smooth_fa: self.generate_smooth_fa_spectrum()` / `return self._smooth_fa_spectrum`
    p = find_method(smod, 'Signal', 'smooth_fa_spectrum', 'getter')
    b = body_of(p)
    ok = len(b) == 2 and isinstance(b[0], ast.If) and not b[0].orelse and len(b[0].body) == 1 and isinstance(b[0].test, ast.UnaryOp) and \
        isinstance(b[0].test.op, ast.Not) and is_self_attr(b[0].test.operand, '_cached_smooth_fa') and isinstance(b[0].body[0], ast.Expr) and \
        isinstance(b[0].body[0].value, ast.Call) and is_self_attr(b[0].body[0].value.func, 'generate_smooth_fa_spectrum') and \
        not b[0].body[0].value.args and not b[0].body[0].value.keywords and isinstance(b[1], ast.Return) and is_self_attr(b[1].value, '_smooth_fa_spectrum')
    if not ok:
        raise Untranslatable('Signal.smooth_fa_spectrum', p.lineno, 'not of the shape `if not self._cached_smooth_fa: self.generate_smooth_fa_spectrum()` / `return self._smooth_fa_spectrum`')
    text = ["-- GENERATED by tools/py2lean_x_freq2.py from eqsig/fns/frequency.py (get_sig_freq_range, generate_smooth_fa_spectrum) and eqsig/single.py",
            "-- (smoothing-frequency properties / setters of Signal, set_smooth_fa_frequecies_by_range, gen_smooth_fa_spectrum). Do not edit.",
            "import EqsigVerif.Prelude.NpE", "import EqsigVerif.Prelude.NpF", ""] + HEADER + [f"namespace EqsigVerif.{ns}.SmoothFreqs",
            "open EqsigVerif EqsigVerif.Wire EqsigVerif.Cplx", ""] + ["\n\n".join(defs)] + ["", f"end EqsigVerif.{ns}.SmoothFreqs", ""]
    return {"SmoothFreqs.lean": "\n".join(text)}


def _safe(gen):
    """an unexpected failure inside the recogniser (KeyError, AttributeError, …) on source of an unforeseen shape is reported as
    Untranslatable, never as a crash of the whole translator and never as a guess"""
    def run(repo, ns):
        try:
            return gen(repo, ns)
        except (KeyError, AttributeError, IndexError, TypeError, ValueError, AssertionError, RecursionError) as e:
            raise Untranslatable(gen.__name__, 0, f"internal: {type(e).__name__}: {e}")
    run.__name__ = gen.__name__
    return run


TARGETS = [_safe(gen_freq_moments), _safe(gen_smooth_freqs)]
