#!/usr/bin/env python3
"""py2lean_x_freq — plug-in of tools/py2lean.py: Fourier-spectrum / bandwidth / smoothing-frame / generic helper functions.

Translation scheme (one engine, `SymExec`): a Python function body is executed *symbolically*, statement by statement, into ONE
`Except ErrKind` `do` block of Lean:

  * every sub-expression has a kind (nat / real / complex array / real array / nat array / …) inferred bottom-up from a per-function
    signature table (`SIG_*` below); every (operator, kinds) and every call has ONE fixed Lean rendering (tables `tr_binop`, `tr_call`);
  * a call that can raise (`np.fft.fft`, `x[i]`, `max(x)`, `int(np.ceil(np.log2(n)))`, `assert`) becomes `let eK ← NpE.<combinator> …`
    in evaluation order (names `e1, e2, …` are positional, so renaming Python temporaries gives byte-identical output);
  * total sub-expressions are inlined at their uses (`name = expr` only extends the environment);
  * `if` on *flags* (`x is None`, `x is not None`, a Boolean parameter, `and`/`or`/`not` of these) is resolved by enumerating the flag
    values: the function becomes `match flag₁, flag₂ with | some n, none => do … | …`, each arm the straight-line residue;
  * `if` on data with branches that only (re)bind names by total expressions becomes `name := if c then e₁ else e₀` (φ-merge);
  * `self.attr = expr` in a method is an *output* (the generated function returns the tuple of the outputs the target asks for);
  * anything else raises Untranslatable(function, line, construct).
"""
import ast
import itertools
import os


class Untranslatable(Exception):
    def __init__(self, function, line, construct):
        super().__init__(f"{function}:{line}: {construct}")
        self.function = function
        self.line = line
        self.construct = construct


# ----------------------------------------------------------------------------------------------
# symbolic values
# ----------------------------------------------------------------------------------------------

class V:
    """kind ∈ nat | real | carr | rarr | narr | natq | none | flag | cond | wheretuple | tuple | obj ; text = Lean term"""
    __slots__ = ('kind', 'text', 'aux')

    def __init__(self, kind, text, aux=None):
        self.kind, self.text, self.aux = kind, text, aux

    def __repr__(self):
        return f"V({self.kind},{self.text})"


LEAN_TYPE = {'nat': 'Nat', 'real': 'α', 'carr': 'List β', 'rarr': 'List α', 'narr': 'List Nat', 'cx': 'β',
             'mat': 'List (List α)', 'int': 'Int', 'optint': 'Option Int', 'optreal': 'Option α', 'optnat': 'Option Nat', 'optrarr': 'Option (List α)', 'bool': 'Bool', 'garr': 'List γ'}

# fixed order of instance binders (a definition gets exactly those it uses)
CLASS_ORDER = ['[Add β]', '[Mul β]', '[Div β]', '[OfNat β 0]', '[Add α]', '[Sub α]', '[Mul α]', '[Div α]', '[Neg α]', '[NatCast α]',
               '[OfNat α 0]', '[OfNat α 1]', '[OfNat α 2]', '[OfScientific α]', '[LT α]', '[DecidableLT α]', '[LE α]', '[DecidableLE α]',
               '[BEq α]', '[CxLike α β]']


def lit_text(seg):
    t = seg.replace('_', '')
    if t.endswith('.'):
        t = t[:-1]
    if t.startswith('.'):
        t = '0' + t
    return t


class SymExec:
    def __init__(self, fname, src, sig, flags):
        self.fname, self.src, self.sig = fname, src, sig
        self.flags = flags            # flag parameter name -> True/False ('is given' for optional, value for bool)
        self.env = {}
        self.lines = []
        self.cnt = 0
        self.classes = set()
        self.outputs = {}             # attribute stores of a method
        self.returned = None
        self.vcnt = 0
        self.in_branch = False

    # -- helpers -------------------------------------------------------------------------------
    def fail(self, node, what):
        seg = ast.get_source_segment(self.src, node) if hasattr(node, 'lineno') else ''
        raise Untranslatable(self.fname, getattr(node, 'lineno', 0), f"{what}: {seg}" if seg else what)

    def need(self, *cls):
        self.classes.update(cls)

    def bind(self, text, kind):
        self.cnt += 1
        name = f"e{self.cnt}"
        self.lines.append(f"let {name} ← {text}")
        return V(kind, name)

    def named(self, v):
        """an array-valued local that is not just another name gets a positional `let vK := …` (readability; scalars are inlined)"""
        if self.in_branch or v.kind not in ('carr', 'rarr', 'narr', 'mat') or v.text.replace('_', 'a').isalnum():
            return v
        self.vcnt += 1
        name = f"v{self.vcnt}"
        self.lines.append(f"let {name} := {strip_outer(v.text)}")
        return V(v.kind, name, v.aux)

    def as_real(self, v, node):
        """coerce a nat to the reals (literal -> numeral, otherwise NatCast)"""
        if v.kind == 'real':
            return v.text
        if v.kind == 'nat':
            if v.aux == 'lit':
                self.need(f'[OfNat α {v.text}]')
                return f"({v.text} : α)"
            self.need('[NatCast α]')
            return f"(({v.text} : Nat) : α)"
        self.fail(node, f"expected a real scalar, got {v.kind}")

    # -- expressions ---------------------------------------------------------------------------
    def tr(self, e):
        if isinstance(e, ast.Name):
            if e.id in self.env:
                return self.env[e.id]
            self.fail(e, 'unknown name')
        if isinstance(e, ast.Constant):
            if e.value is None:
                return V('none', 'none')
            if isinstance(e.value, bool):
                return V('flag', str(e.value), e.value)
            seg = ast.get_source_segment(self.src, e)
            if isinstance(e.value, int):
                return V('nat', lit_text(seg), 'lit')
            if isinstance(e.value, float):
                if e.value.is_integer() and abs(e.value) < 1000 and 'e' not in seg.lower():
                    k = str(int(e.value))
                    self.need(f'[OfNat α {k}]')
                    return V('real', f"({k} : α)")
                self.need('[OfScientific α]')
                return V('real', f"({lit_text(seg)} : α)")
            self.fail(e, 'literal')
        if isinstance(e, ast.Attribute):
            if isinstance(e.value, ast.Name) and e.value.id in self.env and self.env[e.value.id].kind == 'obj':
                attrs = self.env[e.value.id].aux
                if e.attr in attrs:
                    k, t = attrs[e.attr]
                    return V(k, t)
            self.fail(e, 'attribute')
        if isinstance(e, ast.BinOp):
            return self.tr_binop(e)
        if isinstance(e, ast.Subscript):
            return self.tr_subscript(e)
        if isinstance(e, ast.Call):
            return self.tr_call(e)
        if isinstance(e, ast.Tuple):
            return V('tuple', None, [self.tr(x) for x in e.elts])
        if isinstance(e, ast.Compare):
            return self.tr_compare(e)
        self.fail(e, f"expression {type(e).__name__}")

    def tr_compare(self, e):
        if len(e.ops) != 1:
            self.fail(e, 'chained comparison')
        op = e.ops[0]
        l, r = self.tr(e.left), self.tr(e.comparators[0])
        if isinstance(op, (ast.Is, ast.IsNot)):
            if r.kind != 'none':
                self.fail(e, '`is` with something else than None')
            given = l.kind != 'none'
            return V('flag', None, given if isinstance(op, ast.IsNot) else not given)
        if l.kind == 'nat' and r.kind == 'nat' and isinstance(op, ast.Eq):
            return V('cond', f"decide ({l.text} = {r.text})")
        if l.kind in ('real', 'nat') and r.kind in ('real', 'nat'):
            a, b = self.as_real(l, e), self.as_real(r, e)
            if isinstance(op, ast.Eq):
                self.need('[BEq α]')
                return V('cond', f"({a} == {b})")
            if isinstance(op, (ast.Lt, ast.Gt)):
                self.need('[LT α]', '[DecidableLT α]')
                x, y = (a, b) if isinstance(op, ast.Lt) else (b, a)
                return V('cond', f"decide ({x} < {y})")
            if isinstance(op, (ast.LtE, ast.GtE)):
                self.need('[LE α]', '[DecidableLE α]')
                x, y = (a, b) if isinstance(op, ast.LtE) else (b, a)
                return V('cond', f"decide ({x} ≤ {y})")
        if l.kind == 'mat' and r.kind == 'nat' and r.aux == 'lit' and isinstance(op, ast.Eq):
            self.need('[BEq α]', f'[OfNat α {r.text}]')
            return V('matmask', None, (l.text, r.text))
        if l.kind == 'rarr' and r.kind in ('real', 'nat') and isinstance(op, (ast.Gt, ast.Lt)):
            # element-wise comparison of an array with a scalar: a predicate (used by np.where)
            self.need('[LT α]', '[DecidableLT α]')
            c = self.as_real(r, e)
            body = f"decide ({c} < s)" if isinstance(op, ast.Gt) else f"decide (s < {c})"
            return V('mask', None, (f"(fun s => {body})", l.text))
        if r.kind == 'rarr' and l.kind in ('real', 'nat') and isinstance(op, (ast.Gt, ast.Lt)):
            # scalar on the left: c < x  ≡  x > c
            self.need('[LT α]', '[DecidableLT α]')
            c = self.as_real(l, e)
            body = f"decide ({c} < s)" if isinstance(op, ast.Lt) else f"decide (s < {c})"
            return V('mask', None, (f"(fun s => {body})", r.text))
        self.fail(e, 'comparison')

    def tr_binop(self, e):
        op = type(e.op)
        l, r = self.tr(e.left), self.tr(e.right)
        k = (l.kind, r.kind)
        if op is ast.Pow:
            if k == ('nat', 'nat'):
                return V('nat', f"({l.text} ^ {r.text})")
            self.fail(e, 'power')
        if k == ('nat', 'nat') and op is ast.Sub:
            # Python integers: the difference may be negative
            return V('int', f"((({l.text} : Nat) : Int) - (({r.text} : Nat) : Int))")
        if set(k) <= {'nat', 'int'} and 'int' in k and op in (ast.Add, ast.Sub):
            a = l.text if l.kind == 'int' else f"(({l.text} : Nat) : Int)"
            b = r.text if r.kind == 'int' else f"(({r.text} : Nat) : Int)"
            return V('int', f"({a} {'+' if op is ast.Add else '-'} {b})")
        if k == ('nat', 'nat'):
            if op is ast.Add:
                return V('nat', f"({l.text} + {r.text})")
            if op is ast.Mult:
                return V('nat', f"({l.text} * {r.text})")
            if op is ast.FloorDiv:
                return V('nat', f"({l.text} / {r.text})")
            if op is ast.Div:
                return V('natq', None, (l.text, r.text))     # only int(·) may consume it
            self.fail(e, 'integer operator')
        sym = {ast.Add: ('+', '[Add α]'), ast.Sub: ('-', '[Sub α]'), ast.Mult: ('*', '[Mul α]'), ast.Div: ('/', '[Div α]')}.get(op)
        if sym is None:
            self.fail(e, 'operator')
        if set(k) <= {'nat', 'real'}:
            self.need(sym[1])
            return V('real', f"({self.as_real(l, e)} {sym[0]} {self.as_real(r, e)})")
        if k[0] == 'narr' and k[1] in ('real', 'nat') and op is ast.Div:
            self.need('[NatCast α]', '[Div α]')
            return V('rarr', f"({l.text}.map (fun k => ((k : Nat) : α) / {self.as_real(r, e)}))")
        if k[0] == 'narr' and k[1] in ('real', 'nat') and op is ast.Mult:
            self.need('[NatCast α]', '[Mul α]')
            return V('rarr', f"({l.text}.map (fun k => ((k : Nat) : α) * {self.as_real(r, e)}))")
        if k[0] == 'carr' and k[1] in ('real', 'nat') and op in (ast.Mult, ast.Div):
            self.need('[Mul β]' if op is ast.Mult else '[Div β]', '[CxLike α β]')
            return V('carr', f"({l.text}.map (fun z => z {sym[0]} CxLike.ofReal {self.as_real(r, e)}))")
        if k == ('real', 'rarr') and op is ast.Mult:
            self.need('[Mul α]')
            return V('rarr', f"(Np.scale {l.text} {r.text})")
        if k == ('rarr', 'rarr') and op is ast.Sub:
            self.need('[Sub α]')
            return V('rarr', f"(Np.subL {l.text} {r.text})")
        if k == ('colvec', 'mat') and op is ast.Mult:
            # v[:, np.newaxis] * M : every column of M multiplied entry by entry with v
            self.need('[Mul α]')
            return V('mat', f"({r.text}.map (fun col => List.zipWith (fun a w => a * w) {l.text} col))")
        if k == ('mat', 'rarr') and op is ast.Div:
            # M / s (broadcast along axis 0): column j divided by s[j]
            self.need('[Div α]')
            return V('mat', f"(List.zipWith (fun col s => col.map (fun w => w / s)) {l.text} {r.text})")
        if k[0] == 'rarr' and k[1] in ('real', 'nat') and op in (ast.Mult, ast.Div):
            self.need(sym[1])
            return V('rarr', f"({l.text}.map (fun w => w {sym[0]} {self.as_real(r, e)}))")
        self.fail(e, f"operator on kinds {k}")

    def nat_index(self, node):
        """a non-negative integer index expression, or the literal -1 (returns 'last')"""
        if isinstance(node, ast.UnaryOp) and isinstance(node.op, ast.USub) and isinstance(node.operand, ast.Constant) \
                and node.operand.value == 1:
            return 'last'
        v = self.tr(node)
        if v.kind != 'nat':
            self.fail(node, 'index is not a non-negative integer expression')
        return v.text

    def tr_subscript(self, e):
        base = self.tr(e.value)
        s = e.slice
        if base.kind == 'wheretuple':
            # np.where(mask) is a 1-tuple of index arrays
            if isinstance(s, ast.Constant) and s.value == 0:
                return V('narr', base.text)
            self.fail(e, 'component of np.where(...)')
        if base.kind == 'rarr' and isinstance(s, ast.Tuple) and len(s.elts) == 2:
            # x[:, np.newaxis] (column vector) / x[np.newaxis, :] (row vector) of a 1-D real array
            def full(n):
                return isinstance(n, ast.Slice) and n.lower is None and n.upper is None and n.step is None

            def newaxis(n):
                return isinstance(n, ast.Attribute) and n.attr == 'newaxis' and isinstance(n.value, ast.Name) and n.value.id == 'np'
            if full(s.elts[0]) and newaxis(s.elts[1]):
                return V('colvec', base.text)
            if newaxis(s.elts[0]) and full(s.elts[1]):
                return V('rowvec', base.text)
            self.fail(e, 'two-dimensional subscript')
        if base.kind not in ('carr', 'rarr', 'narr'):
            self.fail(e, f"subscript of {base.kind}")
        elem = {'carr': 'cx', 'rarr': 'real', 'narr': 'nat'}[base.kind]
        if isinstance(s, ast.Slice):
            if s.step is not None:
                self.fail(e, 'slice step')
            # x[:-k] for a non-negative integer k  /  Python-integer bounds (negative counts from the end, clipped)
            if s.lower is None and isinstance(s.upper, ast.UnaryOp) and isinstance(s.upper.op, ast.USub):
                kk = self.tr(s.upper.operand)
                if kk.kind == 'nat':
                    return V(base.kind, f"(NpE.dropLast {base.text} {kk.text})")
                self.fail(e, 'negative slice bound')
            bounds = [self.tr(b) if b is not None else None for b in (s.lower, s.upper)]
            if any(b is not None and b.kind == 'int' for b in bounds):
                if bounds[0] is not None and bounds[1] is None:
                    return V(base.kind, f"(NpE.pySliceFrom {base.text} {bounds[0].text})")
                if bounds[0] is None and bounds[1] is not None:
                    return V(base.kind, f"(NpE.pySliceTo {base.text} {bounds[1].text})")
                self.fail(e, 'slice with two Python-integer bounds')
            lo = self.nat_index(s.lower) if s.lower is not None else None
            hi = self.nat_index(s.upper) if s.upper is not None else None
            if 'last' in (lo, hi):
                self.fail(e, 'negative slice bound')
            if lo is not None and hi is None:
                return V(base.kind, f"({base.text}.drop {lo})")
            if lo is None and hi is not None:
                return V(base.kind, f"({base.text}.take {hi})")
            if lo is not None and hi is not None:
                return V(base.kind, f"(Np.slice {base.text} {lo} {hi})")
            return base
        if isinstance(s, ast.Call) and isinstance(s.func, ast.Name) and s.func.id == 'range' and len(s.args) == 1 and not s.keywords:
            # x[range(k)] (k ≤ len x): the first k entries
            k = self.tr(s.args[0])
            if k.kind != 'nat':
                self.fail(e, 'range bound')
            return V(base.kind, f"({base.text}.take {k.text})")
        idx = self.nat_index(s)
        if idx == 'last':
            return self.bind(f"NpE.lastE {base.text}", elem)
        return self.bind(f"NpE.getE {base.text} {idx}", elem)

    def np_name(self, f):
        """'np.fft.fft' / 'np.abs' / 'abs' …"""
        parts = []
        while isinstance(f, ast.Attribute):
            parts.append(f.attr)
            f = f.value
        if isinstance(f, ast.Name):
            parts.append(f.id)
            return '.'.join(reversed(parts))
        return None

    def tr_call(self, e):
        name = self.np_name(e.func)
        kw = {k.arg: k.value for k in e.keywords}
        a = e.args
        if name == 'int' and len(a) == 1 and not kw:
            # int(np.ceil(np.log2(x)) [+ k])  and  int(a / b) on non-negative integers
            inner = a[0]
            extra = None
            if isinstance(inner, ast.BinOp) and isinstance(inner.op, ast.Add):
                inner, extra = inner.left, inner.right
            if isinstance(inner, ast.Call) and self.np_name(inner.func) == 'np.ceil' and len(inner.args) == 1 and \
                    isinstance(inner.args[0], ast.Call) and self.np_name(inner.args[0].func) == 'np.log2' and len(inner.args[0].args) == 1:
                x = self.tr(inner.args[0].args[0])
                if x.kind != 'nat':
                    self.fail(e, 'np.log2 of a non-integer')
                c = self.bind(f"NpE.ceilLog2 {x.text}", 'nat')
                if extra is None:
                    return c
                k = self.tr(extra)
                if k.kind != 'nat':
                    self.fail(e, 'int(np.ceil(..) + non-integer)')
                return V('nat', f"({c.text} + {k.text})")
            v = self.tr(a[0])
            if v.kind == 'natq':
                return V('nat', f"({v.aux[0]} / {v.aux[1]})")
            if v.kind == 'nat':
                return v
            self.fail(e, 'int(...)')
        if name == 'np.floor' and len(a) == 1 and not kw:
            v = self.tr(a[0])
            if v.kind == 'natq':
                return v                       # only int(·) may consume it: int(np.floor(a / b)) = a // b for non-negative integers
            self.fail(e, 'np.floor')
        if name == 'np.array' and len(a) == 1 and not kw:
            v = self.tr(a[0])
            if v.kind in ('rarr', 'carr'):
                return v                       # a fresh copy: the same values
            self.fail(e, 'np.array')
        if name == 'np.ones' and len(a) == 1 and not kw:
            k = self.tr(a[0])
            self.need('[OfNat α 1]')
            if k.kind == 'nat':
                return V('rarr', f"(List.replicate {k.text} (1 : α))")
            if k.kind == 'int':
                return self.bind(f"NpE.onesE {k.text}", 'rarr')
            self.fail(e, 'np.ones')
        if name == 'np.concatenate' and len(a) == 1 and not kw and isinstance(a[0], ast.List) and a[0].elts:
            parts = [self.tr(x) for x in a[0].elts]
            if all(q.kind == 'rarr' for q in parts):
                return V('rarr', "(" + " ++ ".join(q.text for q in parts) + ")")
            self.fail(e, 'np.concatenate')
        if name == 'np.cumsum' and len(a) == 1 and set(kw) <= {'dtype'}:
            if 'dtype' in kw and not (isinstance(kw['dtype'], ast.Name) and kw['dtype'].id == 'float'):
                self.fail(e, 'np.cumsum dtype')
            x = self.tr(a[0])
            if x.kind == 'rarr':
                self.need('[Add α]', '[OfNat α 0]')
                return V('rarr', f"(Np.cumsum {x.text})")
            self.fail(e, 'np.cumsum')
        if name == 'np.mean' and len(a) == 1 and not kw:
            x = self.tr(a[0])
            if x.kind == 'rarr':
                self.need('[Add α]', '[Div α]', '[OfNat α 0]', '[NatCast α]')
                return V('optreal', f"(NpE.mean? {x.text})")
            self.fail(e, 'np.mean')
        if name == 'np.argmin' and len(a) == 1 and not kw:
            x = self.tr(a[0])
            if x.kind == 'rarr':
                self.need('[LT α]', '[DecidableLT α]')
                return self.bind(f"NpE.argminE {x.text}", 'nat')
            self.fail(e, 'np.argmin')
        if name in self.sig.get('user_calls', {}) and not kw:
            # a call of another eqsig function with positional arguments only: a parameter of the generated definition
            lean, kinds, rk = self.sig['user_calls'][name]
            args = [self.tr(x) for x in a]
            if [x.kind for x in args] != kinds:
                self.fail(e, 'arguments of ' + name)
            return self.bind(f"{lean} " + " ".join(x.text for x in args), rk)
        if name == 'len' and len(a) == 1 and not kw:
            v = self.tr(a[0])
            if v.kind in ('carr', 'rarr', 'narr'):
                return V('nat', f"{v.text}.length")
            self.fail(e, 'len')
        if name == 'np.fft.fft' and len(a) == 1 and set(kw) <= {'n'}:
            x = self.tr(a[0])
            if x.kind != 'carr':
                self.fail(e, 'np.fft.fft argument')
            n = self.tr(kw['n']) if 'n' in kw else V('nat', f"{x.text}.length")
            if n.kind != 'nat':
                self.fail(e, 'np.fft.fft n=')
            self.need('[Add β]', '[Mul β]', '[OfNat β 0]')
            return self.bind(f"NpE.fft tw {x.text} {n.text}", 'carr')
        if name == 'np.fft.ifft' and len(a) == 1 and not kw:
            x = self.tr(a[0])
            if x.kind != 'carr':
                self.fail(e, 'np.fft.ifft argument')
            self.need('[Add β]', '[Mul β]', '[Div β]', '[OfNat β 0]', '[NatCast α]', '[CxLike α β]')
            return self.bind(f"NpE.ifft tw {x.text} {x.text}.length", 'carr')
        if name == 'np.arange' and len(a) == 1 and not kw:
            k = self.tr(a[0])
            if k.kind == 'nat':
                return V('narr', f"(List.range {k.text})")
            self.fail(e, 'np.arange')
        if name == 'np.zeros' and len(a) == 1 and set(kw) <= {'dtype'}:
            k = self.tr(a[0])
            cplx = 'dtype' in kw and isinstance(kw['dtype'], ast.Name) and kw['dtype'].id == 'complex'
            if 'dtype' in kw and not cplx:
                self.fail(e, 'np.zeros dtype')
            if k.kind == 'nat':
                if cplx:
                    self.need('[OfNat β 0]')
                    return V('carr', f"(NpE.zeros {k.text} : List β)")
                self.need('[OfNat α 0]')
                return V('rarr', f"(NpE.zeros {k.text} : List α)")
            self.fail(e, 'np.zeros')
        if name == 'np.conj' and len(a) == 1 and not kw:
            x = self.tr(a[0])
            if x.kind == 'carr':
                self.need('[CxLike α β]')
                return V('carr', f"({x.text}.map CxLike.conj)")
            self.fail(e, 'np.conj')
        if name == 'np.flip' and len(a) == 1 and set(kw) <= {'axis'}:
            if 'axis' in kw and not (isinstance(kw['axis'], ast.Constant) and kw['axis'].value == 0):
                self.fail(e, 'np.flip axis')
            x = self.tr(a[0])
            if x.kind in ('carr', 'rarr', 'narr'):
                return V(x.kind, f"(NpE.flip {x.text})")
            self.fail(e, 'np.flip')
        if name in ('np.abs', 'abs') and len(a) == 1 and not kw:
            x = self.tr(a[0])
            if x.kind == 'carr':
                return V('rarr', f"({x.text}.map cabs)", 'cabs')
            if x.kind == 'rarr':
                self.need('[LT α]', '[DecidableLT α]', '[Neg α]', '[OfNat α 0]')
                return V('rarr', f"(Np.absL {x.text})")
            if x.kind == 'real':
                self.need('[LT α]', '[DecidableLT α]', '[Neg α]', '[OfNat α 0]')
                return V('real', f"(Np.absv {x.text})")
            self.fail(e, 'abs')
        if name == 'np.argmax' and len(a) == 1 and not kw:
            x = self.tr(a[0])
            if x.kind == 'rarr':
                self.need('[LT α]', '[DecidableLT α]')
                return self.bind(f"NpE.argmaxE {x.text}", 'nat')
            self.fail(e, 'np.argmax')
        if name == 'max' and len(a) == 1 and not kw:
            x = self.tr(a[0])
            if x.kind == 'rarr':
                self.need('[LT α]', '[DecidableLT α]')
                return self.bind(f"NpE.maxE {x.text}", 'real')
            self.fail(e, 'max')
        if name == 'np.where' and len(a) == 3 and not kw:
            m = self.tr(a[0])
            c = self.tr(a[1])
            w = self.tr(a[2])
            if m.kind == 'matmask' and c.kind == 'nat' and c.aux == 'lit' and w.kind == 'mat':
                self.need(f'[OfNat α {c.text}]')
                return V('mat', f"(List.zipWith (fun ca cw => List.zipWith (fun a w => if a == {m.aux[1]} then {c.text} else w) ca cw) "
                                f"{m.aux[0]} {w.text})")
            self.fail(e, 'np.where(cond, x, y)')
        if name == 'np.sum' and len(a) == 1 and set(kw) == {'axis'} and isinstance(kw['axis'], ast.Constant) and kw['axis'].value == 0:
            m = self.tr(a[0])
            if m.kind == 'mat':
                self.need('[Add α]', '[OfNat α 0]')
                return V('rarr', f"({m.text}.map Cplx.sumL)")
            self.fail(e, 'np.sum(axis=0)')
        if name == 'np.dot' and len(a) == 2 and not kw:
            v, m = self.tr(a[0]), self.tr(a[1])
            if v.kind == 'rarr' and m.kind == 'mat':
                # np.dot(v, M)[j] = Σ_i v[i]·M[i, j]
                self.need('[Add α]', '[Mul α]', '[OfNat α 0]')
                return V('rarr', f"({m.text}.map (fun col => Cplx.sumL (List.zipWith (fun a w => a * w) {v.text} col)))")
            self.fail(e, 'np.dot')
        if name == 'np.where' and len(a) == 1 and not kw:
            m = self.tr(a[0])
            if m.kind == 'mask':
                return V('wheretuple', f"(Np.whereIdx {m.aux[0]} {m.aux[1]})")
            self.fail(e, 'np.where argument')
        self.fail(e, 'call')

    # -- statements ----------------------------------------------------------------------------
    def static_test(self, t):
        """value of a flag test (True/False) or None when the test depends on data"""
        if isinstance(t, ast.BoolOp):
            vals = [self.static_test(v) for v in t.values]
            if any(v is None for v in vals):
                return None
            return any(vals) if isinstance(t.op, ast.Or) else all(vals)
        if isinstance(t, ast.UnaryOp) and isinstance(t.op, ast.Not):
            v = self.static_test(t.operand)
            return None if v is None else (not v)
        if isinstance(t, ast.Compare) and len(t.ops) == 1 and isinstance(t.ops[0], (ast.Is, ast.IsNot)):
            return self.tr(t).aux
        if isinstance(t, ast.Compare) and len(t.ops) == 1 and isinstance(t.ops[0], (ast.Eq, ast.NotEq)) and isinstance(t.left, ast.Name) \
                and t.left.id in self.env and self.env[t.left.id].kind == 'str' and isinstance(t.comparators[0], ast.Constant) \
                and isinstance(t.comparators[0].value, str):
            eq = self.env[t.left.id].aux == t.comparators[0].value
            return eq if isinstance(t.ops[0], ast.Eq) else not eq
        if isinstance(t, ast.Name) and t.id in self.env and self.env[t.id].kind == 'flag':
            return self.env[t.id].aux
        return None

    def run(self, body, top=True):
        for st in body:
            if self.returned is not None:
                self.fail(st, 'statement after return')
            self.stmt(st)

    def stmt(self, st):
        if isinstance(st, ast.Expr) and isinstance(st.value, ast.Constant) and isinstance(st.value.value, str):
            return
        if isinstance(st, ast.Assign) and len(st.targets) == 1:
            tg = st.targets[0]
            if isinstance(tg, ast.Name):
                hook = self.sig.get('hooks', {}).get(tg.id)
                v = hook(self, st) if hook is not None else None
                self.env[tg.id] = self.named(v if v is not None else self.tr(st.value))
                return
            if isinstance(tg, ast.Attribute) and isinstance(tg.value, ast.Name) and tg.value.id == 'self':
                allowed = self.sig.get('attr_flags', {})
                if tg.attr in allowed:
                    if not (isinstance(st.value, ast.Constant) and st.value.value is allowed[tg.attr]):
                        self.fail(st, 'cache flag store')
                    self.outputs[tg.attr] = V('flag', None, st.value.value)
                    return
                if tg.attr in self.sig.get('outputs', ()):
                    self.outputs[tg.attr] = self.tr(st.value)
                    return
                self.fail(st, 'attribute store')
            if isinstance(tg, ast.Subscript) and isinstance(tg.value, ast.Name) and isinstance(tg.slice, ast.Slice):
                # a[lo:hi] = rhs   (a is a local array created in this function)
                nm = tg.value.id
                if nm not in self.env or self.env[nm].kind not in ('carr', 'rarr') or nm in self.sig['params']:
                    self.fail(st, 'slice store into something that is not a local array')
                a = self.env[nm]
                sl = tg.slice
                if sl.step is not None or sl.lower is None:
                    self.fail(st, 'slice store bounds')
                lo = self.nat_index(sl.lower)
                hi = self.nat_index(sl.upper) if sl.upper is not None else f"{a.text}.length"
                rhs = self.tr(st.value)
                if rhs.kind != a.kind or 'last' in (lo, hi):
                    self.fail(st, 'slice store value')
                self.env[nm] = self.named(V(a.kind, f"(NpE.setSlice {a.text} {lo} {hi} {rhs.text})"))
                return
            self.fail(st, 'assignment target')
        if isinstance(st, ast.AugAssign) and isinstance(st.target, ast.Name):
            nm = st.target.id
            if nm in self.sig['params']:
                self.fail(st, 'augmented assignment to a parameter')
            fake = ast.BinOp(left=ast.Name(id=nm, ctx=ast.Load()), op=st.op, right=st.value)
            ast.copy_location(fake, st)
            ast.fix_missing_locations(fake)
            self.env[nm] = self.named(self.tr_binop(fake))
            return
        if isinstance(st, ast.Assert) and st.msg is None:
            c = self.tr(st.test)
            if c.kind != 'cond':
                self.fail(st, 'assert')
            self.cnt += 1
            self.lines.append(f"let _ ← NpE.assertE ({c.text})")
            return
        if isinstance(st, ast.If):
            v = self.static_test(st.test)
            if v is not None:
                self.run(st.body if v else st.orelse, top=False)
                return
            return self.dynamic_if(st)
        if isinstance(st, ast.Return):
            self.returned = self.tr(st.value) if st.value is not None else V('none', 'none')
            return
        self.fail(st, f"statement {type(st).__name__}")

    def dynamic_if(self, st):
        c = self.tr(st.test)
        if c.kind != 'cond':
            self.fail(st, 'if test')
        nlines = len(self.lines)
        base = dict(self.env)
        envs = []
        self.in_branch = True
        for branch in (st.body, st.orelse):
            self.env = dict(base)
            for s in branch:
                if not (isinstance(s, ast.Assign) and len(s.targets) == 1 and isinstance(s.targets[0], ast.Name)):
                    self.fail(s, 'data-dependent if: branch statement is not `name = expr`')
                self.stmt(s)
            if len(self.lines) != nlines:
                self.fail(st, 'data-dependent if: a branch contains a call that can raise')
            envs.append(self.env)
        self.in_branch = False
        self.env = dict(base)
        for nm in sorted(set(envs[0]) | set(envs[1])):
            a, b = envs[0].get(nm), envs[1].get(nm)
            if a is b:
                continue
            if a is None or b is None or a.kind != b.kind or a.kind in ('flag', 'none', 'tuple', 'obj'):
                self.fail(st, f"data-dependent if: `{nm}` is not defined with one kind on both paths")
            self.env[nm] = self.named(V(a.kind, f"(if {c.text} then {a.text} else {b.text})"))


# ----------------------------------------------------------------------------------------------
# function-level driver
# ----------------------------------------------------------------------------------------------

def strip_outer(t):
    """remove one pair of redundant outer parentheses (never those of a type ascription `(x : T)`)"""
    if t.startswith('(') and t.endswith(')'):
        depth = 0
        for i, ch in enumerate(t):
            depth += ch == '('
            depth -= ch == ')'
            if depth == 0 and i < len(t) - 1:
                return t
            if depth == 1 and t[i:i + 3] == ' : ':
                return t
        return t[1:-1]
    return t


def assigns(st, name, aug=True):
    """does the (top-level) statement `st` (re)bind or update the local `name`?"""
    for n in ast.walk(st):
        if isinstance(n, ast.Name) and n.id == name and isinstance(n.ctx, ast.Store):
            if not aug and isinstance(st, ast.AugAssign):
                continue
            return True
        if isinstance(n, ast.Subscript) and isinstance(n.ctx, ast.Store) and isinstance(n.value, ast.Name) and n.value.id == name:
            return True
    return False


def find_function(mod, name, cls=None):
    body = mod.body
    if cls is not None:
        for n in mod.body:
            if isinstance(n, ast.ClassDef) and n.name == cls:
                body = n.body
                break
        else:
            raise Untranslatable(f"{cls}.{name}", 0, "class not found")
    found = [n for n in body if isinstance(n, ast.FunctionDef) and n.name == name]
    if len(found) != 1:
        raise Untranslatable(name, 0, f"{len(found)} definitions found")
    return found[0]


def py_params(fn, fname):
    a = fn.args
    if a.vararg or a.kwarg or a.kwonlyargs or a.posonlyargs:
        raise Untranslatable(fname, fn.lineno, "parameter list (*args/**kwargs/keyword-only)")
    names = [x.arg for x in a.args]
    defaults = {}
    for nm, d in zip(names[len(names) - len(a.defaults):], a.defaults):
        defaults[nm] = d
    return names, defaults


def translate_function(fn, src, sig, lean_name, doc, result, expose=None, expose_pre_aug=False, expose_whole=False):
    """sig: dict(params={py name: spec}, outputs=(attr,…), attr_flags={attr: value})
       spec: ('nat'|'real'|'carr'|'rarr', lean text) | ('optnat', lean name) | ('bool', lean name) | ('obj', {attr: (kind, text)})
       result: list of output attribute names (method) or 'return'; expose: name of a local variable to return instead
       (its value after the last top-level statement that assigns it, the body being cut there; with expose_whole its final value
       after the WHOLE body, so that every exception of the function is kept)
       Returns (lean definition text, {py param: default AST})"""
    fname = sig.get('qualname', fn.name)
    names, defaults = py_params(fn, fname)
    if names != list(sig['params']):
        raise Untranslatable(fname, fn.lineno, f"parameters {names} (expected {list(sig['params'])})")
    flag_params = [p for p in names if sig['params'][p][0] in ('optnat', 'optint', 'optrarr', 'bool', 'str')]
    arms = []
    classes = set()
    res_kinds = None
    domains = []
    for p in flag_params:
        if sig['params'][p][0] == 'str':
            # the string literals the parameter is compared with (in source order), and "any other value"
            lits = []
            for n in ast.walk(fn):
                if isinstance(n, ast.Compare) and isinstance(n.left, ast.Name) and n.left.id == p and len(n.ops) == 1 and \
                        isinstance(n.comparators[0], ast.Constant) and isinstance(n.comparators[0].value, str):
                    if n.comparators[0].value not in lits:
                        lits.append(n.comparators[0].value)
            for n in ast.walk(fn):
                if isinstance(n, ast.Name) and n.id == p and isinstance(n.ctx, ast.Store):
                    raise Untranslatable(fname, fn.lineno, f"string parameter {p} is reassigned")
            if not all(x.isidentifier() for x in lits) or 'other' in lits:
                raise Untranslatable(fname, fn.lineno, f"string literals compared with {p}: {lits}")
            domains.append(lits + [None])
        else:
            domains.append([True, False])
    str_domains = {p: d for p, d in zip(flag_params, domains) if sig['params'][p][0] == 'str'}
    for combo in itertools.product(*domains):
        flags = dict(zip(flag_params, combo))
        ex = SymExec(fname, src, sig, flags)
        for p in names:
            spec = sig['params'][p]
            if spec[0] == 'obj':
                ex.env[p] = V('obj', None, spec[1])
            elif spec[0] == 'optnat':
                ex.env[p] = V('nat', spec[1]) if flags[p] else V('none', 'none')
            elif spec[0] == 'optint':
                ex.env[p] = V('int', spec[1]) if flags[p] else V('none', 'none')
            elif spec[0] == 'str':
                ex.env[p] = V('str', None, flags[p] if flags[p] is not None else '\0other')
            elif spec[0] == 'optrarr':
                ex.env[p] = V('rarr', spec[1]) if flags[p] else V('none', 'none')
            elif spec[0] == 'bool':
                ex.env[p] = V('flag', None, flags[p])
            else:
                ex.env[p] = V(spec[0], spec[1])
        body = fn.body
        if expose is not None and not expose_whole:
            # prefix of the body up to (and including) the last top-level statement that assigns `expose`
            # (`expose_pre_aug`: … that is not an augmented assignment, and at least one augmented assignment must follow)
            last = max((i for i, st in enumerate(body) if assigns(st, expose, aug=not expose_pre_aug)), default=None)
            if last is None:
                raise Untranslatable(fname, fn.lineno, f"local variable {expose} not found")
            if expose_pre_aug and not any(isinstance(st, ast.AugAssign) and assigns(st, expose) for st in body[last + 1:]):
                raise Untranslatable(fname, fn.lineno, f"no augmented assignment to {expose} after its construction")
            body = body[:last + 1]
        ex.run(body)
        if expose is not None:
            if expose not in ex.env:
                raise Untranslatable(fname, fn.lineno, f"{expose} is not assigned on every path")
            outs = [ex.env[expose]]
        elif result == 'return':
            if ex.returned is None:
                raise Untranslatable(fname, fn.lineno, "no return")
            outs = ex.returned.aux if ex.returned.kind == 'tuple' else [ex.returned]
        else:
            if ex.returned is not None and ex.returned.kind != 'none':
                raise Untranslatable(fname, fn.lineno, "method returns a value")
            for attr, val in sig.get('attr_flags', {}).items():
                if attr not in ex.outputs:
                    raise Untranslatable(fname, fn.lineno, f"self.{attr} = {val} missing")
            missing = [o for o in result if o not in ex.outputs]
            if missing:
                raise Untranslatable(fname, fn.lineno, f"self.{missing[0]} is not stored")
            outs = [ex.outputs[o] for o in result]
        for o in outs:
            if o.kind not in LEAN_TYPE:
                raise Untranslatable(fname, fn.lineno, f"result of kind {o.kind}")
        kinds = [o.kind for o in outs]
        if res_kinds is None:
            res_kinds = kinds
        elif res_kinds != kinds:
            raise Untranslatable(fname, fn.lineno, f"result kinds differ between paths: {res_kinds} / {kinds}")
        val = strip_outer(outs[0].text) if len(outs) == 1 else "(" + ", ".join(strip_outer(o.text) for o in outs) + ")"
        pats = []
        for p in flag_params:
            spec = sig['params'][p]
            if spec[0] == 'bool':
                pats.append('true' if flags[p] else 'false')
            elif spec[0] == 'str':
                pats.append('.' + (flags[p] if flags[p] is not None else 'other'))
            else:
                pats.append(f"some {spec[1]}" if flags[p] else 'none')
        arms.append((pats, ex.lines, val))
        classes |= ex.classes
    text_all = " ".join(" ".join(l) + v for _, l, v in arms)
    uses = lambda w: w in text_all  # noqa: E731
    binders = list(sig.get('extra_binders', ()))
    if uses('cabs'):
        binders.append('(cabs : β → α)')
    if uses(' tw '):
        binders.append('(tw : Nat → Nat → β)')
    for p in names:
        spec = sig['params'][p]
        if spec[0] == 'obj':
            for bn in spec[2]:
                binders.append(bn)
        elif spec[0] == 'str':
            binders.append(f"({spec[1]} : {spec[2]})")
        elif spec[0] in ('optnat', 'optint', 'optrarr', 'bool'):
            binders.append(f"({spec[1]} : {LEAN_TYPE[spec[0]]})")
        else:
            binders.append(f"({spec[1]} : {LEAN_TYPE[spec[0]]})")
    rty = " × ".join(LEAN_TYPE[k] for k in res_kinds)
    rty_p = rty if ' ' not in rty else f"({rty})"
    unknown = sorted(c for c in classes if c not in CLASS_ORDER and not c.startswith('[OfNat α'))
    if unknown:
        raise Untranslatable(fname, fn.lineno, f"internal: class {unknown}")
    extra_nat = sorted(c for c in classes if c.startswith('[OfNat α') and c not in CLASS_ORDER)
    cls = [c for c in CLASS_ORDER if c in classes] + extra_nat
    tyvars = [t for t in ('α', 'β') if any(t in b for b in binders + cls + [rty])]
    tc = (f"{{{' '.join(tyvars)} : Type}} " + " ".join(cls)).rstrip()
    header = tc + "\n    " + " ".join(binders)
    lines = [f"/-- {doc} -/", f"def {lean_name} {header} :", f"    Except ErrKind {rty_p} :="]
    if flag_params:
        lines.append("  match " + ", ".join(sig['params'][p][1] for p in flag_params) + " with")
        for pats, blines, val in arms:
            lines.append("  | " + ", ".join(pats) + " => do")
            lines += ["    " + l for l in blines]
            lines.append(f"    pure ({val})")
    else:
        pats, blines, val = arms[0]
        lines[-1] += " do"
        lines += ["  " + l for l in blines]
        lines.append(f"  pure ({val})")
    return "\n".join(lines), dict(defaults=defaults, header=header, tc=tc, binders=binders, str_domains=str_domains, args=" ".join(b[1:].split(' ')[0] for b in binders), rty=rty)


def default_text(fname, node, kind, src=None):
    """Lean text of a Python default value of a flag/nat parameter"""
    if kind in ('optnat', 'optint', 'optrarr') and isinstance(node, ast.Constant) and node.value is None:
        return 'none'
    if kind == 'optnat' and isinstance(node, ast.Constant) and isinstance(node.value, int) and not isinstance(node.value, bool):
        return f"(some {node.value})"
    if kind == 'bool' and isinstance(node, ast.Constant) and isinstance(node.value, bool):
        return 'true' if node.value else 'false'
    if kind == 'nat' and isinstance(node, ast.Constant) and isinstance(node.value, int) and not isinstance(node.value, bool) and node.value >= 0:
        return str(node.value)
    if kind == 'real' and isinstance(node, ast.Constant) and isinstance(node.value, (int, float)) and not isinstance(node.value, bool) \
            and src is not None:
        return lit_text(ast.get_source_segment(src, node))
    raise Untranslatable(fname, getattr(node, 'lineno', 0), "default value")


# ----------------------------------------------------------------------------------------------
# target 1: Gen/FreqGrid.lean
# ----------------------------------------------------------------------------------------------

# a Signal object as far as the Fourier code reads it: values (complex array in general), dt, npts = len(values) (object invariant, C04)
SIG_OBJ = ('obj', {'values': ('carr', 'values'), 'dt': ('real', 'dt'), 'npts': ('nat', 'values.length')},
           ['(values : List β)', '(dt : α)'])
# an AccSignal as far as max_fa_period / the bandwidth functions read it
SPEC_OBJ = ('obj', {'fa_spectrum': ('carr', 'fas'), 'fa_frequencies': ('rarr', 'freqs')}, ['(fas : List β)', '(freqs : List α)'])


def check_cached_property(mod, src, cls, prop, gen_method, attr, wrap=None):
    """`if not self._cached_fa: self.<gen_method>()` / `return [abs(]self.<attr>[)]`; returns nothing, raises on another shape"""
    fn = find_function(mod, prop, cls)
    q = f"{cls}.{prop}"
    body = [s for s in fn.body if not (isinstance(s, ast.Expr) and isinstance(s.value, ast.Constant))]
    ok = len(body) == 2 and isinstance(body[0], ast.If) and not body[0].orelse and len(body[0].body) == 1
    if ok:
        t = body[0].test
        ok = isinstance(t, ast.UnaryOp) and isinstance(t.op, ast.Not) and isinstance(t.operand, ast.Attribute) and \
            t.operand.attr == '_cached_fa' and isinstance(t.operand.value, ast.Name) and t.operand.value.id == 'self'
    if ok:
        c = body[0].body[0]
        ok = isinstance(c, ast.Expr) and isinstance(c.value, ast.Call) and not c.value.args and not c.value.keywords and \
            isinstance(c.value.func, ast.Attribute) and c.value.func.attr == gen_method and \
            isinstance(c.value.func.value, ast.Name) and c.value.func.value.id == 'self'
    if ok:
        r = body[1]
        ok = isinstance(r, ast.Return)
        v = r.value if ok else None
        if ok and wrap is not None:
            ok = isinstance(v, ast.Call) and isinstance(v.func, ast.Name) and v.func.id == wrap and len(v.args) == 1 and not v.keywords
            v = v.args[0] if ok else None
        ok = ok and isinstance(v, ast.Attribute) and v.attr == attr and isinstance(v.value, ast.Name) and v.value.id == 'self'
    if not ok:
        raise Untranslatable(q, fn.lineno, f"not of the shape `if not self._cached_fa: self.{gen_method}()` / `return self.{attr}`")


def local_name(fn, fname, what, pick):
    """the name of a local variable identified by its ROLE (so that renaming it is harmless): `pick(node)` returns the ast.Name or None"""
    found = []
    for n in ast.walk(fn):
        r = pick(n)
        if isinstance(r, ast.Name) and r.id not in found:
            found.append(r.id)
    if len(found) != 1:
        raise Untranslatable(fname, fn.lineno, f"cannot identify the local variable for {what} (candidates: {found})")
    return found[0]


def _is_np_call(n, dotted):
    if not isinstance(n, ast.Call):
        return False
    f, parts = n.func, []
    while isinstance(f, ast.Attribute):
        parts.append(f.attr)
        f = f.value
    return isinstance(f, ast.Name) and '.'.join(reversed(parts + [f.id])) == dotted


def gen_freq_grid(repo, ns):
    ssrc = open(os.path.join(repo, 'eqsig', 'single.py')).read()
    smod = ast.parse(ssrc)
    fsrc = open(os.path.join(repo, 'eqsig', 'fns', 'frequency.py')).read()
    fmod = ast.parse(fsrc)
    isrc = open(os.path.join(repo, 'eqsig', 'im.py')).read()
    imod = ast.parse(isrc)
    defs = []

    # ---- Signal.gen_fa_spectrum(self, p2_plus=0, n=None)
    fn = find_function(smod, 'gen_fa_spectrum', 'Signal')
    sig = dict(qualname='Signal.gen_fa_spectrum', params={'self': SIG_OBJ, 'p2_plus': ('nat', 'p2_plus'), 'n': ('optnat', 'n')},
               outputs=('_fa_spectrum', '_fa_freqs'), attr_flags={'_cached_fa': True})
    q = 'Signal.gen_fa_spectrum'
    v_nf = local_name(fn, q, 'the transform length (n= of np.fft.fft)', lambda n: next(
        (k.value for k in n.keywords if k.arg == 'n'), None) if _is_np_call(n, 'np.fft.fft') else None)
    v_pt = local_name(fn, q, 'the number of bins (x[range(·)])', lambda n: n.slice.args[0] if isinstance(n, ast.Subscript) and isinstance(
        n.slice, ast.Call) and isinstance(n.slice.func, ast.Name) and n.slice.func.id == 'range' and len(n.slice.args) == 1 else None)
    for lname, expose, doc in (('signalNFactor', v_nf, 'the transform length of `Signal.gen_fa_spectrum(p2_plus, n)`: final value of the '
                                'local passed as `n=` to `np.fft.fft` (`n_factor`), with every exception of the method'),
                               ('signalPoints', v_pt, 'the number of bins of `Signal.gen_fa_spectrum(p2_plus, n)`: final value of the local '
                                'in `fa[range(·)]` (`points`), with every exception of the method')):
        t, _ = translate_function(fn, ssrc, sig, lname, doc, None, expose=expose, expose_whole=True)
        defs.append(t)
    t, info = translate_function(fn, ssrc, sig, 'signalGenFaSpectrum',
                                 '`Signal.gen_fa_spectrum(p2_plus, n)`: the pair stored in `(self._fa_spectrum, self._fa_freqs)` '
                                 '(and `self._cached_fa = True`)', ['_fa_spectrum', '_fa_freqs'])
    defs.append(t)
    dflt = info['defaults']
    if set(dflt) != {'p2_plus', 'n'} or info['args'] != 'tw values dt p2_plus n' or info['rty'] != 'List β × List α':
        raise Untranslatable('Signal.gen_fa_spectrum', fn.lineno, "defaults of p2_plus / n")
    d_p = default_text('Signal.gen_fa_spectrum', dflt['p2_plus'], 'nat')
    d_n = default_text('Signal.gen_fa_spectrum', dflt['n'], 'optnat')

    bnd = [b for b in info['binders'] if b not in ('(p2_plus : Nat)', '(n : Option Nat)')]
    common = info['tc'] + "\n    " + " ".join(bnd)
    common_abs = info['tc'] + "\n    " + " ".join(['(cabs : β → α)'] + bnd)
    # ---- Signal.generate_fa_spectrum(self): `self.gen_fa_spectrum()`
    g = find_function(smod, 'generate_fa_spectrum', 'Signal')
    body = [s for s in g.body if not (isinstance(s, ast.Expr) and isinstance(s.value, ast.Constant))]
    ok = len(body) == 1 and isinstance(body[0], ast.Expr) and isinstance(body[0].value, ast.Call)
    if ok:
        c = body[0].value
        ok = isinstance(c.func, ast.Attribute) and c.func.attr == 'gen_fa_spectrum' and isinstance(c.func.value, ast.Name) and \
            c.func.value.id == 'self' and not c.args and not c.keywords
    if not ok or [a.arg for a in g.args.args] != ['self']:
        raise Untranslatable('Signal.generate_fa_spectrum', g.lineno, "body is not `self.gen_fa_spectrum()`")
    defs.append("/-- `Signal.generate_fa_spectrum()` = `self.gen_fa_spectrum()` with the defaults of its signature "
                f"(`p2_plus={d_p}`, `n={'None' if d_n == 'none' else d_n}`) -/\n"
                f"def signalGenerateFaSpectrum {common} :\n"
                "    Except ErrKind (List β × List α) :=\n"
                f"  signalGenFaSpectrum tw values dt {d_p} {d_n}")
    # ---- the three lazily computed properties (first access: the generator runs, the stored attribute is returned)
    check_cached_property(smod, ssrc, 'Signal', 'fa_spectrum', 'generate_fa_spectrum', '_fa_spectrum')
    check_cached_property(smod, ssrc, 'Signal', 'fa_spectrum_abs', 'generate_fa_spectrum', '_fa_spectrum', wrap='abs')
    check_cached_property(smod, ssrc, 'Signal', 'fa_freqs', 'gen_fa_spectrum', '_fa_freqs')
    fq = find_function(smod, 'fa_frequencies', 'Signal')
    body = [s for s in fq.body if not (isinstance(s, ast.Expr) and isinstance(s.value, ast.Constant))]
    if not (len(body) == 1 and isinstance(body[0], ast.Return) and isinstance(body[0].value, ast.Attribute) and
            body[0].value.attr == 'fa_freqs' and isinstance(body[0].value.value, ast.Name) and body[0].value.value.id == 'self'):
        raise Untranslatable('Signal.fa_frequencies', fq.lineno, "body is not `return self.fa_freqs`")
    defs.append("/-- `Signal.fa_spectrum` on first access (`_cached_fa` false): `self.generate_fa_spectrum()`, then `self._fa_spectrum` -/\n"
                f"def signalFaSpectrum {common} :\n    Except ErrKind (List β) := do\n"
                "  let out ← signalGenerateFaSpectrum tw values dt\n  pure out.1")
    defs.append("/-- `Signal.fa_spectrum_abs` on first access: `self.generate_fa_spectrum()`, then `abs(self._fa_spectrum)` -/\n"
                f"def signalFaSpectrumAbs {common_abs} :\n    Except ErrKind (List α) := do\n"
                "  let out ← signalGenerateFaSpectrum tw values dt\n  pure (out.1.map cabs)")
    defs.append("/-- `Signal.fa_freqs` (= `Signal.fa_frequencies`) on first access: `self.gen_fa_spectrum()` with the defaults, "
                "then `self._fa_freqs` -/\n"
                f"def signalFaFreqs {common} :\n    Except ErrKind (List α) := do\n"
                f"  let out ← signalGenFaSpectrum tw values dt {d_p} {d_n}\n  pure out.2")

    # ---- fns.frequency.generate_fa_spectrum(sig, n_pad=True) / calc_fa_spectrum(sig, n=None, p2_plus=None)
    fn = find_function(fmod, 'generate_fa_spectrum')
    sig = dict(qualname='generate_fa_spectrum', params={'sig': SIG_OBJ, 'n_pad': ('bool', 'n_pad')})
    t, info = translate_function(fn, fsrc, sig, 'generateFaSpectrum', '`eqsig.fns.frequency.generate_fa_spectrum(sig, n_pad)`', 'return')
    defs.append(t)
    dflt = info['defaults']
    defs.append(f"/-- default of `n_pad` -/\ndef generateFaSpectrumDefaultNPad : Bool := {default_text('generate_fa_spectrum', dflt.get('n_pad'), 'bool')}")
    fn = find_function(fmod, 'calc_fa_spectrum')
    sig = dict(qualname='calc_fa_spectrum', params={'sig': SIG_OBJ, 'n': ('optnat', 'n'), 'p2_plus': ('optnat', 'p2_plus')})
    t, info = translate_function(fn, fsrc, sig, 'calcFaSpectrum', '`eqsig.fns.frequency.calc_fa_spectrum(sig, n, p2_plus)`', 'return')
    defs.append(t)
    dflt = info['defaults']
    defs.append("/-- defaults of `(n, p2_plus)` -/\ndef calcFaSpectrumDefaults : Option Nat × Option Nat := "
                f"({default_text('calc_fa_spectrum', dflt.get('n'), 'optnat')}, {default_text('calc_fa_spectrum', dflt.get('p2_plus'), 'optnat')})")

    # ---- fas2values(fas, dt)
    fn = find_function(fmod, 'fas2values')
    sig = dict(qualname='fas2values', params={'fas': ('carr', 'fas'), 'dt': ('real', 'dt')})
    v_a = local_name(fn, 'fas2values', 'the array created by np.zeros', lambda n: n.targets[0] if isinstance(n, ast.Assign) and len(
        n.targets) == 1 and _is_np_call(n.value, 'np.zeros') else None)
    t, _ = translate_function(fn, fsrc, sig, 'fas2valuesArray', 'the local array of `fas2values(fas, dt)` created by `np.zeros` (`a`), after '
                              'its slice stores and before its augmented assignment `a /= dt` (Hermitian completion)', None,
                              expose=v_a, expose_pre_aug=True)
    defs.append(t)
    t, _ = translate_function(fn, fsrc, sig, 'fas2values', '`eqsig.fns.frequency.fas2values(fas, dt)`', 'return')
    defs.append(t)

    # ---- im.max_fa_period(asig)
    fn = find_function(imod, 'max_fa_period')
    sig = dict(qualname='max_fa_period', params={'asig': SPEC_OBJ})
    v_mi = local_name(fn, 'max_fa_period', 'the result of np.argmax', lambda n: n.targets[0] if isinstance(n, ast.Assign) and len(
        n.targets) == 1 and _is_np_call(n.value, 'np.argmax') else None)
    t, _ = translate_function(fn, isrc, sig, 'maxFaIndex', 'the local assigned from `np.argmax` (`max_index`) in `eqsig.im.max_fa_period(asig)` on '
                              '`(asig.fa_spectrum, asig.fa_frequencies)`; `cabs` = `np.abs` on complex numbers', None, expose=v_mi)
    defs.append(t)
    t, _ = translate_function(fn, isrc, sig, 'maxFaPeriod', '`eqsig.im.max_fa_period(asig)` on `(asig.fa_spectrum, asig.fa_frequencies)` '
                              '(`1. / 0.` is whatever `/` of the number type gives: `inf` in NumPy)', 'return')
    defs.append(t)

    text = ["-- GENERATED by tools/py2lean_x_freq.py from eqsig/single.py (Signal.gen_fa_spectrum & co), eqsig/fns/frequency.py",
            "-- (generate_fa_spectrum, calc_fa_spectrum, fas2values) and eqsig/im.py (max_fa_period). Do not edit.",
            "import EqsigVerif.Prelude.NpE", "", "set_option linter.unusedVariables false", "", f"namespace EqsigVerif.{ns}.FreqGrid",
            "open EqsigVerif EqsigVerif.Wire EqsigVerif.Cplx", ""] + ["\n\n".join(defs)] + ["", f"end EqsigVerif.{ns}.FreqGrid", ""]
    return {"FreqGrid.lean": "\n".join(text)}


# ----------------------------------------------------------------------------------------------
# target 2: Gen/FreqBand.lean — bandwidth limits and the frame of the Konno–Ohmachi smoothing functions
# ----------------------------------------------------------------------------------------------

SMOOTH_OBJ = ('obj', {'smooth_fa_spectrum': ('rarr', 'smooth'), 'smooth_fa_frequencies': ('rarr', 'freqs')},
              ['(smooth : List α)', '(freqs : List α)'])


def ko_hooks(suf):
    """the two statements `amp_array = …` / first `wb_vals = …` are the window expression that `py2lean.gen_ko_window` extracts into
    Gen/KoWindow.lean (scalar functions koArg<suf>, koRaw<suf>); here only HOW they are lifted over the frequency grid is translated:
    rows = `fa_frequencies[:, np.newaxis]`, columns = `smooth_fa_frequencies[np.newaxis, :]`, everything else element-wise"""
    def amp(ex, st):
        if 'amp_array' in ex.env:
            ex.fail(st, 'second assignment to amp_array')
        rows, cols = set(), set()
        inside = set()
        for n in ast.walk(st.value):
            if isinstance(n, ast.Subscript):
                if not isinstance(n.value, ast.Name):
                    ex.fail(n, 'window argument: subscript')
                v = ex.tr(n)
                if v.kind == 'colvec' and n.value.id == 'fa_frequencies':
                    rows.add(v.text)
                elif v.kind == 'rowvec' and n.value.id == 'smooth_fa_frequencies':
                    cols.add(v.text)
                else:
                    ex.fail(n, 'window argument: orientation (expected fa_frequencies[:, np.newaxis], smooth_fa_frequencies[np.newaxis, :])')
                inside |= {id(x) for x in ast.walk(n)}
        for n in ast.walk(st.value):
            if isinstance(n, ast.Name) and id(n) not in inside and n.id not in ('np', 'band'):
                ex.fail(n, 'window argument: free variable')
        if len(rows) != 1 or len(cols) != 1 or ex.env.get('band') is None or ex.env['band'].kind != 'real':
            ex.fail(st, 'window argument: grid')
        ex.need('[Mul α]', '[Div α]')
        return V('mat', f"({cols.pop()}.map (fun fc => {rows.pop()}.map (fun f => KoWindow.koArg{suf} log10 {ex.env['band'].text} f fc)))")

    def raw(ex, st):
        if 'wb_vals' in ex.env:
            return None                 # later assignments (np.where, normalisation) are translated structurally
        for n in ast.walk(st.value):
            if isinstance(n, ast.Name) and n.id not in ('np', 'amp_array'):
                ex.fail(n, 'raw window: free variable')
            if isinstance(n, ast.Subscript):
                ex.fail(n, 'raw window: subscript')
        a = ex.env.get('amp_array')
        if a is None or a.kind != 'mat':
            ex.fail(st, 'raw window before amp_array')
        ex.need('[Mul α]', '[Div α]')
        return V('mat', f"({a.text}.map (fun col => col.map (KoWindow.koRaw{suf} sin)))")
    return {'amp_array': amp, 'wb_vals': raw}


def gen_freq_band(repo, ns):
    isrc = open(os.path.join(repo, 'eqsig', 'im.py')).read()
    imod = ast.parse(isrc)
    fsrc = open(os.path.join(repo, 'eqsig', 'fns', 'frequency.py')).read()
    fmod = ast.parse(fsrc)
    defs = []
    for py, ln in (('calc_bandwidth_freqs', 'bandwidthFreqs'), ('calc_bandwidth_f_min', 'bandwidthFMin'), ('calc_bandwidth_f_max', 'bandwidthFMax')):
        fn = find_function(imod, py)
        sig = dict(qualname=py, params={'asig': SMOOTH_OBJ, 'ratio': ('real', 'ratio')})
        t, info = translate_function(fn, isrc, sig, ln, f'`eqsig.im.{py}(asig, ratio)` on `(asig.smooth_fa_spectrum, asig.smooth_fa_frequencies)`',
                                     'return')
        defs.append(t)
        defs.append(f"/-- default of `ratio` in `{py}` -/\ndef {ln}DefaultRatio : Rat := "
                    f"{default_text(py, info['defaults'].get('ratio'), 'real', isrc)}")
    fn = find_function(fmod, 'get_sig_array_indexes_range')
    sig = dict(qualname='get_sig_array_indexes_range', params={'fas1_smooth': ('rarr', 'smooth'), 'ratio': ('real', 'ratio')})
    t, info = translate_function(fn, fsrc, sig, 'sigArrayIndexesRange', '`eqsig.fns.frequency.get_sig_array_indexes_range(fas1_smooth, ratio)`',
                                 'return')
    defs.append(t)
    defs.append("/-- default of `ratio` in `get_sig_array_indexes_range` -/\ndef sigArrayIndexesRangeDefaultRatio : Rat := "
                f"{default_text('get_sig_array_indexes_range', info['defaults'].get('ratio'), 'real', fsrc)}")
    # ---- frame of the two smoothing functions
    fn = find_function(fmod, 'calc_smooth_fa_spectrum')
    sig = dict(qualname='calc_smooth_fa_spectrum', hooks=ko_hooks('Direct'), extra_binders=['(sin log10 : α → α)'],
               params={'fa_frequencies': ('rarr', 'faFreqs'), 'fa_spectrum': ('rarr', 'A'),
                       'smooth_fa_frequencies': ('optrarr', 'smooth'), 'band': ('real', 'band')})
    t, info = translate_function(fn, fsrc, sig, 'calcSmoothFaSpectrum',
                                 '`eqsig.fns.frequency.calc_smooth_fa_spectrum(fa_frequencies, fa_spectrum, smooth_fa_frequencies, band)`; '
                                 'matrices are column-major (one column per smoothing frequency); the window expression is `KoWindow.*Direct`', 'return')
    defs.append(t)
    d = info['defaults']
    if default_text('calc_smooth_fa_spectrum', d.get('smooth_fa_frequencies'), 'optrarr') != 'none':
        raise Untranslatable('calc_smooth_fa_spectrum', fn.lineno, 'default of smooth_fa_frequencies')
    defs.append("/-- default of `band` in `calc_smooth_fa_spectrum` (`smooth_fa_frequencies` defaults to `None`) -/\n"
                f"def calcSmoothFaSpectrumDefaultBand : Rat := {default_text('calc_smooth_fa_spectrum', d.get('band'), 'real', fsrc)}")
    fn = find_function(fmod, 'calc_smoothing_matrix_konno_1998')
    sig = dict(qualname='calc_smoothing_matrix_konno_1998', hooks=ko_hooks('Matrix'), extra_binders=['(sin log10 : α → α)'],
               params={'fa_frequencies': ('rarr', 'faFreqs'), 'smooth_fa_frequencies': ('optrarr', 'smooth'), 'band': ('real', 'band')})
    t, info = translate_function(fn, fsrc, sig, 'calcSmoothingMatrix',
                                 '`eqsig.fns.frequency.calc_smoothing_matrix_konno_1998(fa_frequencies, smooth_fa_frequencies, band)` '
                                 '(column-major; the window expression is `KoWindow.*Matrix`)', 'return')
    defs.append(t)
    d = info['defaults']
    if default_text('calc_smoothing_matrix_konno_1998', d.get('smooth_fa_frequencies'), 'optrarr') != 'none':
        raise Untranslatable('calc_smoothing_matrix_konno_1998', fn.lineno, 'default of smooth_fa_frequencies')
    defs.append("/-- default of `band` in `calc_smoothing_matrix_konno_1998` -/\n"
                f"def calcSmoothingMatrixDefaultBand : Rat := {default_text('calc_smoothing_matrix_konno_1998', d.get('band'), 'real', fsrc)}")
    # ---- calc_smooth_fa_spectrum_w_custom_matrix(asig, smooth_matrix): np.dot(abs(asig.fa_spectrum[1:]), smooth_matrix)
    fn = find_function(fmod, 'calc_smooth_fa_spectrum_w_custom_matrix')
    sig = dict(qualname='calc_smooth_fa_spectrum_w_custom_matrix',
               params={'asig': ('obj', {'fa_spectrum': ('rarr', 'A')}, ['(A : List α)']), 'smooth_matrix': ('mat', 'M')})
    t, _ = translate_function(fn, fsrc, sig, 'smoothWithMatrix', '`calc_smooth_fa_spectrum_w_custom_matrix(asig, smooth_matrix)` on '
                              '`asig.fa_spectrum` (real, or the moduli of a complex spectrum) and the column-major matrix', 'return')
    defs.append(t)
    text = ["-- GENERATED by tools/py2lean_x_freq.py from eqsig/im.py (calc_bandwidth_freqs/_f_min/_f_max) and eqsig/fns/frequency.py",
            "-- (get_sig_array_indexes_range, frame of calc_smooth_fa_spectrum / calc_smoothing_matrix_konno_1998 around the window of",
            "-- KoWindow.lean, calc_smooth_fa_spectrum_w_custom_matrix). Do not edit.",
            "import EqsigVerif.Prelude.NpE", f"import EqsigVerif.{ns}.KoWindow", "", "set_option linter.unusedVariables false", "",
            f"namespace EqsigVerif.{ns}.FreqBand",
            f"open EqsigVerif EqsigVerif.Wire EqsigVerif.Cplx EqsigVerif.{ns}", ""] + ["\n\n".join(defs)] + ["", f"end EqsigVerif.{ns}.FreqBand", ""]
    return {"FreqBand.lean": "\n".join(text)}


# ----------------------------------------------------------------------------------------------
# target 3: Gen/GenericFns.lean — eqsig/fns/average.py (calc_roll_av_vals, calc_step_fn_steps_vals)
# ----------------------------------------------------------------------------------------------

def gen_generic_fns(repo, ns):
    asrc = open(os.path.join(repo, 'eqsig', 'fns', 'average.py')).read()
    amod = ast.parse(asrc)
    defs = []
    # ---- calc_roll_av_vals(values, steps, mode='forward')
    fn = find_function(amod, 'calc_roll_av_vals')
    sig = dict(qualname='calc_roll_av_vals', params={'values': ('rarr', 'values'), 'steps': ('nat', 'steps'), 'mode': ('str', 'mode', 'RollMode')})
    t, info = translate_function(fn, asrc, sig, 'rollAv', '`eqsig.fns.average.calc_roll_av_vals(values, steps, mode)` (`steps` a non-negative '
                                 'integer; `mode` by the string literals the code compares it with)', 'return')
    lits = info['str_domains']['mode']
    d = info['defaults'].get('mode')
    if not (isinstance(d, ast.Constant) and isinstance(d.value, str) and d.value in lits):
        raise Untranslatable('calc_roll_av_vals', fn.lineno, 'default of mode')
    defs.append("/-- the values of `mode` the code of `calc_roll_av_vals` distinguishes: the string literals it compares `mode` with, in source "
                "order, and `other` (any other value) -/\ninductive RollMode | " + " | ".join(x if x is not None else 'other' for x in lits) +
                "\n  deriving Repr, DecidableEq, Inhabited")
    defs.append(f"/-- default of `mode` -/\ndef rollAvDefaultMode : RollMode := .{d.value}")
    v_ext = local_name(fn, 'calc_roll_av_vals', 'the argument of np.cumsum', lambda n: n.args[0] if _is_np_call(n, 'np.cumsum') and n.args else None)
    t2, _ = translate_function(fn, asrc, sig, 'rollExt', 'the edge-replicated series of `calc_roll_av_vals` (the local passed to `np.cumsum`, `x_ext`)',
                               None, expose=v_ext)
    defs += [t2, t]
    # ---- calc_step_fn_steps_vals(values, ind=None)
    fe = find_function(amod, 'calc_step_fn_vals_error')
    en, ed = py_params(fe, 'calc_step_fn_vals_error')
    if en != ['values', 'pow', 'dir'] or not (isinstance(ed.get('pow'), ast.Constant) and isinstance(ed['pow'].value, int) and
                                               not isinstance(ed['pow'].value, bool) and ed['pow'].value >= 0 and
                                               isinstance(ed.get('dir'), ast.Constant) and ed['dir'].value is None):
        raise Untranslatable('calc_step_fn_vals_error', fe.lineno, 'signature (values, pow=<nat>, dir=None)')
    defs.append("/-- default `pow` of `calc_step_fn_vals_error` (its default `dir` is `None`): what `calc_step_fn_steps_vals` calls it with -/\n"
                f"def stepErrDefaultPow : Nat := {ed['pow'].value}")
    fn = find_function(amod, 'calc_step_fn_steps_vals')
    sig = dict(qualname='calc_step_fn_steps_vals', params={'values': ('rarr', 'values'), 'ind': ('optint', 'ind')},
               extra_binders=['(stepErr : List α → Except ErrKind (List α))'],
               user_calls={'calc_step_fn_vals_error': ('stepErr', ['rarr'], 'rarr')})
    t, info = translate_function(fn, asrc, sig, 'stepLevels', '`eqsig.fns.average.calc_step_fn_steps_vals(values, ind)`; `stepErr` = '
                                 '`calc_step_fn_vals_error` with its default `pow`, `dir`; a component is `none` where NumPy returns `nan` '
                                 '(mean of an empty slice)', 'return')
    if default_text('calc_step_fn_steps_vals', info['defaults'].get('ind'), 'optint') != 'none':
        raise Untranslatable('calc_step_fn_steps_vals', fn.lineno, 'default of ind')
    defs.append(t)
    text = ["-- GENERATED by tools/py2lean_x_freq.py from eqsig/fns/average.py (calc_roll_av_vals, calc_step_fn_steps_vals). Do not edit.",
            "import EqsigVerif.Prelude.NpE", "", "set_option linter.unusedVariables false", "", f"namespace EqsigVerif.{ns}.GenericFns",
            "open EqsigVerif EqsigVerif.Wire EqsigVerif.Cplx", ""] + ["\n\n".join(defs)] + ["", f"end EqsigVerif.{ns}.GenericFns", ""]
    return {"GenericFns.lean": "\n".join(text)}


TARGETS = [gen_freq_grid, gen_freq_band, gen_generic_fns]
