#!/bin/bash
# (maintenance) like try_refactor.sh but WITHOUT touching /repo: the rewrite is applied to a scratch copy and the checks run with EQSIG_REPO
PATCH=$1; shift
S=/tmp/scr_$$; mkdir -p $S && cp -r /repo/eqsig /repo/tests $S/ 2>/dev/null; cp /repo/setup.py /repo/README* $S/ 2>/dev/null
(cd $S && patch -p1 -s < $PATCH) || { echo "cannot apply"; rm -rf $S; exit 2; }
T=$(cd $S && PYTHONPATH=$S /venv/bin/python -m pytest -q -p no:cacheprovider 2>&1 | tail -1); echo "  suite: $T"
cd /verif
for P in "$@"; do
  OUT=$(EQSIG_REPO=$S ./check $P 2>&1 | grep -v "^KNOWN-FINDING" | tail -2 | tr '\n' ' ' | cut -c1-330)
  echo "  check $P: $OUT"
  python3 - $P <<'PY'
import json,sys
e=json.load(open('/verif/evidence/%s.json'%sys.argv[1]))['coverage']
if e.get('untranslatable') or e.get('translator_fallback'): print('    untranslatable:', [ (u.get('target'),u.get('function'),str(u.get('construct'))[:80]) for u in e.get('untranslatable',[])], 'fallback:', e.get('translator_fallback'))
PY
done
rm -rf $S
