BUILT = ['C08', 'C09', 'C11', 'C12', 'C13']
NOT_APPLICABLE = {}
_GEN = ("Lean 4 theorems about an executable model of the code, for all inputs (induction over the record / case analysis), "
        "tied to /repo on every run by a differential correspondence check of the model's own definitions against the implementation "
        "(exact rational arithmetic on the same doubles; exhaustive over small alphabets where the output is discrete) and by the "
        "property's clauses evaluated on the implementation's outputs. ")
LEVEL_TEXT = {
 'C08': _GEN + "Proved: lengths, zero start, trapezoid/rectangle increment laws and their converse (the model is the unique series with those increments), linearity, exactness for constant/linear acceleration, calc_peak = max|x| with sign/scale laws.",
 'C09': _GEN + "Proved: length and monotonicity of every cumulative series, final value = defining integral, sign invariance, alpha^2/|alpha| scaling, zero-padding law; CAVdp bounds on its stated domain.",
 'C11': _GEN + "Proved for every non-constant series: reported indices strictly ascending from 0 to the first sample of the final constant run, monotone segments with alternating direction, completeness (exactly the turning points), max/min selection, cycle counter law.",
 'C12': _GEN + "Proved: zero-crossing index characterisation and strict ascent, tol>0 sublist law; switched peaks: partition of the peak list into sign groups, first arg-max per group, sign alternation, global maximum included. The clause 'switched tol>0 is a subsequence of tol=0' is false of code and model (open finding F12-2, kernel-checked counterexample).",
 'C13': _GEN + "Proved: delta series zero away from peaks, |delta| = change between peak values, sum|delta| = total variation, |sum delta| = |x[-1]-x[0]|, pseudo-cyclic sum formula, shift invariance; power-law measures: evaluated against the Float twin and by metamorphic relations.",
}
LEVEL_NOTE = {'default': "Trusted: Lean kernel + Mathlib, axioms propext/Classical.choice/Quot.sound only; tools/py2lean.py and the correspondence harness; IEEE rounding and NumPy/SciPy internals are modelled, not verified (DESIGN §4). Sub-claims not decided by proof are listed in evidence.coverage.not_proved."}
TECHNIQUE = {'default': "Lean 4 theorem proving over an executable model + model/implementation correspondence check"}
