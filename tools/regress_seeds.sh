#!/bin/bash
# (maintenance) re-run every archived seeded change against the CURRENT checks without touching /repo or /verif/lean:
#   tools/regress_seeds.sh [workers=4]    -> seeded/REGRESSION${VERIF_SEED:+_seed$VERIF_SEED}.md
# each worker owns a private copy of /verif (with its own lake build directory) and a scratch copy of the library per seed
W=${1:-4}
cd /verif
ls -d seeded/C*/ | sed 's#seeded/##; s#/##' | sort > /tmp/regress_all.txt
rm -rf /tmp/regress_out; mkdir -p /tmp/regress_out
for w in $(seq 1 $W); do
  (
    V=/tmp/rg_$w; rm -rf $V; mkdir -p $V; rsync -a --exclude .git --exclude incoming --exclude seeded --exclude replays /verif/ $V/verif/
    awk -v w=$w -v W=$W 'NR % W == w % W' /tmp/regress_all.txt | while read id; do
      prop=${id%%-*}
      S=$V/lib; rm -rf $S; mkdir -p $S; cp -r /repo/eqsig $S/
      if ! (cd $S && patch -p1 -s < /verif/seeded/$id/patch.diff); then echo "$id PATCH-FAILED" > /tmp/regress_out/$id; continue; fi
      OUT=$(cd $V/verif && EQSIG_REPO=$S VERIF_SEED=${VERIF_SEED:-0} ./check $prop 2>&1 | grep -v "^KNOWN-FINDING")
      if echo "$OUT" | grep -q "no-failing-input-found"; then r=NOFAIL; elif echo "$OUT" | grep -q "^VIOLATION"; then r=CAUGHT; elif echo "$OUT" | grep -q -- "-> ok"; then r=MISSED; else r=ERROR; fi
      echo "$id $r $(echo "$OUT" | tail -1 | cut -c1-160)" > /tmp/regress_out/$id
    done
    rm -rf $V
  ) &
done
wait
{ echo "# Regression of all archived seeded changes against the current checks ($(date -u +%F\ %H:%MZ), quick tier, seed 0)"; echo; echo '| seed | result |'; echo '|---|---|';
  for id in $(cat /tmp/regress_all.txt); do echo "| $id | $(cut -d' ' -f2 /tmp/regress_out/$id 2>/dev/null) |"; done; echo;
  echo "Totals: $(cat /tmp/regress_out/* | awk '{c[$2]++} END{for(k in c) printf "%s=%d ", k, c[k]}')"; } > seeded/REGRESSION${VERIF_SEED:+_seed$VERIF_SEED}.md
tail -1 seeded/REGRESSION${VERIF_SEED:+_seed$VERIF_SEED}.md
