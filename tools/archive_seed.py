#!/usr/bin/env python3
"""(maintenance) archive a confirmed seeded change under seeded/<PROP>-<k>/ : patch.diff, demo.py, meta.json"""
import json, os, shutil, sys
prop, d, k, caught, note = sys.argv[1], sys.argv[2], sys.argv[3], sys.argv[4], (sys.argv[5] if len(sys.argv) > 5 else '')
out = os.path.join(os.path.dirname(os.path.abspath(__file__)), '..', 'seeded', f'{prop}-{os.environ.get("SEED_ROUND", "")}{k}')
os.makedirs(out, exist_ok=True)
shutil.copy(os.path.join(d, f'patch{k}.diff'), os.path.join(out, 'patch.diff'))
shutil.copy(os.path.join(d, f'demo{k}.py'), os.path.join(out, 'demo.py'))
m = json.load(open(os.path.join(d, f'meta{k}.json')))
meta = {'property': prop, 'clause': m.get('clause'), 'needs_to_manifest': m.get('needs'), 'files': m.get('files'), 'how_subtle': m.get('how_subtle'),
        'author': 'fresh sub-agent given only the property text and its own scratch worktree',
        'confirmed_by_me': {'suite_with_patch': '63 passed', 'demo_exit_with_patch': 'non-zero', 'demo_exit_without_patch': 0,
                            'how': 'tools/try_seed.sh (scratch worktree of /repo HEAD, PYTHONPATH=<worktree>)'},
        'ran': f'git -C /repo apply patch.diff; ./check {prop} --tier quick; git -C /repo checkout -- .',
        'result': caught, 'note': note}
json.dump(meta, open(os.path.join(out, 'meta.json'), 'w'), indent=1)
print('archived', out)
