#!/usr/bin/env python3
"""py2lean — translator from the Python source of /repo/eqsig (current working tree) to Lean 4 text.

Regenerates lean/EqsigVerif/Gen/*.lean on every run (byte-deterministic; a file is rewritten only when
its content changes, so an unchanged tree costs a no-op `lake build`).

Supported subset (everything else raises Untranslatable(function, line, construct)):
  * straight-line bodies of `name = expr` / `return`, if/elif/else chains on scalar comparisons;
  * expressions: + - * /, unary minus, ** <int literal>, ** <float literal>, numeric literals,
    np.sqrt/exp/sin/cos/abs/log10/radians/pi, comparisons;
  * structural extractions: CacheTable (per-method effect table of Signal/AccSignal), Effects
    (per-public-function in-place-mutation summary), Consts (literals the hand models refer to).

Each arithmetic function is emitted in up to three twins from the same IR: Real (theorems),
Float (executed by the driver), Rat (both) when only field operations are used.

usage: py2lean.py [--repo /repo] [--out lean/EqsigVerif/Gen] [--golden]   (--golden writes GenGolden/, namespace GenGolden)
Exit status 0 even when some function is untranslatable: the errors are written to <out>/translate_report.json
and the corresponding Lean file re-exports the golden copy (so the build still succeeds and the downgrade is visible).
"""
import ast
import json
import os
import sys
import argparse
import hashlib

sys.path.insert(0, os.path.dirname(os.path.abspath(__file__)))


class Untranslatable(Exception):
    def __init__(self, function, line, construct):
        super().__init__(f"{function}:{line}: {construct}")
        self.function = function
        self.line = line
        self.construct = construct


# ----------------------------------------------------------------------------------------------
# expression IR -> Lean text, per twin
# ----------------------------------------------------------------------------------------------

TWINS = {
    'real': dict(ty='ℝ', fn={'sqrt': 'Real.sqrt', 'exp': 'Real.exp', 'sin': 'Real.sin', 'cos': 'Real.cos',
                             'log10': 'Real.logb 10', 'abs': 'abs'}, pi='Real.pi'),
    'float': dict(ty='Float', fn={'sqrt': 'Float.sqrt', 'exp': 'Float.exp', 'sin': 'Float.sin', 'cos': 'Float.cos',
                                  'log10': 'Float.log10', 'abs': 'Float.abs'}, pi='(3.141592653589793 : Float)'),
    'rat': dict(ty='Rat', fn={'abs': 'EqsigVerif.Np.absv'}, pi=None),
}


def lit_text(src_seg):
    """Python numeric literal text -> Lean literal text denoting the same decimal."""
    t = src_seg.replace('_', '')
    if t.endswith('.'):
        t = t[:-1]
    if t.startswith('.'):
        t = '0' + t
    if 'e' in t.lower():
        mant, exp = t.lower().split('e')
        if '.' not in mant:
            mant = mant + '.0'
        t = f"{mant}e{int(exp)}"
        return t
    # canonical spelling of the same decimal: `1.0`, `1.` and `1` all become `1`; `1.60` becomes `1.6` (a respelled literal is not
    # a change of the code's meaning and must not change the generated text)
    if '.' in t:
        t = t.rstrip('0')
        if t.endswith('.'):
            t = t[:-1]
        if t == '' or t == '-':
            t += '0'
    return t


class Expr:
    def __init__(self, fname, src, twin, names=None):
        self.fname = fname
        self.src = src
        self.twin = twin
        self.t = TWINS[twin]
        self.names = names or {}

    def lit(self, node):
        seg = ast.get_source_segment(self.src, node)
        if not isinstance(node.value, (int, float)) or isinstance(node.value, bool):
            raise Untranslatable(self.fname, node.lineno, f"literal {seg}")
        return f"({lit_text(seg)} : {self.t['ty']})"

    def ex(self, e):
        ty = self.t['ty']
        if isinstance(e, ast.BinOp):
            if isinstance(e.op, ast.Pow):
                base = self.ex(e.left)
                r = e.right
                if isinstance(r, ast.Constant) and isinstance(r.value, int) and not isinstance(r.value, bool) and r.value >= 0:
                    if self.twin == 'float':
                        return f"(Float.pow {base} ({r.value}.0 : Float))"
                    return f"({base} ^ ({r.value} : Nat))"
                if isinstance(r, ast.Constant) and isinstance(r.value, float):
                    seg = lit_text(ast.get_source_segment(self.src, r))
                    if self.twin == 'float':
                        return f"(Float.pow {base} ({seg} : Float))"
                    if self.twin == 'real':
                        return f"(Real.rpow {base} ({seg} : ℝ))"
                raise Untranslatable(self.fname, e.lineno, "power with non-literal exponent")
            l, r = self.ex(e.left), self.ex(e.right)
            op = {ast.Add: '+', ast.Sub: '-', ast.Mult: '*', ast.Div: '/'}.get(type(e.op))
            if op is None:
                raise Untranslatable(self.fname, e.lineno, f"operator {type(e.op).__name__}")
            return f"({l} {op} {r})"
        if isinstance(e, ast.UnaryOp) and isinstance(e.op, ast.USub):
            return f"(-{self.ex(e.operand)})"
        if isinstance(e, ast.Name):
            return self.names.get(e.id, e.id)
        if isinstance(e, ast.Constant):
            return self.lit(e)
        if isinstance(e, ast.Attribute) and isinstance(e.value, ast.Name) and e.value.id == 'np' and e.attr == 'pi':
            if self.t['pi'] is None:
                raise Untranslatable(self.fname, e.lineno, "np.pi in a rational twin")
            return self.t['pi']
        if isinstance(e, ast.Call):
            f = e.func
            name = None
            if isinstance(f, ast.Attribute) and isinstance(f.value, ast.Name) and f.value.id == 'np':
                name = f.attr
            elif isinstance(f, ast.Name) and f.id in ('abs',):
                name = f.id
            if name == 'radians' and len(e.args) == 1 and self.t['pi'] is not None:
                return f"({self.ex(e.args[0])} * ({self.t['pi']} / (180 : {ty})))"
            if name in self.t['fn'] and len(e.args) == 1 and not e.keywords:
                return f"({self.t['fn'][name]} {self.ex(e.args[0])})"
            raise Untranslatable(self.fname, e.lineno, f"call {ast.get_source_segment(self.src, f)}")
        raise Untranslatable(self.fname, e.lineno, f"expression {type(e).__name__}")

    def cond(self, e):
        if isinstance(e, ast.Compare) and len(e.ops) == 1:
            op = {ast.Lt: '<', ast.LtE: '≤', ast.Gt: '>', ast.GtE: '≥', ast.Eq: '=', ast.NotEq: '≠'}.get(type(e.ops[0]))
            if op is None:
                raise Untranslatable(self.fname, e.lineno, "comparison operator")
            if self.twin == 'float':
                op = {'=': '==', '≠': '!=', '≤': '<=', '≥': '>='}.get(op, op)
            return f"({self.ex(e.left)} {op} {self.ex(e.comparators[0])})"
        raise Untranslatable(self.fname, e.lineno, f"condition {type(e).__name__}")


def find_function(mod, name, cls=None):
    body = mod.body
    if cls is not None:
        for n in mod.body:
            if isinstance(n, ast.ClassDef) and n.name == cls:
                body = n.body
                break
        else:
            raise Untranslatable(f"{cls}.{name}", 0, "class not found")
    for n in body:
        if isinstance(n, ast.FunctionDef) and n.name == name:
            return n
    raise Untranslatable(name, 0, "function not found")


def straightline_lets(fn, src, twin, skip_names=()):
    """Translate `name = expr` statements of a straight-line body into `let` lines.
    Returns (lets, env) where env maps a name to its AST value for the statements that were skipped."""
    ex = Expr(fn.name, src, twin)
    lets = []
    skipped = {}
    ret = None
    for st in fn.body:
        if isinstance(st, ast.Expr) and isinstance(st.value, ast.Constant) and isinstance(st.value.value, str):
            continue  # docstring
        if isinstance(st, ast.Assign) and len(st.targets) == 1 and isinstance(st.targets[0], ast.Name):
            name = st.targets[0].id
            v = st.value
            if isinstance(v, ast.Call) and isinstance(v.func, ast.Attribute) and v.func.attr == 'array':
                skipped[name] = v
                continue
            lets.append(f"  let {name} := {ex.ex(v)}")
        elif isinstance(st, ast.Return):
            ret = st.value
        else:
            raise Untranslatable(fn.name, st.lineno, f"statement {type(st).__name__}")
    return lets, skipped, ret


# ----------------------------------------------------------------------------------------------
# target: compute_a_and_b
# ----------------------------------------------------------------------------------------------

def matrix_names(fname, node):
    """np.array([[a, b], [c, d]]) -> [[a,b],[c,d]] of identifier names"""
    try:
        rows = node.args[0].elts
        out = [[c.id for c in r.elts] for r in rows]
        assert len(out) == 2 and all(len(r) == 2 for r in out)
        return out
    except Exception:
        raise Untranslatable(fname, node.lineno, "np.array literal is not a 2x2 matrix of names")


def gen_sdof_ab(repo, ns):
    path = os.path.join(repo, 'eqsig', 'sdof.py')
    src = open(path).read()
    mod = ast.parse(src)
    fn = find_function(mod, 'compute_a_and_b')
    params = [a.arg for a in fn.args.args]
    if params != ['xi', 'w', 'dt']:
        raise Untranslatable('compute_a_and_b', fn.lineno, f"parameters {params}")
    out = {}
    for twin, fname, imports, nc in (
            ('real', 'SdofABReal', ["import EqsigVerif.Model.Sdof", "import Mathlib.Analysis.SpecialFunctions.Trigonometric.Basic",
                                    "import Mathlib.Analysis.SpecialFunctions.Exp", "import Mathlib.Analysis.SpecialFunctions.Sqrt"], 'noncomputable '),
            ('float', 'SdofABFloat', ["import EqsigVerif.Model.Sdof"], '')):
        lets, skipped, ret = straightline_lets(fn, src, twin)
        if not (isinstance(ret, ast.Tuple) and len(ret.elts) == 2 and all(isinstance(x, ast.Name) for x in ret.elts)):
            raise Untranslatable('compute_a_and_b', fn.lineno, "return is not a pair of names")
        an, bn = ret.elts[0].id, ret.elts[1].id
        if an not in skipped or bn not in skipped:
            raise Untranslatable('compute_a_and_b', fn.lineno, "returned names are not np.array literals")
        a = matrix_names('compute_a_and_b', skipped[an])
        b = matrix_names('compute_a_and_b', skipped[bn])
        ty = TWINS[twin]['ty']
        text = [f"-- GENERATED by tools/py2lean.py from eqsig/sdof.py (compute_a_and_b). Do not edit."]
        text += imports
        text += ["", f"namespace EqsigVerif.{ns}.SdofAB", "open EqsigVerif.Model.Sdof", ""]
        text += [f"/-- `compute_a_and_b(xi, w, dt)` ({twin} twin), statement by statement -/",
                 f"{nc}def computeAB{twin.capitalize()} (xi w dt : {ty}) : AB {ty} :="]
        text += lets
        text += ["  { a11 := %s, a12 := %s, a21 := %s, a22 := %s," % (a[0][0], a[0][1], a[1][0], a[1][1]),
                 "    b11 := %s, b12 := %s, b21 := %s, b22 := %s }" % (b[0][0], b[0][1], b[1][0], b[1][1]),
                 "", f"end EqsigVerif.{ns}.SdofAB", ""]
        out[f"{fname}.lean"] = "\n".join(text)
    return out


# ----------------------------------------------------------------------------------------------
# target: constants the hand models refer to
# ----------------------------------------------------------------------------------------------

def gen_consts(repo, ns):
    consts = {}
    # 6.2831853 in nigam_and_jennings_response: `w = <const> / periods[s:]`
    src = open(os.path.join(repo, 'eqsig', 'sdof.py')).read()
    mod = ast.parse(src)
    fn = find_function(mod, 'nigam_and_jennings_response')
    found = None
    for st in ast.walk(fn):
        if isinstance(st, ast.Assign) and isinstance(st.targets[0], ast.Name) and st.targets[0].id == 'w':
            v = st.value
            if isinstance(v, ast.BinOp) and isinstance(v.op, ast.Div) and isinstance(v.left, ast.Constant):
                found = lit_text(ast.get_source_segment(src, v.left))
    if found is None:
        raise Untranslatable('nigam_and_jennings_response', fn.lineno, "w = <literal> / periods[s:] not found")
    consts['njTwoPi'] = found
    # PGA substitution factor: `periods < dt * 6`
    for fname in ('pseudo_response_spectra', 'true_response_spectra'):
        f2 = find_function(mod, fname)
        fac = None
        for n in ast.walk(f2):
            if isinstance(n, ast.Compare) and isinstance(n.left, ast.Name) and n.left.id == 'periods' and isinstance(n.ops[0], ast.Lt):
                c = n.comparators[0]
                if isinstance(c, ast.BinOp) and isinstance(c.op, ast.Mult):
                    for side in (c.left, c.right):
                        if isinstance(side, ast.Constant):
                            fac = lit_text(ast.get_source_segment(src, side))
        if fac is None:
            raise Untranslatable(fname, f2.lineno, "periods < dt * <literal> not found")
        consts['pgaFactor_' + fname] = fac
    # ---- im.py: calc_cav_dp constants (`asig.values / 9.81`, `(pga - 0.025) < 0`), Arias `np.pi / (2 * 9.81)`
    isrc = open(os.path.join(repo, 'eqsig', 'im.py')).read()
    imod = ast.parse(isrc)
    cav = find_function(imod, 'calc_cav_dp')
    g = gate = None
    for n in ast.walk(cav):
        if isinstance(n, ast.Assign) and isinstance(n.targets[0], ast.Name) and n.targets[0].id == 'acc_in_g' and \
                isinstance(n.value, ast.BinOp) and isinstance(n.value.op, ast.Div) and isinstance(n.value.right, ast.Constant):
            g = lit_text(ast.get_source_segment(isrc, n.value.right))
        if isinstance(n, ast.Compare) and isinstance(n.left, ast.BinOp) and isinstance(n.left.op, ast.Sub) and \
                isinstance(n.left.left, ast.Name) and n.left.left.id == 'pga' and isinstance(n.left.right, ast.Constant):
            t = lit_text(ast.get_source_segment(isrc, n.left.right))
            if gate is not None and gate != t:
                raise Untranslatable('calc_cav_dp', n.lineno, f"two different gate literals {gate} / {t}")
            gate = t
    if g is None or gate is None:
        raise Untranslatable('calc_cav_dp', cav.lineno, "acc_in_g = values / <literal> or (pga - <literal>) not found")
    consts['cavdpG'] = g
    consts['cavdpGate'] = gate
    ar = find_function(imod, '_raw_calc_arias_intensity')
    found = None
    for n in ast.walk(ar):
        # np.pi / (2 * 9.81)
        if isinstance(n, ast.BinOp) and isinstance(n.op, ast.Div) and isinstance(n.left, ast.Attribute) and n.left.attr == 'pi' and \
                isinstance(n.right, ast.BinOp) and isinstance(n.right.op, ast.Mult) and \
                isinstance(n.right.left, ast.Constant) and isinstance(n.right.right, ast.Constant):
            found = (lit_text(ast.get_source_segment(isrc, n.right.left)), lit_text(ast.get_source_segment(isrc, n.right.right)))
    if found is None:
        raise Untranslatable('_raw_calc_arias_intensity', ar.lineno, "np.pi / (<literal> * <literal>) not found")
    consts['ariasDenA'], consts['ariasDenB'] = found
    # ---- loader.py: the two format strings of save_values_and_dt
    lsrc = open(os.path.join(repo, 'eqsig', 'loader.py')).read()
    lmod = ast.parse(lsrc)
    sv = find_function(lmod, 'save_values_and_dt')
    fmts = [n.value for n in ast.walk(sv) if isinstance(n, ast.Constant) and isinstance(n.value, str) and '%' in n.value]
    import re as _re
    hdr = [f for f in fmts if _re.fullmatch(r'%i %\.(\d+)f', f)]
    val = [f for f in fmts if _re.fullmatch(r'%\.(\d+)f', f)]
    if len(hdr) != 1 or len(val) != 1:
        raise Untranslatable('save_values_and_dt', sv.lineno, f"format strings {fmts}")
    nat_consts = {'loaderDtDecimals': int(_re.fullmatch(r'%i %\.(\d+)f', hdr[0]).group(1)),
                  'loaderValueDecimals': int(_re.fullmatch(r'%\.(\d+)f', val[0]).group(1))}
    text = ["-- GENERATED by tools/py2lean.py: literals of the Python source the hand models refer to. Do not edit.",
            "", f"namespace EqsigVerif.{ns}.Consts", ""]
    for k in sorted(consts):
        text.append(f"/-- literal `{consts[k]}` -/")
        text.append(f"def {k}Rat : Rat := ({consts[k]} : Rat)")
        text.append(f"def {k}Float : Float := ({consts[k]} : Float)")
        text.append(f"def {k}Text : String := \"{consts[k]}\"")
        text.append("")
    for k in sorted(nat_consts):
        text.append(f"def {k} : Nat := {nat_consts[k]}")
        text.append("")
    text += [f"end EqsigVerif.{ns}.Consts", ""]
    return {"Consts.lean": "\n".join(text)}



# ----------------------------------------------------------------------------------------------
# generic twin (one definition over core classes, executed at Float, reasoned about at R/Q): used for tables
# ----------------------------------------------------------------------------------------------

class GExpr:
    """expression printer for the generic twin: literals keep their source text, `x ** 0.75` -> `pow34 x`,
    `x ** n` (n small int) -> repeated product, names through a renaming map, a few calls through a map"""

    def __init__(self, fname, src, names=None, calls=None, subst=None):
        self.fname, self.src = fname, src
        self.names = names or {}
        self.calls = calls or {}
        self.subst = subst or (lambda e: None)

    def ex(self, e):
        r = self.subst(e)
        if r is not None:
            return r
        if isinstance(e, ast.BinOp):
            if isinstance(e.op, ast.Pow):
                base = self.ex(e.left)
                r = e.right
                if isinstance(r, ast.Constant) and isinstance(r.value, float) and r.value == 0.75:
                    return f"pow34 {base}" if base.startswith('(') or base.isidentifier() else f"pow34 ({base})"
                if isinstance(r, ast.Constant) and isinstance(r.value, int) and not isinstance(r.value, bool) and 2 <= r.value <= 4:
                    if base.isidentifier():
                        return "(" + " * ".join([base] * r.value) + ")"
                    return "(let q := " + base + "; " + " * ".join(["q"] * r.value) + ")"
                raise Untranslatable(self.fname, e.lineno, "power " + ast.get_source_segment(self.src, e))
            op = {ast.Add: '+', ast.Sub: '-', ast.Mult: '*', ast.Div: '/'}.get(type(e.op))
            if op is None:
                raise Untranslatable(self.fname, e.lineno, f"operator {type(e.op).__name__}")
            return f"({self.ex(e.left)} {op} {self.ex(e.right)})"
        if isinstance(e, ast.UnaryOp) and isinstance(e.op, ast.USub):
            return f"(-{self.ex(e.operand)})"
        if isinstance(e, ast.Name):
            return self.names.get(e.id, e.id)
        if isinstance(e, ast.Constant) and isinstance(e.value, (int, float)) and not isinstance(e.value, bool):
            return lit_text(ast.get_source_segment(self.src, e))
        if isinstance(e, ast.Call):
            f = e.func
            key = None
            if isinstance(f, ast.Attribute) and isinstance(f.value, ast.Name) and f.value.id == 'np':
                key = 'np.' + f.attr
            elif isinstance(f, ast.Name):
                key = f.id
            if key in self.calls and len(e.args) == 1 and not e.keywords:
                return self.calls[key](self.ex(e.args[0]), e.args[0], self)
            raise Untranslatable(self.fname, e.lineno, "call " + ast.get_source_segment(self.src, f))
        raise Untranslatable(self.fname, e.lineno, f"expression {type(e).__name__}")

    def cond(self, e):
        if isinstance(e, ast.Compare) and len(e.ops) == 1:
            op = {ast.Lt: '<', ast.Gt: '>', ast.Eq: '=='}.get(type(e.ops[0]))
            if op is None:
                raise Untranslatable(self.fname, e.lineno, "comparison " + ast.get_source_segment(self.src, e))
            return f"{self.ex(e.left)} {op} {self.ex(e.comparators[0])}"
        raise Untranslatable(self.fname, e.lineno, f"condition {type(e).__name__}")


def if_chain(fname, src, node, target, gx):
    """`if c1: target = e1 elif c2: target = e2 … else: target = en`  ->  [(cond, expr)…], else_expr"""
    branches = []
    cur = node
    while True:
        if not isinstance(cur, ast.If):
            raise Untranslatable(fname, getattr(cur, 'lineno', 0), "expected if/elif chain")
        if len(cur.body) != 1 or not isinstance(cur.body[0], ast.Assign) or not isinstance(cur.body[0].targets[0], ast.Name) \
                or cur.body[0].targets[0].id != target:
            raise Untranslatable(fname, cur.lineno, f"branch is not a single assignment to {target}")
        branches.append((gx.cond(cur.test), gx.ex(cur.body[0].value)))
        if len(cur.orelse) == 1 and isinstance(cur.orelse[0], ast.If):
            cur = cur.orelse[0]
            continue
        if len(cur.orelse) != 1 or not isinstance(cur.orelse[0], ast.Assign) or cur.orelse[0].targets[0].id != target:
            raise Untranslatable(fname, cur.lineno, "else branch is not a single assignment")
        return branches, gx.ex(cur.orelse[0].value)


def if_tree(fname, src, stmts, target, gx):
    """any nesting of `if/elif/else` whose leaves are single assignments `target = e`  ->  one Lean `if … then … else …` expression
    (a flat elif chain prints exactly as `if c1 then e1 / else if c2 then e2 / else en`)"""
    if len(stmts) != 1:
        raise Untranslatable(fname, getattr(stmts[0], 'lineno', 0) if stmts else 0, f"branch is not a single statement assigning {target}")
    st = stmts[0]
    if isinstance(st, ast.Assign) and len(st.targets) == 1 and isinstance(st.targets[0], ast.Name) and st.targets[0].id == target:
        return strip_outer(gx.ex(st.value))
    if isinstance(st, ast.If):
        if not st.orelse:
            raise Untranslatable(fname, st.lineno, "if without else in a table")
        then = if_tree(fname, src, st.body, target, gx)
        if isinstance(st.body[0], ast.If):
            then = '(' + then.replace('\n', ' ') + ')'
        els = if_tree(fname, src, st.orelse, target, gx)
        return f"if {gx.cond(st.test).replace('==', '=')} then {then}\n  else {els}"
    raise Untranslatable(fname, st.lineno, f"branch is not a single assignment to {target}")


def strip_outer(t):
    # remove one pair of redundant outer parentheses (never a type ascription)
    if t.endswith(': Rat)') or t.endswith(': Int)'):
        return t
    if t.startswith('(') and t.endswith(')'):
        depth = 0
        for i, ch in enumerate(t):
            depth += ch == '('
            depth -= ch == ')'
            if depth == 0 and i < len(t) - 1:
                return t
        return t[1:-1]
    return t


def class_chains(fname, src, body, var, target):
    """find `if site_class == 'C': <chain> elif … 'D' … elif … 'E' … else: raise` inside body"""
    out = {}
    for n in ast.walk(ast.Module(body=body, type_ignores=[])):
        if isinstance(n, ast.If) and isinstance(n.test, ast.Compare) and isinstance(n.test.left, ast.Name) and n.test.left.id == 'site_class' \
                and isinstance(n.test.comparators[0], ast.Constant) and isinstance(n.test.comparators[0].value, str):
            cls = n.test.comparators[0].value
            if cls in out:
                continue
            if len(n.body) != 1:
                raise Untranslatable(fname, n.lineno, f"class {cls} body is not a single if-chain")
            gx = GExpr(fname, src)
            out[cls] = if_tree(fname, src, n.body, target, gx)
    return out


def gen_design_spectra(repo, ns):
    src = open(os.path.join(repo, 'eqsig', 'design_spectra.py')).read()
    mod = ast.parse(src)
    ch = class_chains('c_h_factor', src, find_function(mod, 'c_h_factor').body, 'tt', 'ch_factor')
    sd = class_chains('sd_nzs', src, find_function(mod, 'sd_nzs').body, 'period', 'c_h')
    for nm, d in (('c_h_factor', ch), ('sd_nzs', sd)):
        if sorted(d) != ['C', 'D', 'E']:
            raise Untranslatable(nm, 0, f"site classes found: {sorted(d)}")
    text = ["-- GENERATED by tools/py2lean.py from eqsig/design_spectra.py (the if/elif tables of c_h_factor and sd_nzs). Do not edit.",
            "import Mathlib.Data.Real.Basic",
            "", f"namespace EqsigVerif.{ns}.DesignSpectra", "",
            "/-! real twins (used by the bridge theorems of `Props/C20Gen.lean`); `x ** 0.75` is the abstract `pow34`, `x ** 2` is `x * x` -/", ""]
    for prefix, d, var in (('ch', ch, 'tt'), ('sd', sd, 'period')):
        for cls in ('C', 'D', 'E'):
            text.append(f"noncomputable def {prefix}{cls} (pow34 : ℝ → ℝ) ({var} : ℝ) : ℝ :=")
            text.append("  " + d[cls])
            text.append("")
    text += [f"end EqsigVerif.{ns}.DesignSpectra", ""]
    return {"DesignSpectra.lean": "\n".join(text)}


def gen_factor_rule(repo, ns):
    src = open(os.path.join(repo, 'eqsig', 'fns', 'time_step.py')).read()
    mod = ast.parse(src)
    defs = []
    for fname, lname in (('interp_array_to_approx_dt', 'factorRuleInterp'), ('resample_to_approx_dt', 'factorRuleResample')):
        fn = find_function(mod, fname)
        chain = None
        for i, st in enumerate(fn.body):
            if isinstance(st, ast.Assign) and isinstance(st.targets[0], ast.Name) and st.targets[0].id == 'factor' and \
                    isinstance(st.value, ast.BinOp) and isinstance(st.value.op, ast.Div):
                if i + 1 < len(fn.body) and isinstance(fn.body[i + 1], ast.If):
                    chain = fn.body[i + 1]
        if chain is None:
            raise Untranslatable(fname, fn.lineno, "factor = a / b followed by an if-chain not found")

        def intcast(arg_text, arg_node, gx, kind):
            return f"((Rat.{kind} {arg_text} : Int) : Rat)"
        calls = {'np.ceil': lambda t, n, g: intcast(t, n, g, 'ceil'), 'np.floor': lambda t, n, g: intcast(t, n, g, 'floor'),
                 'int': lambda t, n, g: t}
        gx = GExpr(fname, src, names={'factor': 'q'}, calls=calls)
        parts = []
        cur = chain
        while True:
            cond = gx.cond(cur.test).replace('==', '=')
            if len(cur.body) == 1 and isinstance(cur.body[0], ast.Pass):
                val = 'q'
            elif len(cur.body) == 1 and isinstance(cur.body[0], ast.Assign) and cur.body[0].targets[0].id == 'factor':
                val = strip_outer(gx.ex(cur.body[0].value))
            else:
                raise Untranslatable(fname, cur.lineno, "branch of the factor rule")
            parts.append((cond, val))
            if len(cur.orelse) == 1 and isinstance(cur.orelse[0], ast.If):
                cur = cur.orelse[0]
                continue
            if len(cur.orelse) == 1 and isinstance(cur.orelse[0], ast.Assign) and cur.orelse[0].targets[0].id == 'factor':
                els = strip_outer(gx.ex(cur.orelse[0].value))
            elif not cur.orelse:
                els = 'q'
            else:
                raise Untranslatable(fname, cur.lineno, "else branch of the factor rule")
            break
        lines = [f"/-- the factor rule of `{fname}` on the exact quotient `q = dt / target_dt` -/", f"def {lname} (q : Rat) : Rat :="]
        for i, (c, v) in enumerate(parts):
            lines.append(f"  {'if' if i == 0 else 'else if'} {c} then {v}")
        lines.append(f"  else {els}")
        defs.append("\n".join(lines))
    text = ["-- GENERATED by tools/py2lean.py from eqsig/fns/time_step.py (factor rule). Do not edit.", "",
            f"namespace EqsigVerif.{ns}.TimeStepFactor", ""] + ["\n\n".join(defs)] + ["", f"end EqsigVerif.{ns}.TimeStepFactor", ""]
    return {"TimeStepFactor.lean": "\n".join(text)}


def gen_ko_window(repo, ns):
    src = open(os.path.join(repo, 'eqsig', 'fns', 'frequency.py')).read()
    mod = ast.parse(src)
    defs = []
    for fname, suf in (('calc_smooth_fa_spectrum', 'Direct'), ('calc_smoothing_matrix_konno_1998', 'Matrix')):
        fn = find_function(mod, fname)
        amp = raw = whr = None
        for st in fn.body:
            if isinstance(st, ast.Assign) and isinstance(st.targets[0], ast.Name):
                if st.targets[0].id == 'amp_array':
                    amp = st.value
                if st.targets[0].id == 'wb_vals' and raw is None:
                    raw = st.value
                elif st.targets[0].id == 'wb_vals' and isinstance(st.value, ast.Call) and np_attr(st.value) == 'where':
                    whr = st.value
        if amp is None or raw is None or whr is None:
            raise Untranslatable(fname, fn.lineno, "amp_array / wb_vals / np.where statements not found")

        def subst(e):
            if isinstance(e, ast.Subscript) and isinstance(e.value, ast.Name):
                return {'fa_frequencies': 'f', 'smooth_fa_frequencies': 'fc'}.get(e.value.id)
            return None
        gx = GExpr(fname, src, calls={'np.log10': lambda t, n, g: f"log10 {t}", 'np.sin': lambda t, n, g: f"sin {t}"},
                   names={'amp_array': 'x'}, subst=subst)
        # np.where(amp_array == 0, 1, wb_vals)
        if len(whr.args) != 3 or not (isinstance(whr.args[2], ast.Name) and whr.args[2].id == 'wb_vals'):
            raise Untranslatable(fname, whr.lineno, "np.where(cond, c, wb_vals)")
        defs.append(f"def koArg{suf} (log10 : α → α) (band f fc : α) : α := {strip_outer(gx.ex(amp))}\n\n"
                    f"def koRaw{suf} (sin : α → α) (x : α) : α := {strip_outer(gx.ex(raw))}\n\n"
                    f"def koWindow{suf} (sin log10 : α → α) (band f fc : α) : α :=\n"
                    f"  let x := koArg{suf} log10 band f fc\n"
                    f"  if {gx.cond(whr.args[0])} then {gx.ex(whr.args[1])} else koRaw{suf} sin x")
    text = ["-- GENERATED by tools/py2lean.py from eqsig/fns/frequency.py (Konno-Ohmachi window expression). Do not edit.", "",
            f"namespace EqsigVerif.{ns}.KoWindow", "",
            "variable {α : Type} [Mul α] [Div α] [BEq α] [OfNat α 0] [OfNat α 1]", ""] + ["\n\n".join(defs)] + \
           ["", f"end EqsigVerif.{ns}.KoWindow", ""]
    return {"KoWindow.lean": "\n".join(text)}


def np_attr(c):
    if isinstance(c, ast.Call) and isinstance(c.func, ast.Attribute) and isinstance(c.func.value, ast.Name) and c.func.value.id == 'np':
        return c.func.attr
    return None



# ----------------------------------------------------------------------------------------------
# array one-liners: NumPy/SciPy calls mapped 1:1 to Prelude.Np combinators (generic twin)
# ----------------------------------------------------------------------------------------------

class ArrExpr:
    """typed expression printer: every sub-expression is an array ('arr') or a scalar ('scal')"""

    def __init__(self, fname, src, env, attr_env):
        self.fname, self.src = fname, src
        self.env = dict(env)            # local name -> (kind, text)
        self.attr_env = attr_env        # attribute name of a signal object -> (kind, text)

    def fail(self, e, what):
        raise Untranslatable(self.fname, getattr(e, 'lineno', 0), what + ': ' + (ast.get_source_segment(self.src, e) or ''))

    def tr(self, e):
        if isinstance(e, ast.Name):
            if e.id in self.env:
                return self.env[e.id]
            self.fail(e, 'unknown name')
        if isinstance(e, ast.Attribute):
            if isinstance(e.value, ast.Name) and e.value.id == 'np' and e.attr == 'pi':
                return ('scal', 'pi')
            if isinstance(e.value, ast.Name) and e.attr in self.attr_env:
                return self.attr_env[e.attr]
            self.fail(e, 'attribute')
        if isinstance(e, ast.Constant) and isinstance(e.value, (int, float)) and not isinstance(e.value, bool):
            return ('scal', lit_text(ast.get_source_segment(self.src, e)))
        if isinstance(e, ast.UnaryOp) and isinstance(e.op, ast.USub):
            k, t = self.tr(e.operand)
            if k == 'scal':
                return ('scal', f"(-{t})")
            self.fail(e, 'negated array')
        if isinstance(e, ast.BinOp):
            if isinstance(e.op, ast.Pow):
                k, t = self.tr(e.left)
                if isinstance(e.right, ast.Constant) and e.right.value == 2:
                    return ('arr', f"(Np.sq {t})") if k == 'arr' else ('scal', f"({t} * {t})")
                self.fail(e, 'power')
            (kl, tl), (kr, tr_) = self.tr(e.left), self.tr(e.right)
            op = {ast.Add: '+', ast.Sub: '-', ast.Mult: '*', ast.Div: '/'}.get(type(e.op))
            if op is None:
                self.fail(e, 'operator')
            if kl == 'scal' and kr == 'scal':
                return ('scal', f"({tl} {op} {tr_})")
            if kl == 'scal' and kr == 'arr' and op == '*':
                return ('arr', f"(Np.scale {tl} {tr_})")
            if kl == 'arr' and kr == 'scal' and op in '*/':
                return ('arr', f"({tl}.map (· {op} {tr_}))")
            if kl == 'arr' and kr == 'arr' and op == '*':
                return ('arr', f"(List.zipWith (· * ·) {tl} {tr_})")
            self.fail(e, 'array operator')
        if isinstance(e, ast.Call):
            f = e.func
            name = None
            if isinstance(f, ast.Attribute) and isinstance(f.value, ast.Name) and f.value.id == 'np':
                name = 'np.' + f.attr
            elif isinstance(f, ast.Name):
                name = f.id
            kw = {k.arg: k.value for k in e.keywords}
            if name == 'cumulative_trapezoid' and len(e.args) == 1 and set(kw) == {'dx', 'initial'} and \
                    isinstance(kw['initial'], ast.Constant) and kw['initial'].value == 0:
                k, t = self.tr(e.args[0])
                kd, td = self.tr(kw['dx'])
                if k == 'arr' and kd == 'scal':
                    return ('arr', f"(Np.cumtrapz {td} {t})")
            if name in ('np.abs', 'abs') and len(e.args) == 1 and not kw:
                k, t = self.tr(e.args[0])
                return ('arr', f"(Np.absL {t})") if k == 'arr' else ('scal', f"(Np.absv {t})")
            if name == 'np.cumsum' and len(e.args) == 1 and not kw:
                k, t = self.tr(e.args[0])
                if k == 'arr':
                    return ('arr', f"(Np.cumsum {t})")
            if name == 'np.where' and len(e.args) == 3 and not kw and isinstance(e.args[0], ast.Compare):
                c = e.args[0]
                (k1, a1), (k2, a2) = self.tr(c.left), self.tr(c.comparators[0])
                (k3, x), (k4, y) = self.tr(e.args[1]), self.tr(e.args[2])
                opc = {ast.Gt: '>', ast.Lt: '<'}.get(type(c.ops[0]))
                if opc and k1 == k2 == k3 == k4 == 'scal':
                    return ('scal', f"(if {a1} {opc} {a2} then {x} else {y})")
            if name in ('max', 'min') and len(e.args) == 2 and not kw:
                (k1, a1), (k2, a2) = self.tr(e.args[0]), self.tr(e.args[1])
                if k1 == k2 == 'scal':
                    return ('scal', f"(Np.{name}2 {a1} {a2})")
            if name in ('max', 'min') and len(e.args) == 1 and not kw and isinstance(e.args[0], ast.Name) and \
                    (e.args[0].id + '.' + name) in self.env:
                return self.env[e.args[0].id + '.' + name]     # max(motion) / min(motion): the series' extreme values are parameters
            if isinstance(f, ast.Attribute) and f.attr in ('max', 'min') and isinstance(f.value, ast.Name) and \
                    (f.value.id + '.' + f.attr) in self.env:
                return self.env[f.value.id + '.' + f.attr]     # a.max(axis) / a.min(axis)
            self.fail(e, 'call')
        self.fail(e, 'expression')

    def body(self, fn):
        """straight-line `name = expr` … `return expr`"""
        for st in fn.body:
            if isinstance(st, ast.Expr) and isinstance(st.value, ast.Constant):
                continue
            if isinstance(st, (ast.Import, ast.ImportFrom)):
                continue
            if isinstance(st, ast.Assign) and len(st.targets) == 1 and isinstance(st.targets[0], ast.Name):
                self.env[st.targets[0].id] = self.tr(st.value)
                continue
            if isinstance(st, ast.Return):
                return self.tr(st.value)
            raise Untranslatable(self.fname, st.lineno, f"statement {type(st).__name__}")
        raise Untranslatable(self.fname, fn.lineno, "no return")


def gen_im_simple(repo, ns):
    isrc = open(os.path.join(repo, 'eqsig', 'im.py')).read()
    imod = ast.parse(isrc)
    ssrc = open(os.path.join(repo, 'eqsig', 'sdof.py')).read()
    smod = ast.parse(ssrc)
    sig_attrs = {'values': ('arr', 'a'), 'dt': ('scal', 'dt'), 'velocity': ('arr', 'velocity')}
    defs = []

    def emit(lean_name, sig, kind_text, doc):
        defs.append(f"/-- {doc} -/\ndef {lean_name} {sig} :=\n  {strip_outer(kind_text[1])}")
    fn = find_function(imod, '_raw_calc_arias_intensity')
    emit('arias', '(pi dt : α) (a : List α) : List α', ArrExpr(fn.name, isrc, {'acc': ('arr', 'a'), 'dt': ('scal', 'dt')}, {}).body(fn),
         '`_raw_calc_arias_intensity(acc, dt)`')
    for pyname, lname, sig in (('calc_cav', 'cav', '(dt : α) (a : List α) : List α'),
                               ('calc_isv', 'isv', '(dt : α) (velocity : List α) : List α'),
                               ('calc_integral_of_abs_velocity', 'intAbsVel', '(dt : α) (velocity : List α) : List α'),
                               ('calc_integral_of_abs_acceleration', 'intAbsAcc', '(dt : α) (a : List α) : List α')):
        fn = find_function(imod, pyname)
        emit(lname, sig, ArrExpr(pyname, isrc, {}, sig_attrs).body(fn), f'`{pyname}`')
    fn = find_function(imod, 'calc_peak')
    emit('calcPeakCore', '(mn mx : α) : α', ArrExpr('calc_peak', isrc, {'motion.min': ('scal', 'mn'), 'motion.max': ('scal', 'mx')}, {}).body(fn),
         '`calc_peak(motion)` given `mn = min(motion)`, `mx = max(motion)`')
    fn = find_function(smod, 'absmax')
    emit('absmaxCore', '(amin amax : α) : α', ArrExpr('absmax', ssrc, {'a.min': ('scal', 'amin'), 'a.max': ('scal', 'amax')}, {}).body(fn),
         '`sdof.absmax(a)` given `amin = a.min()`, `amax = a.max()`')
    text = ["-- GENERATED by tools/py2lean.py from eqsig/im.py and eqsig/sdof.py (array one-liners as Prelude.Np combinators). Do not edit.",
            "import EqsigVerif.Prelude.Np", "", f"namespace EqsigVerif.{ns}.ImSimple", "open EqsigVerif", "",
            "variable {α : Type} [Add α] [Sub α] [Mul α] [Div α] [Neg α] [LT α] [DecidableLT α]",
            "  [OfNat α 0] [OfNat α 2] [OfScientific α]", ""] + ["\n\n".join(defs)] + ["", f"end EqsigVerif.{ns}.ImSimple", ""]
    return {"ImSimple.lean": "\n".join(text)}


from py2lean_struct import gen_cache_table, gen_effects, Untranslatable as UntranslatableS  # noqa: E402

TARGETS = [gen_sdof_ab, gen_consts, gen_cache_table, gen_effects, gen_design_spectra, gen_factor_rule, gen_ko_window, gen_im_simple]

# plug-in targets: every tools/py2lean_x_<area>.py exposes TARGETS = [gen(repo, ns) -> {file name: text}, …] and raises an exception
# class named `Untranslatable` (attributes function, line, construct) for source it does not recognise
import glob  # noqa: E402
import importlib  # noqa: E402
sys.path.insert(0, os.path.dirname(os.path.abspath(__file__)))
for _f in sorted(glob.glob(os.path.join(os.path.dirname(os.path.abspath(__file__)), 'py2lean_x_*.py'))):
    TARGETS += list(importlib.import_module(os.path.basename(_f)[:-3]).TARGETS)


def main():
    ap = argparse.ArgumentParser()
    ap.add_argument('--repo', default='/repo')
    here = os.path.dirname(os.path.abspath(__file__))
    ap.add_argument('--out', default=None)
    ap.add_argument('--golden', action='store_true')
    args = ap.parse_args()
    ns = 'GenGolden' if args.golden else 'Gen'
    out_dir = args.out or os.path.join(here, '..', 'lean', 'EqsigVerif', ns)
    os.makedirs(out_dir, exist_ok=True)
    report = {'repo': args.repo, 'namespace': ns, 'files': {}, 'untranslatable': []}
    for tgt in TARGETS:
        try:
            files = tgt(args.repo, ns)
        except Exception as u:  # noqa
            if type(u).__name__ != 'Untranslatable':
                if not isinstance(u, (SyntaxError, OSError)):
                    raise
                report['untranslatable'].append({'target': tgt.__name__, 'function': '?', 'line': 0, 'construct': repr(u)})
                continue
            report['untranslatable'].append({'target': tgt.__name__, 'function': getattr(u, 'function', '?'),
                                             'line': getattr(u, 'line', 0), 'construct': getattr(u, 'construct', str(u))})
            continue
        except (SyntaxError, OSError) as e:
            report['untranslatable'].append({'target': tgt.__name__, 'function': '?', 'line': 0, 'construct': repr(e)})
            continue
        for name, text in files.items():
            p = os.path.join(out_dir, name)
            old = open(p).read() if os.path.exists(p) else None
            if old != text:
                with open(p, 'w') as f:
                    f.write(text)
            report['files'][name] = hashlib.sha256(text.encode()).hexdigest()[:16]
    rp = os.path.join(out_dir, 'translate_report.json')
    txt = json.dumps(report, indent=1, sort_keys=True)
    if not os.path.exists(rp) or open(rp).read() != txt:
        open(rp, 'w').write(txt)
    print(json.dumps({'untranslatable': report['untranslatable'], 'files': sorted(report['files'])}))


if __name__ == '__main__':
    main()
