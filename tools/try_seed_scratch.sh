#!/bin/bash
# (maintenance) tools/try_seed_scratch.sh <seeded id> [props…]: run the checks against an archived seeded change WITHOUT touching /repo
id=$1; shift; prop=${id%%-*}
S=/tmp/scrs_$$; mkdir -p $S && cp -r /repo/eqsig $S/
(cd $S && patch -p1 -s < /verif/seeded/$id/patch.diff) || { echo "cannot apply"; rm -rf $S; exit 2; }
cd /verif
for P in $prop "$@"; do
  OUT=$(EQSIG_REPO=$S ./check $P ${NOBUILD:+--no-build} 2>&1 | grep -v "^KNOWN-FINDING" | tail -2 | tr '\n' ' ' | cut -c1-300)
  echo "  $id check $P: $OUT"
done
rm -rf $S
