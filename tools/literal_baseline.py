#!/usr/bin/env python3
"""(maintenance) write corpus/literals_baseline.json: the numeric literals of every function of the pinned library (/repo HEAD incl. fix: commits).
harness/core.py::source_hints compares the current working tree with it on every run; run this only in the commit that follows a `fix:` commit."""
import json, os, sys
HERE = os.path.dirname(os.path.abspath(__file__))
sys.path.insert(0, os.path.join(HERE, '..', 'harness'))
import core  # noqa
lit = core.source_literals(sys.argv[1] if len(sys.argv) > 1 else '/repo')
os.makedirs(os.path.dirname(core.LITERAL_BASELINE), exist_ok=True)
json.dump(lit, open(core.LITERAL_BASELINE, 'w'), indent=0, sort_keys=True)
print(len(lit), 'functions,', sum(len(v) for v in lit.values()), 'literals ->', core.LITERAL_BASELINE)
