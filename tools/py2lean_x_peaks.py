#!/usr/bin/env python3
"""py2lean_x_peaks — plug-in of tools/py2lean.py for eqsig/fns/peaks_and_crossings.py (C11 peaks, C12 crossings / switched peaks,
C13 peak-only series).  TARGETS = [gen_peaks_fns, gen_crossings_fns, gen_peak_series]; gen(repo, ns) -> {file name: Lean text}.
Standard library only; does not import py2lean (circular import when py2lean runs as __main__).

One typed symbolic executor (`Tr`) maps a function body to ONE `Except ErrKind` `do` block (a plain `def` when nothing can raise).
Fixed rules; everything else raises Untranslatable(function, line, construct):

kinds      scal α · nat Nat · int Int (`len(x) - 1`) · lit (integer literal, adapts) · bool · str String · arr List α · idx List Nat ·
           idxI List Int · mask (element-wise Bool) · tuple.  Arrays are kept lazily as element-wise expressions over ≤ 2 base arrays
           and fused into one `map` / `zipWith` (also across temporaries); temporaries are inlined; every Lean binder is a fresh
           canonical name (`eK` for `←` binds of partial operations, `tK` for lets), so renaming / adding / removing Python temporaries
           and reordering independent statements does not change the output.
operators  + - * / unary - ↦ same operator; `a > b` ↦ `b < a`, `a >= b` ↦ `b ≤ a`, `==` ↦ `=`, `!=` ↦ `≠`, `k in l` ↦ `k ∈ l`,
           `and`/`or`/`not` ↦ `&&`/`||`/`!`; `len(x) - c` ↦ `((x.length : Int) - c)`; literals keep their decimal text
           (`1.` = `1.0` = `1`); a nat meeting a scal is cast `(n : α)`.
partial    `x[0]`, `x[k]` ↦ `NpE.getE x k` · `x[-1]` ↦ `NpE.lastE x` · `max(x)` ↦ `NpE.maxE x` · `np.argmax(x)` ↦ `NpE.argmaxE x` ·
           `np.take(x, i)` ↦ `NpP.takeE` / `NpP.takeIE` (Int indices) · `np.put(x, i, v)` ↦ `x := NpP.putE/putIE x i v` ·
           `np.delete(x, l)` ↦ `NpP.deleteE` · `assert c` ↦ `NpE.assertE` · `i` read after `for i in range(a, b)` ↦ `NpP.lastRangeE a b`
           — each a `let eK ← …` at the place of evaluation, in Python's evaluation order; an identical partial expression is bound once.
total      np.ediff1d(x, to_begin=b) ↦ Np.ediff1d b x (on an index array: over Int) · np.diff ↦ Np.diff · np.where(m)[0] ↦ Np.whereIdx ·
           np.where(m, a, b) ↦ element-wise if · np.insert(x, 0, v) ↦ v :: x · np.insert(x, len(x), v) ↦ x ++ [v] · np.abs/abs ↦ Np.absv ·
           np.sign ↦ NpP.sign · np.mod(k, m) ↦ k % m · np.arange(n) ↦ Np.arange n · np.zeros_like(x) ↦ x.map (fun _ => 0) ·
           np.concatenate((a, b)) ↦ a ++ b · x.sort() ↦ x := NpP.sortAsc x · x[a:b] ↦ Np.slice x a b · x[1:] ↦ x.drop 1 · x[:-1] ↦ x.dropLast ·
           x[s::k] ↦ NpP.sliceStep x s k · x[k:] += s ↦ x := NpP.iaddFrom x k s · np.array(x[, dtype=float]) ↦ x (copy / coercion: identity
           on α) · np.interp ↦ parameter `interp` · X.append(e) ↦ X := X ++ [e] · X += [a, b] ↦ X := X ++ [a, b] ·
           np.unique(x) on an index array ↦ NpU.unique x (sorted distinct values; `Prelude/NpU.lean` is imported only by a file that uses it)
statements `if` whose branches `return` ↦ `if c then do … else do …` (continuation form, no duplication of the rest unless both return) ·
           other `if`/`elif`/`else` ↦ `let tK ← if c then do …; pure (live names) else …` (a branch ending in `raise E` is `.error E`) ·
           `raise ValueError(..)` ↦ `.error .ValueError` · `raise NotImplemented(..)` ↦ `.error .TypeError` (`NotImplemented` is not callable) ·
           `for i in range(a, b)` / `for k, x in enumerate(l)` ↦ an extracted step function `state → i → Except ErrKind state` (state = the
           names defined before the loop and rebound in its body; `if c: continue` ↦ `if c then pure state else …`) folded by
           `NpP.forRangeE` / `NpP.forEnumE` · calls of other translated functions ↦ their generated definitions, defaults read from the
           callee's signature in the source.
"""
import ast
import os
import re
import sys

sys.path.insert(0, os.path.dirname(os.path.abspath(__file__)))
from py2lean_struct import Untranslatable  # noqa: E402

TARGETS = []
P0, P1 = '⟦0⟧', '⟦1⟧'
LTYPE = {'scal': 'α', 'nat': 'Nat', 'int': 'Int', 'bool': 'Bool', 'str': 'String', 'arr': 'List α', 'idx': 'List Nat', 'idxI': 'List Int'}
ELEM_KIND = {'scal': 'arr', 'nat': 'idx', 'int': 'idxI', 'bool': 'mask'}
KIND_ELEM = {'arr': 'scal', 'idx': 'nat', 'idxI': 'int', 'mask': 'bool'}
RESERVED = re.compile(r'x|y|p|st|[et][0-9]+|interp|switched|default')


def lit_text(seg):
    """Python numeric literal text -> canonical Lean literal text denoting the same decimal"""
    t = seg.replace('_', '').lower()
    if t.endswith('.'):
        t = t[:-1]
    if t.startswith('.'):
        t = '0' + t
    if 'e' in t:
        mant, exp = t.split('e')
        if '.' not in mant:
            mant = mant + '.0'
        return f"{mant}e{int(exp)}"
    if '.' in t:
        ip, fp = t.split('.')
        if set(fp) <= {'0'}:
            return str(int(ip))
        return f"{int(ip)}.{fp}"
    if not re.fullmatch(r'[0-9]+', t):
        raise ValueError(seg)
    return str(int(t))


def find_function(mod, name):
    found = [n for n in mod.body if isinstance(n, ast.FunctionDef) and n.name == name]
    if len(found) != 1:
        raise Untranslatable(name, 0, f"{len(found)} definitions of the function found")
    return found[0]


def strip_outer(t):
    if t.startswith('(') and t.endswith(')'):
        depth = 0
        for i, ch in enumerate(t):
            depth += ch == '('
            depth -= ch == ')'
            if depth == 0 and i < len(t) - 1:
                return t
        if ' : ' in t and t.count('(') == 1:
            return t
        return t[1:-1]
    return t


def undecide(t):
    t = strip_outer(t)
    if t.startswith('decide (') and strip_outer(t[7:]) != t[7:]:
        return strip_outer(t[7:])
    return t


def atomic(t):
    return re.fullmatch(r"[A-Za-z_][A-Za-z_0-9.']*", t) is not None


class V:
    def __init__(self, kind, text=None, bases=None, body=None, belem=None):
        self.kind, self.text, self.bases, self.body, self.belem = kind, text, bases, body, belem

    @property
    def elem(self):
        return KIND_ELEM.get(self.kind)


def arr_of(text, kind='arr'):
    return V(kind, bases=[text], body=P0, belem=[KIND_ELEM[kind]])


class Ctx:
    """what happens when a statement list runs out (`fall`), on `return e` (`ret`), on `continue`; `live`: names needed afterwards"""

    def __init__(self, fall, ret=None, cont=None, live=()):
        self.fall, self.ret, self.cont, self.live = fall, ret, cont, set(live)


class Tr:
    def __init__(self, fname, src, env, registry, shared=None, hasattr_values=None):
        self.fname, self.src, self.env, self.registry = fname, src, dict(env), registry
        self.lines, self.bound = [], {}
        self.no_settle = False
        self.fresh = set()      # names bound to a value no other name refers to (in-place updates are allowed on these only)
        self.shared = shared if shared is not None else {'e': 0, 't': 0, 'steps': [], 'hasattr': hasattr_values}
        for k, v in env.items():
            if RESERVED.fullmatch(k):
                raise Untranslatable(fname, 0, f"name {k} clashes with a reserved name")

    # ------------------------------------------------------------ helpers
    def fail(self, node, what):
        seg = ast.get_source_segment(self.src, node) if hasattr(node, 'lineno') else ''
        raise Untranslatable(self.fname, getattr(node, 'lineno', 0), f"{what}: {seg}")

    def sub(self):
        t = Tr(self.fname, self.src, self.env, self.registry, self.shared)
        t.bound = dict(self.bound)
        t.fresh = set(self.fresh)
        return t

    def need_fresh(self, name, node):
        if name not in self.fresh:
            self.fail(node, f"in-place update of {name}, which may alias another array (parameter or `a = b`)")

    def bind(self, mtext):
        if mtext in self.bound:
            return self.bound[mtext]
        self.shared['e'] += 1
        v = f"e{self.shared['e']}"
        self.bound[mtext] = v
        self.lines.append(f"let {v} ← {mtext}")
        return v

    def let(self, text):
        key = ':= ' + text
        if key in self.bound:
            return self.bound[key]
        self.shared['t'] += 1
        v = f"t{self.shared['t']}"
        self.bound[key] = v
        self.lines.append(f"let {v} := {strip_outer(text)}")
        return v

    def is_ew(self, v):
        return v.kind in ('arr', 'idx', 'idxI', 'mask')

    def binder(self, name, elem):
        return name if elem in ('scal', 'bool') else f"({name} : {'Nat' if elem == 'nat' else 'Int'})"

    def mat(self, v, node=None):
        if not self.is_ew(v):
            self.fail(node, f"expected an array, got {v.kind}")
        if v.body == P0 and len(v.bases) == 1:
            return v.bases[0]
        if len(v.bases) == 1:
            return f"({v.bases[0]}.map (fun {self.binder('x', v.belem[0])} => {strip_outer(v.body.replace(P0, 'x'))}))"
        return (f"(List.zipWith (fun {self.binder('x', v.belem[0])} {self.binder('y', v.belem[1])} => "
                f"{strip_outer(v.body.replace(P0, 'x').replace(P1, 'y'))}) {v.bases[0]} {v.bases[1]})")

    def settle(self, v):
        """a materialised array with a non-atomic text is let-bound once (canonical name)"""
        if self.is_ew(v) and v.kind != 'mask':
            t = self.mat(v)
            if not atomic(strip_outer(t)):
                t = self.let(t)
            return arr_of(t, v.kind)
        return v

    def num(self, v, want, node=None):
        """text of a number of kind `want` ∈ scal nat int"""
        k = v.kind
        if k == 'lit':
            return v.text
        if k == want:
            return v.text
        if k == 'nat' and want in ('scal', 'int'):
            t = strip_outer(v.text)
            ty = 'α' if want == 'scal' else 'Int'
            return f"({t} : {ty})" if atomic(t) or t in (P0, P1) else f"(({t} : Nat) : {ty})"
        self.fail(node, f"expected a number of kind {want}, got {k}")

    def join_kind(self, ks, node):
        ks = [k for k in ks if k != 'lit']
        if not ks:
            return 'lit'
        for k in ('scal', 'int', 'nat'):
            if k in ks:
                if k == 'int' and 'scal' in ks:
                    break
                return k
        self.fail(node, f"operand kinds {ks}")

    def ew_combine(self, vals, node, fn, out_elem=None):
        """element-wise combination of arrays / scalars; fn(texts) -> body; out_elem None = join of the operand element kinds"""
        bases, belem, parts = [], [], []
        for v in vals:
            if self.is_ew(v):
                mapping = {}
                for i, b in enumerate(v.bases):
                    if b not in bases:
                        if len(bases) == 2:
                            self.fail(node, "element-wise expression over more than two arrays")
                        bases.append(b)
                        belem.append(v.belem[i])
                    mapping[i] = bases.index(b)
                tmp = v.body.replace(P0, '⟦a⟧').replace(P1, '⟦b⟧').replace('⟦a⟧', (P0, P1)[mapping[0]])
                if 1 in mapping:
                    tmp = tmp.replace('⟦b⟧', (P0, P1)[mapping[1]])
                parts.append(V(v.elem, tmp))
            else:
                parts.append(v)
        if out_elem is None or out_elem == 'cmp':
            k = self.join_kind([p.kind for p in parts], node)
            if k == 'lit':
                self.fail(node, "element-wise expression without an array operand")
            texts = [self.num(p, k, node) for p in parts]
            out = k if out_elem is None else 'bool'
        else:
            texts, out = parts, out_elem
        return V(ELEM_KIND[out], bases=bases, body=fn(texts), belem=belem)

    # ------------------------------------------------------------ expressions
    def np_name(self, f):
        if isinstance(f, ast.Attribute) and isinstance(f.value, ast.Name) and f.value.id == 'np':
            return 'np.' + f.attr
        if isinstance(f, ast.Name):
            return f.id
        return None

    def int_lit(self, e):
        """value of an integer literal (possibly negated), else None"""
        if isinstance(e, ast.UnaryOp) and isinstance(e.op, ast.USub):
            v = self.int_lit(e.operand)
            return -v if v is not None else None
        if isinstance(e, ast.Constant) and isinstance(e.value, int) and not isinstance(e.value, bool):
            return e.value
        return None

    def tr(self, e):
        if isinstance(e, ast.Name):
            if e.id in self.env:
                v = self.env[e.id]
                if v.kind == 'loopvar_after':
                    return V('nat', self.bind(v.text))
                return v
            self.fail(e, "unknown name")
        if isinstance(e, ast.Constant):
            if e.value is None:
                return V('none')
            if isinstance(e.value, bool):
                return V('bool', 'true' if e.value else 'false')
            if isinstance(e.value, str):
                if '"' in e.value or '\\' in e.value:
                    self.fail(e, "string literal")
                return V('str', f'"{e.value}"')
            if isinstance(e.value, (int, float)):
                t = lit_text(ast.get_source_segment(self.src, e))
                return V('lit', t) if re.fullmatch(r'[0-9]+', t) else V('scal', t)
            self.fail(e, "literal")
        if isinstance(e, ast.Attribute):
            if isinstance(e.value, ast.Name) and e.value.id in self.env and self.env[e.value.id].kind == 'obj' and \
                    e.attr in self.env[e.value.id].text:
                return self.env[e.value.id].text[e.attr]
            self.fail(e, "attribute")
        if isinstance(e, ast.Tuple):
            return V('tuple', [self.tr(x) for x in e.elts])
        if isinstance(e, ast.List):
            return self.list_lit(e)
        if isinstance(e, ast.UnaryOp):
            v = self.tr(e.operand)
            if isinstance(e.op, ast.USub):
                if v.kind == 'scal':
                    return V('scal', f"(-{v.text})")
                if v.kind == 'lit':
                    return V('scal', f"(-{v.text})")      # a negative literal is a number of type α (an Int only via int_lit)
                if self.is_ew(v) and v.elem in ('scal', 'int'):
                    return self.ew_combine([v], e, lambda t: f"(-{t[0]})")
            if isinstance(e.op, ast.Not) and v.kind == 'bool':
                return V('bool', f"(!{v.text})")
            self.fail(e, "unary operator")
        if isinstance(e, ast.BoolOp):
            vs = [self.tr(x) for x in e.values]
            if all(v.kind == 'bool' for v in vs):
                op = ' && ' if isinstance(e.op, ast.And) else ' || '
                return V('bool', '(' + op.join(v.text for v in vs) + ')')
            self.fail(e, "Boolean operator on non-Booleans")
        if isinstance(e, ast.BinOp):
            return self.binop(e)
        if isinstance(e, ast.Compare):
            return self.compare(e)
        if isinstance(e, ast.Subscript):
            return self.subscript(e)
        if isinstance(e, ast.Call):
            return self.call(e)
        self.fail(e, f"expression {type(e).__name__}")

    def list_lit(self, e, like=None):
        if not e.elts:
            if like is not None and like.kind in ('arr', 'idx'):
                return arr_of('[]', like.kind)
            return V('emptylist')
        vs = [self.tr(x) for x in e.elts]
        k = self.join_kind([v.kind for v in vs], e)
        if k == 'lit':
            k = 'nat'
        if k not in ('scal', 'nat'):
            self.fail(e, "list literal")
        return arr_of('[' + ', '.join(strip_outer(self.num(v, k, e)) for v in vs) + ']', ELEM_KIND[k])

    def binop(self, e):
        l, r = self.tr(e.left), self.tr(e.right)
        op = {ast.Add: '+', ast.Sub: '-', ast.Mult: '*', ast.Div: '/'}.get(type(e.op))
        if op is None:
            self.fail(e, f"operator {type(e.op).__name__}")
        if self.is_ew(l) or self.is_ew(r):
            for v in (l, r):
                if not (self.is_ew(v) and v.kind != 'mask' or v.kind in ('scal', 'lit', 'nat', 'int')):
                    self.fail(e, "array operator")
            return self.ew_combine([l, r], e, lambda t: f"({t[0]} {op} {t[1]})")
        if l.kind not in ('scal', 'lit', 'nat', 'int') or r.kind not in ('scal', 'lit', 'nat', 'int'):
            self.fail(e, "operator on non-numbers")
        k = self.join_kind([l.kind, r.kind], e)
        if k == 'lit':
            self.fail(e, "arithmetic on two literals")
        if k == 'nat':
            if op in ('+', '*'):
                return V('nat', f"({self.num(l, 'nat', e)} {op} {self.num(r, 'nat', e)})")
            if op == '-':          # Python integers: exact subtraction in Int
                return V('int', f"({self.num(l, 'int', e)} - {self.num(r, 'int', e)})")
            k = 'scal'
        if k == 'int' and op == '/':
            self.fail(e, "division of integers")
        return V(k, f"({self.num(l, k, e)} {op} {self.num(r, k, e)})")

    CMP = {ast.Lt: ('<', False), ast.Gt: ('<', True), ast.LtE: ('≤', False), ast.GtE: ('≤', True), ast.Eq: ('=', False), ast.NotEq: ('≠', False)}

    def compare(self, e):
        if len(e.ops) != 1:
            self.fail(e, "chained comparison")
        l, r = self.tr(e.left), self.tr(e.comparators[0])
        o = type(e.ops[0])
        if o is ast.In:
            if l.kind in ('nat', 'lit') and r.kind == 'idx':
                return V('bool', f"decide ({self.num(l, 'nat', e)} ∈ {self.mat(r, e)})")
            self.fail(e, "membership test")
        if o not in self.CMP:
            self.fail(e, "comparison operator")
        sym, swap = self.CMP[o]

        def body(t):
            a, b = (t[1], t[0]) if swap else (t[0], t[1])
            return f"decide ({a} {sym} {b})"
        if l.kind == 'str' and r.kind == 'str' and sym in ('=', '≠'):
            return V('bool', body([l.text, r.text]))
        if self.is_ew(l) or self.is_ew(r):
            for v in (l, r):
                if not (self.is_ew(v) and v.kind != 'mask' or v.kind in ('scal', 'lit', 'nat', 'int')):
                    self.fail(e, "array comparison")
            return self.ew_combine([l, r], e, body, 'cmp')
        if l.kind not in ('scal', 'lit', 'nat', 'int') or r.kind not in ('scal', 'lit', 'nat', 'int'):
            self.fail(e, "comparison of non-numbers")
        k = self.join_kind([l.kind, r.kind], e)
        if k == 'lit':
            self.fail(e, "comparison of two literals")
        return V('bool', body([self.num(l, k, e), self.num(r, k, e)]))

    def subscript(self, e):
        s = e.slice
        v = self.tr(e.value)
        if v.kind == 'wh':
            if self.int_lit(s) == 0:
                return arr_of(v.text, 'idx')
            self.fail(e, "subscript of np.where(...)")
        if v.kind not in ('arr', 'idx'):
            self.fail(e, "subscript of a non-array")
        if isinstance(s, ast.Slice):
            lo, hi, st = s.lower, s.upper, s.step
            m = self.mat(v, e)
            if st is not None:
                a, k = (0 if lo is None else self.int_lit(lo)), self.int_lit(st)
                if hi is None and a is not None and a >= 0 and k is not None and k >= 1:
                    return arr_of(f"(NpP.sliceStep {m} {a} {k})", v.kind)
                self.fail(e, "stepped slice")
            if lo is not None and hi is None:
                a = self.int_lit(lo)
                if a is not None and a >= 0:
                    return arr_of(f"({m}.drop {a})", v.kind)
            if lo is None and hi is not None and self.int_lit(hi) == -1:
                return arr_of(f"{m}.dropLast" if atomic(m) else f"({m}).dropLast", v.kind)
            if lo is not None and hi is not None:
                a, b = self.tr(lo), self.tr(hi)
                if a.kind in ('nat', 'lit') and b.kind in ('nat', 'lit'):
                    return arr_of(f"(Np.slice {m} {self.num(a, 'nat', e)} {self.num(b, 'nat', e)})", v.kind)
            self.fail(e, "slice")
        c = self.int_lit(s)
        ek = 'scal' if v.kind == 'arr' else 'nat'
        if c == -1:
            return V(ek, self.bind(f"NpE.lastE {self.mat(v, e)}"))
        if c is not None and c < 0:
            self.fail(e, "negative index")
        i = self.tr(s)
        if i.kind in ('nat', 'lit'):
            return V(ek, self.bind(f"NpE.getE {self.mat(v, e)} {self.num(i, 'nat', e)}"))
        self.fail(e, "subscript")

    def call(self, e):
        name = self.np_name(e.func)
        kw = {k.arg: k.value for k in e.keywords}
        a = e.args
        n = len(a)
        if name in ('np.abs', 'abs') and n == 1 and not kw:
            v = self.tr(a[0])
            if self.is_ew(v) and v.elem == 'scal':
                return self.ew_combine([v], e, lambda t: f"(Np.absv {t[0]})")
            if v.kind == 'scal':
                return V('scal', f"(Np.absv {v.text})")
        if name == 'np.sign' and n == 1 and not kw:
            v = self.tr(a[0])
            if v.kind == 'scal':
                return V('scal', f"(NpP.sign {v.text})")
        if name == 'np.mod' and n == 2 and not kw:
            v, m = self.tr(a[0]), self.tr(a[1])
            if v.kind == 'idx' and m.kind == 'lit' and m.text != '0':
                return self.ew_combine([v, m], e, lambda t: f"({t[0]} % {t[1]})")
        if name == 'np.ediff1d' and n == 1 and set(kw) == {'to_begin'}:
            v, b = self.tr(a[0]), self.tr(kw['to_begin'])
            if v.kind == 'arr' and b.kind in ('scal', 'lit'):
                return arr_of(f"(Np.ediff1d {self.num(b, 'scal', e)} {self.mat(v, e)})")
            if v.kind == 'idx' and b.kind == 'lit':      # differences of an index array: exact in Int (NumPy int64)
                return arr_of(f"(Np.ediff1d {b.text} ({self.mat(v, e)}.map Int.ofNat))", 'idxI')
        if name == 'np.diff' and n == 1 and not kw:
            v = self.tr(a[0])
            if v.kind == 'arr':
                return arr_of(f"(Np.diff {self.mat(v, e)})")
        if name == 'np.where' and n == 1 and not kw:
            v = self.tr(a[0])
            if v.kind == 'mask':
                if len(v.bases) == 1:
                    return V('wh', f"(Np.whereIdx (fun {self.binder('x', v.belem[0])} => {strip_outer(v.body.replace(P0, 'x'))}) {v.bases[0]})")
                body = strip_outer(v.body.replace(P0, 'p.1').replace(P1, 'p.2'))
                return V('wh', f"(Np.whereIdx (fun p => {body}) (List.zip {v.bases[0]} {v.bases[1]}))")
        if name == 'np.where' and n == 3 and not kw:
            c, x, y = self.tr(a[0]), self.tr(a[1]), self.tr(a[2])
            if c.kind == 'idx':            # an integer array as a condition: non-zero is true
                c = self.ew_combine([c], e, lambda t: f"decide ({t[0]} ≠ 0)", 'cmp')
            if c.kind == 'mask':
                xs = [v if self.is_ew(v) else V('scal', self.num(v, 'scal', e)) for v in (x, y)]
                for v in xs:
                    if self.is_ew(v) and v.elem != 'scal':
                        self.fail(e, "np.where branches")
                return self.ew_combine([c] + xs, e, lambda t: f"(if {undecide(t[0].text)} then {t[1].text} else {t[2].text})", 'scal')
        if name == 'np.take' and n == 2 and not kw:
            v, i = self.tr(a[0]), self.tr(a[1])
            if v.kind in ('arr', 'idx') and i.kind in ('idx', 'idxI'):
                f = 'NpP.takeE' if i.kind == 'idx' else 'NpP.takeIE'
                return arr_of(self.bind(f"{f} {self.mat(v, e)} {self.mat(i, e)}"), v.kind)
        if name == 'np.delete' and n == 2 and not kw:
            v, i = self.tr(a[0]), self.tr(a[1])
            if v.kind in ('arr', 'idx') and i.kind == 'idx':
                return arr_of(self.bind(f"NpP.deleteE {self.mat(v, e)} {self.mat(i, e)}"), v.kind)
        if name == 'np.unique' and n == 1 and not kw:      # 1-D integer index array only (no return_index / axis / float arrays)
            v = self.tr(a[0])
            if v.kind == 'idx':
                return arr_of(f"(NpU.unique {self.mat(v, e)})", 'idx')
        if name == 'np.arange' and n == 1 and not kw:
            c = self.tr(a[0])
            if c.kind == 'nat':
                return arr_of(f"(Np.arange {c.text})", 'idx')
        if name == 'np.zeros_like' and n == 1 and not kw:
            v = self.tr(a[0])
            if v.kind == 'arr':
                return arr_of(f"({self.mat(v, e)}.map (fun _ => 0))")
        if name == 'len' and n == 1 and not kw:
            v = self.tr(a[0])
            if v.kind in ('arr', 'idx', 'idxI'):
                m = self.mat(v, e)
                return V('nat', f"{m}.length" if atomic(m) or m.startswith('(') else f"({m}).length")
        if name == 'np.insert' and n == 3 and not kw:
            v, val = self.tr(a[0]), self.tr(a[2])
            if v.kind in ('arr', 'idx', 'idxI'):
                k = v.kind
                if k == 'idx' and val.kind == 'int':      # an Int meets an index array: the array is promoted to Int
                    m = self.mat(v, e)
                    v = arr_of(f"({m}.map Int.ofNat)", 'idxI')
                    k = 'idxI'
                want = strip_outer(self.num(val, KIND_ELEM[k], e))
                if self.int_lit(a[1]) == 0:
                    return arr_of(f"({want} :: {self.mat(v, e)})", k)
                pos = a[1]
                if isinstance(pos, ast.Call) and self.np_name(pos.func) == 'len' and len(pos.args) == 1 and not pos.keywords and \
                        ast.dump(pos.args[0]) == ast.dump(a[0]):
                    return arr_of(f"({self.mat(v, e)} ++ [{want}])", k)
                self.fail(e, "np.insert position (only 0 or len(<the same array>))")
        if name == 'np.concatenate' and n == 1 and not kw and isinstance(a[0], ast.Tuple) and len(a[0].elts) == 2:
            x, y = self.tr(a[0].elts[0]), self.tr(a[0].elts[1])
            if x.kind == y.kind and x.kind in ('arr', 'idx'):
                return arr_of(f"({self.mat(x, e)} ++ {self.mat(y, e)})", x.kind)
        if name == 'np.array' and n == 1 and (not kw or (set(kw) == {'dtype'} and isinstance(kw['dtype'], ast.Name) and kw['dtype'].id == 'float')):
            v = self.tr(a[0])
            if v.kind == 'arr' or (v.kind == 'idx' and not kw):
                return v
        if name in ('np.max', 'max') and n == 1 and not kw:
            v = self.tr(a[0])
            if v.kind == 'arr':
                return V('scal', self.bind(f"NpE.maxE {self.mat(v, e)}"))
        if name == 'np.argmax' and n == 1 and not kw:
            v = self.tr(a[0])
            if v.kind == 'arr':
                return V('nat', self.bind(f"NpE.argmaxE {self.mat(v, e)}"))
        if name == 'np.interp' and n == 3 and not kw:
            x, xp, fp = self.tr(a[0]), self.tr(a[1]), self.tr(a[2])
            if x.kind == 'idx' and xp.kind == 'idx' and fp.kind == 'arr':
                self.shared['interp'] = True
                return arr_of(self.bind(f"interp {self.mat(x, e)} {self.mat(xp, e)} {self.mat(fp, e)}"))
        if name == 'hasattr' and n == 2 and not kw and isinstance(a[0], ast.Name) and isinstance(a[1], ast.Constant) and a[1].value == 'values':
            v = self.env.get(a[0].id)
            if v is not None and v.kind in ('obj', 'arr'):
                return V('static', v.kind == 'obj')
        if name in self.registry:
            return self.call_registered(e, self.registry[name])
        self.fail(e, "call")

    def call_registered(self, e, reg):
        callee = reg['fn']
        names = [x.arg for x in callee.args.args]
        dfl = dict(zip(names[len(names) - len(callee.args.defaults):], callee.args.defaults))
        got = {}
        if len(e.args) > len(names):
            self.fail(e, "too many arguments")
        for i, x in enumerate(e.args):
            got[names[i]] = x
        for k in e.keywords:
            if k.arg is None or k.arg not in names or k.arg in got:
                self.fail(e, "keyword argument")
            got[k.arg] = k.value
        args = list(reg.get('extra', []))
        for nme, kind in reg['params']:
            if nme not in got and nme not in dfl:
                self.fail(e, f"missing argument {nme}")
            v = self.tr(got[nme]) if nme in got else Tr(callee.name, self.src, {}, {}).tr(dfl[nme])
            if kind in ('arr', 'idx'):
                if v.kind != kind:
                    self.fail(e, f"argument {nme}")
                args.append(self.mat(v, e))
            elif kind in ('scal', 'nat'):
                args.append(self.num(v, kind, e))
            elif kind in ('bool', 'str'):
                if v.kind != kind:
                    self.fail(e, f"argument {nme}")
                args.append(v.text)
            else:
                self.fail(e, f"argument {nme}")
        for x in list(reg.get('extra', [])) + list(reg.get('mark', [])):
            self.shared[x] = True
        text = f"{reg['lean']} " + " ".join(args)
        res = self.bind(text) if reg['monadic'] else f"({text})"
        rk = reg['ret']
        if isinstance(rk, tuple):
            if not reg['monadic']:
                res = self.let(res)
            proj = [f"{res}.1", f"{res}.2"] if len(rk) == 2 else None
            return V('tuple', [arr_of(p, k) for p, k in zip(proj, rk)])
        return arr_of(res, rk)

    # ------------------------------------------------------------ statements
    def cond(self, test):
        """translate an `if` test to a Bool V (truthiness of an int: `≠ 0`) or a static Python bool"""
        v = self.tr(test)
        if v.kind == 'static':
            return v
        if v.kind == 'nat':
            return V('bool', f"decide ({v.text} ≠ 0)")
        if v.kind != 'bool':
            self.fail(test, "condition")
        return v

    @staticmethod
    def ends(stmts):
        """'return' | 'raise' | 'continue' | 'open'"""
        if not stmts:
            return 'open'
        s = stmts[-1]
        if isinstance(s, ast.Return):
            return 'return'
        if isinstance(s, ast.Raise):
            return 'raise'
        if isinstance(s, ast.Continue):
            return 'continue'
        if isinstance(s, ast.If):
            b, o = Tr.ends(s.body), Tr.ends(s.orelse)
            if b != 'open' and o != 'open':
                return 'return' if 'return' in (b, o) else ('continue' if 'continue' in (b, o) else 'raise')
        return 'open'

    @staticmethod
    def assigned(stmts):
        out = []
        for st in ast.walk(ast.Module(body=list(stmts), type_ignores=[])):
            tg = []
            if isinstance(st, ast.Assign):
                for t in st.targets:
                    tg += t.elts if isinstance(t, ast.Tuple) else [t]
            elif isinstance(st, ast.AugAssign):
                tg = [st.target.value if isinstance(st.target, ast.Subscript) else st.target]
            elif isinstance(st, ast.For):
                tg = st.target.elts if isinstance(st.target, ast.Tuple) else [st.target]
            elif isinstance(st, ast.Call) and isinstance(st.func, ast.Attribute) and st.func.attr in ('append', 'sort') and isinstance(st.func.value, ast.Name):
                tg = [st.func.value]
            elif isinstance(st, ast.Call) and isinstance(st.func, ast.Attribute) and st.func.attr == 'put' and st.args and isinstance(st.args[0], ast.Name):
                tg = [st.args[0]]
            for t in tg:
                if isinstance(t, ast.Name) and t.id not in out:
                    out.append(t.id)
        return out

    @staticmethod
    def loaded(stmts):
        return {n.id for st in stmts for n in ast.walk(st) if isinstance(n, ast.Name)}

    def pack(self, names, node, want=None):
        """(Lean tuple text, Lean type text) of the current values of `names` (optionally coerced to the kinds `want`)"""
        ts, tys = [], []
        for j, x in enumerate(names):
            v = self.env[x]
            w = want[j] if want else ('nat' if v.kind == 'lit' else v.kind)
            if self.is_ew(v):
                if v.kind != w:
                    self.fail(node, f"value of {x}: kind {v.kind}, expected {w}")
                ts.append(strip_outer(self.mat(v, node)))
            elif v.kind in ('scal', 'nat', 'int', 'lit') and w in ('scal', 'nat', 'int'):
                ts.append(strip_outer(self.num(v, w, node)))
            elif v.kind == 'bool' and w == 'bool':
                ts.append(strip_outer(v.text))
            else:
                self.fail(node, f"value of {x} cannot be carried ({v.kind})")
            tys.append(LTYPE[w])
        if len(names) == 1:
            return ts[0], tys[0]
        return '(' + ', '.join(ts) + ')', ' × '.join(tys)

    def unpack(self, names, kinds, var):
        proj = [var] if len(names) == 1 else [f"{var}{'.2' * i}.1" for i in range(len(names) - 1)] + [f"{var}{'.2' * (len(names) - 1)}"]
        for x, k, p in zip(names, kinds, proj):
            self.env[x] = arr_of(p, k) if k in ('arr', 'idx', 'idxI') else V(k, p)

    def block(self, stmts, ctx):
        """lines of a do block for `stmts` followed by what `ctx` prescribes; the last line is the value of the block"""
        for k, st in enumerate(stmts):
            rest = list(stmts[k + 1:])
            if isinstance(st, ast.Expr) and isinstance(st.value, ast.Constant) and isinstance(st.value.value, str):
                continue
            if isinstance(st, ast.Return):
                if st.value is None or ctx.ret is None:
                    self.fail(st, "return")
                return self.lines + [ctx.ret(self, self.tr(st.value), st)]
            if isinstance(st, ast.Raise):
                return self.lines + [self.raise_text(st)]
            if isinstance(st, ast.Continue):
                if ctx.cont is None:
                    self.fail(st, "continue outside a loop body")
                return self.lines + [ctx.cont(self, st)]
            if isinstance(st, ast.If):
                done = self.if_stmt(st, rest, ctx)
                if done is not None:
                    return done
                continue
            if isinstance(st, ast.For):
                self.for_stmt(st, rest, ctx)
                continue
            self.simple(st)
        return self.lines + [ctx.fall(self, stmts[-1] if stmts else None)]

    def raise_text(self, st):
        ex = st.exc
        if isinstance(ex, ast.Call) and isinstance(ex.func, ast.Name) and st.cause is None:
            if ex.func.id == 'ValueError':
                return "Except.error ErrKind.ValueError"
            if ex.func.id == 'NotImplemented':      # calling the constant `NotImplemented` raises TypeError
                return "Except.error ErrKind.TypeError"
        self.fail(st, "raise")

    def simple(self, st):
        if isinstance(st, ast.Assign) and len(st.targets) == 1:
            tg = st.targets[0]
            if isinstance(tg, ast.Name):
                if isinstance(st.value, ast.List):
                    v = self.list_lit(st.value, self.env.get(tg.id))
                else:
                    v = self.tr(st.value)
                if v.kind in ('tuple', 'wh', 'static'):
                    self.fail(st, "assigned value")
                if isinstance(st.value, ast.Name):
                    self.fresh.discard(tg.id)
                else:
                    self.fresh.add(tg.id)
                self.env[tg.id] = self.settle(v) if self.is_ew(v) and len(v.bases) == 1 and v.body == P0 and not self.no_settle else v
                return
            if isinstance(tg, ast.Tuple) and all(isinstance(x, ast.Name) for x in tg.elts):
                v = self.tr(st.value)
                if v.kind == 'tuple' and len(v.text) == len(tg.elts):
                    for x, w in zip(tg.elts, v.text):
                        self.env[x.id] = w
                        self.fresh.add(x.id)
                    return
            self.fail(st, "assignment target")
        if isinstance(st, ast.AugAssign):
            op = {ast.Add: '+', ast.Sub: '-', ast.Mult: '*'}.get(type(st.op))
            tg = st.target
            if op and isinstance(tg, ast.Name) and tg.id in self.env:
                old = self.env[tg.id]
                self.need_fresh(tg.id, st)
                if op == '+' and isinstance(st.value, ast.List) and old.kind in ('arr', 'idx'):
                    new = self.list_lit(st.value)
                    if new.kind == old.kind:
                        self.env[tg.id] = arr_of(f"({self.mat(old, st)} ++ {self.mat(new, st)})", old.kind)
                        return
                v = self.tr(st.value)
                if old.kind == 'arr' and v.kind in ('scal', 'lit'):       # in-place on a float array
                    self.env[tg.id] = self.ew_combine([old, v], st, lambda t: f"({t[0]} {op} {t[1]})")
                    return
            if op == '+' and isinstance(tg, ast.Subscript) and isinstance(tg.value, ast.Name) and isinstance(tg.slice, ast.Slice) and \
                    tg.slice.upper is None and tg.slice.step is None and tg.slice.lower is not None and tg.value.id in self.env:
                a, old, v = self.int_lit(tg.slice.lower), self.env[tg.value.id], self.tr(st.value)
                if a is not None and a >= 0 and old.kind == 'arr' and v.kind in ('scal', 'lit'):
                    self.need_fresh(tg.value.id, st)
                    self.env[tg.value.id] = arr_of(f"(NpP.iaddFrom {self.mat(old, st)} {a} {self.num(v, 'scal', st)})")
                    return
            self.fail(st, "augmented assignment")
        if isinstance(st, ast.Assert) and st.msg is None:
            c = self.tr(st.test)
            if c.kind == 'bool':
                self.lines.append(f"NpE.assertE ({strip_outer(c.text)})")
                return
            self.fail(st, "assert")
        if isinstance(st, ast.Expr) and isinstance(st.value, ast.Call):
            c = st.value
            f = c.func
            if isinstance(f, ast.Attribute) and isinstance(f.value, ast.Name) and f.value.id in self.env and not c.keywords:
                x, old = f.value.id, self.env[f.value.id]
                self.need_fresh(x, st)
                if f.attr == 'append' and len(c.args) == 1 and old.kind in ('arr', 'idx'):
                    v = self.tr(c.args[0])
                    self.env[x] = arr_of(f"({self.mat(old, st)} ++ [{strip_outer(self.num(v, old.elem, st))}])", old.kind)
                    return
                if f.attr == 'sort' and not c.args and old.kind == 'idx':
                    self.env[x] = self.settle(arr_of(f"(NpP.sortAsc {self.mat(old, st)})", 'idx'))
                    return
            if self.np_name(f) == 'np.put' and len(c.args) == 3 and not c.keywords and isinstance(c.args[0], ast.Name):
                tgt, i, v = self.tr(c.args[0]), self.tr(c.args[1]), self.tr(c.args[2])
                if tgt.kind == 'arr' and i.kind in ('idx', 'idxI') and v.kind == 'arr':
                    self.need_fresh(c.args[0].id, st)
                    fn = 'NpP.putE' if i.kind == 'idx' else 'NpP.putIE'
                    self.env[c.args[0].id] = arr_of(self.bind(f"{fn} {self.mat(tgt, st)} {self.mat(i, st)} {self.mat(v, st)}"))
                    return
        self.fail(st, f"statement {type(st).__name__}")

    def branch_do(self, lines, ind):
        return [ind + x for x in lines]

    def if_stmt(self, st, rest, ctx):
        """returns the finished line list when the `if` ends the block, else None (env updated)"""
        c = self.cond(st.test)
        if c.kind == 'static':
            chosen = st.body if c.text else st.orelse
            return self.sub_block_inline(list(chosen) + rest, ctx)
        B, O = list(st.body), list(st.orelse)
        kb, ko = self.ends(B), self.ends(O)
        def jumps(stmts):
            for s in stmts:
                if isinstance(s, (ast.Return, ast.Continue)):
                    return True
                if isinstance(s, ast.If) and (jumps(s.body) or jumps(s.orelse)):
                    return True
                if isinstance(s, ast.For) and any(isinstance(n, ast.Return) for n in ast.walk(s)):
                    return True
            return False
        has_jump = jumps(B + O)
        ct = undecide(c.text)
        if has_jump:
            if kb == 'open' and ko == 'open':
                self.fail(st, "return / continue nested below an open branch")
            tb, to = self.sub(), self.sub()
            lb = tb.block(B if kb != 'open' else B + rest, ctx)
            lo = to.block(O if ko != 'open' else O + rest, ctx)
            return self.lines + [f"if {ct} then do"] + self.branch_do(lb, '  ') + ["else do"] + self.branch_do(lo, '  ')
        # merge form: the branches rebind names (a branch may end in `raise`)
        before = set(self.env)
        names = [x for x in self.assigned(B + O) if (x in self.loaded(rest) or x in ctx.live)]
        occ = {}
        for n in sorted((n for s in B + O for n in ast.walk(s) if isinstance(n, ast.Name)), key=lambda n: (n.lineno, n.col_offset)):
            occ.setdefault(n.id, len(occ))
        names.sort(key=lambda x: occ.get(x, 10 ** 6))      # canonical order: first occurrence in the branches (source order)
        chain = [(ct, B)]
        cur = O
        while len(cur) == 1 and isinstance(cur[0], ast.If) and not isinstance(self.cond_peek(cur[0].test), bool):
            cc = self.cond(cur[0].test)
            chain.append((undecide(cc.text), list(cur[0].body)))
            cur = list(cur[0].orelse)
        chain.append((None, cur))
        outs = []
        for ctxt, body in chain:
            t = self.sub()
            t.lines = []
            t.no_settle = True
            if self.ends(body) == 'raise':
                ls = t.block(body, Ctx(fall=None))
                outs.append((ctxt, ls, None, t))
                continue
            t.shared = self.shared
            ls = t.block(body, Ctx(fall=lambda tt, node: '@@FALL', live=set(names) | ctx.live))
            assert ls[-1] == '@@FALL'
            t.lines = ls[:-1]
            outs.append((ctxt, t.lines, t, t))
        live = [x for x in names if all(t is None or x in t.env for _, _, t, _ in outs)]
        for x in names:
            if x not in live:
                self.env.pop(x, None)        # bound on some paths only: a later read is `unknown name`
        if not live:
            if any(ls for _, ls, _, _ in outs):
                # nothing is carried out of the branches, but their partial operations / raises still happen
                live = []
        kinds = None
        if live:
            kinds = []
            for x in live:
                ks = {t.env[x].kind for _, _, t, _ in outs if t is not None}
                nums = ks & {'lit', 'scal', 'nat', 'int'}
                if nums == ks and ks:
                    kinds.append(self.join_kind(sorted(ks), st) if ks != {'lit'} else 'nat')
                elif len(ks) == 1:
                    kinds.append(next(iter(ks)))
                else:
                    self.fail(st, f"branches give different kinds to {x}: {sorted(ks)}")
        packed = []
        typ = 'Unit'
        for ctxt, ls, t, _ in outs:
            if t is None:
                packed.append((ctxt, ls, None))
                continue
            if live:
                txt, typ = t.pack(live, st, kinds)
            else:
                txt, kinds = '()', []
            packed.append((ctxt, ls, txt))
        if kinds is None:
            self.fail(st, "every branch raises")
        for x in live:
            if all(t is None or x in t.fresh for _, _, t, _ in outs):
                self.fresh.add(x)
            else:
                self.fresh.discard(x)
        pure_if = all(not ls and txt is not None for _, ls, txt in packed)
        if pure_if and not live:
            return None
        if pure_if:
            text = ""
            for ctxt, _, txt in packed:
                text += f"if {ctxt} then {txt} else " if ctxt is not None else txt
            var = self.let(f"({text})") if len(live) > 1 else None
            if var:
                self.unpack(live, kinds, var)
            else:
                k = kinds[0]
                self.env[live[0]] = arr_of(self.let(f"({text})"), k) if k in ('arr', 'idx', 'idxI') else V(k, f"({text})")
            return None
        self.shared['t'] += 1
        var = f"t{self.shared['t']}"
        out = []
        for j, (ctxt, ls, txt) in enumerate(packed):
            head = ("if " if j == 0 else "else if ") + f"{ctxt} then" if ctxt is not None else "else"
            body = ls if txt is None else ls + [f"pure {txt}" if atomic(txt) or txt[0] in '([' or txt.isdigit() else f"pure ({txt})"]
            if len(body) == 1:
                out.append(f"  {head} {body[0]}")
            else:
                out.append(f"  {head} do")
                out += ["      " + x for x in body]
        out[0] = f"let {var} ← (" + out[0].lstrip()
        out[-1] += f" : Except ErrKind ({typ}))"
        self.lines += out
        if live:
            self.unpack(live, kinds, var)
        return None

    def cond_peek(self, test):
        """static value of a test if it is static (hasattr), else None"""
        if isinstance(test, ast.Call) and self.np_name(test.func) == 'hasattr':
            v = self.tr(test)
            return bool(v.text) if v.kind == 'static' else None
        return None

    def sub_block_inline(self, stmts, ctx):
        return self.block(stmts, ctx)

    # ------------------------------------------------------------ loops
    def for_stmt(self, st, rest, ctx):
        if st.orelse or not isinstance(st.iter, ast.Call) or st.iter.keywords:
            self.fail(st, "loop header")
        it = self.np_name(st.iter.func)
        if it == 'range' and isinstance(st.target, ast.Name) and len(st.iter.args) in (1, 2):
            lo = self.tr(st.iter.args[0]) if len(st.iter.args) == 2 else V('lit', '0')
            hi = self.tr(st.iter.args[-1])
            if lo.kind not in ('nat', 'lit') or hi.kind not in ('nat', 'lit'):
                self.fail(st, "loop bounds")
            loopvars = [(st.target.id, 'nat')]
            lo_t, hi_t = self.num(lo, 'nat', st), self.num(hi, 'nat', st)
            driver = lambda step, init: f"NpP.forRangeE ({step}) {lo_t} {hi_t} {init}"   # noqa: E731
            after = {st.target.id: V('loopvar_after', f"NpP.lastRangeE {lo_t} {hi_t}")}
        elif it == 'enumerate' and isinstance(st.target, ast.Tuple) and len(st.target.elts) == 2 and len(st.iter.args) == 1 and \
                all(isinstance(x, ast.Name) for x in st.target.elts):
            seq = self.tr(st.iter.args[0])
            if seq.kind not in ('arr', 'idx'):
                self.fail(st, "enumerate of a non-array")
            loopvars = [(st.target.elts[0].id, 'nat'), (st.target.elts[1].id, seq.elem)]
            seq_t = self.mat(seq, st)
            driver = lambda step, init: f"NpP.forEnumE ({step}) {seq_t} {init}"          # noqa: E731
            after = {}
        else:
            self.fail(st, "loop header (only range(a, b) / enumerate(l))")
        lv = [x for x, _ in loopvars]
        assigned = self.assigned(st.body)
        state = [x for x in assigned if x in self.env and x not in lv]
        # canonical order of the state components: first occurrence in the loop body (source order), so that neither renaming nor
        # reordering the initialisations before the loop changes the state tuple
        occ = {}
        for n in sorted((n for s in st.body for n in ast.walk(s) if isinstance(n, ast.Name)), key=lambda n: (n.lineno, n.col_offset)):
            occ.setdefault(n.id, len(occ))
        state.sort(key=lambda x: occ.get(x, 10 ** 6))
        if not state:
            self.fail(st, "loop without state")
        for x in assigned:
            if x in lv:
                self.fail(st, "loop variable rebound in the body")
        # names introduced in the body and read after the loop are not supported (they are dropped from the environment)
        free = [x for x in sorted(self.loaded(st.body)) if x in self.env and x not in state and x not in lv and
                self.env[x].kind in ('arr', 'idx', 'idxI', 'scal', 'nat', 'int', 'bool', 'str')]
        free.sort(key=lambda x: self.shared['order'].index(x) if x in self.shared['order'] else 10 ** 6)
        cands = [[]]
        for x in state:
            k = self.env[x].kind
            opts = ['idx', 'arr'] if k == 'emptylist' else [('scal' if k == 'lit' else k)]
            cands = [c + [o] for c in cands for o in opts]
        err = None
        for kinds in cands:
            try:
                res = self.try_loop(st, state, kinds, loopvars, free)
            except Untranslatable as u:
                err = err or u
                continue
            break
        else:
            raise err
        step_name, step_args, init_parts, styp = res
        init = []
        for x, k in zip(state, kinds):
            v = self.env[x]
            if v.kind == 'emptylist':
                init.append('[]')
            elif self.is_ew(v):
                init.append(strip_outer(self.mat(v, st)))
            else:
                init.append(strip_outer(self.num(v, k, st)) if k in ('scal', 'nat', 'int') else v.text)
        init_t = init[0] if len(init) == 1 else '(' + ', '.join(init) + ')'
        if len(init) == 1 and not atomic(init_t) and init_t != '[]':
            init_t = f"({init_t})"
        step_call = " ".join([step_name] + step_args)
        fin = self.bind(driver(step_call, init_t))
        self.unpack(state, kinds, fin)
        for x in assigned:
            if x not in state:
                self.env.pop(x, None)
        for x, _ in loopvars:
            self.env.pop(x, None)
        self.env.update(after)

    def try_loop(self, st, state, kinds, loopvars, free):
        save_e, save_t, save_steps = self.shared['e'], self.shared['t'], list(self.shared['steps'])
        try:
            env = {}
            params, args = [], []
            for x in free:
                v = self.env[x]
                if self.is_ew(v):
                    env[x] = arr_of(x, v.kind)
                    args.append(self.mat(v, st))
                else:
                    env[x] = V(v.kind, x)
                    args.append(v.text)
                params.append(f"({x} : {LTYPE[v.kind]})")
            tb = Tr(self.fname, self.src, env, self.registry, self.shared)
            tb.unpack(state, kinds, 'st')
            tb.fresh = {x for x in state if x in self.fresh}
            for x, k in loopvars:
                tb.env[x] = V(k, x)
            styp = " × ".join(LTYPE[k] for k in kinds)

            def fall(t, node):
                txt, ty = t.pack(state, node or st)
                if [t.env[x].kind for x in state] != kinds:
                    t.fail(st, "loop state changes kind")
                return f"pure {txt}"
            lines = tb.block(list(st.body), Ctx(fall=fall, cont=fall, live=state))
            n = len([1 for s in self.shared['steps']]) + 1
            base = self.shared['step_base']
            name = f"{base}Step" if not any(s[0] == f"{base}Step" for s in self.shared['steps']) else f"{base}Step{n}"
            lvp = " ".join(f"({x} : {LTYPE[k]})" for x, k in loopvars)
            hdr = "for " + ast.get_source_segment(self.src, st.target) + " in " + ast.get_source_segment(self.src, st.iter)
            doc = f"body of `{hdr}` of `{self.fname}`: state `({', '.join(state)})` ↦ new state"
            sig = " ".join(params + [f"(st : {styp})", lvp])
            self.shared['steps'].append((name, do_def(doc, name, sig, f"Except ErrKind ({styp})", lines)))
            return name, args, None, styp
        except Untranslatable:
            self.shared['e'], self.shared['t'], self.shared['steps'] = save_e, save_t, save_steps
            raise


def do_def(doc, name, sig, ret, lines):
    out = [f"/-- {doc} -/", f"def {name} {sig} : {ret} := do"]
    out += ["  " + x for x in lines]
    return "\n".join(out)


def emit_def(doc, name, sig, ret, lines):
    """(text, monadic?): a body without binds / errors is emitted as a plain total definition"""
    if lines[-1].startswith('pure ') and all(x.startswith('let ') and '←' not in x for x in lines[:-1]):
        body = "\n".join("  " + x for x in lines[:-1] + [strip_outer(lines[-1][5:])])
        return f"/-- {doc} -/\ndef {name} {sig} : {ret} :=\n{body}", False
    return do_def(doc, name, sig, f"Except ErrKind ({ret})", lines), True


def ret_type(kind):
    if isinstance(kind, tuple):
        return " × ".join(LTYPE[k] for k in kind)
    return LTYPE[kind]


def make_ret(kind):
    def ret(t, v, node):
        if isinstance(kind, tuple):
            if v.kind == 'tuple' and [w.kind for w in v.text] == list(kind):
                return "pure (" + ", ".join(strip_outer(t.mat(w, node)) for w in v.text) + ")"
        elif v.kind == kind and kind in ('arr', 'idx', 'idxI'):
            return f"pure {t.mat(v, node)}"
        elif kind == 'monadic' and v.kind in ('arr', 'idx', 'idxI'):
            return f"pure {t.mat(v, node)}"
        t.fail(node, f"return value is not of the expected kind {kind}, got {v.kind}")
    return ret


class Unit:
    """one generated file: translates the listed functions in order, keeps the registry of generated definitions"""

    def __init__(self, repo, registry=None):
        self.src = open(os.path.join(repo, 'eqsig', 'fns', 'peaks_and_crossings.py')).read()
        self.mod = ast.parse(self.src)
        self.registry = dict(registry or {})
        self.defs = []
        self.uses = set()

    def translate(self, py, lean, params, ret, doc=None, extra=None, obj=None, variant=''):
        """params: [(python name, kind)] in signature order (checked); obj: {param: {attr: kind}} for object parameters"""
        fn = find_function(self.mod, py)
        a = fn.args
        if a.vararg or a.kwarg or a.kwonlyargs or a.posonlyargs or [x.arg for x in a.args] != [p for p, _ in params]:
            raise Untranslatable(py, fn.lineno, f"parameters {[x.arg for x in a.args]}, expected {[p for p, _ in params]}")
        env, sig, order = {}, [], []
        for p, k in params:
            if k == 'obj':
                env[p] = V('obj', {at: arr_of(at, kk) for at, kk in obj[p].items()})
                sig += [f"({at} : {LTYPE[kk]})" for at, kk in obj[p].items()]
            else:
                env[p] = arr_of(p, k) if k in ('arr', 'idx') else V(k, p)
                sig.append(f"({p} : {LTYPE[k]})")
            order.append(p)
        for n in ast.walk(fn):
            if isinstance(n, ast.Name) and n.id not in order:
                order.append(n.id)
        t = Tr(py, self.src, env, self.registry)
        t.shared['order'] = order
        t.shared['step_base'] = lean
        lines = t.block([s for s in fn.body], Ctx(fall=lambda tt, node: tt.fail(node or fn, "a path through the function does not return"),
                                                  ret=make_ret(ret)))
        used_extra = [x for x in (extra or []) if t.shared.get(x)]
        ex_sig = {'interp': "(interp : List Nat → List Nat → List α → Except ErrKind (List α))",
                  'switched': "(switched : List α → Except ErrKind (List Nat))"}
        full_sig = " ".join([ex_sig[x] for x in used_extra] + sig)
        for nm, text in t.shared['steps']:
            self.defs.append(text)
        dflt = {x.arg: ast.get_source_segment(self.src, d) for x, d in zip(a.args[len(a.args) - len(a.defaults):], a.defaults)}
        d = doc or ("`" + py + "(" + ", ".join(p + (f"={dflt[p]}" if p in dflt else "") for p, _ in params) + ")`" + variant)
        text, monadic = emit_def(d, lean, full_sig, ret_type(ret), lines)
        self.defs.append(text)
        self.registry[py] = {'fn': fn, 'lean': lean, 'params': [(p, k) for p, k in params], 'ret': ret, 'monadic': monadic,
                             'extra': used_extra}
        return monadic

    def file(self, ns, area, title, imports, opens=()):
        head = [f"-- GENERATED by tools/py2lean_x_peaks.py from eqsig/fns/peaks_and_crossings.py ({title}). Do not edit.",
                "import EqsigVerif.Prelude.Np", "import EqsigVerif.Prelude.NpE", "import EqsigVerif.Prelude.NpP"]
        if any('NpU.' in d for d in self.defs):
            head.append("import EqsigVerif.Prelude.NpU")
        head += [f"import EqsigVerif.{ns}.{m}" for m in imports]
        head += ["", "set_option linter.unusedVariables false", f"namespace EqsigVerif.{ns}.{area}",
                 "open EqsigVerif EqsigVerif.Wire" + "".join(f" EqsigVerif.{ns}.{m}" for m in opens), "",
                 "variable {α : Type} [Add α] [Sub α] [Mul α] [Neg α] [LT α] [DecidableLT α] [LE α] [DecidableLE α] [DecidableEq α]",
                 "  [NatCast α] [Inhabited α] [OfNat α 0] [OfNat α 1] [OfScientific α]", ""]
        return "\n".join(head) + "\n" + "\n\n".join(self.defs) + f"\n\nend EqsigVerif.{ns}.{area}\n"


# ==============================================================================================
# target 1 (C11): local peaks
# ==============================================================================================

def unit_peaks(repo):
    u = Unit(repo)
    u.translate('clean_out_non_changing', 'cleanOutNonChanging', [('values', 'arr')], ('arr', 'idx'))
    u.translate('determine_indices_of_peaks_for_cleaned_array', 'peakIdxCleaned', [('values', 'arr')], 'idxI')
    u.translate('determine_indices_of_peaks_for_cleaned', 'peakIdxCleanedDeprecated', [('values', 'arr')], 'idxI')
    u.translate('get_peak_array_indices', 'getPeakArrayIndices', [('values', 'arr'), ('ptype', 'str')], 'idx')
    u.translate('get_peak_indices', 'getPeakIndices', [('asig', 'obj')], 'idx', obj={'asig': {'values': 'arr'}},
                doc="`get_peak_indices(asig)` with `values = asig.values`")
    # get_n_cyc_array: `get_switched_peak_array_indices` (generated later, Gen/CrossingsFns.lean) is the parameter `switched`
    sw = find_function(u.mod, 'get_switched_peak_array_indices')
    u.registry['get_switched_peak_array_indices'] = {'fn': sw, 'lean': 'switched', 'params': [('values', 'arr')], 'ret': 'idx',
                                                     'monadic': True, 'extra': [], 'mark': ['switched']}
    return u


def gen_peaks_fns(repo, ns):
    u = unit_peaks(repo)
    reg = u.registry['get_switched_peak_array_indices']
    # the call must pass `values` only (the callee's `tol` keeps its default): checked by giving the parameter view one parameter
    u.registry['get_switched_peak_array_indices'] = dict(reg, fn=_first_param_view(reg['fn']))
    u.translate('get_n_cyc_array', 'getNCycArray', [('values', 'arr'), ('opt', 'str'), ('start', 'str')], 'arr',
                extra=['switched', 'interp'])
    return {"PeaksFns.lean": u.file(ns, 'PeaksFns', 'C11: local peaks', [])}


def _first_param_view(fn):
    """a copy of the callee's signature restricted to its first parameter (the others keep their defaults at the call site)"""
    import copy
    g = copy.deepcopy(fn)
    g.args.args = g.args.args[:1]
    g.args.defaults = []
    return g


TARGETS += [gen_peaks_fns]


# ==============================================================================================
# target 2 (C12): zero crossings and switched peaks
# ==============================================================================================

def gen_crossings_fns(repo, ns):
    u = Unit(repo, unit_peaks(repo).registry)
    del u.registry['get_switched_peak_array_indices']
    for r in u.registry.values():
        r['lean'] = 'PeaksFns.' + r['lean']
    u.translate('get_zero_crossings_array_indices', 'zeroCrossingsArrayIndices',
                [('values', 'arr'), ('keep_adj_zeros', 'bool'), ('tol', 'scal')], 'idx')
    u.translate('get_zero_crossings_indices', 'zeroCrossingsIndices', [('asig', 'obj')], 'idx', obj={'asig': {'values': 'arr'}},
                doc="`get_zero_crossings_indices(asig)` with `values = asig.values`")
    u.translate('get_switched_peak_array_indices', 'switchedPeakArrayIndices', [('values', 'arr'), ('tol', 'scal')], 'idx')
    u.translate('get_switched_peak_indices', 'switchedPeakIndices', [('asig', 'obj')], 'idx', obj={'asig': {'values': 'arr'}},
                doc="`get_switched_peak_indices(asig)` for an object with a `values` attribute (`hasattr(asig, \"values\")` is true)")
    reg = u.registry.pop('get_switched_peak_indices')
    u.translate('get_switched_peak_indices', 'switchedPeakIndicesOfArray', [('asig', 'arr')], 'idx',
                doc="`get_switched_peak_indices(asig)` for a plain array (`hasattr(asig, \"values\")` is false)")
    return {"CrossingsFns.lean": u.file(ns, 'CrossingsFns', 'C12: zero crossings, switched peaks', ['PeaksFns'])}


TARGETS += [gen_crossings_fns]


# ==============================================================================================
# target 3 (C13): peak-only series
# ==============================================================================================

def gen_peak_series(repo, ns):
    u = Unit(repo, {k: v for k, v in unit_peaks(repo).registry.items()
                    if k in ('clean_out_non_changing', 'determine_indices_of_peaks_for_cleaned_array')})
    for r in u.registry.values():
        r['lean'] = 'PeaksFns.' + r['lean']
    u.translate('_determine_peak_only_series_4_cleaned_data', 'peakOnlySeriesCleaned', [('values', 'arr')], 'arr')
    u.translate('determine_peak_only_delta_series_4_cleaned_data', 'peakOnlyDeltaSeriesCleaned', [('values', 'arr')], 'arr')
    u.translate('determine_peaks_only_delta_series', 'peaksOnlyDeltaSeries', [('values', 'arr')], 'arr')
    u.translate('determine_pseudo_cyclic_peak_only_series', 'pseudoCyclicPeakOnlySeries', [('values', 'arr')], 'arr')
    return {"PeakSeries.lean": u.file(ns, 'PeakSeries', 'C13: peak-only series', ['PeaksFns'])}


TARGETS += [gen_peak_series]

if __name__ == '__main__':
    import argparse
    ap = argparse.ArgumentParser()
    ap.add_argument('--repo', default='/repo')
    ap.add_argument('--ns', default='Gen')
    a = ap.parse_args()
    for g in TARGETS:
        for k, v in g(a.repo, a.ns).items():
            print(f"===== {k}")
            print(v)
