#!/usr/bin/env python3
"""py2lean_x_rest — plug-in of tools/py2lean.py: the anchored functions that were not yet under the translator
(C20 generic helpers, C17 record editing, C16 loader, C15 Stockwell).

Translation scheme (one engine, `Ex`): a Python function body is executed *symbolically*, statement by statement, into ONE
`Except ErrKind` `do` block of Lean:

  * every sub-expression has a kind (nat / Python int / real / real array / nat array / int array / matrix) and a NumPy shape (a tuple
    of axis tags) inferred bottom-up from a per-function signature table; every (operator, kinds) pair and every call has ONE fixed Lean
    rendering; NumPy broadcasting is checked on the axis tags (`a[:, np.newaxis]` adds an axis) and raises Untranslatable on mismatch;
  * element-wise operations on arrays are FUSED into one `List.map` / `List.zipWith` over the source arrays (entry-wise view);
  * a call that can raise becomes `let eK ← NpE/NpR.<combinator> …` in evaluation order (positional names, so renaming Python
    temporaries gives byte-identical output); total scalar sub-expressions are inlined at their uses;
  * ROW MODE: for vectorised code one designated axis (the entries of a parameter array, or `range(len(values))` created by
    `np.tril`/`np.triu`/`np.arange`) is executed for ONE generic row (`xq` / `i`): arrays along that axis are scalars of the row;
    a slice `a[1:]` of such an array substitutes `i ↦ i + 1`; the function is the row function mapped over the axis (after the
    whole-array guards, e.g. `np.argmin(·, axis=1)` of zero columns);
  * `if` on *flags* (`x is None`, `hasattr(x, '__len__')`, Boolean locals, `s == '<literal>'`) is resolved by enumerating the flag values:
    `match … with | … => do …`, each arm the straight-line residue; `if c: raise E` on data becomes `NpR.guardE (decide c) E`;
    `if` on data whose branches only bind names becomes `name := if c then e₁ else e₀`;
  * anything else raises Untranslatable(function, line, construct).

A plug-in must not `import py2lean` (circular when py2lean runs as __main__): `Untranslatable` comes from py2lean_struct.
"""
import ast
import itertools
import os
import re

from py2lean_struct import Untranslatable

V0, V1, ROW = '⟪0⟫', '⟪1⟫', '⟪r⟫'

LEAN_TYPE = {'nat': 'Nat', 'int': 'Int', 'real': 'α', 'rarr': 'List α', 'narr': 'List Nat', 'iarr': 'List Int', 'mat': 'List (List α)',
             'carr': 'List β', 'cmat': 'List (List β)', 'cx': 'β', 'str': 'String', 'sarr': 'List String', 'bool': 'Bool'}
ELEM = {'rarr': 'real', 'narr': 'nat', 'iarr': 'int', 'carr': 'cx', 'mat': 'rarr', 'cmat': 'carr'}
LIST_OF = {'real': 'rarr', 'nat': 'narr', 'int': 'iarr', 'cx': 'carr', 'rarr': 'mat', 'carr': 'cmat'}

CLASS_ORDER = ['[Add β]', '[Sub β]', '[Mul β]', '[Div β]', '[OfNat β 0]', '[Add α]', '[Sub α]', '[Mul α]', '[Div α]', '[Neg α]',
               '[NatCast α]', '[IntCast α]', '[HPow α Nat α]', '[HPow α Int α]', '[OfNat α 0]', '[OfNat α 1]', '[OfNat α 2]', '[OfScientific α]',
               '[LT α]', '[DecidableLT α]', '[LE α]', '[DecidableLE α]', '[BEq α]', '[CxLike α β]']


class V:
    __slots__ = ('kind', 'text', 'shape', 'q', 'lit', 'ent', 'aux', 'qlen')

    def __init__(self, kind, text, shape=(), q=False, lit=False, ent=None, aux=None, qlen=None):
        self.kind, self.text, self.shape, self.q, self.lit, self.ent, self.aux, self.qlen = kind, text, shape, q, lit, ent, aux, qlen

    def __repr__(self):
        return f"V({self.kind},{self.text},{self.shape})"


def strip_outer(t):
    """remove one pair of redundant outer parentheses (never those of a type ascription `(x : T)`)"""
    if t.startswith('(') and t.endswith(')'):
        depth = 0
        for i, ch in enumerate(t):
            depth += ch == '('
            depth -= ch == ')'
            if depth == 0 and i < len(t) - 1:
                return t
            if depth == 1 and t[i:i + 3] == ' : ':
                return t
        return t[1:-1]
    return t


def float_text(seg):
    """canonical decimal text of a Python float literal (`1.`, `1.0`, `01.00` ↦ `1.0`; `1e-10` stays scientific)"""
    t = seg.replace('_', '').lower()
    if 'e' in t:
        m, e = t.split('e')
        m = float_text(m) if '.' in m else m
        if m.endswith('.0'):
            m = m[:-2]
        return f"{m}e{int(e)}"
    if '.' not in t:
        return t
    a, b = t.split('.')
    a = a.lstrip('0') or '0'
    b = b.rstrip('0') or '0'
    return f"{a}.{b}"


def render_list(srcs, body):
    if len(srcs) == 1:
        if body == V0:
            return srcs[0]
        return f"({srcs[0]}.map (fun a => {body.replace(V0, 'a')}))"
    return f"(List.zipWith (fun a b => {body.replace(V0, 'a').replace(V1, 'b')}) {srcs[0]} {srcs[1]})"


def np_name(f):
    parts = []
    while isinstance(f, ast.Attribute):
        parts.append(f.attr)
        f = f.value
    if isinstance(f, ast.Name):
        parts.append(f.id)
        return '.'.join(reversed(parts))
    return None


def is_none(n):
    return isinstance(n, ast.Constant) and n.value is None


def is_newaxis(n):
    return isinstance(n, ast.Attribute) and n.attr == 'newaxis' and isinstance(n.value, ast.Name) and n.value.id == 'np'


def is_full(n):
    return isinstance(n, ast.Slice) and n.lower is None and n.upper is None and n.step is None


def neg_const(n):
    """k for the literal `-k`"""
    if isinstance(n, ast.UnaryOp) and isinstance(n.op, ast.USub) and isinstance(n.operand, ast.Constant) and \
            isinstance(n.operand.value, int) and not isinstance(n.operand.value, bool):
        return n.operand.value
    return None


class Ex:
    def __init__(self, fname, src, sig):
        self.fname, self.src, self.sig = fname, src, sig
        self.env = {}
        self.lines = []
        self.cnt = 0
        self.vcnt = 0
        self.classes = set()
        self.row = None          # dict(kind='list'|'range', src=…, len=…, var=…)
        self.guards = []         # whole-array guards in front of the row map (row-list mode)
        self.returned = None
        self.raised = None
        self.outputs = {}
        self.in_branch = False
        self.events = []
        self.loopvars = {}

    # -- helpers -------------------------------------------------------------------------------
    def fail(self, node, what):
        seg = ast.get_source_segment(self.src, node) if hasattr(node, 'lineno') else ''
        raise Untranslatable(self.fname, getattr(node, 'lineno', 0), f"{what}: {seg}" if seg else what)

    def need(self, *cls):
        self.classes.update(cls)

    def bind(self, text, kind, shape=(), q=False, node=None):
        if q and (self.row is None or self.row['kind'] != 'list'):
            self.fail(node, 'raising operation on an entry of a range-indexed row')
        self.cnt += 1
        name = f"e{self.cnt}"
        self.lines.append(f"let {name} ← {text}")
        return V(kind, name, shape, q)

    def guard(self, cond_text, err):
        self.cnt += 1
        self.lines.append(f"let _ ← NpR.guardE (decide {cond_text}) .{err}")

    def named(self, v):
        """an array-valued local that is not just a name gets a positional `let vK := …` (scalars are inlined)"""
        if self.in_branch or v.q or v.kind not in ('rarr', 'narr', 'iarr', 'mat', 'carr', 'cmat') or re.fullmatch(r'\w+', v.text):
            return v
        if v.ent is not None:
            return v                      # element-wise (fused) expressions are inlined like scalars
        self.vcnt += 1
        name = f"v{self.vcnt}"
        self.lines.append(f"let {name} := {strip_outer(v.text)}")
        return V(v.kind, name, v.shape, v.q, aux=v.aux)

    # -- coercions -----------------------------------------------------------------------------
    def as_int(self, v, node):
        if v.kind == 'int':
            return v.text
        if v.kind == 'nat':
            return f"({v.text} : Int)" if v.lit else f"(({v.text} : Nat) : Int)"
        self.fail(node, f"expected an integer, got {v.kind}")

    def as_real(self, v, node):
        if v.kind == 'real':
            return v.text
        if v.kind == 'nat':
            if v.lit:
                self.need(f'[OfNat α {v.text}]')
                return f"({v.text} : α)"
            self.need('[NatCast α]')
            return f"(({v.text} : Nat) : α)"
        if v.kind == 'int':
            self.need('[IntCast α]')
            return f"(({v.text} : Int) : α)"
        self.fail(node, f"expected a real scalar, got {v.kind}")

    def coerce(self, v, kind, node):
        """scalar `v` as a scalar of `kind` (nat ⊂ int ⊂ real)"""
        if v.kind == kind:
            return v.text
        if kind == 'int':
            return self.as_int(v, node)
        if kind == 'real':
            return self.as_real(v, node)
        self.fail(node, f"cannot use {v.kind} as {kind}")

    @staticmethod
    def join_kind(a, b):
        order = ['nat', 'int', 'real']
        if a in order and b in order:
            return order[max(order.index(a), order.index(b))]
        return None

    def bshape(self, s1, s2, node):
        """NumPy broadcasting on axis tags"""
        out = []
        for i in range(1, max(len(s1), len(s2)) + 1):
            a = s1[-i] if i <= len(s1) else None
            b = s2[-i] if i <= len(s2) else None
            if a == '?' or b == '?':
                out.append(a if b in ('?', '1', None) else b)     # a length the translator does not track: compatible with everything
            elif a is None or a == '1':
                out.append(b if b is not None else a)
            elif b is None or b == '1' or a == b:
                out.append(a)
            else:
                self.fail(node, f"broadcasting of shapes {s1} and {s2}")
        return tuple(reversed(out))

    def qlen_of(self, l, r, node):
        ls = [x.qlen for x in (l, r) if x.q and x.qlen is not None]
        if len(ls) == 2 and ls[0] != ls[1]:
            self.fail(node, f"row-indexed operands of different lengths ({ls[0]} / {ls[1]})")
        return ls[0] if ls else None

    # -- scalar / entry-level operators --------------------------------------------------------
    def sc_bin(self, op, l, r, node):
        """binary operator on scalar values (kinds nat / int / real); returns (kind, text, aux)"""
        k = (l.kind, r.kind)
        if not set(k) <= {'nat', 'int', 'real'}:
            self.fail(node, f"operator on kinds {k}")
        if op is ast.Pow:
            if k == ('nat', 'nat'):
                return 'nat', f"({l.text} ^ {r.text})", None
            if l.kind == 'real' and r.kind == 'nat':
                if r.lit and r.text == '2':
                    self.need('[Mul α]')
                    return 'real', f"({l.text} * {l.text})", None
                if r.lit:
                    self.fail(node, 'power with a literal exponent other than 2')
                self.need('[HPow α Nat α]')
                return 'real', f"({l.text} ^ {r.text})", None
            if l.kind == 'real' and r.kind == 'int':
                self.need('[HPow α Int α]')
                return 'real', f"({l.text} ^ {r.text})", None
            self.fail(node, 'power')
        if 'real' not in k:
            if (op is ast.Sub or 'int' in k) and op is not ast.Div:
                sym = {ast.Add: '+', ast.Sub: '-', ast.Mult: '*'}.get(op)
                if sym is None:
                    self.fail(node, 'operator on Python integers')
                return 'int', f"({self.as_int(l, node)} {sym} {self.as_int(r, node)})", None
            if op is ast.Add:
                return 'nat', f"({l.text} + {r.text})", None
            if op is ast.Mult:
                return 'nat', f"({l.text} * {r.text})", None
            if op is ast.FloorDiv:
                return 'nat', f"({l.text} / {r.text})", None
            if op is ast.Div:
                self.need('[Div α]')
                if k == ('nat', 'nat'):
                    return 'real', f"({self.as_real(l, node)} / {self.as_real(r, node)})", ('natq', l.text, r.text)
                return 'real', f"({self.as_real(l, node)} / {self.as_real(r, node)})", ('intq', self.as_int(l, node), self.as_int(r, node))
            self.fail(node, 'integer operator')
        sym = {ast.Add: ('+', '[Add α]'), ast.Sub: ('-', '[Sub α]'), ast.Mult: ('*', '[Mul α]'), ast.Div: ('/', '[Div α]')}.get(op)
        if sym is None:
            self.fail(node, 'operator')
        self.need(sym[1])
        return 'real', f"({self.as_real(l, node)} {sym[0]} {self.as_real(r, node)})", None

    def lst(self, v):
        """fused view (srcs, body) of a list value"""
        return v.ent if v.ent is not None else ((v.text,), V0)

    def mk_list(self, kind, srcs, body, shape, q, qlen=None):
        return V(kind, render_list(srcs, body), shape, q, ent=(srcs, body), qlen=qlen)

    def mk_outer(self, rs, cs, body, shape):
        text = f"({rs}.map (fun a => {cs}.map (fun b => {body.replace(V0, 'a').replace(V1, 'b')})))"
        return V('mat', text, shape, ent=('outer', rs, cs, body))

    def elementwise(self, node, f, *args):
        """apply the scalar-level function `f(scalars…) -> (kind, text)` element-wise to `args` (scalars or lists), fused"""
        outer = [a for a in args if a.kind in ('mat',) and a.ent is not None and a.ent[0] == 'outer']
        if outer:
            o = outer[0]
            if any(x.ent[1:3] != o.ent[1:3] for x in outer) or any(a.kind in ELEM and not any(a is x for x in outer) for a in args):
                self.fail(node, 'element-wise expression over an outer product and another array')
            k, t = f(*[V('real', a.ent[3]) if any(a is x for x in outer) else a for a in args])
            if k != 'real':
                self.fail(node, f"matrix of {k}")
            return self.mk_outer(o.ent[1], o.ent[2], t, o.shape)
        lists = [a for a in args if a.kind in ELEM]
        q = any(a.q for a in args)
        shape = ()
        for a in args:
            shape = self.bshape(shape, a.shape, node)
        if not lists:
            k, t = f(*args)
            return V(k, t, shape, q)
        srcs = []
        for a in lists:
            for s in self.lst(a)[0]:
                if s not in srcs:
                    srcs.append(s)
        if len(srcs) > 2:
            self.fail(node, 'element-wise expression over more than two arrays')
        toks = [V0, V1]
        pseudo = []
        for a in args:
            if a.kind in ELEM:
                asrcs, body = self.lst(a)
                m = {tok: toks[srcs.index(s)] for tok, s in zip(toks, asrcs)}
                body = re.sub('⟪[01]⟫', lambda mo: m[mo.group(0)], body)
                pseudo.append(V(ELEM[a.kind], body))
            else:
                pseudo.append(a)
        k, t = f(*pseudo)
        if k not in LIST_OF:
            self.fail(node, f"array of {k}")
        return self.mk_list(LIST_OF[k], tuple(srcs), t, shape, q)

    # -- expressions ---------------------------------------------------------------------------
    def tr(self, e):
        if isinstance(e, ast.Name):
            if e.id in self.env:
                return self.env[e.id]
            self.fail(e, 'unknown name')
        if isinstance(e, ast.Constant):
            if e.value is None:
                return V('none', 'none')
            if isinstance(e.value, bool):
                return V('flag', None, aux=e.value)
            seg = ast.get_source_segment(self.src, e)
            if isinstance(e.value, int):
                return V('nat', str(e.value), lit=True)
            if isinstance(e.value, float):
                self.need('[OfScientific α]')
                return V('real', f"({float_text(seg)} : α)")
            if isinstance(e.value, str):
                return V('strlit', None, aux=e.value)
            self.fail(e, 'literal')
        if isinstance(e, ast.UnaryOp) and isinstance(e.op, ast.USub):
            k = neg_const(e)
            if k is not None:
                return V('int', f"(-{k} : Int)")
            v = self.tr(e.operand)

            def neg(x):
                if x.kind == 'real':
                    self.need('[Neg α]')
                    return 'real', f"(-{x.text})"
                return 'int', f"(-{self.as_int(x, e)})"
            return self.elementwise(e, neg, v)
        if isinstance(e, ast.Attribute):
            if is_newaxis(e):
                self.fail(e, 'np.newaxis outside a subscript')
            nm = np_name(e)
            if nm == 'np.pi':
                return V('real', 'pi')
            if isinstance(e.value, ast.Name) and e.value.id in self.env and self.env[e.value.id].kind == 'obj':
                attrs = self.env[e.value.id].aux
                if e.attr in attrs:
                    return attrs[e.attr]
            self.fail(e, 'attribute')
        if isinstance(e, ast.BinOp):
            return self.tr_binop(e)
        if isinstance(e, ast.Subscript):
            return self.tr_subscript(e)
        if isinstance(e, ast.Call):
            return self.tr_call(e)
        if isinstance(e, ast.Tuple):
            return V('tuple', None, aux=[self.tr(x) for x in e.elts])
        if isinstance(e, ast.List):
            items = [self.tr(x) for x in e.elts]
            if items and all(x.kind == 'real' and not x.q for x in items):
                return V('rarr', "[" + ", ".join(strip_outer(x.text) for x in items) + "]", (str(len(items)),))
            self.fail(e, 'list display')
        if isinstance(e, ast.Compare):
            return self.tr_compare(e)
        if isinstance(e, ast.BoolOp):
            vals = [self.tr(x) for x in e.values]
            if all(x.kind == 'cond' for x in vals):
                sym = ' ∧ ' if isinstance(e.op, ast.And) else ' ∨ '
                return V('cond', "(" + sym.join(x.text for x in vals) + ")", q=any(x.q for x in vals))
            self.fail(e, 'boolean operator')
        self.fail(e, f"expression {type(e).__name__}")

    def tr_compare(self, e):
        if len(e.ops) != 1:
            self.fail(e, 'chained comparison')
        op = e.ops[0]
        l, r = self.tr(e.left), self.tr(e.comparators[0])
        if isinstance(op, (ast.Is, ast.IsNot)):
            if r.kind != 'none':
                self.fail(e, '`is` with something else than None')
            given = l.kind != 'none'
            return V('flag', None, aux=given if isinstance(op, ast.IsNot) else not given)

        def cmp(a, b):
            jk = self.join_kind(a.kind, b.kind)
            if jk is None:
                self.fail(e, f"comparison of {a.kind} with {b.kind}")
            x, y = self.coerce(a, jk, e), self.coerce(b, jk, e)
            if isinstance(op, (ast.Eq, ast.NotEq)):
                if jk == 'real':
                    self.fail(e, 'equality test on floats')
                return 'cond', f"({x} = {y})" if isinstance(op, ast.Eq) else f"({x} ≠ {y})"
            if jk == 'real':
                self.need(*(['[LT α]', '[DecidableLT α]'] if isinstance(op, (ast.Lt, ast.Gt)) else ['[LE α]', '[DecidableLE α]']))
            if isinstance(op, (ast.Gt, ast.GtE)):
                x, y = y, x
            return 'cond', f"({x} {'<' if isinstance(op, (ast.Lt, ast.Gt)) else '≤'} {y})"
        if l.kind in ELEM or r.kind in ELEM:
            self.fail(e, 'comparison of materialised arrays')
        v = self.elementwise(e, cmp, l, r)
        v.qlen = self.qlen_of(l, r, e)
        return v

    def tr_binop(self, e):
        op = type(e.op)
        l, r = self.tr(e.left), self.tr(e.right)
        if self.sig.get('pyfloat') and op is ast.Div and l.kind in ('real', 'nat', 'int') and r.kind in ('real', 'nat', 'int') \
                and 'real' in (l.kind, r.kind):
            self.need('[Div α]', '[BEq α]', '[OfNat α 0]')
            return self.bind(f"NpR.pyDivE {self.as_real(l, e)} {self.as_real(r, e)}", 'real', node=e)
        kk = (l.kind, r.kind)
        if kk == ('cmat', 'mat') and op is ast.Mult and not l.q and not r.q:
            # complex matrix times real matrix, entry by entry
            self.need('[Mul β]', '[CxLike α β]')
            return V('cmat', f"(List.zipWith (List.zipWith (fun d g => d * CxLike.ofReal g)) {l.text} {r.text})", self.bshape(l.shape, r.shape, e))
        aux = []

        def f(a, b):
            k, t, ax = self.sc_bin(op, a, b, e)
            aux.append(ax)
            return k, t
        v = self.elementwise(e, f, l, r)
        if v.kind in ('real',) and aux and aux[0]:
            v.aux = aux[0]
        v.qlen = self.qlen_of(l, r, e)
        return v

    def tr_subscript(self, e):
        base = self.tr(e.value)
        s = e.slice
        # x[:, np.newaxis] : a new trailing axis
        if isinstance(s, ast.Tuple) and len(s.elts) == 2 and is_full(s.elts[0]) and is_newaxis(s.elts[1]):
            if len(base.shape) != 1:
                self.fail(e, 'np.newaxis on something that is not 1-d')
            if base.q and base.kind in ('real', 'nat', 'int'):
                return V(base.kind, base.text, base.shape + ('1',), True, qlen=base.qlen)
            self.fail(e, 'column vector of an array that is not along the row axis')
        if isinstance(s, ast.Tuple) and len(s.elts) == 2 and is_full(s.elts[1]) and isinstance(s.elts[0], ast.Slice) and \
                base.kind in ('mat', 'cmat') and not base.q and s.elts[0].step is None and s.elts[0].lower is not None and s.elts[0].upper is not None:
            lo, hi = self.tr(s.elts[0].lower), self.tr(s.elts[0].upper)
            if lo.kind == 'nat' and hi.kind == 'nat' and not lo.q and not hi.q:
                return V(base.kind, f"(Np.slice {base.text} {lo.text} {hi.text})", ('?',) + base.shape[1:])
            self.fail(e, 'row slice bounds')
        if base.q and base.kind in ('real', 'nat', 'int', 'cond') and self.row is not None and self.row['kind'] == 'range' \
                and isinstance(s, ast.Slice) and s.step is None:
            # slice of an array along the range-indexed row axis: a[k:] substitutes i ↦ i + k, a[:-k] only shortens
            ln = base.qlen
            if s.lower is not None and s.upper is None and isinstance(s.lower, ast.Constant) and isinstance(s.lower.value, int) \
                    and s.lower.value > 0:
                k = s.lower.value
                return V(base.kind, base.text.replace(ROW, f"({ROW} + {k})"), base.shape, True, qlen=f"({ln} - {k})")
            if s.lower is None and neg_const(s.upper) is not None and neg_const(s.upper) > 0:
                return V(base.kind, base.text, base.shape, True, qlen=f"({ln} - {neg_const(s.upper)})")
            self.fail(e, 'slice of a row-indexed array')
        if base.kind not in ELEM:
            self.fail(e, f"subscript of {base.kind}")
        elem = ELEM[base.kind]
        if isinstance(s, ast.Slice):
            if s.step is not None:
                self.fail(e, 'slice step')
            lo = self.tr(s.lower) if s.lower is not None else None
            hi = self.tr(s.upper) if s.upper is not None else None
            if any(b is not None and (b.kind not in ('nat', 'int') or b.q) for b in (lo, hi)):
                self.fail(e, 'slice bound')
            tag = '?'
            if base.aux == 'filtfilt':
                if lo is None or hi is None or getattr(self, 'cut', None):
                    self.fail(e, 'cut of the filtered array')
                self.cut = (lo, hi)
            if lo is None and hi is None:
                return base
            if all(b is None or b.kind == 'nat' for b in (lo, hi)):
                if lo is not None and hi is None:
                    return V(base.kind, f"({base.text}.drop {lo.text})", (tag,) + base.shape[1:])
                if lo is None:
                    return V(base.kind, f"({base.text}.take {hi.text})", (tag,) + base.shape[1:])
                return V(base.kind, f"(Np.slice {base.text} {lo.text} {hi.text})", (tag,) + base.shape[1:])
            if lo is not None and hi is None:
                return V(base.kind, f"(NpR.pyFrom {base.text} {self.as_int(lo, e)})", (tag,) + base.shape[1:])
            if lo is None:
                return V(base.kind, f"(NpR.pyTo {base.text} {self.as_int(hi, e)})", (tag,) + base.shape[1:])
            return V(base.kind, f"(NpR.pySlice {base.text} {self.as_int(lo, e)} {self.as_int(hi, e)})", (tag,) + base.shape[1:])
        if isinstance(s, ast.Name) and self.loopvars.get(s.id) == base.text and base.kind == 'rarr':
            # x[k] inside `for k in range(len(x))` is in range by construction
            self.need('[OfNat α 0]')
            return V('real', f"({base.text}.getD {s.id} 0)")
        idx = self.tr(s)
        if idx.kind in ('nat', 'int'):
            shape = idx.shape + base.shape[1:]
            if idx.kind == 'nat' and not idx.q:
                return self.bind(f"NpE.getE {base.text} {idx.text}", elem, shape, node=e)
            if idx.kind == 'int' and idx.text == '(-1 : Int)':
                return self.bind(f"NpE.lastE {base.text}", elem, shape, node=e)
            return self.bind(f"NpR.pyGetE {base.text} {self.as_int(idx, e)}", elem, shape, idx.q, node=e)
        if idx.kind in ('iarr', 'narr') and not base.q:
            it = idx.text if idx.kind == 'iarr' else f"({idx.text}.map (fun (k : Nat) => (k : Int)))"
            return self.bind(f"NpR.takeE {base.text} {it}", base.kind, idx.shape + base.shape[1:], node=e)
        self.fail(e, 'subscript')

    def tr_call(self, e):
        name = np_name(e.func)
        kw = {k.arg: k.value for k in e.keywords}
        a = e.args
        hook = self.sig.get('calls', {}).get(name)
        if hook is not None:
            return hook(self, e)
        if self.sig.get('complex'):
            r = self.tr_call_cx(e, name, a, kw)
            if r is not None:
                return r
        if name == 'len' and len(a) == 1 and not kw:
            v = self.tr(a[0])
            if v.kind in ELEM and not v.q:
                return V('nat', f"{v.text}.length")
            self.fail(e, 'len')
        if name == 'int' and len(a) == 1 and not kw:
            v = self.tr(a[0])
            if v.kind == 'real' and v.aux and v.aux[0] == 'natq':
                return V('nat', f"({v.aux[1]} / {v.aux[2]})", v.shape, v.q)      # int(a / b) = a // b for non-negative integers
            if v.kind == 'real' and v.aux and v.aux[0] == 'intq':
                return V('int', f"(Int.tdiv {v.aux[1]} {v.aux[2]})", v.shape, v.q)   # int(a / b) truncates towards zero
            if v.kind in ('nat', 'int'):
                return v
            if v.kind == 'real' and v.aux and v.aux[0] == 'ceillog2':
                return self.bind(f"NpE.ceilLog2 {v.aux[1]}", 'nat', node=e)
            self.fail(e, 'int(...)')
        if name == 'np.ceil' and len(a) == 1 and not kw and isinstance(a[0], ast.Call) and np_name(a[0].func) == 'np.log2' \
                and len(a[0].args) == 1 and not a[0].keywords:
            x = self.tr(a[0].args[0])
            if x.kind == 'nat' and not x.q:
                return V('real', None, aux=('ceillog2', x.text))      # only int(·) may consume it
            self.fail(e, 'np.ceil(np.log2(·)) of a non-integer')
        if name == 'np.array' and len(a) == 1 and (not kw or (set(kw) == {'dtype'} and isinstance(kw['dtype'], ast.Name) and kw['dtype'].id == 'float')):
            v = self.tr(a[0])
            if v.kind == 'rarr':
                return v                       # a fresh (float) copy: the same values
            self.fail(e, 'np.array')
        if name == 'np.arange':
            return self.tr_arange(e, a, kw)
        if name in ('np.abs', 'abs') and len(a) == 1 and not kw:
            def ab(x):
                if x.kind == 'real':
                    self.need('[LT α]', '[DecidableLT α]', '[Neg α]', '[OfNat α 0]')
                    return 'real', f"(Np.absv {x.text})"
                self.fail(e, f"abs of {x.kind}")
            v0 = self.tr(a[0])
            v = self.elementwise(e, ab, v0)
            v.qlen = v0.qlen
            return v
        if name in ('np.tril', 'np.triu') and len(a) == 1 and set(kw) <= {'k'}:
            if 'k' in kw and not (isinstance(kw['k'], ast.Constant) and kw['k'].value == 0):
                self.fail(e, f"{name} k=")
            v = self.tr(a[0])
            if v.kind != 'rarr' or v.q or len(v.shape) != 1:
                self.fail(e, f"{name} of something that is not a 1-d array")
            self.set_range_row(f"{v.text}.length", e)
            self.need('[OfNat α 0]')
            return V('rarr', f"(NpR.{name[3:]}Row {v.text} {ROW})", ('Q', v.shape[0]), True, qlen=self.row['len'])
        if name in ('np.sum', 'np.argmin', 'np.mean', 'np.max') and len(a) == 1:
            return self.tr_reduce(e, name, a[0], kw)
        if name == 'min' and len(a) == 1 and not kw:
            v = self.tr(a[0])
            if v.kind == 'rarr' and not v.q:
                self.need('[LT α]', '[DecidableLT α]')
                return self.bind(f"NpR.minE {v.text}", 'real', node=e)
            self.fail(e, 'min')
        if name == 'np.where' and len(a) == 3 and not kw:
            return self.tr_where(e, a)
        if name == 'np.clip' and len(a) == 3 and not kw and (is_none(a[1]) != is_none(a[2])):
            v = self.tr(a[0])
            lo_side = is_none(a[2])
            b = self.tr(a[1] if lo_side else a[2])
            if b.kind in ELEM or b.q:
                self.fail(e, 'np.clip bound')

            def cl(x):
                jk = self.join_kind(x.kind, b.kind)
                if jk is None:
                    self.fail(e, f"np.clip of {x.kind} at a bound of kind {b.kind}")
                if jk == 'real':
                    self.need('[LT α]', '[DecidableLT α]')
                return jk, f"(NpR.{'clipLo' if lo_side else 'clipHi'} {self.coerce(x, jk, e)} {self.coerce(b, jk, e)})"
            r = self.elementwise(e, cl, v)
            r.qlen = v.qlen
            return r
        if name == 'np.ones' and len(a) == 1 and not kw:
            n = self.tr(a[0])
            if n.kind == 'nat' and not n.q:
                self.need('[OfNat α 1]')
                return V('rarr', f"(List.replicate {n.text} (1 : α))", (n.text,))
            self.fail(e, 'np.ones')
        if name == 'np.linspace' and len(a) == 3 and not kw and isinstance(a[0], ast.Constant) and a[0].value == 0 and \
                isinstance(a[1], ast.Constant) and a[1].value == 1:
            n = self.tr(a[2])
            if n.kind == 'nat' and not n.q:
                self.need('[Div α]', '[NatCast α]')
                return V('rarr', f"(NpR.linspace01 {n.text})", (n.text,))
            self.fail(e, 'np.linspace')
        if name == 'np.ones_like' and len(a) == 1 and not kw:
            v = self.tr(a[0])
            if v.kind == 'rarr' and not v.q and len(v.shape) == 1:
                self.need('[OfNat α 1]')
                return V('rarr', f"(List.replicate {v.text}.length (1 : α))", v.shape)
            self.fail(e, 'np.ones_like')
        if name == 'np.searchsorted' and len(a) == 2 and set(kw) == {'side'} and isinstance(kw['side'], ast.Constant) and kw['side'].value == 'right':
            x, q = self.tr(a[0]), self.tr(a[1])
            if x.kind == 'rarr' and not x.q and q.kind == 'rarr' and not q.q:
                self.need('[LE α]', '[DecidableLE α]')
                return self.elementwise(e, lambda s: ('nat', f"(NpR.searchsortedRight {x.text} {s.text})"), q)
            self.fail(e, 'np.searchsorted')
        if name == 'hasattr':
            self.fail(e, 'hasattr outside an if test')
        self.fail(e, 'call')

    def tr_call_cx(self, e, name, a, kw):
        """calls of the Stockwell code (complex arrays, FFT as parameter `tw`, `exp`/`pi` parameters); None when not handled here"""
        if name == 'np.arange' and not kw and not (self.row is not None and self.row['kind'] == 'range'):
            vals = [self.tr(x) for x in a]
            if len(a) == 3 and not (vals[2].kind == 'nat' and vals[2].lit and vals[2].text == '1'):
                self.fail(e, 'np.arange step')
            if len(a) in (2, 3) and vals[0].kind == 'nat' and vals[0].lit and vals[1].kind == 'nat' and not vals[1].q:
                if vals[0].text == '0':
                    return V('narr', f"(List.range {vals[1].text})", (vals[1].text,))
                if vals[0].text == '1' and isinstance(a[1], ast.BinOp) and isinstance(a[1].op, ast.Add) and \
                        isinstance(a[1].right, ast.Constant) and a[1].right.value == 1:
                    P = self.tr(a[1].left)
                    return self.mk_list('narr', (f"(List.range {P.text})",), f"({V0} + 1)", (P.text,), False)
            return None
        if name == 'np.concatenate' and len(a) == 1 and not kw and isinstance(a[0], (ast.Tuple, ast.List)) and a[0].elts:
            parts = [self.tr(x) for x in a[0].elts]
            if all(x.kind == parts[0].kind and x.kind in ('rarr', 'carr') and not x.q for x in parts):
                return V(parts[0].kind, "(" + " ++ ".join(x.text for x in parts) + ")", ('?',))
            self.fail(e, 'np.concatenate')
        if (name == 'np.flipud' and len(a) == 1 and not kw) or (name == 'np.flip' and len(a) == 1 and set(kw) <= {'axis'} and
                                                                  all(isinstance(v, ast.Constant) and v.value == 0 for v in kw.values())):
            x = self.tr(a[0])
            if x.kind in ELEM and not x.q:
                return V(x.kind, f"(NpE.flip {x.text})", x.shape)
            self.fail(e, name)
        if name == 'np.outer' and len(a) == 2 and not kw:
            f, g = self.tr(a[0]), self.tr(a[1])
            if f.kind == 'rarr' and g.kind == 'rarr' and not f.q and not g.q:
                (fs, fb), (gs, gb) = self.lst(f), self.lst(g)
                if len(fs) == 1 and len(gs) == 1:
                    self.need('[Mul α]')
                    return self.mk_outer(fs[0], gs[0], f"({fb} * {gb.replace(V0, V1)})", f.shape + g.shape)
            self.fail(e, 'np.outer')
        if name == 'np.exp' and len(a) == 1 and not kw:
            return self.elementwise(e, lambda x: ('real', f"(exp {x.text})") if x.kind == 'real' else self.fail(e, 'np.exp'), self.tr(a[0]))
        if isinstance(e.func, ast.Attribute) and e.func.attr == 'transpose' and not a and not kw:
            m = self.tr(e.func.value)
            if m.kind == 'mat' and m.ent is not None and m.ent[0] == 'outer':
                body = m.ent[3].replace(V0, '⟪t⟫').replace(V1, V0).replace('⟪t⟫', V1)
                return self.mk_outer(m.ent[2], m.ent[1], body, tuple(reversed(m.shape)))
            self.fail(e, 'transpose')
        if name in ('np.fft.fft', 'fft') and len(a) == 2 and set(kw) <= {'overwrite_x'}:
            x, n = self.tr(a[0]), self.tr(a[1])
            if x.kind == 'carr' and n.kind == 'nat' and not x.q and not n.q:
                self.need('[Add β]', '[Mul β]', '[OfNat β 0]')
                return self.bind(f"NpE.fft tw {x.text} {n.text}", 'carr', (n.text,), node=e)
            self.fail(e, 'fft arguments')
        if name in ('np.fft.ifft', 'ifft') and len(a) == 1:
            x = self.tr(a[0])
            self.need('[Add β]', '[Mul β]', '[Div β]', '[OfNat β 0]', '[NatCast α]', '[CxLike α β]')
            if x.kind == 'cmat' and set(kw) == {'axis'} and isinstance(kw['axis'], ast.Constant) and kw['axis'].value == 1 and not x.q:
                return self.bind(f"NpR.ifftRowsE tw {x.text}", 'cmat', x.shape, node=e)
            if x.kind == 'carr' and not kw and not x.q:
                return self.bind(f"NpE.ifft tw {x.text} {x.text}.length", 'carr', x.shape, node=e)
            self.fail(e, 'ifft arguments')
        if name == 'toeplitz' and len(a) == 2 and not kw:
            c, r = self.tr(a[0]), self.tr(a[1])
            if c.kind == 'carr' and r.kind == 'carr' and not c.q and not r.q:
                self.need('[OfNat β 0]')
                return V('cmat', f"(NpR.toeplitz {c.text} {r.text})", c.shape + r.shape)
            self.fail(e, 'toeplitz')
        if name == 'np.conj' and len(a) == 1 and not kw:
            self.need('[CxLike α β]')
            return self.elementwise(e, lambda x: ('cx', f"(CxLike.conj {x.text})") if x.kind == 'cx' else self.fail(e, 'np.conj'), self.tr(a[0]))
        if name == 'np.real' and len(a) == 1 and not kw:
            self.need('[CxLike α β]')
            return self.elementwise(e, lambda x: ('real', f"(CxLike.re {x.text})") if x.kind == 'cx' else self.fail(e, 'np.real'), self.tr(a[0]))
        if name == 'np.sum' and len(a) == 1 and set(kw) == {'axis'} and isinstance(kw['axis'], ast.Constant) and kw['axis'].value == 1:
            m = self.tr(a[0])
            if m.kind == 'cmat' and not m.q:
                self.need('[Add β]', '[OfNat β 0]')
                return V('carr', f"({m.text}.map Cplx.sumL)", m.shape[:1])
            return None
        if name == 'np.zeros' and len(a) == 1 and set(kw) == {'dtype'} and isinstance(kw['dtype'], ast.Name) and kw['dtype'].id == 'complex':
            k = self.tr(a[0])
            if k.kind == 'nat' and not k.q:
                self.need('[OfNat β 0]')
                return V('carr', f"(NpE.zeros {k.text} : List β)", (k.text,))
            self.fail(e, 'np.zeros')
        if name == 'int' and len(a) == 1 and not kw:
            # int(np.ceil(2 ** (np.log(n) / np.log(2)))): a float computation, the parameter `ceilExp2Log`
            c = a[0]
            if isinstance(c, ast.Call) and np_name(c.func) == 'np.ceil' and len(c.args) == 1 and isinstance(c.args[0], ast.BinOp) and \
                    isinstance(c.args[0].op, ast.Pow) and isinstance(c.args[0].left, ast.Constant) and c.args[0].left.value == 2:
                ex = c.args[0].right
                if isinstance(ex, ast.BinOp) and isinstance(ex.op, ast.Div) and all(isinstance(z, ast.Call) and np_name(z.func) == 'np.log' and
                                                                                    len(z.args) == 1 for z in (ex.left, ex.right)) and \
                        isinstance(ex.right.args[0], ast.Constant) and ex.right.args[0].value == 2:
                    n = self.tr(ex.left.args[0])
                    if n.kind == 'nat' and not n.q:
                        return V('nat', f"(ceilExp2Log {n.text})")
                self.fail(e, 'int(np.ceil(2 ** (np.log(n) / np.log(2))))')
            return None
        if name in ('abs', 'np.abs') and len(a) == 1 and not kw:
            m = self.tr(a[0])
            if m.kind == 'cmat' and not m.q:
                return V('mat', f"({m.text}.map (fun row => row.map cabs))", m.shape)
            return None
        if name == 'np.argmax' and len(a) == 1 and set(kw) == {'axis'} and isinstance(kw['axis'], ast.Constant) and kw['axis'].value == 0:
            m = self.tr(a[0])
            if m.kind == 'mat' and not m.q:
                self.need('[LT α]', '[DecidableLT α]', '[OfNat α 0]')
                return self.bind(f"NpR.argmaxAxis0E {m.text}", 'narr', m.shape[1:], node=e)
            self.fail(e, 'np.argmax(axis=0)')
        if name == 'np.take' and len(a) == 2 and not kw:
            x, i = self.tr(a[0]), self.tr(a[1])
            if x.kind == 'rarr' and i.kind == 'narr' and not x.q:
                return self.bind(f"NpR.takeE {x.text} ({i.text}.map (fun (k : Nat) => (k : Int)))", 'rarr', i.shape, node=e)
            self.fail(e, 'np.take')
        return None

    def set_range_row(self, length, node):
        if self.row is None:
            self.row = dict(kind='range', len=length, var='i')
        elif self.row['kind'] != 'range' or self.row['len'] != length:
            self.fail(node, 'second row axis')

    def tr_arange(self, e, a, kw):
        if kw:
            self.fail(e, 'np.arange keywords')
        vals = [self.tr(x) for x in a]
        if len(a) == 1 and vals[0].kind == 'nat' and not vals[0].q:
            return V('narr', f"(List.range {vals[0].text})", (vals[0].text,))
        # np.arange(1, X + 1) / np.arange(X, 0, -1) along the range-indexed row axis of length X
        if self.row is not None and self.row['kind'] == 'range':
            X = self.row['len']
            if len(a) == 2 and vals[0].kind == 'nat' and vals[0].lit and vals[0].text == '1' and vals[1].text == f"({X} + 1)":
                return V('nat', f"({ROW} + 1)", ('Q',), True, qlen=X)
            if len(a) == 3 and vals[0].text == X and vals[1].lit and vals[1].text == '0' and neg_const(a[2]) == 1:
                return V('nat', f"({X} - {ROW})", ('Q',), True, qlen=X)
        self.fail(e, 'np.arange')

    def tr_reduce(self, e, name, arg, kw):
        v = self.tr(arg)
        axis = None
        if kw:
            if set(kw) != {'axis'} or not isinstance(kw['axis'], ast.Constant):
                self.fail(e, 'reduction keywords')
            axis = kw['axis'].value
        if v.kind != 'rarr':
            self.fail(e, f"{name} of {v.kind}")
        if axis is None and (v.q or len(v.shape) != 1):
            self.fail(e, f"{name} without axis of a 2-d array")
        if axis is not None and not (axis == 1 and v.q and len(v.shape) == 2):
            self.fail(e, f"{name} axis")
        shape = v.shape[:-1]
        if name == 'np.sum':
            self.need('[Add α]', '[OfNat α 0]')
            return V('real', f"(Cplx.sumL {v.text})", shape, v.q, qlen=v.qlen)
        if name == 'np.mean':
            self.need('[Add α]', '[Div α]', '[NatCast α]', '[OfNat α 0]')
            return V('real', f"(NpR.meanT {v.text})", shape, v.q, qlen=v.qlen)
        if name == 'np.argmin':
            self.need('[LT α]', '[DecidableLT α]')
            if v.q:
                # argmin over axis 1 of a (rows, 0) array raises for every number of rows: whole-array guard
                g = f"({self.lst(v)[0][0]}.length = 0)"
                if (g, 'ValueError') not in self.guards:
                    self.guards.append((g, 'ValueError'))
                return V('nat', f"(Np.argmin {v.text})", shape, True, qlen=v.qlen)
            return self.bind(f"NpE.argminE {v.text}", 'nat', node=e)
        if name == 'np.max' and not v.q:
            self.need('[LT α]', '[DecidableLT α]')
            return self.bind(f"NpE.maxE {v.text}", 'real', node=e)
        self.fail(e, name)

    def tr_where(self, e, a):
        c, x, y = self.tr(a[0]), self.tr(a[1]), self.tr(a[2])
        if c.kind != 'cond':
            self.fail(e, 'np.where condition')
        if y.kind in ELEM and not y.q and c.q and self.row is not None and self.row['kind'] == 'range' and x.kind in ('real', 'nat', 'int') \
                and not x.q:
            # np.where(<row-indexed condition>, scalar, <materialised array of the same length>)
            if c.qlen != y.shape[0] + '.length' and c.qlen != y.shape[0]:
                self.fail(e, f"np.where: lengths {c.qlen} / {y.shape[0]}")
            xs = self.coerce(x, ELEM[y.kind], e)
            cond = c.text.replace(ROW, self.row['var'])
            return V(y.kind, f"(List.zipWith (fun ({self.row['var']} : Nat) w => if {cond} then {xs} else w) (List.range {c.qlen}) {y.text})", y.shape)

        def wh(cc, xx, yy):
            jk = self.join_kind(xx.kind, yy.kind)
            if jk is None:
                self.fail(e, 'np.where branches')
            return jk, f"(if {cc.text} then {self.coerce(xx, jk, e)} else {self.coerce(yy, jk, e)})"
        if c.kind in ELEM or x.kind in ELEM or y.kind in ELEM:
            self.fail(e, 'np.where on materialised arrays')
        v = self.elementwise(e, wh, c, x, y)
        v.qlen = self.qlen_of(c, x, e) or self.qlen_of(c, y, e)
        return v

    # -- statements ----------------------------------------------------------------------------
    def static_test(self, t):
        """value of a flag test (True/False) or None when the test depends on data"""
        if isinstance(t, ast.BoolOp):
            vals = [self.static_test(v) for v in t.values]
            if any(v is None for v in vals):
                return None
            return any(vals) if isinstance(t.op, ast.Or) else all(vals)
        if isinstance(t, ast.UnaryOp) and isinstance(t.op, ast.Not):
            v = self.static_test(t.operand)
            return None if v is None else (not v)
        if isinstance(t, ast.Compare) and len(t.ops) == 1 and isinstance(t.ops[0], (ast.Is, ast.IsNot)):
            return self.tr(t).aux
        if isinstance(t, ast.Compare) and len(t.ops) == 1 and isinstance(t.ops[0], (ast.Eq, ast.NotEq)) and isinstance(t.left, ast.Name) \
                and t.left.id in self.env and self.env[t.left.id].kind == 'strflag' and isinstance(t.comparators[0], ast.Constant) \
                and isinstance(t.comparators[0].value, str):
            eq = self.env[t.left.id].aux == t.comparators[0].value
            return eq if isinstance(t.ops[0], ast.Eq) else not eq
        if isinstance(t, ast.Name) and t.id in self.env and self.env[t.id].kind == 'flag':
            return self.env[t.id].aux
        if isinstance(t, ast.Call) and np_name(t.func) == 'hasattr' and len(t.args) == 2 and isinstance(t.args[0], ast.Name) and \
                isinstance(t.args[1], ast.Constant) and t.args[1].value == '__len__' and t.args[0].id in self.env:
            return self.env[t.args[0].id].kind in ELEM
        if isinstance(t, ast.Call) and np_name(t.func) == 'hasattr' and len(t.args) == 2 and isinstance(t.args[0], ast.Name) and \
                isinstance(t.args[1], ast.Constant) and isinstance(t.args[1].value, str) and t.args[0].id in self.env and \
                self.env[t.args[0].id].kind == 'obj' and t.args[1].value in self.sig.get('optional_attrs', ()):
            return t.args[1].value in self.env[t.args[0].id].aux
        return None

    def run(self, body):
        for st in body:
            if self.returned is not None or self.raised is not None:
                break                     # dead code: flags are resolved, so a return/raise reached here is unconditional
            self.stmt(st)

    def assign_name(self, nm, v):
        decl = self.sig.get('params', {}).get(nm)
        if decl is not None and decl[0] in ('optrarr', 'rarr') and v.kind == 'narr':
            # a name keeps the array kind declared for it in the signature table: integers are cast
            self.need('[NatCast α]')
            srcs, body = self.lst(v)
            v = self.mk_list('rarr', srcs, f"(({body} : Nat) : α)", v.shape, v.q)
        self.env[nm] = self.named(v)

    def stmt(self, st):
        if isinstance(st, ast.Expr) and isinstance(st.value, ast.Constant) and isinstance(st.value.value, str):
            return
        hook = self.sig.get('stmt_hook')
        if hook is not None and hook(self, st):
            return
        if isinstance(st, ast.Pass):
            return
        if isinstance(st, ast.Assign) and len(st.targets) == 1:
            tg = st.targets[0]
            if isinstance(tg, ast.Name):
                self.assign_name(tg.id, self.tr(st.value))
                return
            if isinstance(tg, ast.Tuple) and all(isinstance(x, ast.Name) for x in tg.elts):
                v = self.tr(st.value)
                if v.kind != 'tuple' or len(v.aux) != len(tg.elts):
                    self.fail(st, 'tuple assignment')
                for x, y in zip(tg.elts, v.aux):
                    self.assign_name(x.id, y)
                return
            if isinstance(tg, ast.Subscript) and isinstance(tg.value, ast.Name):
                return self.store(st, tg)
            if isinstance(tg, ast.Attribute) and isinstance(tg.value, ast.Name) and tg.value.id in self.env and \
                    self.env[tg.value.id].kind == 'obj' and tg.attr in self.sig.get('optional_attrs', ()):
                o = self.env[tg.value.id]
                attrs = dict(o.aux)
                attrs[tg.attr] = self.named(self.tr(st.value))
                self.env[tg.value.id] = V('obj', None, aux=attrs)
                return
            self.fail(st, 'assignment target')
        if isinstance(st, ast.AugAssign) and isinstance(st.target, ast.Name):
            nm = st.target.id
            fake = ast.BinOp(left=ast.Name(id=nm, ctx=ast.Load()), op=st.op, right=st.value)
            ast.copy_location(fake, st)
            ast.fix_missing_locations(fake)
            self.env[nm] = self.named(self.tr_binop(fake))
            return
        if isinstance(st, ast.Assert):
            c = self.tr(st.test)
            if c.kind != 'cond' or c.q:
                self.fail(st, 'assert')
            self.cnt += 1
            self.lines.append(f"let _ ← NpE.assertE (decide {c.text})")
            return
        if isinstance(st, ast.Raise):
            self.raised = self.exc_kind(st)
            return
        if isinstance(st, ast.If):
            v = self.static_test(st.test)
            if v is not None:
                self.run(st.body if v else st.orelse)
                return
            return self.dynamic_if(st)
        if isinstance(st, ast.Return):
            self.returned = self.tr(st.value) if st.value is not None else V('none', 'none')
            return
        if isinstance(st, ast.For):
            return self.fold_loop(st)
        self.fail(st, f"statement {type(st).__name__}")

    def fold_loop(self, st):
        """`for k in range(len(L)):` whose body only (re)binds names by total expressions and carries exactly ONE value round the loop
        (a scalar, or an array updated element-wise): `(List.range L.length).foldl (fun acc k => step) init`, entry-wise for an array"""
        it = st.iter
        if st.orelse or not isinstance(st.target, ast.Name) or not (isinstance(it, ast.Call) and np_name(it.func) == 'range' and
                                                                     len(it.args) == 1 and not it.keywords and isinstance(it.args[0], ast.Call)
                                                                     and np_name(it.args[0].func) == 'len' and len(it.args[0].args) == 1
                                                                     and isinstance(it.args[0].args[0], ast.Name)):
            self.fail(st, 'loop header is not `for k in range(len(<array>))`')
        arr = it.args[0].args[0].id
        L = self.tr(it.args[0].args[0])
        if L.kind not in ELEM or L.q or not re.fullmatch(r'\w+', L.text):
            self.fail(st, 'loop range')
        k = st.target.id
        assigned = []
        for b in st.body:
            if isinstance(b, ast.Assign) and len(b.targets) == 1 and isinstance(b.targets[0], ast.Name):
                assigned.append(b.targets[0].id)
            elif isinstance(b, ast.AugAssign) and isinstance(b.target, ast.Name):
                assigned.append(b.target.id)
            else:
                self.fail(b, 'loop body statement is not `name = expr` / `name op= expr`')
        carried = [n for n in dict.fromkeys(assigned) if n in self.env]
        if len(carried) != 1 or k in self.env:
            self.fail(st, f"loop carries {carried} (exactly one value supported)")
        c = carried[0]
        init = self.env[c]
        base = dict(self.env)
        nlines = len(self.lines)
        if init.kind in ELEM:
            srcs, ibody = self.lst(init)
            if len(srcs) != 1:
                self.fail(st, 'carried array over more than one source')
            self.env[c] = V(init.kind, None, init.shape, ent=(srcs, 'acc'))
        elif init.kind in ('real', 'nat', 'int'):
            ibody = init.text
            self.env[c] = V(init.kind, 'acc', init.shape)
        else:
            self.fail(st, f"carried value of kind {init.kind}")
        self.env[k] = V('nat', k)
        self.loopvars[k] = L.text
        was = self.in_branch
        self.in_branch = True
        for b in st.body:
            self.stmt(b)
        self.in_branch = was
        del self.loopvars[k]
        if len(self.lines) != nlines:
            self.fail(st, 'loop body contains a call that can raise')
        new = self.env[c]
        self.env = base
        if new.kind != init.kind:
            self.fail(st, f"carried value changes kind ({init.kind} → {new.kind})")
        if init.kind in ELEM:
            nsrcs, nbody = self.lst(new)
            if nsrcs != srcs:
                self.fail(st, 'carried array is combined with an array over another source')
            fold = f"((List.range {L.text}.length).foldl (fun acc {k} => {strip_outer(nbody)}) {ibody})"
            self.env[c] = self.named(self.mk_list(init.kind, srcs, fold, init.shape, init.q))
        else:
            self.env[c] = V(init.kind, f"((List.range {L.text}.length).foldl (fun acc {k} => {strip_outer(new.text)}) {ibody})", init.shape)

    def exc_kind(self, st):
        x = st.exc
        if isinstance(x, ast.Call):
            x = x.func
        if isinstance(x, ast.Name) and x.id in ('ValueError', 'IndexError', 'TypeError', 'AssertionError', 'ZeroDivisionError'):
            return x.id
        self.fail(st, 'raise')

    def materialise(self, v, node):
        """a row-indexed (range) array as a Lean list"""
        if not v.q:
            return v
        if self.row is None or self.row['kind'] != 'range' or v.kind not in ('real', 'nat', 'int') or len(v.shape) != 1 or v.qlen is None:
            self.fail(node, 'cannot materialise')
        var = self.row['var']
        return V(LIST_OF[v.kind], f"((List.range {v.qlen}).map (fun ({var} : Nat) => {strip_outer(v.text.replace(ROW, var))}))", (v.qlen,))

    def store(self, st, tg):
        nm = tg.value.id
        if nm not in self.env or self.env[nm].kind not in ('rarr', 'carr') or self.env[nm].q or nm in self.sig.get('params', {}):
            self.fail(st, 'store into something that is not a local array')
        arr = self.env[nm]
        sl = tg.slice
        if isinstance(sl, ast.Slice):
            if sl.step is not None:
                self.fail(st, 'slice store step')
            rhs = self.materialise(self.tr(st.value), st)
            if sl.lower is None and neg_const(sl.upper) is not None and neg_const(sl.upper) > 0 and rhs.kind == 'rarr':
                # a[:-k] = rhs
                k = neg_const(sl.upper)
                self.env[nm] = self.named(V('rarr', f"(NpE.setSlice {arr.text} 0 ({arr.text}.length - {k}) {rhs.text})", arr.shape))
                return
            lo = self.tr(sl.lower) if sl.lower is not None else None
            hi = self.tr(sl.upper) if sl.upper is not None else None
            if any(b is not None and (b.kind not in ('nat', 'int') or b.q) for b in (lo, hi)):
                self.fail(st, 'slice store bound')
            if lo is not None and hi is None and rhs.kind == 'real' and not rhs.q:
                # a[lo:] = scalar
                self.env[nm] = self.named(V('rarr', f"(NpR.fillFromPy {arr.text} {self.as_int(lo, st)} {rhs.text})", arr.shape))
                return
            if lo is not None and rhs.kind == arr.kind and not rhs.q:
                # a[lo:hi] = array (NumPy raises ValueError when the lengths do not match, unless len(rhs) = 1); a[lo:] is a[lo:len(a)]
                his = self.as_int(hi, st) if hi is not None else f"(({arr.text}.length : Nat) : Int)"
                self.env[nm] = self.bind(f"NpR.setSlicePyE {arr.text} {self.as_int(lo, st)} {his} {rhs.text}", arr.kind, arr.shape, node=st)
                return
            self.fail(st, 'slice store')
        if neg_const(sl) == 1:
            rhs = self.tr(st.value)
            if rhs.kind != 'real' or rhs.q:
                self.fail(st, 'store value')
            r = self.bind(f"NpR.setLastE {arr.text} {rhs.text}", 'rarr', arr.shape, node=st)
            self.env[nm] = r
            return
        self.fail(st, 'store')

    def dynamic_if(self, st):
        c = self.tr(st.test)
        if c.kind != 'cond' or c.q:
            self.fail(st, 'if test')
        # `if c: raise E` [else: …]
        if len(st.body) == 1 and isinstance(st.body[0], ast.Raise):
            self.guard(c.text, self.exc_kind(st.body[0]))
            self.run(st.orelse)
            return
        nlines = len(self.lines)
        base = dict(self.env)
        envs = []
        was = self.in_branch
        self.in_branch = True
        for branch in (st.body, st.orelse):
            self.env = dict(base)
            for s in branch:
                if isinstance(s, ast.If) and self.static_test(s.test) is None:
                    self.dynamic_if(s)
                    continue
                if not (isinstance(s, ast.Assign) and len(s.targets) == 1 and isinstance(s.targets[0], ast.Name)):
                    self.fail(s, 'data-dependent if: branch statement is not `name = expr`')
                self.stmt(s)
            if len(self.lines) != nlines:
                self.fail(st, 'data-dependent if: a branch contains a call that can raise')
            envs.append(self.env)
        self.in_branch = was
        self.env = dict(base)
        for nm in sorted(set(envs[0]) | set(envs[1])):
            a, b = envs[0].get(nm), envs[1].get(nm)
            if a is b:
                continue
            if a is None or b is None:
                continue                  # bound on one path only: not visible afterwards (a later use is an unknown name)
            if a.kind != b.kind:
                jk = self.join_kind(a.kind, b.kind)
                if jk is None:
                    self.fail(st, f"data-dependent if: `{nm}` has kinds {a.kind} / {b.kind}")
                a, b = V(jk, self.coerce(a, jk, st), a.shape), V(jk, self.coerce(b, jk, st), b.shape)
            if a.kind not in LEAN_TYPE:
                self.fail(st, f"data-dependent if: `{nm}` of kind {a.kind}")
            self.env[nm] = self.named(V(a.kind, f"(if {c.text} then {strip_outer(a.text)} else {strip_outer(b.text)})", a.shape))


# ----------------------------------------------------------------------------------------------
# function-level driver
# ----------------------------------------------------------------------------------------------

def find_function(mod, name, cls=None):
    body = mod.body
    if cls is not None:
        for n in mod.body:
            if isinstance(n, ast.ClassDef) and n.name == cls:
                body = n.body
                break
        else:
            raise Untranslatable(f"{cls}.{name}", 0, "class not found")
    found = [n for n in body if isinstance(n, ast.FunctionDef) and n.name == name]
    if len(found) != 1:
        raise Untranslatable(name, 0, f"{len(found)} definitions found")
    return found[0]


def py_params(fn, fname, allow_kwargs=False):
    a = fn.args
    if a.vararg or (a.kwarg and not allow_kwargs) or a.kwonlyargs or a.posonlyargs:
        raise Untranslatable(fname, fn.lineno, "parameter list (*args/**kwargs/keyword-only)")
    names = [x.arg for x in a.args]
    defaults = {}
    for nm, d in zip(names[len(names) - len(a.defaults):], a.defaults):
        defaults[nm] = d
    return names, defaults


def str_literals(fn, p, fname, stores=0):
    lits = []
    nst = 0
    for n in ast.walk(fn):
        if isinstance(n, ast.Compare) and isinstance(n.left, ast.Name) and n.left.id == p and len(n.ops) == 1 and \
                isinstance(n.comparators[0], ast.Constant) and isinstance(n.comparators[0].value, str):
            if n.comparators[0].value not in lits:
                lits.append(n.comparators[0].value)
        if isinstance(n, ast.Name) and n.id == p and isinstance(n.ctx, ast.Store):
            nst += 1
            if nst > stores:
                raise Untranslatable(fname, fn.lineno, f"string parameter {p} is reassigned")
    if not lits or not all(x.isidentifier() for x in lits) or 'other' in lits:
        raise Untranslatable(fname, fn.lineno, f"string literals compared with {p}: {lits}")
    return lits


LEAN_KEYWORDS = {'end', 'from', 'at', 'in', 'fun', 'open', 'do', 'then', 'else', 'if', 'let', 'have', 'show', 'with', 'match', 'start'} - {'start'}


def ctor(s):
    return f"«{s}»" if s in LEAN_KEYWORDS else s


def translate(fn, src, sig, lean_name, doc, body=None, pre=None):
    """sig: dict(qualname, params={py name: spec}, extra_binders, calls, pyfloat, rowparam)
    spec: (kind, lean name) for kind in LEAN_TYPE | ('optrarr'|'optint'|'optnat', lean) | ('bool', lean) | ('strflag', lean, Type)
          | ('obj', {attr: V}, [binders])
    Returns dict(text=[definitions], info…)"""
    fname = sig.get('qualname', fn.name)
    names, defaults = py_params(fn, fname, allow_kwargs=sig.get('allow_kwargs', False))
    if names != list(sig['params']):
        raise Untranslatable(fname, fn.lineno, f"parameters {names} (expected {list(sig['params'])})")
    flag_params = [p for p in names if sig['params'][p][0] in ('optnat', 'optint', 'optrarr', 'optcmat', 'bool', 'strflag', 'optstrflag')]
    flag_params += list(sig.get('extra_flags', {}))
    specs = dict(sig['params'])
    specs.update(sig.get('extra_flags', {}))
    domains, str_domains = [], {}
    for p in flag_params:
        if specs[p][0] in ('strflag', 'optstrflag'):
            lits = specs[p][3] if len(specs[p]) > 3 else str_literals(fn, p, fname)
            str_domains[p] = lits
            domains.append((['\0none'] if specs[p][0] == 'optstrflag' else []) + lits + [None])
        else:
            domains.append([True, False])
    arms, classes, res_kinds = [], set(), None
    rowinfo = None
    for combo in itertools.product(*domains):
        flags = dict(zip(flag_params, combo))
        ex = Ex(fname, src, sig)
        if sig.get('rowparam'):
            ex.row = dict(kind='list', src=sig['params'][sig['rowparam']][1], var=sig['rowvar'])
        for p in list(names) + list(sig.get('extra_flags', {})):
            spec = specs[p]
            k = spec[0]
            if k == 'obj':
                ex.env[p] = V('obj', None, aux=spec[1])
            elif k in ('optnat', 'optint', 'optrarr', 'optcmat'):
                shp = (spec[1] + '.length',) if k == 'optrarr' else (spec[1] + '.length', spec[1] + '.row') if k == 'optcmat' else ()
                ex.env[p] = V(k[3:], spec[1], shp) if flags[p] else V('none', 'none')
            elif k in ('strflag', 'optstrflag'):
                ex.env[p] = V('none', 'none') if flags[p] == '\0none' else V('strflag', None, aux=flags[p] if flags[p] is not None else '\0other')
            elif k == 'bool':
                ex.env[p] = V('flag', None, aux=flags[p])
            elif k == 'skip':
                pass
            elif p == sig.get('rowparam'):
                ex.env[p] = V(ELEM[k], ROW, ('Q',), True)
            elif k in ('rarr', 'narr', 'iarr', 'carr', 'sarr'):
                ex.env[p] = V(k, spec[1], (spec[1] + '.length',))
            elif k in ('mat', 'cmat'):
                ex.env[p] = V(k, spec[1], (spec[1] + '.length', spec[1] + '.row'))
            else:
                ex.env[p] = V(k, spec[1])
        if pre is not None:
            pre(ex, flags)
        ex.run(fn.body if body is None else body)
        if ex.raised is not None:
            arms.append((flags, ex.lines, None, ex.raised, ex))
            classes |= ex.classes
            continue
        if sig.get('result') is not None:
            outs = sig['result'](ex)
        else:
            if ex.returned is None:
                raise Untranslatable(fname, fn.lineno, "no return")
            outs = ex.returned.aux if ex.returned.kind == 'tuple' else [ex.returned]
        if ex.row is not None and ex.row['kind'] == 'range':
            outs = [ex.materialise(o, fn) for o in outs]
        for o in outs:
            if o.kind not in LEAN_TYPE:
                raise Untranslatable(fname, fn.lineno, f"result of kind {o.kind}")
        kinds = [o.kind for o in outs]
        if res_kinds is None:
            res_kinds = kinds
        elif res_kinds != kinds:
            jk = [Ex.join_kind(a, b) if a != b else a for a, b in zip(res_kinds, kinds)] if len(kinds) == len(res_kinds) else [None]
            if any(x is None for x in jk):
                raise Untranslatable(fname, fn.lineno, f"result kinds differ between paths: {res_kinds} / {kinds}")
            res_kinds = jk
        if ex.row is not None and ex.row['kind'] == 'list':
            if not all(o.q for o in outs) or len(outs) != 1 or outs[0].shape[0] != 'Q':
                raise Untranslatable(fname, fn.lineno, "result is not an array along the row axis")
            rowinfo = ex
        arms.append([flags, ex.lines, outs, None, ex])
        classes |= ex.classes
    if res_kinds is None:
        raise Untranslatable(fname, fn.lineno, "every path raises")
    for arm in arms:
        if arm[3] is None:
            outs = [o if o.kind == k else V(k, arm[4].coerce(o, k, fn)) for o, k in zip(arm[2], res_kinds)]
            classes |= arm[4].classes
            arm[2] = strip_outer(outs[0].text) if len(outs) == 1 else "(" + ", ".join(strip_outer(o.text) for o in outs) + ")"
    text_all = " ".join(" ".join(l) + (v or '') for _, l, v, _, _ in arms)
    binders = list(sig.get('extra_binders', ()))
    if re.search(r'\bpi\b', text_all):
        binders.append('(pi : α)')
    for p in names:
        spec = sig['params'][p]
        if spec[0] == 'obj':
            binders += list(spec[2])
        elif spec[0] in ('strflag', 'optstrflag'):
            binders.append(f"({spec[1]} : {spec[2]})")
        elif spec[0] in ('optnat', 'optint', 'optrarr', 'optcmat'):
            binders.append(f"({spec[1]} : Option {LEAN_TYPE[spec[0][3:]] if ' ' not in LEAN_TYPE[spec[0][3:]] else '(' + LEAN_TYPE[spec[0][3:]] + ')'})")
        elif p == sig.get('rowparam') or spec[0] == 'skip':
            pass
        else:
            binders.append(f"({spec[1]} : {LEAN_TYPE[spec[0]]})")
    for p, spec in sig.get('extra_flags', {}).items():
        if spec[0].startswith('opt') and spec[0] != 'optstrflag':
            binders.append(f"({spec[1]} : Option ({LEAN_TYPE[spec[0][3:]]}))")
        else:
            binders.append(f"({spec[1]} : {spec[2] if spec[0] in ('strflag', 'optstrflag') else 'Bool'})")
    unknown = sorted(c for c in classes if c not in CLASS_ORDER and not c.startswith('[OfNat α'))
    if unknown:
        raise Untranslatable(fname, fn.lineno, f"internal: class {unknown}")
    extra_nat = sorted(c for c in classes if c.startswith('[OfNat α') and c not in CLASS_ORDER)
    cls = [c for c in CLASS_ORDER if c in classes] + extra_nat
    rty = " × ".join(LEAN_TYPE[k] for k in res_kinds)
    if sig.get('rowparam'):
        rspec = sig['params'][sig['rowparam']]
        rowbinder = f"({sig['rowvar']} : {LEAN_TYPE[ELEM[rspec[0]]]})"
    else:
        rowbinder = None
    allb = binders + ([rowbinder] if rowbinder else [])
    tyvars = [t for t in ('α', 'β') if any(t in b for b in allb + cls + [rty])]
    tc = (f"{{{' '.join(tyvars)} : Type}} " + " ".join(cls)).rstrip()
    rty_p = rty if ' ' not in rty else f"({rty})"

    is_pure = sig.get('pure', False)
    if is_pure and (any('←' in l for a in arms for l in a[1]) or any(a[3] is not None for a in arms)):
        raise Untranslatable(fname, fn.lineno, "a function translated as total contains a raising operation")

    def body_lines(flagged, name_suffix_lines):
        out = []
        if flag_params:
            out.append("  match " + ", ".join(specs[p][1] for p in flag_params) + " with")
            for flags, blines, val, raised, _ in arms:
                pats = []
                for p in flag_params:
                    spec = specs[p]
                    if spec[0] == 'bool':
                        pats.append('true' if flags[p] else 'false')
                    elif spec[0] in ('strflag', 'optstrflag'):
                        pats.append('.' + ctor(flags[p] if flags[p] is not None else 'other').replace('\0', ''))
                    else:
                        pats.append(f"some {spec[1]}" if flags[p] else 'none')
                out.append("  | " + ", ".join(pats) + (" =>" if is_pure else " => do"))
                out += ["    " + l for l in blines]
                out.append((f"    {val}" if is_pure else f"    pure ({val})") if raised is None else f"    throw ErrKind.{raised}")
        else:
            _, blines, val, raised, _ = arms[0]
            out += ["  " + l for l in blines]
            out.append((f"  {val}" if is_pure else f"  pure ({val})") if raised is None else f"  throw ErrKind.{raised}")
        return out

    defs = []
    if sig.get('rowparam'):
        if flag_params:
            raise Untranslatable(fname, fn.lineno, "flags in row mode")
        rv = sig['rowvar']
        ex = rowinfo
        rows = [l.replace(ROW, rv) for l in body_lines(False, None)]
        header = tc + "\n    " + " ".join(binders + [rowbinder])
        defs.append("\n".join([f"/-- one row of {doc}: everything the vectorised code does for ONE entry `{rv}` of the row axis "
                               f"(`{sig['rowparam']}`), raising operations in evaluation order -/",
                               f"def {lean_name}Row {header} :", f"    Except ErrKind {rty_p} := do"] + rows))
        args = " ".join(b[1:].split(' ')[0] for b in binders)
        glines = [f"  let _ ← NpR.guardE (decide {g}) .{k}" for g, k in ex.guards]
        header = tc + "\n    " + " ".join([f"({rspec[1]} : {LEAN_TYPE[rspec[0]]})"] + binders)
        defs.append("\n".join([f"/-- {doc}: the whole-array guards, then the row function over the entries of `{sig['rowparam']}` -/",
                               f"def {lean_name} {header} :", f"    Except ErrKind (List {rty_p}) := do"] + glines +
                              [f"  {rspec[1]}.mapM ({lean_name}Row {args})"]))
    else:
        header = tc + "\n    " + " ".join(binders)
        lines = [f"/-- {doc} -/", f"def {lean_name} {header} :", (f"    {rty} :=" if is_pure else f"    Except ErrKind {rty_p} :=" + ("" if flag_params else " do"))]
        row = next((a[4].row for a in arms if a[4].row is not None), None)
        rv = row['var'] if row else 'i'
        defs.append("\n".join(lines + [l.replace(ROW, rv) for l in body_lines(True, None)]))
    return dict(text=defs, defaults=defaults, str_domains=str_domains, binders=binders, tc=tc, rty=rty, arms=arms, classes=cls)


def inductive(name, lits, doc, with_none=False):
    chain = " else ".join(f'if s = "{x}" then .{ctor(x)}' for x in lits) + " else .other"
    return (f"/-- {doc} -/\ninductive {name} | " + ("none | " if with_none else "") + " | ".join(ctor(x) for x in lits) + " | other\n  deriving Repr, DecidableEq, Inhabited\n\n"
            f"/-- the Python string as a value of `{name}` (comparison with the literals in source order) -/\n"
            f"def {name}.ofString (s : String) : {name} :=\n  {chain}")


def file_text(ns, area, header_comment, imports, defs, opens=''):
    return "\n".join(header_comment + imports + ["", "set_option linter.unusedVariables false", "", f"namespace EqsigVerif.{ns}.{area}",
                                                   "open EqsigVerif EqsigVerif.Wire EqsigVerif.Cplx" + opens, ""] +
                     ["\n\n".join(defs)] + ["", f"end EqsigVerif.{ns}.{area}", ""])


def expect_default(fname, fn, defaults, p, pred, what):
    if p not in defaults or not pred(defaults[p]):
        raise Untranslatable(fname, fn.lineno, f"default of {p} is not {what}")


# ----------------------------------------------------------------------------------------------
# target 1: Gen/GenericFns2.lean — interp_left, interp2d (fns/generic.py), calc_step_fn_vals_error (fns/average.py), t_eff
# ----------------------------------------------------------------------------------------------

def gen_generic_fns2(repo, ns):
    gsrc = open(os.path.join(repo, 'eqsig', 'fns', 'generic.py')).read()
    gmod = ast.parse(gsrc)
    asrc = open(os.path.join(repo, 'eqsig', 'fns', 'average.py')).read()
    amod = ast.parse(asrc)
    dsrc = open(os.path.join(repo, 'eqsig', 'design_spectra.py')).read()
    dmod = ast.parse(dsrc)
    defs = []
    # ---- interp_left(x0, x, y=None): array form and scalar form (`hasattr(x0, '__len__')` false)
    fn = find_function(gmod, 'interp_left')
    for kind, lname, what in (('rarr', 'interpLeft', 'array `x0`'), ('real', 'interpLeftScalar', 'scalar `x0` (no `__len__`)')):
        sig = dict(qualname='interp_left', params={'x0': (kind, 'x0'), 'x': ('rarr', 'x'), 'y': ('optrarr', 'y')})
        r = translate(fn, gsrc, sig, lname, f"`eqsig.fns.generic.interp_left(x0, x, y)` for {what}; `y = none` is the default `None` "
                      "(`np.arange(len(x))`, returned as numbers of the array type); `x` sorted (`NpR.searchsortedRight`)")
        expect_default('interp_left', fn, r['defaults'], 'y', is_none, 'None')
        defs += r['text']
    # ---- interp2d(x, xf, f): row mode over the entries of x
    fn = find_function(gmod, 'interp2d')
    sig = dict(qualname='interp2d', params={'x': ('rarr', 'x'), 'xf': ('rarr', 'xf'), 'f': ('mat', 'f')}, rowparam='x', rowvar='xq')
    r = translate(fn, gsrc, sig, 'interp2d', '`eqsig.fns.generic.interp2d(x, xf, f)` (`f` row-major, one row per node)')
    defs += r['text']
    # ---- calc_step_fn_vals_error(values, pow=1, dir=None)
    fn = find_function(amod, 'calc_step_fn_vals_error')
    sig = dict(qualname='calc_step_fn_vals_error', params={'values': ('rarr', 'values'), 'pow': ('nat', 'pow'), 'dir': ('strflag', 'dir', 'StepDir')})
    r = translate(fn, asrc, sig, 'stepErr', '`eqsig.fns.average.calc_step_fn_vals_error(values, pow, dir)` (`pow` a non-negative integer; `dir` by the '
                  'string literals the code compares it with, `other` = `None` or any other value); rows of the triangular matrices are indexed by `i`')
    defs.append(inductive('StepDir', r['str_domains']['dir'], 'the values of `dir` the code of `calc_step_fn_vals_error` distinguishes: the string '
                          'literals it compares `dir` with, in source order, and `other` (`None` or any other value)'))
    defs += r['text']
    expect_default('calc_step_fn_vals_error', fn, r['defaults'], 'dir', is_none, 'None')
    d = r['defaults'].get('pow')
    if not (isinstance(d, ast.Constant) and isinstance(d.value, int) and not isinstance(d.value, bool) and d.value >= 0):
        raise Untranslatable('calc_step_fn_vals_error', fn.lineno, 'default of pow')
    defs.append(f"/-- defaults `(pow, dir)` of `calc_step_fn_vals_error` -/\ndef stepErrDefaults : Nat × StepDir := ({d.value}, .other)")
    # ---- t_eff(displacement, site_class, z_factor, r_factor, n_factor): Python floats (`/` raises ZeroDivisionError)
    fn = find_function(dmod, 't_eff')
    sig = dict(qualname='t_eff', pyfloat=True,
               params={'displacement': ('real', 'displacement'), 'site_class': ('strflag', 'site_class', 'TEffClass'),
                       'z_factor': ('real', 'z_factor'), 'r_factor': ('real', 'r_factor'), 'n_factor': ('real', 'n_factor')})
    r = translate(fn, dsrc, sig, 'tEff', '`eqsig.design_spectra.t_eff(displacement, site_class, z_factor, r_factor, n_factor)` on Python floats '
                  '(every `/` raises `ZeroDivisionError` on a zero divisor); `x ** 2` is `x * x`, `np.pi` the parameter `pi`')
    defs.append(inductive('TEffClass', r['str_domains']['site_class'], 'the values of `site_class` the code of `t_eff` distinguishes'))
    defs += r['text']
    return {"GenericFns2.lean": file_text(ns, 'GenericFns2', [
        "-- GENERATED by tools/py2lean_x_rest.py from eqsig/fns/generic.py (interp_left, interp2d), eqsig/fns/average.py",
        "-- (calc_step_fn_vals_error) and eqsig/design_spectra.py (t_eff). Do not edit."], ["import EqsigVerif.Prelude.NpR"], defs)}


# ----------------------------------------------------------------------------------------------
# target 2: Gen/Mutators2.lean — Signal.running_average, remove_poly (object and array level), Gibbs padding of butter_pass
# ----------------------------------------------------------------------------------------------

def self_attr(n, attr=None):
    if isinstance(n, ast.Attribute) and isinstance(n.value, ast.Name) and n.value.id == 'self' and (attr is None or n.attr == attr):
        return n.attr
    return None


def is_self_call(st, method, nargs):
    return isinstance(st, ast.Expr) and isinstance(st.value, ast.Call) and self_attr(st.value.func, method) and \
        len(st.value.args) == nargs and not st.value.keywords


def body_of(fn):
    return [s for s in fn.body if not (isinstance(s, ast.Expr) and isinstance(s.value, ast.Constant)) and not isinstance(s, ast.ImportFrom)]


def is_float_copy_of_values(n):
    return isinstance(n, ast.Call) and np_name(n.func) == 'np.array' and len(n.args) == 1 and self_attr(n.args[0], 'values') and \
        len(n.keywords) == 1 and n.keywords[0].arg == 'dtype' and isinstance(n.keywords[0].value, ast.Name) and n.keywords[0].value.id == 'float'


def nat_default(fname, fn, d):
    if isinstance(d, ast.Constant) and isinstance(d.value, int) and not isinstance(d.value, bool) and d.value >= 0:
        return d.value
    raise Untranslatable(fname, fn.lineno, 'default value is not a non-negative integer literal')


def gen_mutators2(repo, ns):
    ssrc = open(os.path.join(repo, 'eqsig', 'single.py')).read()
    smod = ast.parse(ssrc)
    gsrc = open(os.path.join(repo, 'eqsig', 'fns', 'generic.py')).read()
    gmod = ast.parse(gsrc)
    defs = []
    # ---- Signal.running_average(self, width=1)
    q = 'Signal.running_average'
    fn = find_function(smod, 'running_average', 'Signal')
    names, dflt = py_params(fn, q)
    body = body_of(fn)
    ok = names == ['self', 'width'] and len(body) == 4 and isinstance(body[0], ast.Assign) and len(body[0].targets) == 1 and \
        isinstance(body[0].targets[0], ast.Name) and is_float_copy_of_values(body[0].value) and \
        isinstance(body[1], ast.Assign) and len(body[1].targets) == 1 and self_attr(body[1].targets[0], '_values') and \
        is_float_copy_of_values(body[1].value) and isinstance(body[2], ast.For) and is_self_call(body[3], 'clear_cache', 0)
    if not ok:
        raise Untranslatable(q, fn.lineno, "skeleton: `<copy> = np.array(self.values, dtype=float)` / `self._values = np.array(self.values, dtype=float)` "
                             "/ `for i in range(len(<copy>))` / `self.clear_cache()`")
    mot = body[0].targets[0].id
    loop = body[2]
    it = loop.iter
    if loop.orelse or not isinstance(loop.target, ast.Name) or not (
            isinstance(it, ast.Call) and np_name(it.func) == 'range' and len(it.args) == 1 and not it.keywords and
            isinstance(it.args[0], ast.Call) and np_name(it.args[0].func) == 'len' and len(it.args[0].args) == 1 and
            isinstance(it.args[0].args[0], ast.Name) and it.args[0].args[0].id == mot):
        raise Untranslatable(q, loop.lineno, "loop header is not `for i in range(len(<copy>))`")
    ivar = loop.target.id

    class Out(ast.NodeTransformer):
        """`self._values[i] = E` (i the loop variable) ↦ `__out__ = E`: the one sample the iteration writes"""
        def visit_Assign(self, node):
            if len(node.targets) == 1 and isinstance(node.targets[0], ast.Subscript) and self_attr(node.targets[0].value, '_values') and \
                    isinstance(node.targets[0].slice, ast.Name) and node.targets[0].slice.id == ivar:
                new = ast.Assign(targets=[ast.Name(id='__out__', ctx=ast.Store())], value=node.value)
                return ast.copy_location(new, node)
            return node
    lbody = [ast.fix_missing_locations(Out().visit(b)) for b in loop.body]
    fake = ast.FunctionDef(name='running_average', args=ast.arguments(posonlyargs=[], args=[ast.arg(arg=mot), ast.arg(arg='width'), ast.arg(arg=ivar)],
                                                                       kwonlyargs=[], kw_defaults=[], defaults=[]), body=lbody, decorator_list=[], lineno=fn.lineno)
    sig = dict(qualname=q, pure=True, params={mot: ('rarr', 'mot'), 'width': ('nat', 'width'), ivar: ('nat', 'i')},
               result=lambda ex: [ex.env['__out__']] if '__out__' in ex.env else ex.fail(loop, 'the iteration does not store self._values[i] on every path'))
    r = translate(fake, ssrc, sig, 'runningAverageAt', 'the sample `self._values[i]` written by iteration `i` of the loop of `Signal.running_average(width)`; '
                  '`mot` is the float COPY of the record made before the loop (the only array the iteration reads)')
    defs += r['text']
    defs.append("/-- `Signal.running_average(width)`: the new `self._values` (iteration `i` writes sample `i` only, reading the copy `mot` of the "
                "ORIGINAL samples; `self.clear_cache()` follows) -/\n"
                f"def runningAverage {r['tc']}\n    (values : List α) (width : Nat) :\n    List α :=\n"
                "  (List.range values.length).map (runningAverageAt values width)")
    defs.append(f"/-- default of `width` -/\ndef runningAverageDefaultWidth : Nat := {nat_default(q, fn, dflt.get('width'))}")

    # ---- remove_poly: Signal.remove_poly(self, poly_fit=0) and eqsig.fns.generic.remove_poly(values, poly_fit=0)
    def polyfit_hook(ex, e):
        if len(e.args) != 3 or e.keywords:
            ex.fail(e, 'np.polyfit arguments')
        x, y, k = (ex.tr(z) for z in e.args)
        if x.kind != 'rarr' or y.kind != 'rarr' or k.kind != 'nat' or x.q or y.q:
            ex.fail(e, 'np.polyfit arguments')
        return V('rarr', f"(polyfit {x.text} {y.text} {k.text})", ('cofs',))

    def reset_hook(ex, st):
        if is_self_call(st, 'reset_values', 1):
            ex.returned = ex.tr(st.value.args[0])
            return True
        return False
    SIGNAL = ('obj', {'values': V('rarr', 'values', ('values.length',)), 'npts': V('nat', 'values.length')}, ['(values : List α)'])
    pf = ['(polyfit : List α → List α → Nat → List α)']
    fn = find_function(smod, 'remove_poly', 'Signal')
    sig = dict(qualname='Signal.remove_poly', pure=True, params={'self': SIGNAL, 'poly_fit': ('nat', 'poly_fit')}, extra_binders=pf,
               calls={'np.polyfit': polyfit_hook}, stmt_hook=reset_hook)
    r = translate(fn, ssrc, sig, 'signalRemovePoly', '`Signal.remove_poly(poly_fit)`: the array handed to `self.reset_values` (`self.npts = len(self.values)`; '
                  '`np.polyfit` is the parameter `polyfit`; the loop over the coefficients is an entry-wise left fold)')
    defs += r['text']
    d1 = nat_default('Signal.remove_poly', fn, r['defaults'].get('poly_fit'))
    fn = find_function(gmod, 'remove_poly')
    sig = dict(qualname='remove_poly', pure=True, params={'values': ('rarr', 'values'), 'poly_fit': ('nat', 'poly_fit')}, extra_binders=pf,
               calls={'np.polyfit': polyfit_hook})
    r = translate(fn, gsrc, sig, 'removePoly', '`eqsig.fns.generic.remove_poly(values, poly_fit)` (`np.polyfit` is the parameter `polyfit`)')
    defs += r['text']
    d2 = nat_default('remove_poly', fn, r['defaults'].get('poly_fit'))
    defs.append(f"/-- defaults of `poly_fit` (method, function) -/\ndef removePolyDefaults : Nat × Nat := ({d1}, {d2})")

    # ---- Signal.butter_pass: everything from the first `kwargs.get` to `self.reset_values(mote)`
    q = 'Signal.butter_pass'
    fn = find_function(smod, 'butter_pass', 'Signal')
    body = body_of(fn)

    def kwget(st):
        """(local, key, default node) of `local = kwargs.get('<key>', default)`"""
        if isinstance(st, ast.Assign) and len(st.targets) == 1 and isinstance(st.targets[0], ast.Name) and isinstance(st.value, ast.Call) and \
                np_name(st.value.func) == 'kwargs.get' and len(st.value.args) == 2 and not st.value.keywords and \
                isinstance(st.value.args[0], ast.Constant) and isinstance(st.value.args[0].value, str):
            return st.targets[0].id, st.value.args[0].value, st.value.args[1]
        return None
    first = next((i for i, st in enumerate(body) if kwget(st)), None)
    if first is None or fn.args.kwarg is None or fn.args.kwarg.arg != 'kwargs':
        raise Untranslatable(q, fn.lineno, "`<name> = kwargs.get('<key>', <default>)` statements not found")
    tail = body[first:]
    kws = {}
    for st in tail:
        g = kwget(st)
        if g:
            if g[1] in kws:
                raise Untranslatable(q, st.lineno, f"keyword {g[1]} read twice")
            kws[g[1]] = (g[0], g[2])
    if set(kws) != {'filter_order', 'remove_gibbs', 'gibbs_extra', 'gibbs_range'}:
        raise Untranslatable(q, fn.lineno, f"keywords read: {sorted(kws)}")
    if not is_none(kws['remove_gibbs'][1]):
        raise Untranslatable(q, fn.lineno, "default of remove_gibbs is not None")
    local = {k: v[0] for k, v in kws.items()}
    rg = local['remove_gibbs']
    lits = str_literals(fn, rg, q, stores=1)

    def butter_stmt(ex, st):
        g = kwget(st)
        if g:
            ex.env[g[0]] = ex.kwvals[g[1]]
            return True
        if is_self_call(st, 'reset_values', 1):
            ex.returned = ex.tr(st.value.args[0])
            return True
        # `wp = cut_off / nyq` and `b, a = butter(filter_order, wp, btype=filter_type)`: the external filter design (pattern-checked, not translated)
        if isinstance(st, ast.Assign) and isinstance(st.value, ast.BinOp) and isinstance(st.value.op, ast.Div) and \
                isinstance(st.value.left, ast.Name) and st.value.left.id == 'cut_off' and isinstance(st.targets[0], ast.Name):
            ex.events.append(('wp', st.targets[0].id))
            return True
        if isinstance(st, ast.Assign) and isinstance(st.value, ast.Call) and np_name(st.value.func) == 'butter':
            c = st.value
            tg = st.targets[0]
            if not (isinstance(tg, ast.Tuple) and len(tg.elts) == 2 and all(isinstance(x, ast.Name) for x in tg.elts) and len(c.args) == 2 and
                    isinstance(c.args[0], ast.Name) and c.args[0].id == local['filter_order'] and isinstance(c.args[1], ast.Name) and
                    ('wp', c.args[1].id) in ex.events and [k.arg for k in c.keywords] == ['btype'] and isinstance(c.keywords[0].value, ast.Name)
                    and c.keywords[0].value.id == 'filter_type'):
                ex.fail(st, 'call of butter')
            ex.events.append(('ba', tg.elts[0].id, tg.elts[1].id))
            return True
        return False

    def filtfilt_hook(ex, e):
        ba = next((ev for ev in ex.events if ev[0] == 'ba'), None)
        if ba is None or len(e.args) != 3 or e.keywords or not all(isinstance(x, ast.Name) for x in e.args[:2]) or \
                (e.args[0].id, e.args[1].id) != ba[1:]:
            ex.fail(e, 'call of filtfilt')
        x = ex.tr(e.args[2])
        if x.kind != 'rarr' or x.q:
            ex.fail(e, 'filtfilt argument')
        ex.events.append(('filtfilt', x, len(ex.lines)))
        return V('rarr', f"(F {x.text})", ('?',), aux='filtfilt')

    def pre(ex, flags):
        ex.kwvals = {'filter_order': V('nat', 'filter_order'), 'gibbs_extra': V('nat', 'gibbs_extra'), 'gibbs_range': V('nat', 'gibbs_range'),
                     'remove_gibbs': ex.env.pop('__rg__')}
        ex.env['cut_off'] = V('opaque', None)
        ex.env['filter_type'] = V('opaque', None)
    SIG2 = ('obj', {'values': V('rarr', 'values', ('values.length',)), 'npts': V('nat', 'values.length'), 'dt': V('real', 'dt')}, ['(values : List α)'])
    base = dict(qualname=q, allow_kwargs=True, params={'self': SIG2, 'cut_off': ('skip', 'cut_off')},
                extra_flags={'__rg__': ('optstrflag', 'remove_gibbs', 'GibbsMode', lits)}, extra_binders=['(F : List α → List α)', '(gibbs_extra : Nat)', '(gibbs_range : Nat)'],
                calls={'filtfilt': filtfilt_hook}, stmt_hook=butter_stmt)
    defs.append(inductive('GibbsMode', lits, 'the values of the keyword `remove_gibbs` the code of `butter_pass` distinguishes: `none` (the default '
                          '`None`), the string literals it is compared with (in source order), and `other` (any other value, e.g. `\'mid\'`)',
                          with_none=True))

    def res_pad(ex):
        ev = [x for x in ex.events if x[0] == 'filtfilt']
        if len(ev) != 1:
            ex.fail(fn, 'exactly one call of filtfilt expected')
        del ex.lines[ev[0][2]:]           # the statements after the call do not belong to the padded array
        return [ev[0][1]]

    def res_bounds(ex):
        # the bounds of the slice taken from the filtered array (located by ROLE: `<filtfilt result>[lo:hi]` handed to reset_values)
        if not getattr(ex, 'cut', None):
            ex.fail(fn, 'the filtered array is not cut by a slice')
        return list(ex.cut)
    r0 = translate(fn, ssrc, dict(base, result=res_bounds), 'butterBounds', 'the bounds `(s_len, f_len)` of the slice `Signal.butter_pass` cuts out of the '
                   'filtered array (located by role: `<filtfilt result>[lo:hi]`), as Python integers', body=tail, pre=pre)
    defs += r0['text']
    r1 = translate(fn, ssrc, dict(base, result=res_pad), 'butterPad', 'the array handed to `filtfilt` by `Signal.butter_pass` (Gibbs padding): '
                   '`gibbs_extra`, `gibbs_range` as non-negative integers, `remove_gibbs` as `GibbsMode`', body=tail, pre=pre)
    r2 = translate(fn, ssrc, dict(base), 'butterPass', '`Signal.butter_pass` from the first `kwargs.get` on: padding, the external operator '
                   '`F = filtfilt(b, a, ·)` (with `b, a = butter(filter_order, cut_off / nyq, btype=filter_type)`), the cut `[s_len:f_len]`; '
                   'the result is the array handed to `self.reset_values`', body=tail, pre=pre)
    defs += r1['text'] + r2['text']
    dd = [nat_default(q, fn, kws[k][1]) for k in ('filter_order', 'gibbs_extra', 'gibbs_range')]
    defs.append("/-- defaults of the keywords `(filter_order, gibbs_extra, gibbs_range)` (`remove_gibbs` defaults to `None`) -/\n"
                f"def butterKwDefaults : Nat × Nat × Nat := ({dd[0]}, {dd[1]}, {dd[2]})")
    return {"Mutators2.lean": file_text(ns, 'Mutators2', [
        "-- GENERATED by tools/py2lean_x_rest.py from eqsig/single.py (Signal.running_average, Signal.remove_poly, Gibbs padding of",
        "-- Signal.butter_pass) and eqsig/fns/generic.py (remove_poly). Do not edit."], ["import EqsigVerif.Prelude.NpR"], defs)}


# ----------------------------------------------------------------------------------------------
# target 3: Gen/LoaderFns.lean — eqsig/loader.py (text layout written / read, dt recovery, scale factor, label, class constructed)
# ----------------------------------------------------------------------------------------------

def lean_str(t):
    out = []
    for ch in t:
        if ch == '\n':
            out.append('\\n')
        elif ch == '\t':
            out.append('\\t')
        elif ch in '"\\':
            out.append('\\' + ch)
        elif 32 <= ord(ch) < 127:
            out.append(ch)
        elif ord(ch) < 256:
            out.append('\\x%02x' % ord(ch))
        elif ord(ch) < 65536:
            out.append('\\u%04x' % ord(ch))
        else:
            raise Untranslatable('?', 0, f"character U+{ord(ch):x} in a string literal")
    return '"' + ''.join(out) + '"'


class LV:
    """kind ∈ text | lines | rat | nat | vals | data | file | obj | pair | flag | strflag | none | strlit"""
    __slots__ = ('kind', 'text', 'aux')

    def __init__(self, kind, text, aux=None):
        self.kind, self.text, self.aux = kind, text, aux


OBJ_T = '(String × List Rat × Rat × Option (List Char))'


class LoaderEx:
    """executor for the string / file code of loader.py: `open(ffp)` is the decoded file content `text` (universal newlines applied by
    `.read()`), `np.genfromtxt` / `.astype(float)` / `float` / `load_values_and_dt` are parameters, `x[k]` raises IndexError (`NpE.getE`)"""

    def __init__(self, fname, src, gnames=('G', "G'")):
        self.fname, self.src = fname, src
        self.env, self.lines, self.cnt, self.indent = {}, [], 0, 0
        self.gen_opts, self.gnames = [], list(gnames)
        self.returned = None

    def fail(self, node, what):
        seg = ast.get_source_segment(self.src, node) if hasattr(node, 'lineno') else ''
        raise Untranslatable(self.fname, getattr(node, 'lineno', 0), f"{what}: {seg}" if seg else what)

    def emit(self, line):
        self.lines.append('  ' * self.indent + line)

    def bind(self, text, kind):
        self.cnt += 1
        self.emit(f"let e{self.cnt} ← {text}")
        return LV(kind, f"e{self.cnt}")

    def tr(self, e):
        if isinstance(e, ast.Name):
            if e.id in self.env:
                return self.env[e.id]
            self.fail(e, 'unknown name')
        if isinstance(e, ast.Constant):
            if isinstance(e.value, str):
                return LV('text', f"{lean_str(e.value)}.toList")
            if e.value is None:
                return LV('none', 'none')
            self.fail(e, 'literal')
        if isinstance(e, ast.Tuple):
            items = [self.tr(x) for x in e.elts]
            if all(x.kind in ('vals', 'rat', 'text') for x in items):
                return LV('pair', "(" + ", ".join(strip_outer(x.text) for x in items) + ")", aux=items)
            self.fail(e, 'tuple')
        if isinstance(e, ast.BinOp) and isinstance(e.op, ast.Mult):
            l, r = self.tr(e.left), self.tr(e.right)
            if l.kind == 'vals' and r.kind == 'rat':
                return LV('vals', f"({l.text}.map (fun v => v * {r.text}))")
            self.fail(e, 'product')
        if isinstance(e, ast.Subscript):
            b = self.tr(e.value)
            if b.kind == 'lines' and isinstance(e.slice, ast.Constant) and isinstance(e.slice.value, int) and not isinstance(e.slice.value, bool) \
                    and e.slice.value >= 0:
                return self.bind(f"NpE.getE {b.text} {e.slice.value}", 'text')
            self.fail(e, 'subscript')
        if isinstance(e, ast.Call):
            f = e.func
            name = np_name(f)
            if name == 'open' and len(e.args) == 1 and not e.keywords and isinstance(e.args[0], ast.Name) and \
                    self.env.get(e.args[0].id, LV('', '')).kind == 'path':
                return LV('file', None)
            if name == 'float' and len(e.args) == 1 and not e.keywords:
                v = self.tr(e.args[0])
                if v.kind == 'text':
                    return self.bind(f"float {v.text}", 'rat')
                self.fail(e, 'float(...)')
            if name == 'np.genfromtxt':
                kw = {k.arg: k.value for k in e.keywords}
                if not (len(e.args) == 1 and isinstance(e.args[0], ast.Name) and self.env.get(e.args[0].id, LV('', '')).kind == 'path' and
                        set(kw) <= {'skip_header', 'delimiter', 'names', 'usecols'} and {'skip_header', 'delimiter', 'usecols'} <= set(kw) and
                        all(isinstance(v, ast.Constant) for v in kw.values())):
                    self.fail(e, 'np.genfromtxt arguments')
                sh, dl, nm, uc = kw['skip_header'].value, kw['delimiter'].value, kw['names'].value if 'names' in kw else False, kw['usecols'].value
                if not (type(sh) is int and sh >= 0 and isinstance(dl, str) and type(nm) is bool and type(uc) is int and uc >= 0):
                    self.fail(e, 'np.genfromtxt options')
                if len(self.gen_opts) >= len(self.gnames):
                    self.fail(e, 'more np.genfromtxt calls than expected')
                g = self.gnames[len(self.gen_opts)]
                self.gen_opts.append(f"({sh}, {lean_str(dl)}, {'true' if nm else 'false'}, {uc})")
                return self.bind(f"{g} text", 'data')
            if name == 'np.atleast_1d' and len(e.args) == 1 and not e.keywords:
                c = e.args[0]
                if isinstance(c, ast.Call) and isinstance(c.func, ast.Attribute) and c.func.attr == 'astype' and len(c.args) == 1 and \
                        isinstance(c.args[0], ast.Name) and c.args[0].id == 'float' and not c.keywords:
                    d = self.tr(c.func.value)
                    if d.kind == 'data':
                        return self.bind(f"toValues {d.text}", 'vals')
                self.fail(e, 'np.atleast_1d(<data>.astype(float))')
            if name == 'load_values_and_dt' and len(e.args) == 1 and not e.keywords and isinstance(e.args[0], ast.Name) and \
                    self.env.get(e.args[0].id, LV('', '')).kind == 'path':
                r = self.bind("load text", 'pair')
                r.aux = [LV('vals', f"{r.text}.1"), LV('rat', f"{r.text}.2")]
                return r
            if name in ('Signal', 'AccSignal') and len(e.args) == 2 and [k.arg for k in e.keywords] in ([], ['label']):
                a, b = self.tr(e.args[0]), self.tr(e.args[1])
                lab = self.tr(e.keywords[0].value) if e.keywords else None
                if a.kind == 'vals' and b.kind == 'rat' and (lab is None or lab.kind == 'text'):
                    return LV('obj', f"({lean_str(name)}, {strip_outer(a.text)}, {b.text}, {'none' if lab is None else 'some ' + lab.text})")
                self.fail(e, 'constructor arguments')
            if isinstance(f, ast.Attribute) and not e.args and not e.keywords:
                b = self.tr(f.value)
                if f.attr == 'read' and b.kind == 'file':
                    return LV('text', '(universalNewlines text)')
                if f.attr == 'splitlines' and b.kind == 'text':
                    return LV('lines', f"(pySplitlines {b.text})")
                if f.attr == 'split' and b.kind == 'text':
                    return LV('lines', f"(pySplit {b.text})")
            self.fail(e, 'call')
        self.fail(e, f"expression {type(e).__name__}")

    def static_test(self, t):
        if isinstance(t, ast.Name) and t.id in self.env and self.env[t.id].kind == 'flag':
            return self.env[t.id].aux
        if isinstance(t, ast.Compare) and len(t.ops) == 1 and isinstance(t.ops[0], ast.Eq) and isinstance(t.left, ast.Name) and \
                t.left.id in self.env and self.env[t.left.id].kind == 'strflag' and isinstance(t.comparators[0], ast.Constant) and \
                isinstance(t.comparators[0].value, str):
            return self.env[t.left.id].aux == t.comparators[0].value
        return None

    def run(self, body):
        for st in body:
            if self.returned is not None:
                break
            self.stmt(st)

    def stmt(self, st):
        if isinstance(st, ast.Expr) and isinstance(st.value, ast.Constant):
            return
        if isinstance(st, ast.Expr) and isinstance(st.value, ast.Call) and isinstance(st.value.func, ast.Attribute) and st.value.func.attr == 'close' \
                and isinstance(st.value.func.value, ast.Name) and self.env.get(st.value.func.value.id, LV('', '')).kind == 'file' \
                and not st.value.args and not st.value.keywords:
            return
        if isinstance(st, ast.Assign) and len(st.targets) == 1:
            tg = st.targets[0]
            v = self.tr(st.value)
            if isinstance(tg, ast.Name):
                self.env[tg.id] = v
                return
            if isinstance(tg, ast.Tuple) and all(isinstance(x, ast.Name) for x in tg.elts) and v.kind == 'pair' and len(tg.elts) == len(v.aux):
                for x, y in zip(tg.elts, v.aux):
                    self.env[x.id] = y
                return
            self.fail(st, 'assignment')
        if isinstance(st, ast.With) and len(st.items) == 1 and isinstance(st.items[0].optional_vars, ast.Name):
            v = self.tr(st.items[0].context_expr)
            if v.kind != 'file':
                self.fail(st, 'with')
            self.env[st.items[0].optional_vars.id] = v
            self.run(st.body)
            return
        if isinstance(st, ast.If):
            t = self.static_test(st.test)
            if t is None:
                self.fail(st, 'if test')
            self.run(st.body if t else st.orelse)
            return
        if isinstance(st, ast.Return):
            self.returned = self.tr(st.value) if st.value is not None else LV('none', 'none')
            return
        if isinstance(st, ast.Try) and len(st.handlers) == 1 and not st.orelse and not st.finalbody and \
                isinstance(st.handlers[0].type, ast.Name) and st.handlers[0].name is None:
            kind = st.handlers[0].type.id
            if kind not in ('TypeError', 'ValueError', 'IndexError'):
                self.fail(st, 'exception class')
            blocks = []
            for body in (st.body, st.handlers[0].body):
                sub = LoaderEx(self.fname, self.src, self.gnames)
                sub.env, sub.cnt, sub.gen_opts, sub.indent = dict(self.env), self.cnt, self.gen_opts, self.indent + 2
                sub.run(body)
                if sub.returned is not None:
                    self.fail(st, 'return inside try')
                self.cnt = sub.cnt
                new = [k for k in sub.env if k not in self.env or sub.env[k] is not self.env[k]]
                blocks.append((sub, new))
            # names bound on BOTH paths, in the order of their first assignment in the try body (a name bound on one path only is not
            # visible afterwards: a later use is an unknown name)
            n0 = [k for k in blocks[0][1] if k in blocks[1][1]]
            if [blocks[0][0].env[k].kind for k in n0] != [blocks[1][0].env[k].kind for k in n0]:
                self.fail(st, 'try body and handler bind a name with different kinds')
            live = [k for k in n0 if blocks[0][0].env[k].kind in ('rat', 'vals', 'data', 'text')]
            if not live:
                self.fail(st, 'try binds nothing')
            self.cnt += 1
            r = f"e{self.cnt}"
            self.emit(f"let {r} ← NpR.tryCatchE (do")
            for ln in blocks[0][0].lines:
                self.lines.append(ln)
            self.emit("    pure (" + ", ".join(blocks[0][0].env[k].text for k in live) + f")) .{kind} (do")
            for ln in blocks[1][0].lines:
                self.lines.append(ln)
            self.emit("    pure (" + ", ".join(blocks[1][0].env[k].text for k in live) + "))")
            for i, k in enumerate(live):
                proj = r if len(live) == 1 else (f"{r}" + ".2" * i + (".1" if i < len(live) - 1 else ""))
                self.env[k] = LV(blocks[0][0].env[k].kind, proj)
            return
        self.fail(st, f"statement {type(st).__name__}")


def fmt_pieces(ex, node, consts_name):
    """`"<fmt>" % args` with the two shapes `tools/py2lean.py` (Consts) recognises: `%i %.<d>f` and `%.<d>f`; the digit count is the constant of
    Gen/Consts.lean (not duplicated here)"""
    if not (isinstance(node, ast.BinOp) and isinstance(node.op, ast.Mod) and isinstance(node.left, ast.Constant) and isinstance(node.left.value, str)):
        ex.fail(node, 'format expression')
    fmt = node.left.value
    args = node.right.elts if isinstance(node.right, ast.Tuple) else [node.right]
    toks = re.findall(r'%i|%\.\d+f|[^%]+', fmt)
    if ''.join(toks) != fmt or [t for t in toks if t.startswith('%.')] != [t for t in toks if t.startswith('%.')][:1] or \
            len([t for t in toks if t.startswith('%')]) != len(args):
        ex.fail(node, 'format string')
    out, ai = [], 0
    for t in toks:
        if t == '%i':
            a = args[ai]
            ai += 1
            if not (isinstance(a, ast.Call) and np_name(a.func) == 'len' and len(a.args) == 1 and isinstance(a.args[0], ast.Name) and
                    ex.env.get(a.args[0].id, LV('', '')).kind == 'vals'):
                ex.fail(a, '%i argument')
            out.append(f"Fmt.fmtIntL (({ex.env[a.args[0].id].text}.length : Nat) : Int)")
        elif t.startswith('%.'):
            v = ex.tr(args[ai]) if not isinstance(args[ai], ast.Subscript) else ex.elem(args[ai])
            ai += 1
            if v.kind != 'rat':
                ex.fail(node, '%f argument')
            out.append(f"Fmt.fmtFixedL {v.text} Consts.{consts_name}")
        else:
            out.append(f"{lean_str(t)}.toList")
    return " ++ ".join(out)


def gen_loader_fns(repo, ns):
    src = open(os.path.join(repo, 'eqsig', 'loader.py')).read()
    mod = ast.parse(src)
    defs = []
    # ---- save_values_and_dt(ffp, values, dt, label)
    q = 'save_values_and_dt'
    fn = find_function(mod, q)
    names, dflt = py_params(fn, q)
    body = body_of(fn)
    if names != ['ffp', 'values', 'dt', 'label'] or dflt or len(body) != 5:
        raise Untranslatable(q, fn.lineno, 'signature / number of statements')
    ex = LoaderEx(q, src)
    ex.env = {'ffp': LV('path', None), 'values': LV('vals', 'values'), 'dt': LV('rat', 'dt'), 'label': LV('text', 'label')}
    st = body[0]
    if not (isinstance(st, ast.Assign) and isinstance(st.targets[0], ast.Name) and isinstance(st.value, ast.List) and len(st.value.elts) == 2):
        raise Untranslatable(q, st.lineno, '`<lines> = [label, "<header format>" % (…)]`')
    para = st.targets[0].id
    first = ex.tr(st.value.elts[0])
    if first.kind != 'text':
        ex.fail(st, 'first line')
    hdr = fmt_pieces(ex, st.value.elts[1], 'loaderDtDecimals')
    if not re.fullmatch(r'%i %\.\d+f', st.value.elts[1].left.value):
        ex.fail(st, 'header format')
    lp = body[1]
    ok = isinstance(lp, ast.For) and isinstance(lp.target, ast.Name) and not lp.orelse and isinstance(lp.iter, ast.Call) and np_name(lp.iter.func) == 'range' \
        and len(lp.iter.args) == 1 and isinstance(lp.iter.args[0], ast.Call) and np_name(lp.iter.args[0].func) == 'len' and \
        len(lp.iter.args[0].args) == 1 and isinstance(lp.iter.args[0].args[0], ast.Name) and lp.iter.args[0].args[0].id == 'values' and len(lp.body) == 1
    if ok:
        c = lp.body[0]
        ok = isinstance(c, ast.Expr) and isinstance(c.value, ast.Call) and isinstance(c.value.func, ast.Attribute) and c.value.func.attr == 'append' and \
            isinstance(c.value.func.value, ast.Name) and c.value.func.value.id == para and len(c.value.args) == 1 and not c.value.keywords
    if not ok:
        raise Untranslatable(q, lp.lineno, '`for i in range(len(values)): <lines>.append("<format>" % values[i])`')
    ivar = lp.target.id

    def elem(node):
        if isinstance(node.value, ast.Name) and node.value.id == 'values' and isinstance(node.slice, ast.Name) and node.slice.id == ivar:
            return LV('rat', 'v')
        ex.fail(node, 'subscript in the loop body')
    ex.elem = elem
    val = fmt_pieces(ex, c.value.args[0], 'loaderValueDecimals')
    if not re.fullmatch(r'%\.\d+f', c.value.args[0].left.value):
        ex.fail(c, 'value format')
    o, w, cl = body[2], body[3], body[4]
    ok = isinstance(o, ast.Assign) and isinstance(o.targets[0], ast.Name) and isinstance(o.value, ast.Call) and np_name(o.value.func) == 'open' and \
        len(o.value.args) == 2 and isinstance(o.value.args[0], ast.Name) and o.value.args[0].id == 'ffp' and isinstance(o.value.args[1], ast.Constant) \
        and o.value.args[1].value == 'w' and not o.value.keywords
    fvar = o.targets[0].id if ok else None
    ok = ok and isinstance(w, ast.Expr) and isinstance(w.value, ast.Call) and isinstance(w.value.func, ast.Attribute) and w.value.func.attr == 'write' and \
        isinstance(w.value.func.value, ast.Name) and w.value.func.value.id == fvar and len(w.value.args) == 1
    if ok:
        j = w.value.args[0]
        ok = isinstance(j, ast.Call) and isinstance(j.func, ast.Attribute) and j.func.attr == 'join' and isinstance(j.func.value, ast.Constant) and \
            isinstance(j.func.value.value, str) and len(j.args) == 1 and isinstance(j.args[0], ast.Name) and j.args[0].id == para
    ok = ok and isinstance(cl, ast.Expr) and isinstance(cl.value, ast.Call) and isinstance(cl.value.func, ast.Attribute) and cl.value.func.attr == 'close' \
        and isinstance(cl.value.func.value, ast.Name) and cl.value.func.value.id == fvar
    if not ok:
        raise Untranslatable(q, o.lineno, '`f = open(ffp, "w")` / `f.write("<sep>".join(<lines>))` / `f.close()`')
    sep = j.func.value.value
    defs.append("/-- the lines `save_values_and_dt(ffp, values, dt, label)` collects: the label, the header `\"%i %.<d>f\" % (len(values), dt)`, one "
                "`\"%.<d>f\" % values[i]` per value (the digit counts are the constants of `Consts.lean`) -/\n"
                "def saveLines (values : List Rat) (dt : Rat) (label : List Char) : List (List Char) :=\n"
                f"  [{first.text}, {hdr}] ++ values.map (fun v => {val})")
    defs.append("/-- the text `save_values_and_dt` writes (file opened with mode `\"w\"`): the lines joined by the separator literal of the source -/\n"
                "def saveText (values : List Rat) (dt : Rat) (label : List Char) : List Char :=\n"
                f"  NpR.joinL {lean_str(sep)}.toList (saveLines values dt label)")
    # ---- save_signal(ffp, signal)
    q = 'save_signal'
    fn = find_function(mod, q)
    names, dflt = py_params(fn, q)
    body = body_of(fn)
    ok = names == ['ffp', 'signal'] and not dflt and len(body) == 1 and isinstance(body[0], ast.Expr) and isinstance(body[0].value, ast.Call)
    if ok:
        c = body[0].value
        ok = np_name(c.func) == 'save_values_and_dt' and not c.keywords and len(c.args) == 4 and isinstance(c.args[0], ast.Name) and c.args[0].id == 'ffp'
        attrs = [a.attr if isinstance(a, ast.Attribute) and isinstance(a.value, ast.Name) and a.value.id == 'signal' else None for a in c.args[1:]] if ok else []
        ok = ok and all(a in ('values', 'dt', 'label') for a in attrs)
    if not ok:
        raise Untranslatable(q, fn.lineno, 'body is not `save_values_and_dt(ffp, signal.<a>, signal.<b>, signal.<c>)`')
    kinds = {'values': 'vals', 'dt': 'rat', 'label': 'text'}
    if [kinds[a] for a in attrs] != ['vals', 'rat', 'text']:
        raise Untranslatable(q, fn.lineno, f"argument kinds of save_values_and_dt: {attrs}")
    defs.append("/-- `save_signal(ffp, signal)` on `(signal.values, signal.dt, signal.label)`: the text written -/\n"
                "def saveSignal (values : List Rat) (dt : Rat) (label : List Char) : List Char :=\n"
                f"  saveText {' '.join(attrs)}")
    # ---- load_values_and_dt(ffp)
    q = 'load_values_and_dt'
    fn = find_function(mod, q)
    names, dflt = py_params(fn, q)
    if names != ['ffp'] or dflt:
        raise Untranslatable(q, fn.lineno, 'signature')
    ex = LoaderEx(q, src)
    ex.env = {'ffp': LV('path', None)}
    ex.run(body_of(fn))
    r = ex.returned
    if r is None or r.kind != 'pair' or [x.kind for x in r.aux] != ['vals', 'rat']:
        raise Untranslatable(q, fn.lineno, 'return is not the pair (values, dt)')
    if len(ex.gen_opts) != 2:
        raise Untranslatable(q, fn.lineno, 'two np.genfromtxt calls expected (try body and handler)')
    defs.append("/-- `(skip_header, delimiter, names, usecols)` of the `np.genfromtxt` call in the `try` body (`G`) and in the `except` handler (`G'`) -/\n"
                f"def genfromtxtOptions : (Nat × String × Bool × Nat) × (Nat × String × Bool × Nat) := ({ex.gen_opts[0]}, {ex.gen_opts[1]})")
    defs.append("/-- `load_values_and_dt(ffp)` on the decoded file content `text`: `G`/`G'` = `np.genfromtxt(ffp, …)` with `genfromtxtOptions.1`/`.2`, "
                "`toValues` = `np.atleast_1d(·.astype(float))`, `float` = Python's `float(str)`; `open(ffp).read()` applies universal newlines -/\n"
                "def loadValuesAndDt {δ : Type} (G G' : List Char → Except ErrKind δ) (toValues : δ → Except ErrKind (List Rat))\n"
                "    (float : List Char → Except ErrKind Rat) (text : List Char) :\n    Except ErrKind (List Rat × Rat) := do\n" +
                "\n".join("  " + l for l in ex.lines + [f"pure {r.text}"]))

    # ---- load_sig / load_asig / load_signal: flags enumerated
    def loader_fn(q, lname, params, doc, option_result=False):
        fn = find_function(mod, q)
        names, dflt = py_params(fn, q)
        if names != ['ffp'] + [p[0] for p in params]:
            raise Untranslatable(q, fn.lineno, f"parameters {names}")
        flagp = [p for p in params if p[1] in ('bool', 'strflag')]
        doms = []
        lits = {}
        for p in flagp:
            if p[1] == 'bool':
                doms.append([True, False])
            else:
                lits[p[0]] = str_literals(fn, p[0], q)
                doms.append(lits[p[0]] + [None])
        arms = []
        for combo in itertools.product(*doms):
            ex = LoaderEx(q, src)
            ex.env = {'ffp': LV('path', None)}
            fl = dict(zip([p[0] for p in flagp], combo))
            for p in params:
                if p[1] == 'bool':
                    ex.env[p[0]] = LV('flag', None, fl[p[0]])
                elif p[1] == 'strflag':
                    ex.env[p[0]] = LV('strflag', None, fl[p[0]] if fl[p[0]] is not None else '\0')
                else:
                    ex.env[p[0]] = LV(p[1], p[0])
            ex.run(body_of(fn))
            r = ex.returned
            if r is None:
                if not option_result:
                    raise Untranslatable(q, fn.lineno, 'a path does not return')
                val = 'none'
            elif r.kind == 'none' and option_result:
                val = 'none'
            elif r.kind == 'obj':
                val = f"(some {r.text})" if option_result else r.text
            else:
                raise Untranslatable(q, fn.lineno, f"returns a value of kind {r.kind}")
            pats = [('true' if fl[p[0]] else 'false') if p[1] == 'bool' else '.' + ctor(fl[p[0]] if fl[p[0]] is not None else 'other') for p in flagp]
            arms.append((pats, ex.lines, val))
        binders = ["(load : List Char → Except ErrKind (List Rat × Rat))", "(text : List Char)"]
        for p in params:
            binders.append(f"({p[0]} : {'Bool' if p[1] == 'bool' else p[2] if p[1] == 'strflag' else 'Rat'})")
        rty = f"Option {OBJ_T}" if option_result else OBJ_T
        out = [f"/-- {doc} -/", f"def {lname} {' '.join(binders)} :", f"    Except ErrKind ({rty}) :="]
        if flagp:
            out.append("  match " + ", ".join(p[0] for p in flagp) + " with")
            for pats, lines, val in arms:
                out.append("  | " + ", ".join(pats) + " => do")
                out += ["    " + l for l in lines] + [f"    pure {val}"]
        else:
            out[-1] += " do"
            out += ["  " + l for l in arms[0][1]] + [f"  pure {arms[0][2]}"]
        return "\n".join(out), dflt, lits

    def rat_default(q, node):
        if isinstance(node, ast.Constant) and type(node.value) in (int, float):
            t = ast.get_source_segment(src, node)
            return float_text(t) if isinstance(node.value, float) else t
        raise Untranslatable(q, getattr(node, 'lineno', 0), 'default value')
    common = ('`load` = `load_values_and_dt`; the result is (class constructed, values, dt, `label=` keyword if passed — `none` = the constructor default)')
    t, d, _ = loader_fn('load_sig', 'loadSig', [('m', 'rat')], '`load_sig(ffp, m)`; ' + common)
    defs.append(t)
    defs.append(f"/-- default of `m` in `load_sig` -/\ndef loadSigDefaultM : Rat := {rat_default('load_sig', d.get('m'))}")
    t, d, _ = loader_fn('load_asig', 'loadAsig', [('load_label', 'bool'), ('m', 'rat')], '`load_asig(ffp, load_label, m)`; ' + common)
    defs.append(t)
    dl = d.get('load_label')
    if not (isinstance(dl, ast.Constant) and isinstance(dl.value, bool)):
        raise Untranslatable('load_asig', 0, 'default of load_label')
    defs.append(f"/-- defaults of `(load_label, m)` in `load_asig` -/\ndef loadAsigDefaults : Bool × Rat := ({'true' if dl.value else 'false'}, {rat_default('load_asig', d.get('m'))})")
    t, d, lits = loader_fn('load_signal', 'loadSignal', [('astype', 'strflag', 'LoadAs')], '`load_signal(ffp, astype)` (`None` is returned when no branch matches); ' + common,
                           option_result=True)
    defs.append(inductive('LoadAs', lits['astype'], 'the values of `astype` the code of `load_signal` distinguishes'))
    defs.append(t)
    da = d.get('astype')
    if not (isinstance(da, ast.Constant) and isinstance(da.value, str)):
        raise Untranslatable('load_signal', 0, 'default of astype')
    defs.append(f"/-- default of `astype` in `load_signal` -/\ndef loadSignalDefaultAstype : LoadAs := LoadAs.ofString {lean_str(da.value)}")
    text = file_text(ns, 'LoaderFns', ["-- GENERATED by tools/py2lean_x_rest.py from eqsig/loader.py. Do not edit."],
                     ["import EqsigVerif.Prelude.NpR", "import EqsigVerif.Prelude.Fmt", "import EqsigVerif.Model.Loader", f"import EqsigVerif.{ns}.Consts"], defs,
                     opens=f" EqsigVerif.{ns}\nopen EqsigVerif.Model.Loader (universalNewlines pySplitlines pySplit)")
    return {"LoaderFns.lean": text}


# ----------------------------------------------------------------------------------------------
# target 4: Gen/StockwellFns.lean — eqsig/stockwell.py
# ----------------------------------------------------------------------------------------------

def gen_stockwell_fns(repo, ns):
    src = open(os.path.join(repo, 'eqsig', 'stockwell.py')).read()
    mod = ast.parse(src)
    defs = []
    TW, EXP = '(tw : Nat → Nat → β)', '(exp : α → α)'
    callee_classes = {}

    def gaussian_hook(ex, e):
        if len(e.args) != 1 or e.keywords:
            ex.fail(e, 'generate_gaussian arguments')
        n = ex.tr(e.args[0])
        if n.kind != 'nat' or n.q:
            ex.fail(e, 'generate_gaussian argument')
        ex.need(*callee_classes['generateGaussian'])          # the caller needs the instances of the generated callee
        return V('mat', f"(generateGaussian exp pi {n.text})", (n.text, f"(2 * {n.text})"))

    def transform_hook(ex, e):
        if len(e.args) != 1 or e.keywords:
            ex.fail(e, 'transform arguments')
        x = ex.tr(e.args[0])
        if x.kind != 'carr' or x.q:
            ex.fail(e, 'transform argument')
        ex.need(*callee_classes['transform'])
        return ex.bind(f"transform tw exp pi {x.text}", 'cmat', ('?', '?'), node=e)
    # ---- generate_gaussian(n_d2)
    fn = find_function(mod, 'generate_gaussian')
    sig = dict(qualname='generate_gaussian', pure=True, complex=True, params={'n_d2': ('nat', 'n_d2')}, extra_binders=[EXP])
    r = translate(fn, src, sig, 'generateGaussian', '`eqsig.stockwell.generate_gaussian(n_d2)` (row `k-1` ↔ harmonic `k`, after the `.transpose()`); '
                  '`np.exp` and `np.pi` are the parameters `exp`, `pi`; `x ** 2` is `x * x`', body=body_of(fn))
    defs += r['text']
    callee_classes['generateGaussian'] = r['classes']
    # ---- transform(acc, interp=False) / transform_w_scipy_fft(acc, interp=False)
    for py, ln, what in (('transform', 'transform', '`np.fft.fft/ifft`'), ('transform_w_scipy_fft', 'transformWScipyFft', '`scipy.fftpack.fft/ifft`')):
        fn = find_function(mod, py)
        sig = dict(qualname=py, complex=True, params={'acc': ('carr', 'acc'), 'interp': ('skip', 'interp')}, extra_binders=[TW, EXP],
                   calls={'generate_gaussian': gaussian_hook})
        r = translate(fn, src, sig, ln, f"`eqsig.stockwell.{py}(acc)`: {what} are the defining sums with the twiddle table `tw` (assumption `FftIsDft`); "
                      "`toeplitz` is `scipy.linalg.toeplitz`", body=body_of(fn))
        defs += r['text']
        callee_classes[ln] = r['classes']
    # ---- itransform(stock)
    fn = find_function(mod, 'itransform')
    sig = dict(qualname='itransform', complex=True, params={'stock': ('cmat', 'stock')}, extra_binders=[TW, '(ceilExp2Log : Nat → Nat)'])
    r = translate(fn, src, sig, 'itransform', '`eqsig.stockwell.itransform(stock)`; `ceilExp2Log n` stands for the float computation '
                  '`int(np.ceil(2 ** (np.log(n) / np.log(2))))`', body=body_of(fn))
    defs += r['text']
    # ---- get_max_tifq_vals_freq(tifq_values, dt)
    fn = find_function(mod, 'get_max_tifq_vals_freq')
    sig = dict(qualname='get_max_tifq_vals_freq', complex=True, params={'tifq_values': ('cmat', 'tifq'), 'dt': ('real', 'dt')}, extra_binders=['(cabs : β → α)'])
    r = translate(fn, src, sig, 'getMaxTifqValsFreq', '`eqsig.stockwell.get_max_tifq_vals_freq(tifq_values, dt)`; `cabs` = `abs` on the entries', body=body_of(fn))
    defs += r['text']
    # ---- get_max_stockwell_freq(asig): the transform is computed when `asig` has no attribute `swtf`

    def asig_pre(ex, flags):
        sw = ex.env.pop('__swtf__')
        attrs = {'values': V('carr', 'values', ('values.length',)), 'dt': V('real', 'dt')}
        if sw.kind != 'none':
            attrs['swtf'] = sw
        ex.env['asig'] = V('obj', None, aux=attrs)
    fn = find_function(mod, 'get_max_stockwell_freq')
    sig = dict(qualname='get_max_stockwell_freq', complex=True, params={'asig': ('skip', 'asig')}, optional_attrs=('swtf',),
               extra_flags={'__swtf__': ('optcmat', 'swtf')}, extra_binders=['(cabs : β → α)', TW, EXP, '(values : List β)', '(dt : α)'],
               calls={'transform': transform_hook})
    r = translate(fn, src, sig, 'getMaxStockwellFreq', '`eqsig.stockwell.get_max_stockwell_freq(asig)` on `(asig.values, asig.dt)`; `swtf = none`: the object has '
                  'no attribute `swtf` yet (then `transform(asig.values)` is computed and stored)', body=body_of(fn), pre=asig_pre)
    defs += r['text']
    # ---- get_stockwell_freqs / get_stockwell_times

    def asig_pre2(ex, flags):
        ex.env['asig'] = V('obj', None, aux={'values': V('carr', 'values', ('values.length',)), 'dt': V('real', 'dt'),
                                             'swtf': V('cmat', 'swtf', ('swtf.length', 'swtf.row'))})
    for py, ln in (('get_stockwell_freqs', 'getStockwellFreqs'), ('get_stockwell_times', 'getStockwellTimes')):
        fn = find_function(mod, py)
        sig = dict(qualname=py, complex=True, params={'asig': ('skip', 'asig')}, extra_binders=['(swtf : List (List β))', '(values : List β)', '(dt : α)'])
        r = translate(fn, src, sig, ln, f"`eqsig.stockwell.{py}(asig)` on `(asig.swtf, asig.values, asig.dt)`", body=body_of(fn), pre=asig_pre2)
        defs += r['text']
    return {"StockwellFns.lean": file_text(ns, 'StockwellFns', ["-- GENERATED by tools/py2lean_x_rest.py from eqsig/stockwell.py. Do not edit."],
                                           ["import EqsigVerif.Prelude.NpR"], defs)}


TARGETS = [gen_generic_fns2, gen_mutators2, gen_loader_fns, gen_stockwell_fns]
