#!/usr/bin/env python3
"""py2lean_x_rest2 — plug-in of tools/py2lean.py: the last public functions of eqsig without a regenerated definition.

TARGETS
  gen_zero_peak   eqsig/fns/peaks_and_crossings.py::get_zero_and_peak_array_indices, get_major_change_indices   → Gen/ZeroPeak.lean
  gen_cluster     eqsig/multiple.py::Cluster.values_by_index, signal_by_index, name_by_index, combine_motions,
                  generate_response_spectrums, calculate_ratios                                                   → Gen/ClusterFns.lean
  gen_stockwell2  eqsig/stockwell.py::transform_slow, dep_itransform                                              → Gen/StockwellFns2.lean
  gen_rest2_misc  eqsig/fns/generic.py::gen_ricker_wavelet_asig, eqsig/loader.py::load_3_comp_values_and_dt_from_v2a → Gen/RickerV2a.lean

Scheme of the index code (class `IX`, targets 1 and part of 4): a function body is executed symbolically, statement by statement, into one
`Except ErrKind` `do` block; temporaries are inlined (renaming / adding / removing a temporary does not change the output), every Lean binder is a
canonical `eK` / `tK`.
  kinds   int (Lean `Int`; Python ints incl. `len(x)` and the loop variable), ilist (`List Int`), q (`Rat`, finite float), qlist (`List Rat`),
          bool, prop (a comparison), str (`List Char`), slist (`List (List Char)`)
  exprs   `+ -` on ints; comparisons `< <= > >= == !=` incl. chains (`a < b < c` ↦ `a < b ∧ b < c`; `a > b` ↦ `b < a`, `a >= b` ↦ `b ≤ a`);
          `x[e]` (e an int expression: Python subscript, negative wraps, `IndexError`) ↦ `let eK ← NpR.pyGetE x e` at the place of evaluation;
          `x[:-1]` ↦ `x.dropLast`, `x[1:]` ↦ `x.drop 1`, `x[a:b]` (int bounds) ↦ `NpR.pySlice x a b`; `a - b` of two index arrays ONLY when the translator
          knows they have the same length (lists appended in lockstep inside the loop; `[:-1]` / `[1:]` of such) ↦ `List.zipWith`;
          `np.array(l)` ↦ `l`; `np.diff(l)` ↦ `Np.diff l`; `min(l)` ↦ `NpR.minE l`, `max(l)` ↦ `NpE.maxE l` (ValueError when empty);
          `np.mean(l)` ↦ `NpR.meanT l`; `np.isclose(a, b, rtol=r, atol=t)` ↦ `NpV.isclose a b r t`; `not b` ↦ `!b`;
          `np.diff(y, prepend=y[0]) / dx` ↦ `let e ← NpR.pyGetE y 0; let e' ← NpS.finiteE ((Np.diffFrom e y).map (fun t => NpS.fdiv (some t) (some dx)))`
  stmts   `x = e`, `x += e`, `x -= e`, `l.append(e)` (↦ `l ++ [e]`), `assert c[, msg]` ↦ `let _ ← NpE.assertE (decide c)` (operands bound first, in
          Python's order; the message is only built on failure), `if/elif/else` (a branch that ends in `continue`/`break`/`return` takes no rest;
          otherwise the names changed by either branch are merged: `let tK ← (if c then do …; pure (…) else …)`), `continue`, `break`, `return`,
          `for i in range(a, b)` ↦ an extracted step function `state → i → Except ErrKind (Bool × state)` (`True` = `break`) folded by
          `NpW.forRangeBreakE`; `while A < B` ↦ an extracted step function folded by `NpW.whileE` with the iteration budget `(B − A).toNat` at entry.
          State = the names bound before the loop and rebound in its body; everything else read in the body becomes a parameter of the step function.
Anything else raises `Untranslatable(function, line, construct)`.
"""
import ast
import os
import sys
from fractions import Fraction

sys.path.insert(0, os.path.dirname(os.path.abspath(__file__)))
from py2lean_struct import Untranslatable  # noqa: E402
import py2lean_x_rest as R  # noqa: E402

LTYPE = {'int': 'Int', 'ilist': 'List Int', 'q': 'Rat', 'qlist': 'List Rat', 'bool': 'Bool', 'str': 'List Char', 'slist': 'List (List Char)',
         'oint': 'Option Int', 'oq': 'Option Rat'}


def rat_text(fr):
    fr = Fraction(fr)
    if fr.denominator == 1:
        return f"({fr.numerator} : Rat)"
    return f"({fr.numerator}/{fr.denominator} : Rat)"


def lean_chars(s):
    """Python string -> Lean `List Char` literal text"""
    out = []
    for ch in s:
        if ch == '"' or ch == '\\':
            out.append('\\' + ch)
        elif ch == '\n':
            out.append('\\n')
        elif 32 <= ord(ch) < 127:
            out.append(ch)
        else:
            raise ValueError(s)
    return '"' + ''.join(out) + '".toList'


class Val:
    def __init__(self, kind, text, tag=None, napp=0):
        self.kind, self.text, self.tag, self.napp = kind, text, tag, napp


def ends(stmts):
    """does every path through `stmts` end in continue / break / return / raise?"""
    if not stmts:
        return False
    st = stmts[-1]
    if isinstance(st, (ast.Continue, ast.Break, ast.Return, ast.Raise)):
        return True
    if isinstance(st, ast.If):
        return ends(st.body) and ends(st.orelse)
    return False


def assigned(stmts):
    """names (re)bound by the statements, in order of first occurrence"""
    out = []

    def add(n):
        if n not in out:
            out.append(n)
    for st in stmts:
        for n in ast.walk(st):
            if isinstance(n, ast.Assign):
                for t in n.targets:
                    for x in ast.walk(t):
                        if isinstance(x, ast.Name):
                            add(x.id)
            elif isinstance(n, ast.AugAssign) and isinstance(n.target, ast.Name):
                add(n.target.id)
            elif isinstance(n, ast.Call) and isinstance(n.func, ast.Attribute) and n.func.attr == 'append' and isinstance(n.func.value, ast.Name):
                add(n.func.value.id)
            elif isinstance(n, ast.For) and isinstance(n.target, ast.Name):
                add(n.target.id)
    return out


def loaded(stmts):
    out = []
    for st in stmts:
        for n in ast.walk(st):
            if isinstance(n, ast.Name) and n.id not in out:
                out.append(n.id)
    return out


def indent(lines, k=2):
    return [' ' * k + ln for ln in lines]


def ite(c, a, b):
    return [f"if {c} then do"] + indent(a) + ["else do"] + indent(b)


class IX:
    """symbolic executor of integer / index code (see the module docstring)"""

    def __init__(self, fname, src, defs, counter=None):
        self.fname, self.src = fname, src
        self.defs = defs                      # list of emitted auxiliary definitions (step functions), shared
        self.counter = counter if counter is not None else [0, 0]
        self.lines = []
        self.mode = 'fn'                      # 'fn' | 'for' | 'while'
        self.state = []                       # state names of the loop being translated
        self.terminals = []                   # envs at the terminals of a loop body (lockstep analysis)
        self.tagc = [0]
        self.ret_kinds = None

    def fail(self, node, what):
        seg = ast.get_source_segment(self.src, node) if hasattr(node, 'lineno') else ''
        raise Untranslatable(self.fname, getattr(node, 'lineno', 0), f"{what}: {seg}" if seg else what)

    def fresh_tag(self):
        self.tagc[0] += 1
        return ('T', self.tagc[0])

    def bind(self, text, kind):
        self.counter[0] += 1
        nm = f"e{self.counter[0]}"
        self.lines.append(f"let {nm} ← {text}")
        return Val(kind, nm)

    # ------------------------------------------------------------------ expressions
    def int_of(self, v, node):
        if v.kind == 'int':
            return v.text
        self.fail(node, f"expected an integer, got {v.kind}")

    def q_of(self, v, node):
        if v.kind == 'q':
            return v.text
        if v.kind == 'int':
            return f"(({v.text} : Int) : Rat)"
        self.fail(node, f"expected a float, got {v.kind}")

    def tr(self, e, env):
        if isinstance(e, ast.Constant):
            if isinstance(e.value, bool):
                return Val('bool', 'true' if e.value else 'false')
            if isinstance(e.value, int):
                return Val('int', f"({e.value} : Int)")
            if isinstance(e.value, float):
                seg = ast.get_source_segment(self.src, e).replace('_', '')
                return Val('q', rat_text(Fraction(seg)))
            if isinstance(e.value, str):
                try:
                    return Val('str', lean_chars(e.value))
                except ValueError:
                    self.fail(e, 'string literal')
            if e.value is None:
                return Val('none', 'none')
            self.fail(e, 'literal')
        if isinstance(e, ast.UnaryOp) and isinstance(e.op, ast.USub):
            if isinstance(e.operand, ast.Constant) and isinstance(e.operand.value, int) and not isinstance(e.operand.value, bool):
                return Val('int', f"(-{e.operand.value} : Int)")
            v = self.tr(e.operand, env)
            if v.kind == 'int':
                return Val('int', f"(-{v.text})")
            self.fail(e, 'unary minus')
        if isinstance(e, ast.UnaryOp) and isinstance(e.op, ast.Not):
            v = self.tr(e.operand, env)
            if v.kind == 'bool':
                return Val('bool', f"(!{v.text})")
            if v.kind == 'prop':
                return Val('prop', f"¬ ({v.text})")
            self.fail(e, 'not')
        if isinstance(e, ast.Name):
            if e.id in env:
                return env[e.id]
            self.fail(e, 'unknown name')
        if isinstance(e, ast.List):
            if not e.elts:
                return Val('ilist', "([] : List Int)", tag=self.fresh_tag())
            vs = [self.tr(x, env) for x in e.elts]
            if all(v.kind == 'int' for v in vs):
                return Val('ilist', "[" + ", ".join(R.strip_outer(v.text) if False else v.text for v in vs) + "]")
            self.fail(e, 'list literal')
        if isinstance(e, ast.BinOp):
            return self.binop(e, env)
        if isinstance(e, ast.Compare):
            return self.compare(e, env)
        if isinstance(e, ast.BoolOp):
            vs = [self.tr(x, env) for x in e.values]
            sym = ' ∧ ' if isinstance(e.op, ast.And) else ' ∨ '
            return Val('prop', "(" + sym.join(self.cond_text(v, e) for v in vs) + ")")
        if isinstance(e, ast.Subscript):
            return self.subscript(e, env)
        if isinstance(e, ast.Call):
            return self.call(e, env)
        self.fail(e, f"expression {type(e).__name__}")

    def binop(self, e, env):
        op = type(e.op)
        l = self.tr(e.left, env)
        r = self.tr(e.right, env)
        sym = {ast.Add: '+', ast.Sub: '-', ast.Mult: '*'}.get(op)
        if l.kind == 'int' and r.kind == 'int' and sym:
            return Val('int', f"({l.text} {sym} {r.text})")
        if l.kind == 'ilist' and r.kind == 'ilist' and op is ast.Sub:
            if l.tag is None or l.tag != r.tag:
                self.fail(e, 'difference of two index arrays whose lengths are not known to be equal')
            return Val('ilist', f"(List.zipWith (fun a b => a - b) {l.text} {r.text})", tag=l.tag)
        if l.kind == 'qlist' and r.kind in ('q', 'int') and op is ast.Div:
            # a NumPy division never raises: a non-finite entry is reported with the tag ZeroDivisionError
            return self.bind(f"NpS.finiteE ({l.text}.map (fun t => NpS.fdiv (some t) (some {self.q_of(r, e)})))", 'qlist')
        self.fail(e, f"operator on ({l.kind}, {r.kind})")

    def compare(self, e, env):
        vals = [self.tr(e.left, env)] + [self.tr(c, env) for c in e.comparators]
        parts = []
        for a, op, b in zip(vals, e.ops, vals[1:]):
            if a.kind == 'int' and b.kind == 'int':
                x, y = a.text, b.text
            elif {a.kind, b.kind} <= {'int', 'q'}:
                x, y = self.q_of(a, e), self.q_of(b, e)
            elif isinstance(op, (ast.Is, ast.IsNot)) and b.kind == 'none' and a.kind in ('oint', 'oq', 'olist'):
                parts.append(f"{a.text}.isNone = {'true' if isinstance(op, ast.Is) else 'false'}")
                continue
            elif isinstance(op, ast.In) and a.kind == 'str' and b.kind == 'str':
                parts.append(f"NpW.contains {a.text} {b.text} = true")
                continue
            else:
                self.fail(e, f"comparison of ({a.kind}, {b.kind})")
            t = {ast.Lt: f"{x} < {y}", ast.LtE: f"{x} ≤ {y}", ast.Gt: f"{y} < {x}", ast.GtE: f"{y} ≤ {x}", ast.Eq: f"{x} = {y}",
                 ast.NotEq: f"{x} ≠ {y}"}.get(type(op))
            if t is None:
                self.fail(e, 'comparison operator')
            parts.append(t)
        return Val('prop', " ∧ ".join(parts))

    def subscript(self, e, env):
        s = e.slice
        base = self.tr(e.value, env)
        if isinstance(s, ast.Slice):
            if s.step is not None:
                self.fail(e, 'slice step')
            if base.kind in ('ilist', 'qlist', 'slist'):
                if s.lower is None and isinstance(s.upper, ast.UnaryOp) and isinstance(s.upper.op, ast.USub) and \
                        isinstance(s.upper.operand, ast.Constant) and s.upper.operand.value == 1 and not isinstance(s.upper.operand.value, bool):
                    return Val(base.kind, f"{base.text}.dropLast" if base.text.isidentifier() else f"({base.text}).dropLast",
                               tag=(base.tag, -1) if base.tag else None)
                if s.upper is None and isinstance(s.lower, ast.Constant) and isinstance(s.lower.value, int) and not isinstance(s.lower.value, bool) \
                        and s.lower.value >= 0:
                    k = s.lower.value
                    return Val(base.kind, f"({base.text}.drop {k})", tag=(base.tag, -k) if base.tag else None)
                if s.lower is not None and s.upper is not None:
                    a, b = self.tr(s.lower, env), self.tr(s.upper, env)
                    return Val(base.kind, f"(NpR.pySlice {base.text} {self.int_of(a, e)} {self.int_of(b, e)})")
            self.fail(e, 'slice')
        i = self.tr(s, env)
        if i.kind == 'int' and base.kind in ('ilist', 'qlist', 'slist'):
            return self.bind(f"NpR.pyGetE {base.text} {i.text}", {'ilist': 'int', 'qlist': 'q', 'slist': 'str'}[base.kind])
        self.fail(e, 'subscript')

    def call(self, e, env):
        name = R.np_name(e.func)
        a = e.args
        kw = {k.arg: k.value for k in e.keywords}
        if name == 'len' and len(a) == 1 and not kw:
            v = self.tr(a[0], env)
            if v.kind in ('ilist', 'qlist', 'slist', 'str'):
                return Val('int', f"(({v.text}.length : Nat) : Int)")
            self.fail(e, 'len')
        if name == 'np.array' and len(a) == 1 and not kw:
            v = self.tr(a[0], env)
            if v.kind == 'ilist':
                return v
            self.fail(e, 'np.array')
        if name == 'np.diff' and len(a) == 1 and not kw:
            v = self.tr(a[0], env)
            if v.kind == 'ilist':
                return Val('ilist', f"(Np.diff {v.text})")
            self.fail(e, 'np.diff')
        if name == 'np.diff' and len(a) == 1 and set(kw) == {'prepend'}:
            p = self.tr(kw['prepend'], env) if False else None
            v = self.tr(a[0], env)            # NumPy evaluates the positional argument first, then the keyword
            p = self.tr(kw['prepend'], env)
            if v.kind == 'qlist' and p.kind == 'q':
                return Val('qlist', f"(Np.diffFrom {p.text} {v.text})")
            self.fail(e, 'np.diff(…, prepend=…)')
        if name in ('min', 'max') and len(a) == 1 and not kw:
            v = self.tr(a[0], env)
            if v.kind == 'ilist':
                return self.bind(f"{'NpR.minE' if name == 'min' else 'NpE.maxE'} {v.text}", 'int')
            self.fail(e, name)
        if name == 'np.mean' and len(a) == 1 and not kw:
            v = self.tr(a[0], env)
            if v.kind == 'qlist':
                return Val('q', f"(NpR.meanT {v.text})")
            self.fail(e, 'np.mean')
        if name == 'np.isclose' and len(a) == 2 and set(kw) == {'rtol', 'atol'}:
            x, y = self.tr(a[0], env), self.tr(a[1], env)
            vs = {k: self.tr(kw[k], env) for k in e.keywords and [k.arg for k in e.keywords]}
            return Val('bool', f"(NpV.isclose {self.q_of(x, e)} {self.q_of(y, e)} {self.q_of(vs['rtol'], e)} {self.q_of(vs['atol'], e)})")
        self.fail(e, 'call')

    def cond_text(self, v, node):
        if v.kind == 'prop':
            return v.text
        if v.kind == 'bool':
            return f"{v.text} = true"
        self.fail(node, f"condition of kind {v.kind}")

    def cond(self, test, env):
        return self.cond_text(self.tr(test, env), test)

    # ------------------------------------------------------------------ statements
    def state_tuple(self, env):
        return "(" + ", ".join(R.strip_outer(env[n].text) for n in self.state) + ")"

    def terminal(self, st, env):
        if isinstance(st, ast.Continue):
            if self.mode == 'for':
                self.terminals.append(dict(env))
                return f"pure (false, {self.state_tuple(env)})"
            if self.mode == 'while':
                self.terminals.append(dict(env))
                return f"pure {self.state_tuple(env)}"
            self.fail(st, 'continue outside a loop')
        if isinstance(st, ast.Break):
            if self.mode == 'for':
                self.terminals.append(dict(env))
                return f"pure (true, {self.state_tuple(env)})"
            self.fail(st, 'break (only in a for loop)')
        if isinstance(st, ast.Return):
            if self.mode != 'fn':
                self.fail(st, 'return inside a loop')
            return self.ret(st, env)
        self.fail(st, 'raise')

    def ret(self, st, env):
        v = st.value
        elts = v.elts if isinstance(v, ast.Tuple) else [v]
        vals = []
        for x in elts:
            if isinstance(x, ast.List) and not x.elts:
                vals.append(Val('ilist', "([] : List Int)"))
            else:
                vals.append(self.tr(x, env))
        kinds = [x.kind for x in vals]
        if self.ret_kinds is None:
            self.ret_kinds = kinds
        elif self.ret_kinds != kinds:
            self.fail(st, f"return kinds {kinds} differ from {self.ret_kinds}")
        return "pure (" + ", ".join(R.strip_outer(x.text) for x in vals) + ")"

    def fall(self, env):
        if self.mode == 'for':
            self.terminals.append(dict(env))
            return f"pure (false, {self.state_tuple(env)})"
        if self.mode == 'while':
            self.terminals.append(dict(env))
            return f"pure {self.state_tuple(env)}"
        raise Untranslatable(self.fname, 0, 'the function can end without a return')

    def simple(self, st, env):
        if isinstance(st, ast.Expr) and isinstance(st.value, ast.Constant) and isinstance(st.value.value, str):
            return
        if isinstance(st, ast.Assign) and len(st.targets) == 1 and isinstance(st.targets[0], ast.Name):
            v = self.tr(st.value, env)
            if v.kind == 'prop':
                self.fail(st, 'a comparison is stored')
            env[st.targets[0].id] = v
            return
        if isinstance(st, ast.AugAssign) and isinstance(st.target, ast.Name) and isinstance(st.op, (ast.Add, ast.Sub)):
            cur = env.get(st.target.id)
            if cur is None:
                self.fail(st, 'augmented assignment of an unbound name')
            v = self.tr(st.value, env)
            if cur.kind == 'int' and v.kind == 'int':
                env[st.target.id] = Val('int', f"({cur.text} {'+' if isinstance(st.op, ast.Add) else '-'} {v.text})")
                return
            self.fail(st, 'augmented assignment')
        if isinstance(st, ast.Expr) and isinstance(st.value, ast.Call) and isinstance(st.value.func, ast.Attribute) and st.value.func.attr == 'append' \
                and isinstance(st.value.func.value, ast.Name) and len(st.value.args) == 1 and not st.value.keywords:
            nm = st.value.func.value.id
            cur = env.get(nm)
            if cur is None or cur.kind != 'ilist':
                self.fail(st, 'append to something that is not an index list')
            v = self.tr(st.value.args[0], env)
            if v.kind != 'int':
                self.fail(st, 'append of a non-integer')
            env[nm] = Val('ilist', f"({cur.text} ++ [{R.strip_outer(v.text)}])", tag=None, napp=None if cur.napp is None else cur.napp + 1)
            return
        if isinstance(st, ast.Assert):
            c = self.cond(st.test, env)
            self.lines.append(f"let _ ← NpE.assertE (decide ({c}))")
            return
        self.fail(st, f"statement {type(st).__name__}")

    def run(self, stmts, env):
        """complete `do` block body for `stmts` followed by the fall-through of the current mode"""
        out = []
        saved = self.lines
        self.lines = out
        try:
            for k, st in enumerate(stmts):
                rest = stmts[k + 1:]
                if isinstance(st, (ast.Continue, ast.Break, ast.Return, ast.Raise)):
                    if rest:
                        self.fail(rest[0], 'unreachable statement')
                    out.append(self.terminal(st, env))
                    return out
                if isinstance(st, ast.If):
                    c = self.cond(st.test, env)
                    tb, eb = ends(st.body), ends(st.orelse)
                    if tb and eb:
                        if rest:
                            self.fail(rest[0], 'unreachable statement')
                        out += ite(c, self.run(st.body, dict(env)), self.run(st.orelse, dict(env)))
                        return out
                    if tb:
                        out += ite(c, self.run(st.body, dict(env)), self.run(st.orelse + rest, dict(env)))
                        return out
                    if eb:
                        out += ite(c, self.run(st.body + rest, dict(env)), self.run(st.orelse, dict(env)))
                        return out
                    if not rest and self.mode != 'fn':
                        out += ite(c, self.run(st.body, dict(env)), self.run(st.orelse, dict(env)))
                        return out
                    self.merge_if(st, c, env)
                    self.lines = out
                    continue
                if isinstance(st, ast.For):
                    self.for_stmt(st, rest, env)
                    continue
                if isinstance(st, ast.While):
                    self.while_stmt(st, rest, env)
                    continue
                self.simple(st, env)
            out.append(self.fall(env))
            return out
        finally:
            self.lines = saved

    def merge_if(self, st, c, env):
        """`if` whose branches fall through: bind the names changed by either branch"""
        snap = list(self.counter)
        caps = []
        sub = IXBranch(self, caps, None)
        a0 = sub.run(st.body, dict(env))
        b0 = sub.run(st.orelse, dict(env))
        changed = []
        for ce in caps:
            for n, v in ce.items():
                if (n not in env or env[n].text != v.text) and n not in changed:
                    changed.append(n)
        for ce in caps:
            for n in changed:
                if n not in ce:
                    self.fail(st, f"name {n} is bound in one branch only")
        kinds = []
        for n in changed:
            ks = {ce[n].kind for ce in caps}
            if len(ks) != 1:
                self.fail(st, f"name {n} has kinds {sorted(ks)} in the branches")
            kinds.append(ks.pop())
        self.counter[:] = snap
        sub = IXBranch(self, [], changed)
        a = sub.run(st.body, dict(env))
        b = sub.run(st.orelse, dict(env))
        ty = " × ".join(LTYPE[k] for k in kinds) if kinds else "Unit"
        blk = ite(c, a, b)
        if not changed:
            self.lines.append("let _ ← (" + blk[0])
            self.lines += indent(blk[1:-1]) + ["  " + blk[-1] + f" : Except ErrKind ({ty}))"]
            return
        self.counter[1] += 1
        nm = f"t{self.counter[1]}"
        self.lines.append(f"let {nm} ← (" + blk[0])
        self.lines += indent(blk[1:-1]) + ["  " + blk[-1] + f" : Except ErrKind ({ty}))"]
        n = len(changed)
        for i, (x, k) in enumerate(zip(changed, kinds)):
            proj = nm if n == 1 else (nm + ".2" * i + (".1" if i < n - 1 else ""))
            env[x] = Val(k, proj, napp=None)

    # ------------------------------------------------------------------ loops
    def loop_parts(self, st, rest, env, loopvar):
        body_assigned = assigned(st.body)
        state = [n for n in env if n in body_assigned]
        temps = [n for n in body_assigned if n not in env and n != loopvar]
        used_after = loaded(rest)
        for t in temps:
            if t in used_after:
                self.fail(st, f"the temporary {t} of the loop body is read after the loop")
        names = loaded(st.body) + (loaded([st.test]) if isinstance(st, ast.While) else [])
        free = [n for n in env if n in names and n not in state and n != loopvar]
        return state, free

    def step_name(self, kind):
        base = self.fname.split('.')[-1]
        parts = base.split('_')
        camel = parts[0] + ''.join(p.capitalize() for p in parts[1:])
        if camel.startswith('get'):
            camel = camel[3].lower() + camel[4:]
        k = sum(1 for d in self.defs if d[0].startswith(camel + 'Step'))
        return camel + 'Step' + ('' if k == 0 else str(k + 1))

    def nat_bound(self, e, env):
        if isinstance(e, ast.Constant) and isinstance(e.value, int) and not isinstance(e.value, bool) and e.value >= 0:
            return str(e.value)
        if isinstance(e, ast.Call) and R.np_name(e.func) == 'len' and len(e.args) == 1 and not e.keywords:
            v = self.tr(e.args[0], env)
            if v.kind in ('ilist', 'qlist', 'slist'):
                return f"{v.text}.length"
        self.fail(e, 'loop bound is not a non-negative literal or len(x)')

    def for_stmt(self, st, rest, env):
        if st.orelse or not isinstance(st.target, ast.Name) or not (isinstance(st.iter, ast.Call) and R.np_name(st.iter.func) == 'range' and
                                                                    len(st.iter.args) == 2 and not st.iter.keywords):
            self.fail(st, 'for loop that is not `for i in range(a, b)`')
        if self.mode != 'fn':
            self.fail(st, 'nested loop')
        lv = st.target.id
        if lv in env or lv in loaded(rest):
            self.fail(st, 'loop variable is bound before / read after the loop')
        a, b = self.nat_bound(st.iter.args[0], env), self.nat_bound(st.iter.args[1], env)
        state, free = self.loop_parts(st, rest, env, lv)
        if not state:
            self.fail(st, 'loop without state')
        sub = IX(self.fname, self.src, self.defs)
        sub.mode, sub.state, sub.tagc = 'for', state, self.tagc
        senv = {n: Val(env[n].kind, n) for n in free}
        n = len(state)
        for i, x in enumerate(state):
            proj = "st" if n == 1 else ("st" + ".2" * i + (".1" if i < n - 1 else ""))
            senv[x] = Val(env[x].kind, proj, napp=0)
        senv[lv] = Val('int', f"({lv} : Int)")
        lines = sub.run(st.body, senv)
        sty = " × ".join(LTYPE[env[x].kind] for x in state)
        name = self.step_name('for')
        binders = "".join(f" ({x} : {LTYPE[env[x].kind]})" for x in free)
        seg = ast.get_source_segment(self.src, st).split('\n')[0].rstrip(':')
        doc = (f"/-- body of `{seg}` of `{self.fname}`: state `({', '.join(state)})` ↦ `(break?, new state)` -/\n"
               f"def {name}{binders} (st : {sty}) ({lv} : Nat) : Except ErrKind (Bool × ({sty})) := do\n" + "\n".join(indent(lines)))
        self.defs.append((name, doc))
        # lockstep analysis: list-valued state names that start empty and receive the same number of appends on every path
        lists = [x for x in state if env[x].kind == 'ilist' and env[x].text == "([] : List Int)"]
        group = []
        for x in lists:
            if all(t[x].napp is not None for t in sub.terminals):
                group.append(x)
        tag = self.fresh_tag()
        lock = [x for x in group if all(t[x].napp == t[group[0]].napp for t in sub.terminals)] if group else []
        init = "(" + ", ".join(R.strip_outer(env[x].text) for x in state) + ")"
        args = "".join(" " + env[x].text for x in free)
        r = self.bind(f"NpW.forRangeBreakE ({name}{args}) {a} {b} {init}", 'state')
        for i, x in enumerate(state):
            proj = r.text if n == 1 else (r.text + ".2" * i + (".1" if i < n - 1 else ""))
            env[x] = Val(env[x].kind, proj, tag=tag if x in lock else None, napp=None)

    def while_stmt(self, st, rest, env):
        if st.orelse or self.mode != 'fn':
            self.fail(st, 'while loop')
        t = st.test
        if not (isinstance(t, ast.Compare) and len(t.ops) == 1 and isinstance(t.ops[0], ast.Lt)):
            self.fail(st, 'while condition is not `A < B`')
        state, free = self.loop_parts(st, rest, env, None)
        if not state:
            self.fail(st, 'loop without state')
        for sub_st in ast.walk(st):
            if isinstance(sub_st, (ast.Break, ast.Continue)):
                self.fail(sub_st, 'break / continue in a while loop')
        sub = IX(self.fname, self.src, self.defs)
        sub.mode, sub.state, sub.tagc = 'while', state, self.tagc
        senv = {n: Val(env[n].kind, n) for n in free}
        n = len(state)
        for i, x in enumerate(state):
            proj = "st" if n == 1 else ("st" + ".2" * i + (".1" if i < n - 1 else ""))
            senv[x] = Val(env[x].kind, proj, napp=None)
        k0 = len(sub.lines)
        cA, cB = sub.tr(t.left, senv), sub.tr(t.comparators[0], senv)
        if sub.lines[k0:] or cA.kind != 'int' or cB.kind != 'int':
            self.fail(st, 'while condition is not a pure integer comparison')
        lines = sub.run(st.body, senv)
        sty = " × ".join(LTYPE[env[x].kind] for x in state)
        name = self.step_name('while')
        binders = "".join(f" ({x} : {LTYPE[env[x].kind]})" for x in free)
        seg = ast.get_source_segment(self.src, st).split('\n')[0].rstrip(':')
        self.defs.append((name + 'Cond', f"/-- condition of `{seg}` of `{self.fname}` on the state `({', '.join(state)})` -/\n"
                          f"def {name}Cond{binders} (st : {sty}) : Bool := decide ({cA.text} < {cB.text})"))
        self.defs.append((name, f"/-- body of `{seg}` of `{self.fname}`: state `({', '.join(state)})` ↦ new state -/\n"
                          f"def {name}{binders} (st : {sty}) : Except ErrKind ({sty}) := do\n" + "\n".join(indent(lines))))
        a0, b0 = self.tr(t.left, env), self.tr(t.comparators[0], env)
        init = "(" + ", ".join(R.strip_outer(env[x].text) for x in state) + ")"
        args = "".join(" " + env[x].text for x in free)
        r = self.bind(f"NpW.whileE ({name}Cond{args}) ({name}{args}) ({b0.text} - {a0.text}).toNat {init}", 'state')
        for i, x in enumerate(state):
            proj = r.text if n == 1 else (r.text + ".2" * i + (".1" if i < n - 1 else ""))
            env[x] = Val(env[x].kind, proj, napp=None)


class IXBranch(IX):
    """a branch of a merged `if`: falls through with `pure (<changed names>)`"""

    def __init__(self, parent, caps, changed):
        IX.__init__(self, parent.fname, parent.src, parent.defs, parent.counter)
        self.mode, self.state, self.tagc, self.ret_kinds = 'branch', parent.state, parent.tagc, parent.ret_kinds
        self.caps, self.changed, self.parent = caps, changed, parent

    def terminal(self, st, env):
        self.fail(st, 'continue / break / return in a branch that must fall through')

    def fall(self, env):
        if self.changed is None:
            self.caps.append(dict(env))
            return "pure ()"
        if not self.changed:
            return "pure ()"
        return "pure (" + ", ".join(R.strip_outer(env[n].text) for n in self.changed) + ")"

    def for_stmt(self, st, rest, env):
        self.fail(st, 'loop inside a branch')

    while_stmt = for_stmt


# =====================================================================================================================
# target 1: get_zero_and_peak_array_indices, get_major_change_indices
# =====================================================================================================================

def callee_default(mod, fname, callee, param, want):
    fn = R.find_function(mod, callee)
    names, defaults = R.py_params(fn, callee)
    if param not in defaults:
        raise Untranslatable(fname, fn.lineno, f"{callee} has no default for {param}")
    d = defaults[param]
    if want == 'bool' and isinstance(d, ast.Constant) and isinstance(d.value, bool):
        return names, ('true' if d.value else 'false')
    if want == 'num' and isinstance(d, ast.Constant) and isinstance(d.value, (int, float)) and not isinstance(d.value, bool):
        fr_ = Fraction(str(d.value))
        return names, (str(fr_.numerator) if fr_.denominator == 1 else f"({fr_.numerator}/{fr_.denominator})")
    raise Untranslatable(fname, fn.lineno, f"default of {callee}.{param} is not a literal")


def gen_zero_peak(repo, ns):
    path = os.path.join(repo, 'eqsig', 'fns', 'peaks_and_crossings.py')
    src = open(path).read()
    mod = ast.parse(src)
    defs = []
    # ---------------- get_zero_and_peak_array_indices
    q = 'get_zero_and_peak_array_indices'
    fn = R.find_function(mod, q)
    names, defaults = R.py_params(fn, q)
    if names != ['pvals', 'zvals', 'min_step'] or set(defaults) != {'zvals', 'min_step'} or not R.is_none(defaults['zvals']) or \
            not (isinstance(defaults['min_step'], ast.Constant) and isinstance(defaults['min_step'].value, int) and not isinstance(defaults['min_step'].value, bool)):
        raise Untranslatable(q, fn.lineno, 'signature is not (pvals, zvals=None, min_step=<int>)')
    body = R.body_of(fn)
    if len(body) < 4:
        raise Untranslatable(q, fn.lineno, 'body too short')
    s0, s1, s2 = body[:3]
    want0 = ast.parse("if zvals is None:\n    zvals = pvals").body[0]
    if ast.dump(s0) != ast.dump(want0):
        raise Untranslatable(q, s0.lineno, 'first statement is not `if zvals is None: zvals = pvals`')

    def callee_assign(st, callee, arg):
        if not (isinstance(st, ast.Assign) and len(st.targets) == 1 and isinstance(st.targets[0], ast.Name) and isinstance(st.value, ast.Call) and
                R.np_name(st.value.func) == callee and len(st.value.args) == 1 and not st.value.keywords and
                isinstance(st.value.args[0], ast.Name) and st.value.args[0].id == arg):
            raise Untranslatable(q, st.lineno, f"statement is not `<name> = {callee}({arg})`")
        return st.targets[0].id
    n_pk = callee_assign(s1, 'get_switched_peak_array_indices', 'pvals')
    n_ci = callee_assign(s2, 'get_zero_crossings_array_indices', 'zvals')
    if n_pk == n_ci or {n_pk, n_ci} & {'pvals', 'zvals', 'min_step'}:
        raise Untranslatable(q, s1.lineno, 'names of the callee results')
    sw_names, sw_tol = callee_default(mod, q, 'get_switched_peak_array_indices', 'tol', 'num')
    zc_names, zc_keep = callee_default(mod, q, 'get_zero_crossings_array_indices', 'keep_adj_zeros', 'bool')
    _, zc_tol = callee_default(mod, q, 'get_zero_crossings_array_indices', 'tol', 'num')
    if sw_names != ['values', 'tol'] or zc_names != ['values', 'keep_adj_zeros', 'tol']:
        raise Untranslatable(q, fn.lineno, 'signature of a callee')
    x = IX(q, src, defs)
    env = {'peak_indices': Val('ilist', 'peak_indices'), 'ci': Val('ilist', 'ci'), 'min_step': Val('int', 'min_step')}
    # the Python names of the callee results are canonicalised (a rename does not change the output)
    ren = {n_pk: 'peak_indices', n_ci: 'ci'}

    class Ren(ast.NodeTransformer):
        def visit_Name(self, node):
            if node.id in ren:
                return ast.copy_location(ast.Name(id=ren[node.id], ctx=node.ctx), node)
            if node.id in ren.values():
                raise Untranslatable(q, node.lineno, f"name {node.id} clashes with a canonical name")
            return node
    core = [Ren().visit(st) if (n_pk, n_ci) != ('peak_indices', 'ci') else st for st in body[3:]]
    lines = x.run(core, env)
    if x.ret_kinds != ['ilist', 'ilist']:
        raise Untranslatable(q, fn.lineno, f"the function does not return a pair of index arrays: {x.ret_kinds}")
    defs_text = [d[1] for d in defs]
    defs_text.append(
        f"/-- `{q}`: everything after the two callees (`peak_indices`, `ci` = their results as Python integers) -/\n"
        "def zeroAndPeakCore (peak_indices ci : List Int) (min_step : Int) : Except ErrKind (List Int × List Int) := do\n" + "\n".join(indent(lines)))
    defs_text.append(
        f"/-- default of `min_step` -/\ndef zeroAndPeakMinStepDefault : Int := {defaults['min_step'].value}")
    defs_text.append(
        f"/-- `{q}(pvals, zvals=None, min_step)`; callees = the generated `get_switched_peak_array_indices(pvals)` (default `tol`) and\n"
        "`get_zero_crossings_array_indices(zvals)` (defaults `keep_adj_zeros`, `tol`) of `Gen/CrossingsFns.lean` -/\n"
        "def zeroAndPeakArrayIndices (pvals : List Rat) (zvals : Option (List Rat)) (min_step : Int) : Except ErrKind (List Int × List Int) := do\n"
        "  let zvals := match zvals with | none => pvals | some z => z\n"
        f"  let e1 ← CrossingsFns.switchedPeakArrayIndices pvals {sw_tol}\n"
        f"  let e2 ← CrossingsFns.zeroCrossingsArrayIndices zvals {zc_keep} {zc_tol}\n"
        "  zeroAndPeakCore (e1.map Int.ofNat) (e2.map Int.ofNat) min_step")
    # ---------------- get_major_change_indices
    q = 'get_major_change_indices'
    fn = R.find_function(mod, q)
    names, defaults = R.py_params(fn, q)
    if names != ['y', 'rtol', 'atol', 'already_diff', 'dx'] or set(defaults) != {'rtol', 'atol', 'already_diff', 'dx'}:
        raise Untranslatable(q, fn.lineno, 'signature is not (y, rtol=…, atol=…, already_diff=…, dx=…)')
    dvals = []
    for p in ('rtol', 'atol', 'dx'):
        d = defaults[p]
        if not (isinstance(d, ast.Constant) and isinstance(d.value, (int, float)) and not isinstance(d.value, bool)):
            raise Untranslatable(q, fn.lineno, f"default of {p} is not a numeric literal")
        dvals.append(rat_text(Fraction(ast.get_source_segment(src, d).replace('_', ''))))
    d = defaults['already_diff']
    if not (isinstance(d, ast.Constant) and isinstance(d.value, bool)):
        raise Untranslatable(q, fn.lineno, 'default of already_diff is not a Boolean literal')
    mdefs = []
    x = IX(q, src, mdefs)
    env = {'y': Val('qlist', 'y'), 'rtol': Val('q', 'rtol'), 'atol': Val('q', 'atol'), 'already_diff': Val('bool', 'already_diff'), 'dx': Val('q', 'dx')}
    lines = x.run(R.body_of(fn), env)
    if x.ret_kinds != ['ilist']:
        raise Untranslatable(q, fn.lineno, f"the function does not return an index list: {x.ret_kinds}")
    defs_text += [d[1] for d in mdefs]
    defs_text.append(
        f"/-- `{q}(y, rtol, atol, already_diff, dx)`; a non-finite `dydx` (NumPy's non-raising `/ 0`) is reported with the tag `ZeroDivisionError` -/\n"
        "def majorChangeIndices (y : List Rat) (rtol atol : Rat) (already_diff : Bool) (dx : Rat) : Except ErrKind (List Int) := do\n" + "\n".join(indent(lines)))
    defs_text.append(
        f"/-- defaults `(rtol, atol, already_diff, dx)` of `{q}` -/\n"
        f"def majorChangeIndicesDefaults : Rat × Rat × Bool × Rat := ({dvals[0]}, {dvals[1]}, {'true' if d.value else 'false'}, {dvals[2]})")
    text = "\n".join([
        "-- GENERATED by tools/py2lean_x_rest2.py from eqsig/fns/peaks_and_crossings.py (get_zero_and_peak_array_indices, get_major_change_indices). Do not edit.",
        "import EqsigVerif.Prelude.NpW", f"import EqsigVerif.{ns}.CrossingsFns", "",
        "set_option linter.unusedVariables false", "", f"namespace EqsigVerif.{ns}.ZeroPeak",
        f"open EqsigVerif EqsigVerif.Wire EqsigVerif.{ns}", "", "\n\n".join(defs_text), "", f"end EqsigVerif.{ns}.ZeroPeak", ""])
    return {"ZeroPeak.lean": text}


# =====================================================================================================================
# target 2: Cluster.values_by_index, signal_by_index, name_by_index, combine_motions, generate_response_spectrums, calculate_ratios
# =====================================================================================================================

def is_self_call(n, method):
    return isinstance(n, ast.Call) and isinstance(n.func, ast.Attribute) and n.func.attr == method and isinstance(n.func.value, ast.Name) and \
        n.func.value.id == 'self'


def gen_cluster(repo, ns):
    path = os.path.join(repo, 'eqsig', 'multiple.py')
    src = open(path).read()
    mod = ast.parse(src)
    cls = [n for n in mod.body if isinstance(n, ast.ClassDef) and n.name == 'Cluster']
    if len(cls) != 1:
        raise Untranslatable('Cluster', 0, 'class not found')
    cls = cls[0]
    defs = []

    # ---- the three accessors: `kv = list(self.signals.items())[index]`; `return kv[k]` / `return kv[1].values`
    def accessor(name):
        fn = R.find_function(mod, name, 'Cluster')
        q = f"Cluster.{name}"
        names, defaults = R.py_params(fn, q)
        body = R.body_of(fn)
        if names != ['self', 'index'] or defaults or len(body) != 2:
            raise Untranslatable(q, fn.lineno, 'signature / body')
        a, r = body
        want = ast.parse("x = list(self.signals.items())[index]").body[0]
        if not (isinstance(a, ast.Assign) and len(a.targets) == 1 and isinstance(a.targets[0], ast.Name) and ast.dump(a.value) == ast.dump(want.value)):
            raise Untranslatable(q, a.lineno, 'first statement is not `<name> = list(self.signals.items())[index]`')
        t = a.targets[0].id
        v = r.value if isinstance(r, ast.Return) else None
        attr = None
        if isinstance(v, ast.Attribute):
            attr, v = v.attr, v.value
        if not (isinstance(v, ast.Subscript) and isinstance(v.value, ast.Name) and v.value.id == t and isinstance(v.slice, ast.Constant) and
                v.slice.value in (0, 1) and not isinstance(v.slice.value, bool)):
            raise Untranslatable(q, r.lineno, 'second statement is not `return <name>[0|1][.attr]`')
        return v.slice.value, attr
    k, attr = accessor('values_by_index')
    if (k, attr) != (1, 'values'):
        raise Untranslatable('Cluster.values_by_index', 0, f"returns component {k} attribute {attr}, expected [1].values")
    defs.append("/-- `Cluster.values_by_index(index)` = `list(self.signals.items())[index][1].values`; `signals` = the records of the cluster in order -/\n"
                "def valuesByIndex (signals : List (List Rat)) (index : Int) : Except ErrKind (List Rat) := do\n  let e1 ← NpR.pyGetE signals index\n  pure e1")
    k, attr = accessor('signal_by_index')
    if (k, attr) != (1, None):
        raise Untranslatable('Cluster.signal_by_index', 0, f"returns component {k} attribute {attr}, expected [1]")
    defs.append("/-- `Cluster.signal_by_index(index)` = `list(self.signals.items())[index][1]` (the signal object, here its record) -/\n"
                "def signalByIndex (signals : List (List Rat)) (index : Int) : Except ErrKind (List Rat) := do\n  let e1 ← NpR.pyGetE signals index\n  pure e1")
    k, attr = accessor('name_by_index')
    if (k, attr) != (0, None):
        raise Untranslatable('Cluster.name_by_index', 0, f"returns component {k} attribute {attr}, expected [0]")
    defs.append("/-- `Cluster.name_by_index(index)` = `list(self.signals.items())[index][0]`; `names` = the keys of `self.signals` in order -/\n"
                "def nameByIndex (names : List String) (index : Int) : Except ErrKind String := do\n  let e1 ← NpR.pyGetE names index\n  pure e1")

    # ---- combine_motions
    fn = R.find_function(mod, 'combine_motions', 'Cluster')
    q = 'Cluster.combine_motions'
    names, defaults = R.py_params(fn, q, allow_kwargs=True)
    if names != ['self', 'f_ch', 'low_index', 'high_index'] or set(defaults) != {'low_index', 'high_index'} or fn.args.kwarg is None:
        raise Untranslatable(q, fn.lineno, 'signature is not (self, f_ch, low_index=…, high_index=…, **kwargs)')
    kwname = fn.args.kwarg.arg
    idx_defaults = []
    for p in ('low_index', 'high_index'):
        d = defaults[p]
        if not (isinstance(d, ast.Constant) and isinstance(d.value, int) and not isinstance(d.value, bool)):
            raise Untranslatable(q, fn.lineno, f"default of {p}")
        idx_defaults.append(str(d.value))
    kws = {}           # local name -> (key, default)
    lines = []
    cnt = [0, 0]
    cur = 'signals'
    motion = None
    ret = None

    def fresh(kind):
        i = 0 if kind == 'e' else 1
        cnt[i] += 1
        return f"{kind}{cnt[i]}"

    def sig_index(n):
        if is_self_call(n, 'signal_by_index') and len(n.args) == 1 and not n.keywords and isinstance(n.args[0], ast.Name) and \
                n.args[0].id in ('low_index', 'high_index'):
            return n.args[0].id
        return None
    for st in R.body_of(fn):
        if ret is not None:
            raise Untranslatable(q, st.lineno, 'statement after return')
        if isinstance(st, ast.Assign) and len(st.targets) == 1 and isinstance(st.targets[0], ast.Name):
            v = st.value
            if isinstance(v, ast.Call) and R.np_name(v.func) == f"{kwname}.get" and len(v.args) == 2 and not v.keywords and \
                    isinstance(v.args[0], ast.Constant) and isinstance(v.args[0].value, str) and isinstance(v.args[1], ast.Constant) and \
                    isinstance(v.args[1].value, int) and not isinstance(v.args[1].value, bool):
                kws[st.targets[0].id] = (v.args[0].value, v.args[1].value)
                continue
            if isinstance(v, ast.BinOp) and isinstance(v.op, ast.Add) and all(isinstance(x, ast.Attribute) and x.attr == 'values' and sig_index(x.value) for x in (v.left, v.right)):
                a, b = fresh('e'), fresh('e')
                lines.append(f"let {a} ← NpR.pyGetE {cur} {sig_index(v.left.value)}")
                lines.append(f"let {b} ← NpR.pyGetE {cur} {sig_index(v.right.value)}")
                m = fresh('e')
                lines.append(f"let {m} ← NpF.zipBE (fun a b => a + b) {a} {b}")
                motion = (st.targets[0].id, m)
                continue
            raise Untranslatable(q, st.lineno, 'assignment')
        if isinstance(st, ast.Expr) and isinstance(st.value, ast.Call) and isinstance(st.value.func, ast.Attribute) and st.value.func.attr == 'butter_pass' \
                and sig_index(st.value.func.value) and not st.value.args:
            kw = {k.arg: k.value for k in st.value.keywords}
            if set(kw) != {'cut_off', 'order', 'remove_gibbs'}:
                raise Untranslatable(q, st.lineno, 'keywords of butter_pass are not cut_off, order, remove_gibbs')
            for key in ('order', 'remove_gibbs'):
                if not (isinstance(kw[key], ast.Name) and kws.get(kw[key].id, (None,))[0] == key):
                    raise Untranslatable(q, st.lineno, f"{key} is not the keyword argument of the same name")
            co = kw['cut_off']
            if not (isinstance(co, ast.Tuple) and len(co.elts) == 2):
                raise Untranslatable(q, st.lineno, 'cut_off is not a pair')

            def is_fch(n):
                return isinstance(n, ast.Name) and n.id == 'f_ch'
            if is_fch(co.elts[0]) and R.is_none(co.elts[1]):
                filt = 'hp'
            elif R.is_none(co.elts[0]) and is_fch(co.elts[1]):
                filt = 'lp'
            else:
                raise Untranslatable(q, st.lineno, 'cut_off is neither (f_ch, None) nor (None, f_ch)')
            idx = sig_index(st.value.func.value)
            a = fresh('e')
            lines.append(f"let {a} ← NpR.pyGetE {cur} {idx}")
            b = fresh('e')
            lines.append(f"let {b} ← {filt} {a}")
            c = fresh('v')
            lines.append(f"let {c} := NpW.pySet {cur} {idx} {b}")
            cur = c
            continue
        if isinstance(st, ast.Return) and isinstance(st.value, ast.Name) and motion and st.value.id == motion[0]:
            ret = motion[1]
            continue
        raise Untranslatable(q, st.lineno, 'statement')
    if ret is None:
        raise Untranslatable(q, fn.lineno, 'no `return motion`')
    kwd = sorted(kws.values())
    if [k for k, _ in kwd] != ['order', 'remove_gibbs']:
        raise Untranslatable(q, fn.lineno, f"keyword arguments read: {kwd}")
    defs.append("/-- `Cluster.combine_motions(f_ch, low_index, high_index, **kwargs)`: `hp` = `butter_pass(cut_off=(f_ch, None), order, remove_gibbs)`, `lp` =\n"
                "`butter_pass(cut_off=(None, f_ch), order, remove_gibbs)` as functions record ↦ new record (in place); result `(motion, records after the call)` -/\n"
                "def combineMotions (hp lp : List Rat → Except ErrKind (List Rat)) (signals : List (List Rat)) (low_index high_index : Int) :\n"
                "    Except ErrKind (List Rat × List (List Rat)) := do\n" + "\n".join(indent(lines)) + f"\n  pure ({ret}, {cur})")
    defs.append(f"/-- defaults `(low_index, high_index)` and the keyword defaults `(order, remove_gibbs)` of `combine_motions` -/\n"
                f"def combineMotionsDefaults : Int × Int × Int × Int := ({idx_defaults[0]}, {idx_defaults[1]}, {kwd[0][1]}, {kwd[1][1]})")

    # ---- generate_response_spectrums: `for i in range(len(self.signals)): self.signal_by_index(i).generate_response_spectrum()`
    fn = R.find_function(mod, 'generate_response_spectrums', 'Cluster')
    q = 'Cluster.generate_response_spectrums'
    want = ast.parse("for i in range(len(self.signals)):\n    self.signal_by_index(i).generate_response_spectrum()").body[0]
    body = R.body_of(fn)
    if [a.arg for a in fn.args.args] != ['self'] or len(body) != 1 or not isinstance(body[0], ast.For) or not isinstance(body[0].target, ast.Name):
        raise Untranslatable(q, fn.lineno, 'not a single for loop')
    lv = body[0].target.id

    class RenLv(ast.NodeTransformer):
        def visit_Name(self, node):
            return ast.copy_location(ast.Name(id='i', ctx=node.ctx), node) if node.id == lv else node
    if ast.dump(RenLv().visit(body[0])) != ast.dump(want):
        raise Untranslatable(q, body[0].lineno, 'loop is not `for i in range(len(self.signals)): self.signal_by_index(i).generate_response_spectrum()`')
    defs.append("/-- `Cluster.generate_response_spectrums()`: `gen i` = outcome of `generate_response_spectrum()` on signal `i` (`AttributeError` for a plain\n"
                "`Signal`), `n = len(self.signals)`; the first exception ends the loop -/\n"
                "def generateResponseSpectrums (gen : Nat → Except ErrKind Unit) (n : Nat) : Except ErrKind Unit :=\n"
                "  NpP.forRangeE (fun (_ : Unit) i => gen i) 0 n ()")

    # ---- calculate_ratios: `self.generate_response_spectrums()`, then the first thing evaluated is `self.motions(1)`
    fn = R.find_function(mod, 'calculate_ratios', 'Cluster')
    q = 'Cluster.calculate_ratios'
    body = R.body_of(fn)
    if [a.arg for a in fn.args.args] != ['self'] or len(body) < 2 or not (isinstance(body[0], ast.Expr) and is_self_call(body[0].value, 'generate_response_spectrums') and
                                                                           not body[0].value.args and not body[0].value.keywords):
        raise Untranslatable(q, fn.lineno, 'first statement is not `self.generate_response_spectrums()`')
    # evaluation order of the second statement: the first attribute of `self` that is loaded
    st = body[1]
    if not (isinstance(st, ast.Assign) and isinstance(st.value, ast.Call) and R.np_name(st.value.func) == 'np.log10' and len(st.value.args) == 1):
        raise Untranslatable(q, st.lineno, 'second statement is not `… = np.log10(…)`')
    first = None
    n = st.value.args[0]
    while True:
        if isinstance(n, ast.BinOp):
            n = n.left
        elif isinstance(n, ast.Attribute) and not (isinstance(n.value, ast.Name) and n.value.id == 'self'):
            n = n.value
        elif isinstance(n, ast.Call):
            n = n.func
        else:
            break
    if isinstance(n, ast.Attribute) and isinstance(n.value, ast.Name) and n.value.id == 'self':
        first = n.attr
    if first is None:
        raise Untranslatable(q, st.lineno, 'cannot determine the first attribute of self that is evaluated')
    has = any(isinstance(m, ast.FunctionDef) and m.name == first for m in cls.body) or \
        any(isinstance(x, ast.Attribute) and isinstance(x.value, ast.Name) and x.value.id == 'self' and x.attr == first and isinstance(x.ctx, ast.Store)
            for x in ast.walk(cls)) or any(isinstance(m, ast.Assign) and any(isinstance(t, ast.Name) and t.id == first for t in m.targets) for m in cls.body)
    if has or cls.bases and not (len(cls.bases) == 1 and isinstance(cls.bases[0], ast.Name) and cls.bases[0].id == 'object'):
        raise Untranslatable(q, st.lineno, f"`self.{first}` exists (or the class has a base): the rest of the body is not supported")
    defs.append(f"/-- `Cluster.calculate_ratios()`: `spectra` = outcome of `self.generate_response_spectrums()`; the next thing evaluated is `self.{first}` and the class\n"
                f"`Cluster(object)` neither defines nor assigns `{first}`: `AttributeError` -/\n"
                "def calculateRatios (spectra : Except ErrKind Unit) : Except ErrKind Unit := do\n  let _ ← spectra\n  let _ ← NpV.attrE false\n  pure ()")
    defs.append(f"/-- the attribute of `self` whose lookup fails in `calculate_ratios` -/\ndef calculateRatiosMissingAttr : String := \"{first}\"")
    text = "\n".join([
        "-- GENERATED by tools/py2lean_x_rest2.py from eqsig/multiple.py (Cluster.values_by_index, signal_by_index, name_by_index, combine_motions,",
        "-- generate_response_spectrums, calculate_ratios). Do not edit.",
        "import EqsigVerif.Prelude.NpW", "import EqsigVerif.Prelude.NpF", "",
        "set_option linter.unusedVariables false", "", f"namespace EqsigVerif.{ns}.ClusterFns",
        "open EqsigVerif EqsigVerif.Wire", "", "\n\n".join(defs), "", f"end EqsigVerif.{ns}.ClusterFns", ""])
    return {"ClusterFns.lean": text}


# =====================================================================================================================
# target 3: stockwell.transform_slow, dep_itransform
# =====================================================================================================================

def canon_names(stmts, keep):
    """rename local names by order of first assignment (`n0`, `n1`, …); names in `keep` stay"""
    order = []
    for st in stmts:
        for n in ast.walk(st):
            if isinstance(n, ast.Name) and isinstance(n.ctx, ast.Store) and n.id not in order and n.id not in keep:
                order.append(n.id)
    m = {n: f"n{i}" for i, n in enumerate(order)}

    class Rn(ast.NodeTransformer):
        def visit_Name(self, node):
            return ast.copy_location(ast.Name(id=m.get(node.id, node.id), ctx=node.ctx), node)
    return [ast.dump(Rn().visit(ast.parse(ast.unparse(st)).body[0])) for st in stmts]


def gen_stockwell2(repo, ns):
    path = os.path.join(repo, 'eqsig', 'stockwell.py')
    src = open(path).read()
    mod = ast.parse(src)
    # ---- transform_slow: the statements up to `diag_con = diag_con[1:n_d2 + 1, :]` must be those of `transform` (translated by py2lean_x_rest)
    q = 'transform_slow'
    fn = R.find_function(mod, q)
    ref = R.find_function(mod, 'transform')
    names, defaults = R.py_params(fn, q)
    if names != ['acc', 'interp', 'ith'] or set(defaults) != {'interp', 'ith'} or not (isinstance(defaults['ith'], ast.Constant) and
                                                                                       isinstance(defaults['ith'].value, int) and not isinstance(defaults['ith'].value, bool)):
        raise Untranslatable(q, fn.lineno, 'signature is not (acc, interp=…, ith=<int>)')
    if any(isinstance(n, ast.Name) and n.id == 'interp' for st in fn.body for n in ast.walk(st)):
        raise Untranslatable(q, fn.lineno, 'the parameter interp is used')
    imp = [st for st in fn.body if isinstance(st, ast.ImportFrom)]
    if len(imp) != 1 or imp[0].module != 'scipy.linalg' or [a.name for a in imp[0].names] != ['toeplitz'] or imp[0].names[0].asname:
        raise Untranslatable(q, fn.lineno, 'imports (expected `from scipy.linalg import toeplitz`)')
    body, rbody = R.body_of(fn), R.body_of(ref)
    npre = len(rbody) - 2                       # transform: prefix …; `stock = np.flipud(np.fft.ifft(diag_con * gaussian, axis=1))`; `return stock`
    if npre < 1 or len(body) < npre + 1:
        raise Untranslatable(q, fn.lineno, 'body shorter than the prefix of transform')
    keep = {'acc', 'np', 'toeplitz', 'int', 'len', 'generate_gaussian'}
    if canon_names(body[:npre], keep) != canon_names(rbody[:npre], keep):
        raise Untranslatable(q, body[0].lineno, 'the statements before the product differ from those of `transform`')
    # names of `diag_con` and `gaussian` = the operands of the product in `transform`
    pre_names = []
    for st in body[:npre]:
        if isinstance(st, ast.Assign) and isinstance(st.targets[0], ast.Name):
            pre_names.append(st.targets[0].id)
    tail = body[npre:]
    tmpl = ("SKIP = 0\nAA = DIAG[SKIP:, :] * GAUSS[SKIP:, :]\nUP = np.zeros_like(AA)\nAA = AA[:-ith, :]\nUP[:-ith, :] = np.fft.ifft(AA, axis=1)\n"
            "ST = np.flipud(UP)\nreturn ST")
    want = ast.parse(tmpl).body
    if len(tail) != len(want):
        raise Untranslatable(q, tail[0].lineno if tail else fn.lineno, 'the statements after the Toeplitz rows are not the 7 expected ones')
    if not (isinstance(tail[0], ast.Assign) and isinstance(tail[0].targets[0], ast.Name) and isinstance(tail[0].value, ast.Constant) and
            isinstance(tail[0].value.value, int) and not isinstance(tail[0].value.value, bool) and tail[0].value.value >= 0):
        raise Untranslatable(q, tail[0].lineno, '`skip_is = <non-negative integer literal>` expected')
    skip = tail[0].value.value
    # bind the template names
    try:
        m = {'SKIP': tail[0].targets[0].id, 'AA': tail[1].targets[0].id, 'UP': tail[2].targets[0].id, 'ST': tail[5].targets[0].id,
             'DIAG': tail[1].value.left.value.id, 'GAUSS': tail[1].value.right.value.id}
    except AttributeError:
        raise Untranslatable(q, tail[1].lineno, 'shape of the statements after the Toeplitz rows')
    rprod = rbody[npre].value.args[0].args[0] if isinstance(rbody[npre], ast.Assign) else None
    try:
        ref_diag, ref_gauss = rprod.left.id, rprod.right.id
    except AttributeError:
        raise Untranslatable('transform', rbody[npre].lineno, 'shape of the product statement')
    # the operands must be the same prefix variables as in `transform` (positions in the prefix)
    rpre = [st.targets[0].id for st in rbody[:npre] if isinstance(st, ast.Assign) and isinstance(st.targets[0], ast.Name)]
    if len(set(m.values())) != 6 or rpre.index(ref_diag) != pre_names.index(m['DIAG']) if m['DIAG'] in pre_names else True:
        raise Untranslatable(q, tail[1].lineno, 'the product does not use the Toeplitz rows of the prefix')
    if m['GAUSS'] not in pre_names or rpre.index(ref_gauss) != pre_names.index(m['GAUSS']) or \
            [i for i, n in enumerate(pre_names) if n == m['DIAG']][-1] != [i for i, n in enumerate(rpre) if n == ref_diag][-1]:
        raise Untranslatable(q, tail[1].lineno, 'the product does not use the window / Toeplitz rows of the prefix')
    inv = {v: k for k, v in m.items()}

    class Rn(ast.NodeTransformer):
        def visit_Name(self, node):
            return ast.copy_location(ast.Name(id=inv.get(node.id, node.id), ctx=node.ctx), node)
    for a, b in zip(tail, want):
        a2 = Rn().visit(ast.parse(ast.unparse(a)).body[0])
        if isinstance(b, ast.Assign) and isinstance(b.value, ast.Constant) and isinstance(a2, ast.Assign) and isinstance(a2.value, ast.Constant):
            a2.value = ast.Constant(value=0)
        if ast.dump(a2) != ast.dump(b):
            raise Untranslatable(q, a.lineno, f"statement differs from `{ast.unparse(b)}`")
    rest_text = R.gen_stockwell_fns(repo, ns)['StockwellFns.lean']
    blk = rest_text[rest_text.index("\ndef transform "):]
    blk = blk[:blk.index("\n\n")].split('\n')
    k = [i for i, ln in enumerate(blk) if ln.strip().startswith('let e2 ← NpR.ifftRowsE')]
    head = [i for i, ln in enumerate(blk) if ln.rstrip().endswith(':= do')]
    if len(k) != 1 or len(head) != 1 or 'v3 v1' not in blk[k[0]]:
        raise Untranslatable('transform', ref.lineno, 'unexpected shape of the text generated by py2lean_x_rest for `transform`')
    prefix = blk[head[0] + 1:k[0]]
    sig_lines = blk[1:head[0] + 1]
    sig = "\n".join(sig_lines).replace("(acc : List β) :", "(acc : List β) (ith : Int) :")
    if sig.count("(ith : Int)") != 1:
        raise Untranslatable('transform', ref.lineno, 'unexpected signature text generated by py2lean_x_rest')
    lines = prefix + [
        f"  let v4 := List.zipWith (List.zipWith (fun d g => d * CxLike.ofReal g)) (v3.drop {skip}) (v1.drop {skip})",
        "  let v5 := v4.map (fun row => row.map (fun _ => (0 : β)))",
        "  let v6 := NpR.pyTo v4 (-ith)",
        "  let e2 ← NpR.ifftRowsE tw v6",
        "  let e3 ← NpR.setSlicePyE v5 (0 : Int) (-ith) e2",
        "  pure (NpE.flip e3)"]
    d1 = ("/-- `eqsig.stockwell.transform_slow(acc, interp, ith)`: the statements up to the Toeplitz rows are those of `transform` (same text as\n"
          "`StockwellFns.transform`); then `aa = diag_con[skip:, :] * gaussian[skip:, :]`, `upstock = np.zeros_like(aa)`, `aa = aa[:-ith, :]`,\n"
          "`upstock[:-ith, :] = np.fft.ifft(aa, axis=1)`, `np.flipud(upstock)`.  NOTE `[:-0]` is `[:0]`: with the default `ith=0` NO row is transformed -/\n"
          "def transformSlow " + sig.split("def transform ", 1)[1] + "\n" + "\n".join(lines))
    d2 = (f"/-- default of `ith` -/\ndef transformSlowIthDefault : Int := {defaults['ith'].value}\n\n"
          f"/-- the literal `skip_is` (number of low-frequency rows skipped) -/\ndef transformSlowSkip : Nat := {skip}")
    # ---- dep_itransform(stock): `from scipy.fftpack import ifft`; `return np.real(ifft(np.sum(stock, axis=1)))`
    q = 'dep_itransform'
    fn = R.find_function(mod, q)
    imp = [st for st in fn.body if isinstance(st, ast.ImportFrom)]
    body = R.body_of(fn)
    want = ast.parse("return np.real(ifft(np.sum(stock, axis=1)))").body[0]
    if [a.arg for a in fn.args.args] != ['stock'] or len(imp) != 1 or imp[0].module not in ('scipy.fftpack', 'scipy.fft', 'numpy.fft') or \
            [a.name for a in imp[0].names] != ['ifft'] or imp[0].names[0].asname or len(body) != 1 or ast.dump(body[0]) != ast.dump(want):
        raise Untranslatable(q, fn.lineno, 'body is not `from scipy.fftpack import ifft; return np.real(ifft(np.sum(stock, axis=1)))`')
    d3 = (f"/-- `eqsig.stockwell.dep_itransform(stock)`: `{imp[0].module}.ifft` is the defining sum with the twiddle table `tw` (assumption `FftIsDft`) at the length\n"
          "`len(stock)` of the row sums — HALF the length that `itransform` returns -/\n"
          "def depItransform {α β : Type} [Add β] [Mul β] [Div β] [OfNat β 0] [NatCast α] [CxLike α β]\n"
          "    (tw : Nat → Nat → β) (stock : List (List β)) :\n    Except ErrKind (List α) := do\n"
          "  let v1 := stock.map Cplx.sumL\n  let e1 ← NpE.ifft tw v1 v1.length\n  pure (e1.map (fun a => (CxLike.re a)))")
    text = "\n".join([
        "-- GENERATED by tools/py2lean_x_rest2.py from eqsig/stockwell.py (transform_slow, dep_itransform). Do not edit.",
        "import EqsigVerif.Prelude.NpR", f"import EqsigVerif.{ns}.StockwellFns", "",
        "set_option linter.unusedVariables false", "", f"namespace EqsigVerif.{ns}.StockwellFns2",
        f"open EqsigVerif EqsigVerif.Wire EqsigVerif.Cplx EqsigVerif.{ns}.StockwellFns", "", "\n\n".join([d1, d2, d3]), "", f"end EqsigVerif.{ns}.StockwellFns2", ""])
    return {"StockwellFns2.lean": text}


TARGETS = [gen_zero_peak, gen_cluster, gen_stockwell2]
