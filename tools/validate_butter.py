#!/venv/bin/python
"""Validation of lean/EqsigVerif/Model/Butter.lean (Float twin, run through the native driver) against the real
scipy.signal.butter / freqz.   usage: PYTHONPATH=/repo /venv/bin/python tools/validate_butter.py [driver]"""
import struct, subprocess, sys, random, os
import numpy as np
import scipy.signal as ss

DRIVER = sys.argv[1] if len(sys.argv) > 1 else os.path.join(os.path.dirname(__file__), '..', 'lean', '.lake', 'build', 'bin', 'eqsig_driver')

def wf(x): return 'b%d' % struct.unpack('<Q', struct.pack('<d', float(x)))[0]
def pf(t): return struct.unpack('<d', struct.pack('<Q', int(t[1:])))[0]

def drive(lines):
    r = subprocess.run([DRIVER], input='\n'.join(lines) + '\n', capture_output=True, text=True, check=True)
    return r.stdout.splitlines()

def impl(n, ft, wn):
    try:
        arg = wn[0] if (ft != 'band' and len(wn) == 1) else np.array(wn, dtype=float)
        b, a = ss.butter(n, arg, btype=ft)
        return ('ok', b, a)
    except ValueError:
        return ('err', 'ValueError')

rng = random.Random(20260928)
cases = []
# edge / raising inputs
for ft in ('low', 'high', 'band'):
    for wn in ([], [0.0], [1.0], [-0.25], [1.5], [0.5, 0.25], [0.25, 0.25], [0.0, 0.5], [0.25, 1.0], [0.25, 0.5, 0.75],
               [0.5], [0.25, 0.5], [0.75, 0.5, 0.25]):
        for n in (1, 2, 4):
            cases.append((n, ft, wn))
# dyadic / extreme cut-offs, orders 0..8
for n in range(0, 9):
    for w in (2.0 ** -10, 0.001, 1 / 64, 0.125, 0.25, 0.5, 0.75, 0.875, 0.99, 1 - 2.0 ** -10):
        cases.append((n, 'low', [w])); cases.append((n, 'high', [w]))
    for wl, wh in ((0.001, 0.99), (0.001, 0.002), (0.125, 0.25), (0.25, 0.75), (0.5, 0.5 + 2.0 ** -8), (0.9, 0.99), (0.01, 0.3),
                   (0.49, 0.51), (1 / 3, 2 / 3)):
        cases.append((n, 'band', [wl, wh]))
# random
for _ in range(600):
    n = rng.randint(1, 4)
    ft = rng.choice(('low', 'high', 'band'))
    if ft == 'band':
        a, b = sorted((rng.uniform(0.001, 0.99), rng.uniform(0.001, 0.99)))
        if rng.random() < 0.3:
            a = 10 ** rng.uniform(-3, -0.5); b = min(0.99, a * 10 ** rng.uniform(0.05, 2))
        if a == b: continue
        wn = [a, b]
    else:
        wn = [rng.uniform(0.001, 0.99) if rng.random() < 0.6 else 10 ** rng.uniform(-3, -0.005)]
    cases.append((n, ft, wn))

lines = ['c17.butter_ba|%d|%s|%s' % (n, ft, ' '.join(wf(w) for w in wn)) for n, ft, wn in cases]
outs = drive(lines)
bad = 0; worst = {}; nerr = 0
for (n, ft, wn), o in zip(cases, outs):
    r = impl(n, ft, wn)
    parts = o.split('|')
    if r[0] == 'err':
        nerr += 1
        if o != 'err|ValueError':
            bad += 1; print('MISMATCH (error)', n, ft, wn, o)
        continue
    if parts[0] != 'ok':
        bad += 1; print('MISMATCH (model raises)', n, ft, wn, o); continue
    mb = np.array([pf(t) for t in parts[1].split()]); ma = np.array([pf(t) for t in parts[2].split()])
    if mb.shape != r[1].shape or ma.shape != r[2].shape or np.iscomplexobj(r[1]) or np.iscomplexobj(r[2]):
        bad += 1; print('MISMATCH (shape/complex)', n, ft, wn); continue
    gb = np.max(np.abs(mb - r[1])) / np.max(np.abs(r[1])); ga = np.max(np.abs(ma - r[2])) / np.max(np.abs(r[2]))
    g = max(gb, ga); key = (ft, n)
    worst[key] = max(worst.get(key, 0.0), g)
    # orders 1..4 (the property's range): 1e-12 of the largest coefficient; higher orders: 1e-9
    tol = 1e-12 if n <= 4 else 1e-9
    if not g <= tol:
        bad += 1; print('MISMATCH (value)', n, ft, wn, g)
print('butter: %d cases (%d raising), mismatches: %d' % (len(cases), nerr, bad))
for k in sorted(worst): print('  worst relative gap', k, '%.2e' % worst[k])

# closed-form gain vs freqz of SciPy's own coefficients, and vs the model's (b, a)
gcases = [(n, ft, wn) for (n, ft, wn) in cases if impl(n, ft, wn)[0] == 'ok' and 1 <= n <= 4]
ws = [2.0 ** -9, 0.01, 0.05, 0.1, 0.2, 0.3, 0.4, 0.5, 0.6, 0.7, 0.8, 0.9, 0.97]
glines = ['c17.butter_gain|%d|%s|%s|%s' % (n, ft, ' '.join(wf(w) for w in wn), ' '.join(wf(w) for w in ws + wn[:2])) for n, ft, wn in gcases]
gouts = drive(glines)
gbad = 0; gworst = 0.0; hworst = 0.0; zworst = 0.0; nwell = 0
for (n, ft, wn), o in zip(gcases, gouts):
    parts = o.split('|')
    g = np.array([pf(t) for t in parts[1].split()]); h = np.array([pf(t) for t in parts[2].split()])
    r = impl(n, ft, wn)
    wall = np.array(ws + wn[:2])
    _, H = ss.freqz(r[1], r[2], worN=np.pi * wall)
    ref = np.abs(H) ** 2
    zz, pp, kk = ss.butter(n, wn[0] if ft != 'band' else np.array(wn), btype=ft, output='zpk')
    _, Hz = ss.freqz_zpk(zz, pp, kk, worN=np.pi * wall)
    refz = np.abs(Hz) ** 2
    # reference 1: SciPy's zeros-poles-gain form (well conditioned): everywhere
    d0 = np.max(np.abs(g - refz)); zworst = max(zworst, d0)
    if not d0 <= 1e-9:
        gbad += 1; print('GAIN MISMATCH (zpk)', n, ft, wn, d0)
    # reference 2: SciPy's (b, a) (what filtfilt gets).  The polynomial form of a narrow or very low band is ill-conditioned
    # (its own response is off by up to 1e-6 .. 0.6, see NOTES): compared where it is well conditioned
    d1 = np.max(np.abs(g - ref)); d2 = np.max(np.abs(h - ref))
    well = n <= 2 and min(wn) >= 0.01 or (ft != 'band' and 0.02 <= wn[0] <= 0.98) or (ft == 'band' and wn[0] >= 0.05 and wn[1] <= 0.95 and wn[1] - wn[0] >= 0.1)
    if well:
        nwell += 1
        gworst = max(gworst, d1); hworst = max(hworst, d2)
        if not d1 <= 1e-9:
            gbad += 1; print('GAIN MISMATCH', n, ft, wn, d1)
    # cut-off: gain 1/2
    cut = g[len(ws):]
    if not np.all(np.abs(cut - 0.5) <= 1e-12):
        gbad += 1; print('CUT-OFF GAIN', n, ft, wn, cut)
print('gain: %d filters x %d frequencies, mismatches: %d; worst |gainSq - |freqz_zpk|^2| = %.2e (all); '
      'worst |gainSq - |freqz(b,a)|^2| = %.2e, model (b,a) vs SciPy (b,a) response %.2e (%d well-conditioned filters)'
      % (len(gcases), len(ws) + 1, gbad, zworst, gworst, hworst, nwell))
sys.exit(1 if (bad or gbad) else 0)
