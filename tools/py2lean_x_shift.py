"""py2lean plug-in (area: time shift / surface / multiple / mutators / time-step grid).

A small *symbolic executor* for the index-arithmetic subset of Python/NumPy used by

  * eqsig/fns/time_shift.py, eqsig/surface.py            -> Gen/TimeShift.lean   (bridges: Props/C19Gen.lean)
  * eqsig/multiple.py, single.get_section_average          -> Gen/MultipleFns.lean (bridges: Props/C18Gen.lean)
  * the simple mutators of eqsig/single.py                -> Gen/Mutators.lean    (bridges: Props/C17Gen.lean)
  * eqsig/fns/time_step.py beyond the factor rule         -> Gen/TimeStepGrid.lean (bridges: Props/C14GenInterp.lean)

Fixed translation rules (everything else raises Untranslatable(function, line, construct)):

  values      every Python value is a scalar or an array seen *entry-wise*: an array is (entry expression, axes, axis lengths);
              element-wise operators act on the entry expressions, NumPy broadcasting is checked on the axes
              (`a[np.newaxis, :]` = axis k, `b[:, np.newaxis]` = axis i, 1-D against 2-D only along the trailing axis k)
  temporaries `name = expr` binds the symbolic value (temporaries are inlined; renaming them changes nothing)
  if/else     both branches are executed; a variable whose value differs afterwards becomes a generated definition
              `<fn>Merge<n> := if c then a else b` and a fresh parameter of every later definition;
              `return` / `raise` are recorded with their path condition
  for         `for i, j in enumerate(X)` / `for i in range(len(X))` / `for i in range(n)`: the body is executed once for a
              generic index; every slice read/write of the body is recorded (array, row, lo, hi, source)
  numbers     `+ - *` on ints -> Int, `/` -> Rat (true division), `int(x)` and `np.array(x, dtype=int)` -> `truncZ`
              (truncation toward zero), `np.max([a, b])`/`max(a, b)` -> `max a b`, `np.max(arr)`/`np.min(arr)` -> a named
              parameter (the bridge theorems carry the hypothesis "is the maximum of …"), `len(a)` -> `a.length`,
              `np.ceil`/`np.floor` -> `Rat.ceil`/`Rat.floor`, `abs`/`np.abs` -> `Np.absv`, comparisons -> Prop
  NumPy calls `np.pad(x, (a, b), constant_values=c)`, `np.interp(x, np.arange(n), v, left=, right=)` -> `Interp.interpUnit`,
              `cumulative_trapezoid(a, dx=, initial=0)` -> `Np.cumtrapz`, `np.diff(a, prepend=p)` -> `Np.diffFrom p`,
              `np.cumsum` -> `Np.cumsum`, `np.abs` -> `Np.absL`/`Np.absv`, `np.zeros(shape)`, `np.zeros_like`

The statement *skeleton* of every function (which events occur, in which order, on which arrays) is checked by the per-function
generator below; every expression that occurs in an event is emitted as one Lean definition named after its role.
Standard library only; deterministic.
"""
import ast
import os
import re
from collections import OrderedDict

try:
    from py2lean_struct import Untranslatable
except Exception:  # pragma: no cover
    class Untranslatable(Exception):
        def __init__(self, function, line, construct):
            super().__init__(f"{function}:{line}: {construct}")
            self.function, self.line, self.construct = function, line, construct


def lit_text(seg):
    t = seg.replace('_', '')
    if t.endswith('.'):
        t = t[:-1]
    if t.startswith('.'):
        t = '0' + t
    if 'e' in t.lower():
        mant, exp = t.lower().split('e')
        if '.' not in mant:
            mant += '.0'
        t = f"{mant}e{int(exp)}"
    return t


def find_function(mod, name, cls=None):
    body = mod.body
    if cls is not None:
        for n in mod.body:
            if isinstance(n, ast.ClassDef) and n.name == cls:
                body = n.body
                break
        else:
            raise Untranslatable(f"{cls}.{name}", 0, "class not found")
    for n in body:
        if isinstance(n, ast.FunctionDef) and n.name == name:
            return n
    raise Untranslatable(name, 0, "function not found")


LEAN_TY = {'int': 'Int', 'rat': 'Rat', 'bool': 'Bool', 'str': 'String', 'prop': 'Prop'}
AXES = 'ik'


class Val:
    """symbolic value; for arrays `text` is the generic entry, `axes` the axes it varies along, `ndim` its NumPy rank"""

    def __init__(self, kind, text, axes=(), ndim=0, dims=None, lit=False, meta=None):
        self.kind, self.text, self.axes, self.ndim = kind, text, tuple(axes), ndim
        self.dims = dict(dims or {})
        self.lit = lit
        self.meta = dict(meta or {})

    def key(self):
        return (self.kind, self.text, self.axes, self.ndim, tuple(sorted(self.dims.items())), tuple(sorted((k, str(v)) for k, v in self.meta.items())))

    def with_(self, **kw):
        v = Val(self.kind, self.text, self.axes, self.ndim, self.dims, self.lit, self.meta)
        for k, x in kw.items():
            setattr(v, k, x)
        return v


def atom(t):
    return re.fullmatch(r"[A-Za-z_][A-Za-z0-9_.']*|\d+(\.\d+)?(e-?\d+)?|\"[^\"]*\"", t) is not None or \
        (t.startswith('(') and t.endswith(')') and _balanced(t))


def _balanced(t):
    depth = 0
    for i, ch in enumerate(t):
        depth += ch == '('
        depth -= ch == ')'
        if depth == 0 and i < len(t) - 1:
            return False
    return True


def par(t):
    return t if atom(t) else f"({t})"


def strip_outer(t):
    if t.startswith('(') and t.endswith(')') and _balanced(t) and not re.search(r":\s*(Rat|Int|Nat|Bool|String)\)$", t):
        return t[1:-1]
    return t


class Sym:
    """symbolic executor of one Python function"""

    def __init__(self, fname, src, prefix):
        self.fname, self.src, self.prefix = fname, src, prefix
        self.syms = OrderedDict()       # Lean parameter name -> Lean type
        self.sym_doc = OrderedDict()    # parameter name -> what it stands for
        self.events = []
        self.defs = []                  # (name, text) of emitted Lean definitions, in order
        self.n_merge = 0
        self.loop_stack = []
        self.red_key = {}               # reduction parameter -> canonical sort key
        self.canon = {}                 # parameter -> rename-independent description (for the signature table)
        self.sigs = []                  # (definition, [canonical parameter descriptions])
        self.renames = {}               # definition renamed by role after it was emitted
        self.dual = None                # (test parameter, {param: array Val}, {param: scalar Val}) for `hasattr(p, '__len__')`

    # ---------- bookkeeping
    def fail(self, node, what):
        seg = ''
        try:
            seg = ast.get_source_segment(self.src, node) or ''
        except Exception:
            pass
        raise Untranslatable(self.fname, getattr(node, 'lineno', 0), (what + ': ' + seg.split('\n')[0]).strip())

    def sym(self, name, ty, doc=None, canon=None):
        base, n = name, 1
        while name in self.syms and self.syms[name] != ty:
            n += 1
            name = f"{base}_{n}"
        self.syms[name] = ty
        if doc:
            self.sym_doc[name] = doc
        if canon:
            self.canon[name] = canon
        return name

    def fresh(self, name, ty, doc=None, canon=None):
        base, n = name, 1
        while name in self.syms:
            n += 1
            name = f"{base}_{n}"
        self.syms[name] = ty
        if doc:
            self.sym_doc[name] = doc
        if canon:
            self.canon[name] = canon
        return name

    def canon_text(self, text):
        """text with every parameter replaced by its rename-independent description"""
        return re.sub(r"[A-Za-z_][A-Za-z0-9_']*", lambda m: '⟨' + self.canon[m.group(0)] + '⟩' if m.group(0) in self.canon else m.group(0), text)

    def signature_def(self):
        seen, sigs = set(), []
        for n, cs in self.sigs:
            n = self.renames.get(n, n)
            cs = [self.renames.get(c, c) for c in cs]
            if (n, tuple(cs)) not in seen:
                seen.add((n, tuple(cs)))
                sigs.append((n, cs))
        rows = ',\n   '.join('("%s", [%s])' % (n, ', '.join('"%s"' % c.replace('"', "'") for c in cs)) for n, cs in sigs)
        return (f"/-- which quantity each parameter of each definition above stands for (checked by the bridge module) -/\n"
                f"def {self.prefix}Signatures : List (String × List String) :=\n  [{rows}]")

    def used(self, text):
        toks = set(re.findall(r"[A-Za-z_][A-Za-z0-9_']*", text))
        plain = [(s, t) for s, t in self.syms.items() if s in toks and s not in self.red_key]
        red = sorted(((s, t) for s, t in self.syms.items() if s in toks and s in self.red_key), key=lambda st: self.red_key[st[0]])
        return plain + red

    def emit(self, role, val, doc, ty=None):
        """one Lean definition `<prefix><Role>` whose parameters are the symbols occurring in the text"""
        if isinstance(val, Val):
            text, kind = val.text, val.kind
        else:
            text, kind = val, None
        ty = ty or LEAN_TY[kind]
        if ty == 'Prop':
            text, ty = f"decide ({strip_outer(text)})", 'Bool'
        name = self.prefix + role
        ps = self.used(text)
        sig = ' '.join(f"({s} : {t})" for s, t in ps)
        pdocs = [f"`{s}` = {self.sym_doc[s]}" for s, _ in ps if s in self.sym_doc]
        d = doc + ('; ' + ', '.join(pdocs) if pdocs else '')
        self.sigs.append((name, [self.canon.get(s, s) for s, _ in ps]))
        self.defs.append((name, f"/-- {d} -/\ndef {name}{' ' if sig else ''}{sig} : {ty} :=\n  {strip_outer(text)}"))
        return name

    # ---------- numbers
    def to_rat(self, v):
        if v.kind == 'rat':
            return v.text
        if v.kind == 'int':
            return v.text if v.lit else f"(({strip_outer(v.text)} : Int) : Rat)"
        raise Untranslatable(self.fname, 0, f"number expected, got {v.kind}: {v.text}")

    def combine(self, node, a, b):
        """broadcast check; returns (axes, ndim, dims)"""
        nd = max(a.ndim, b.ndim)
        for x, y in ((a, b), (b, a)):
            if x.ndim == 1 and y.ndim == 2 and x.axes != ('k',):
                self.fail(node, f"1-D array along axis {x.axes} broadcast against a 2-D array")
            if x.ndim == 1 and y.ndim == 1 and x.axes != y.axes:
                self.fail(node, "1-D arrays along different axes")
        axes = tuple(ax for ax in AXES if ax in a.axes or ax in b.axes)
        dims = dict(a.dims)
        for k, v in b.dims.items():
            dims.setdefault(k, v)
        return axes, nd, dims

    def binop(self, node, op, a, b):
        if a.kind not in ('int', 'rat') or b.kind not in ('int', 'rat'):
            self.fail(node, f"operator {op} on {a.kind}/{b.kind}")
        axes, nd, dims = self.combine(node, a, b)
        if op == '/' or a.kind == 'rat' or b.kind == 'rat':
            return Val('rat', f"{par(self.to_rat(a))} {op} {par(self.to_rat(b))}", axes, nd, dims)
        return Val('int', f"{par(a.text)} {op} {par(b.text)}", axes, nd, dims)

    # ---------- expressions
    def np_name(self, f):
        if isinstance(f, ast.Attribute) and isinstance(f.value, ast.Name) and f.value.id == 'np':
            return 'np.' + f.attr
        if isinstance(f, ast.Name):
            return f.id
        return None

    def tr(self, e, env):
        if isinstance(e, ast.Name):
            if e.id in env:
                return env[e.id]
            self.fail(e, 'unknown name')
        if isinstance(e, ast.Constant):
            v = e.value
            if isinstance(v, bool):
                return Val('bool', 'true' if v else 'false', lit=True)
            if v is None:
                return Val('none', 'none', lit=True)
            if isinstance(v, int):
                return Val('int', str(v), lit=True)
            if isinstance(v, float):
                return Val('rat', lit_text(ast.get_source_segment(self.src, e)), lit=True)
            if isinstance(v, str):
                return Val('str', '"' + v + '"', lit=True)
            self.fail(e, 'literal')
        if isinstance(e, ast.Attribute):
            if isinstance(e.value, ast.Name) and e.value.id in env and env[e.value.id].kind == 'obj':
                attrs = env[e.value.id].meta['attrs']
                if e.attr in attrs:
                    return attrs[e.attr]
            self.fail(e, 'attribute')
        if isinstance(e, ast.UnaryOp):
            if isinstance(e.op, ast.USub):
                v = self.tr(e.operand, env)
                if v.kind not in ('int', 'rat'):
                    self.fail(e, 'negation of a non-number')
                if v.lit:
                    return v.with_(text=f"(-{v.text})", lit=False) if v.kind == 'rat' else Val('int', f"(-{v.text})", lit=True)
                return v.with_(text=f"-{par(v.text)}", lit=False)
            if isinstance(e.op, ast.Not):
                return self.neg(self.cond(e.operand, env))
            self.fail(e, 'unary operator')
        if isinstance(e, ast.BinOp):
            if isinstance(e.op, ast.Pow):
                a = self.tr(e.left, env)
                if isinstance(e.right, ast.Constant) and e.right.value == 2 and a.kind in ('int', 'rat'):
                    return a.with_(text=f"{par(a.text)} * {par(a.text)}", lit=False)
                b = self.tr(e.right, env)
                if a.kind == 'int' and a.lit and b.kind == 'int':
                    return Val('int', f"(({a.text} : Int) ^ ({strip_outer(b.text)}).toNat)")
                self.fail(e, 'power')
            op = {ast.Add: '+', ast.Sub: '-', ast.Mult: '*', ast.Div: '/'}.get(type(e.op))
            if op is None:
                self.fail(e, f"operator {type(e.op).__name__}")
            a, b = self.tr(e.left, env), self.tr(e.right, env)
            # Python list algebra: [x] * n + list(...)
            if a.kind in ('list', 'pylist') or b.kind in ('list', 'pylist'):
                return self.list_binop(e, op, a, b)
            return self.binop(e, op, a, b)
        if isinstance(e, (ast.Compare, ast.BoolOp)):
            return self.cond(e, env)
        if isinstance(e, ast.Subscript):
            return self.subscript(e, env)
        if isinstance(e, ast.Call):
            return self.call(e, env)
        if isinstance(e, ast.Tuple):
            return Val('tuple', '', meta={'elts': [self.tr(x, env) for x in e.elts]})
        if isinstance(e, ast.List):
            return Val('pylist', '', meta={'elts': [self.tr(x, env) for x in e.elts]})
        self.fail(e, f"expression {type(e).__name__}")

    def list_binop(self, e, op, a, b):
        self.fail(e, 'list operator')

    def neg(self, c):
        if c.kind == 'bool':
            return Val('bool', f"!{par(c.text)}")
        return Val('prop', f"¬{par(c.text)}")

    def as_prop(self, c):
        return c.text if c.kind == 'prop' else f"{par(c.text)} = true"

    def cond(self, e, env):
        if isinstance(e, ast.BoolOp):
            vs = [self.cond(x, env) for x in e.values]
            if all(v.kind == 'bool' for v in vs):
                op = ' && ' if isinstance(e.op, ast.And) else ' || '
                return Val('bool', op.join(par(v.text) for v in vs))
            op = ' ∧ ' if isinstance(e.op, ast.And) else ' ∨ '
            return Val('prop', op.join(par(self.as_prop(v)) for v in vs))
        if isinstance(e, ast.UnaryOp) and isinstance(e.op, ast.Not):
            return self.neg(self.cond(e.operand, env))
        if isinstance(e, ast.Compare):
            if len(e.ops) != 1:
                self.fail(e, 'chained comparison')
            o, l, r = e.ops[0], e.left, e.comparators[0]
            if isinstance(o, (ast.Is, ast.IsNot)):
                lv = self.tr(l, env)
                if isinstance(r, ast.Constant) and r.value is None and lv.kind == 'opt':
                    return Val('bool', f"{par(lv.text)}.isNone" if isinstance(o, ast.Is) else f"{par(lv.text)}.isSome")
                if isinstance(r, ast.Constant) and isinstance(r.value, bool) and lv.kind == 'bool':
                    t = 'true' if r.value else 'false'
                    return Val('prop', f"{par(lv.text)} = {t}" if isinstance(o, ast.Is) else f"{par(lv.text)} ≠ {t}")
                self.fail(e, 'is-comparison')
            if isinstance(o, (ast.In, ast.NotIn)):
                lv = self.tr(l, env)
                if lv.kind == 'str' and isinstance(r, (ast.List, ast.Tuple)) and r.elts and \
                        all(isinstance(x, ast.Constant) and isinstance(x.value, str) for x in r.elts):
                    t = ' ∨ '.join(f'{par(lv.text)} = "{x.value}"' for x in r.elts)
                    return Val('prop', t if isinstance(o, ast.In) else f"¬({t})")
                self.fail(e, 'membership test')
            lv, rv = self.tr(l, env), self.tr(r, env)
            op = {ast.Lt: '<', ast.LtE: '≤', ast.Gt: '>', ast.GtE: '≥', ast.Eq: '=', ast.NotEq: '≠'}.get(type(o))
            if op is None:
                self.fail(e, 'comparison operator')
            if lv.kind == 'str' and rv.kind == 'str' and op in '=≠':
                return Val('prop', f"{par(lv.text)} {op} {par(rv.text)}")
            if lv.kind in ('int', 'rat') and rv.kind in ('int', 'rat'):
                axes, nd, dims = self.combine(e, lv, rv)
                if nd:
                    self.fail(e, 'comparison of arrays')
                if lv.kind == 'rat' or rv.kind == 'rat':
                    return Val('prop', f"{par(self.to_rat(lv))} {op} {par(self.to_rat(rv))}")
                if lv.lit and rv.lit:
                    return Val('prop', f"({lv.text} : Int) {op} {rv.text}")
                return Val('prop', f"{par(lv.text)} {op} {par(rv.text)}")
            self.fail(e, f"comparison of {lv.kind} with {rv.kind}")
        v = self.tr(e, env)
        if v.kind in ('bool', 'prop'):
            return v
        if v.kind == 'int' and not v.ndim:          # truthiness of an int
            return Val('prop', f"{par(v.text)} ≠ 0")
        self.fail(e, 'condition')

    def is_newaxis(self, n):
        return isinstance(n, ast.Attribute) and isinstance(n.value, ast.Name) and n.value.id == 'np' and n.attr == 'newaxis'

    def is_full(self, n):
        return isinstance(n, ast.Slice) and n.lower is None and n.upper is None and n.step is None

    def subscript(self, e, env):
        base = self.tr(e.value, env)
        s = e.slice
        if isinstance(s, ast.Tuple) and len(s.elts) == 2 and base.ndim == 1 and base.kind in ('int', 'rat'):
            a, b = s.elts
            if self.is_newaxis(a) and self.is_full(b):
                if base.axes not in (('k',), ()):
                    self.fail(e, 'row expansion of an array that is not along axis k')
                return base.with_(ndim=2)
            if self.is_full(a) and self.is_newaxis(b):
                if base.axes not in (('i',), ()):
                    self.fail(e, 'column expansion of an array that is not along axis i')
                return base.with_(ndim=2)
        if base.kind in ('int', 'rat') and base.ndim == 1 and not isinstance(s, (ast.Slice, ast.Tuple)):
            idx = self.tr(s, env)
            # generic element of the loop's array: a[i] with i the current loop index
            if self.loop_stack and idx.kind == 'int' and idx.text == self.loop_stack[-1]['index'] and base.axes == (self.loop_stack[-1]['axis'],):
                return base.with_(ndim=0, meta=dict(base.meta, elem_of_loop=True))
            return self.index_hook(e, base, idx, env)
        return self.subscript_hook(e, base, env)

    def index_hook(self, e, base, idx, env):
        self.fail(e, 'index')

    def subscript_hook(self, e, base, env):
        self.fail(e, 'subscript')

    def opaque_reduce(self, e, which, arr):
        """np.max(arr) / np.min(arr): a named parameter"""
        for ev in self.events:          # the same reduction of the same array is the same parameter
            if ev['ev'] == 'reduce' and ev['which'] == which and ev['arr'].text == arr.text:
                return Val(arr.kind, ev['sym'])
        nm = arr.meta.get('name') or f"arg{1 + len(self.red_key)}"
        ty = LEAN_TY[arr.kind]
        s = self.fresh(f"{which}_{nm}", ty, f"np.{which} of the array with entries `{strip_outer(arr.text)}`",
                       canon=f"np.{which} of {self.canon_text(strip_outer(arr.text))}")
        self.red_key[s] = (which, arr.text)
        self.events.append(dict(ev='reduce', which=which, sym=s, arr=arr))
        return Val(arr.kind, s)

    def call(self, e, env):
        name = self.np_name(e.func)
        kw = {k.arg: k.value for k in e.keywords}
        args = e.args
        if name == 'len' and len(args) == 1 and not kw:
            v = self.tr(args[0], env)
            if v.ndim == 1 and len(v.axes) == 1 and v.axes[0] in v.dims:
                return Val('int', v.dims[v.axes[0]])
            if v.kind == 'pylen':
                return Val('int', v.text)
            if 'len' in v.meta:
                return Val('int', v.meta['len'])
            self.fail(e, 'len of a value without a known length')
        if name == 'int' and len(args) == 1 and not kw:
            v = self.tr(args[0], env)
            if v.ndim:
                self.fail(e, 'int() of an array')
            if v.kind == 'int':
                return v
            if v.kind == 'rat':
                return Val('int', f"truncZ {par(v.text)}")
        if name == 'np.array' and len(args) == 1:
            if set(kw) == {'dtype'} and isinstance(kw['dtype'], ast.Name) and kw['dtype'].id == 'int':
                v = self.tr(args[0], env)
                if v.kind == 'rat':
                    return v.with_(kind='int', text=f"truncZ {par(v.text)}", lit=False)
                if v.kind == 'int':
                    return v
            if not kw:
                v = self.tr(args[0], env)
                if v.kind in ('int', 'rat') and v.ndim >= 1:
                    return v
                if v.kind == 'pylist' and len(v.meta['elts']) == 1 and v.meta['elts'][0].ndim == 0:
                    return v.meta['elts'][0].with_(ndim=1, meta=dict(v.meta['elts'][0].meta, singleton=True))
        if name in ('np.ceil', 'np.floor') and len(args) == 1 and not kw:
            v = self.tr(args[0], env)
            if v.ndim == 0 and v.kind in ('int', 'rat'):
                return Val('int', f"Rat.{name[3:]} {par(self.to_rat(v))}", meta={'float_int': True})
        if name in ('abs', 'np.abs') and len(args) == 1 and not kw:
            v = self.tr(args[0], env)
            if v.kind in ('int', 'rat'):
                return v.with_(text=f"Np.absv {par(v.text)}", lit=False)
        if name in ('np.max', 'np.min', 'max', 'min'):
            which = name[-3:]
            if len(args) == 1 and not kw and isinstance(args[0], ast.List) and len(args[0].elts) == 2 and name.startswith('np.'):
                a, b = (self.tr(x, env) for x in args[0].elts)
            elif len(args) == 2 and not kw and not name.startswith('np.'):
                a, b = (self.tr(x, env) for x in args)
            elif len(args) == 1 and not kw:
                v = self.tr(args[0], env)
                if v.ndim == 1 and v.kind in ('int', 'rat'):
                    return self.opaque_reduce(e, which, v)
                self.fail(e, 'reduction')
            else:
                self.fail(e, 'max/min call')
            if a.ndim or b.ndim or a.kind not in ('int', 'rat') or b.kind not in ('int', 'rat'):
                self.fail(e, 'max/min of non-scalars')
            if a.kind == 'rat' or b.kind == 'rat':
                return Val('rat', f"{which} {par(self.to_rat(a))} {par(self.to_rat(b))}")
            return Val('int', f"{which} {par(a.text)} {par(b.text)}")
        if name == 'np.zeros_like' and len(args) == 1 and not kw:
            v = self.tr(args[0], env)
            if v.kind in ('int', 'rat') and v.ndim:
                return Val(v.kind, '0', v.axes, v.ndim, v.dims, lit=True, meta={'zeros_like': True})
        if name == 'np.zeros' and len(args) == 1 and not kw and isinstance(args[0], ast.Tuple) and len(args[0].elts) == 2:
            r, c = (self.tr(x, env) for x in args[0].elts)
            if r.kind == 'int' and c.kind == 'int' and not r.ndim and not c.ndim:
                return Val('zeros2', '', meta={'rows': r, 'cols': c})
        if name == 'np.arange' and len(args) == 1 and not kw:
            n = self.tr(args[0], env)
            if n.kind == 'int' and not n.ndim:
                s = self.sym('k', 'Int', 'the generic index along the time axis')
                return Val('int', s, ('k',), 1, {'k': n.text}, meta={'arange': n.text})
            if n.kind == 'rat' and not n.ndim:      # len(np.arange(x)) = ceil(x) for a float stop
                s = self.sym('k', 'Int', 'the generic index along the time axis')
                t = f"Rat.ceil {par(n.text)}"
                return Val('int', s, ('k',), 1, {'k': t}, meta={'arange': t})
        if name == 'np.pad' and len(args) == 2 and set(kw) <= {'mode', 'constant_values'} and 'constant_values' in kw:
            if 'mode' in kw and not (isinstance(kw['mode'], ast.Constant) and kw['mode'].value == 'constant'):
                self.fail(e, 'np.pad mode')
            v = self.tr(args[0], env)
            w = self.tr(args[1], env)
            c = self.tr(kw['constant_values'], env)
            if v.ndim == 1 and v.axes == ('k',) and w.kind == 'tuple' and len(w.meta['elts']) == 2 and \
                    all(x.kind == 'int' and not x.ndim for x in w.meta['elts']) and c.kind in ('int', 'rat') and not c.ndim:
                b, a = w.meta['elts']
                s = self.fresh('padded_' + (v.meta.get('name') or 'a'), LEAN_TY[v.kind], 'the generic entry of the padded array',
                               canon=f"entry of np.pad of {self.canon_text(v.text)}")
                self.events.append(dict(ev='pad', arr=v, before=b, after=a, value=c, sym=s))
                return Val(v.kind, s, ('k',), 1, {'k': f"{v.dims['k']} + {par(b.text)} + {par(a.text)}"}, meta={'name': s})
            self.fail(e, 'np.pad arguments')
        if name == 'np.interp' and len(args) == 3 and set(kw) in ({'left', 'right'}, set()):
            x = self.tr(args[0], env)
            xp = self.tr(args[1], env)
            fp = self.tr(args[2], env)
            if kw:
                l, r = self.tr(kw['left'], env), self.tr(kw['right'], env)
            elif 'whole' in fp.meta:                # NumPy defaults: left = fp[0], right = fp[-1]
                w = fp.meta['whole']
                l, r = Val('rat', f"{w}.getD 0 0"), Val('rat', f"{w}.getD ({w}.length - 1) 0")
            else:
                self.fail(e, 'np.interp on a derived array')
            if 'arange' in xp.meta and 'whole' in fp.meta and xp.meta['arange'] == fp.dims.get('k') and x.kind in ('int', 'rat') \
                    and not l.ndim and not r.ndim:
                sy = self.fresh('interp_' + (x.meta.get('name') or 'x'), 'Rat', 'the generic entry of the result of np.interp',
                                canon=f"entry of np.interp at {self.canon_text(x.text)}")
                self.events.append(dict(ev='interp', x=x, fp=fp, left=l, right=r, sym=sy,
                                        text=f"Interp.interpUnit {fp.meta['whole']} {par(self.to_rat(l))} {par(self.to_rat(r))} {par(self.to_rat(x))}"))
                return Val('rat', sy, x.axes, x.ndim, x.dims, meta={'name': sy})
            self.fail(e, 'np.interp arguments (expected x, np.arange(len(fp)), fp, left=, right=)')
        return self.call_hook(e, name, kw, env)

    def call_hook(self, e, name, kw, env):
        self.fail(e, 'call')

    # ---------- statements
    def pc_text(self, pc):
        if not pc:
            return Val('bool', 'true')
        if all(c.kind == 'bool' for c in pc):
            return Val('bool', ' && '.join(par(c.text) for c in pc))
        return Val('prop', ' ∧ '.join(par(self.as_prop(c)) for c in pc))

    def is_skip(self, st):
        if isinstance(st, ast.Expr) and isinstance(st.value, ast.Constant):
            return True
        if isinstance(st, (ast.Import, ast.ImportFrom, ast.Pass)):
            return True
        if isinstance(st, ast.Expr) and isinstance(st.value, ast.Call) and isinstance(st.value.func, ast.Name) and st.value.func.id == 'print':
            return True
        return False

    def run(self, stmts, env, pc):
        """returns the environment after the statements, or None when every path has left (return/raise/continue)"""
        for st in stmts:
            if self.is_skip(st):
                continue
            if isinstance(st, ast.If) and self.is_verbose_if(st, env):
                continue
            if isinstance(st, ast.Assign) and len(st.targets) == 1 and isinstance(st.targets[0], ast.Name):
                v = self.tr(st.value, env)
                if v.ndim and 'name' not in v.meta and v.kind in ('int', 'rat'):
                    v = v.with_(meta=dict(v.meta, name=st.targets[0].id))
                env[st.targets[0].id] = v
                continue
            if isinstance(st, ast.AugAssign) and isinstance(st.target, ast.Name):
                op = {ast.Add: '+', ast.Sub: '-', ast.Mult: '*', ast.Div: '/'}.get(type(st.op))
                if op is None or st.target.id not in env:
                    self.fail(st, 'augmented assignment')
                env[st.target.id] = self.binop(st, op, env[st.target.id], self.tr(st.value, env))
                continue
            if isinstance(st, ast.Assign) and len(st.targets) == 1 and isinstance(st.targets[0], ast.Subscript):
                self.store(st, env, pc)
                continue
            if isinstance(st, ast.If) and self.dual and self.is_hasattr_len(st.test, self.dual[0]):
                rest = stmts[stmts.index(st) + 1:]
                c = Val('bool', self.sym(self.dual[0] + '_has_len', 'Bool', f"hasattr({self.dual[0]}, '__len__')"))
                for branch, cc, binding in ((st.body, c, self.dual[1]), (st.orelse, self.neg(c), self.dual[2])):
                    e = dict(env)
                    e.update(binding)
                    self.events.append(dict(ev='path', cond=cc))
                    self.run(list(branch) + list(rest), e, pc + [cc])
                return None
            if isinstance(st, ast.If):
                c = self.cond(st.test, env)
                e1 = self.run(st.body, dict(env), pc + [c])
                e2 = self.run(st.orelse, dict(env), pc + [self.neg(c)])
                if e1 is None and e2 is None:
                    return None
                if e1 is None or e2 is None:
                    env.clear()
                    env.update(e1 if e2 is None else e2)
                    continue
                self.merge(st, c, env, e1, e2)
                continue
            if isinstance(st, ast.For):
                self.loop(st, env, pc)
                continue
            if isinstance(st, ast.Return):
                self.events.append(dict(ev='return', value=None if st.value is None else self.ret(st.value, env), pc=list(pc), node=st))
                return None
            if isinstance(st, ast.Raise):
                exc = st.exc.func if isinstance(st.exc, ast.Call) else st.exc
                nm = exc.attr if isinstance(exc, ast.Attribute) else getattr(exc, 'id', None)
                if nm is None:
                    self.fail(st, 'raise')
                self.events.append(dict(ev='raise', exc=nm, pc=list(pc), node=st))
                return None
            if isinstance(st, ast.Continue) and self.loop_stack:
                self.events.append(dict(ev='continue', pc=list(pc), node=st))
                return None
            if isinstance(st, ast.Expr) and isinstance(st.value, ast.Call):
                self.events.append(dict(ev='call', value=self.effect_call(st.value, env), pc=list(pc), node=st))
                continue
            if isinstance(st, ast.Assert):
                self.events.append(dict(ev='assert', cond=self.assert_cond(st, env), pc=list(pc), node=st))
                continue
            self.fail(st, f"statement {type(st).__name__}")
        return env

    def is_hasattr_len(self, t, pname):
        return isinstance(t, ast.Call) and isinstance(t.func, ast.Name) and t.func.id == 'hasattr' and len(t.args) == 2 and \
            isinstance(t.args[0], ast.Name) and t.args[0].id == pname and isinstance(t.args[1], ast.Constant) and t.args[1].value == '__len__'

    def is_verbose_if(self, st, env):
        """`if verbose: print(...)` blocks carry no semantics"""
        return isinstance(st.test, ast.Name) and st.test.id == 'verbose' and not st.orelse and all(self.is_skip(x) for x in st.body)

    def ret(self, node, env):
        return self.tr(node, env)

    def effect_call(self, node, env):
        self.fail(node, 'call statement')

    def assert_cond(self, st, env):
        return self.cond(st.test, env)

    def store(self, st, env, pc):
        self.fail(st, 'subscript assignment')

    def merge(self, st, c, env, e1, e2):
        names = [n for n in e1 if n in e2]
        out = {}
        for n in names:
            a, b = e1[n], e2[n]
            if a.key() == b.key():
                out[n] = a
                continue
            if a.kind in ('int', 'rat') and b.kind in ('int', 'rat') and a.ndim == b.ndim and (a.axes == b.axes or not a.axes or not b.axes):
                kind = 'rat' if 'rat' in (a.kind, b.kind) else 'int'
                ta = a.text if kind == a.kind or a.lit else self.to_rat(a)
                tb = b.text if kind == b.kind or b.lit else self.to_rat(b)
                ct = c.text
                text = f"if {ct} then {ta} else {tb}"
                self.n_merge += 1
                role = f"Merge{self.n_merge}"
                dname = self.emit(role, text, f"value of the Python variable `{n}` after the `if {ast.get_source_segment(self.src, st.test)}:` statement", ty=LEAN_TY[kind])
                axes = a.axes or b.axes
                s = self.fresh(n + ('_' + ''.join(axes) if axes else ''), LEAN_TY[kind], f"`{dname}`", canon=dname)
                dims = dict(a.dims)
                dims.update(b.dims)
                out[n] = Val(kind, s, axes, a.ndim, dims, meta={'name': n, 'merge': dname})
                self.events.append(dict(ev='merge', var=n, sym=s, definition=dname))
                continue
            if a.kind == 'str' and b.kind == 'str':
                out[n] = Val('str', f"if {c.text} then {a.text} else {b.text}")
                continue
            # incompatible: the variable is unusable afterwards
        env.clear()
        env.update(out)

    def loop(self, st, env, pc):
        self.fail(st, 'for loop')


def header(ns, area, what, imports):
    return [f"-- GENERATED by tools/py2lean_x_shift.py from {what}. Do not edit."] + imports + \
           ["", f"namespace EqsigVerif.{ns}.{area}", "open EqsigVerif", "open EqsigVerif.Model.TimeStep (truncZ)", ""]


def read(repo, *parts):
    p = os.path.join(repo, 'eqsig', *parts)
    src = open(p).read()
    return src, ast.parse(src)


def arr_param(name, kind, axis, whole=True):
    """a 1-D array parameter: generic entry `<name>_<axis>`, length `<name>.length`"""
    return Val(kind, f"{name}_{axis}", (axis,), 1, {axis: f"({name}.length : Int)"}, meta={'name': name, 'whole': name})


def check_params(fn, expected, fname=None):
    got = [a.arg for a in fn.args.args]
    if got != expected or fn.args.vararg or fn.args.kwonlyargs:
        raise Untranslatable(fname or fn.name, fn.lineno, f"parameters {got}")


def default_of(fn, param, src):
    args = fn.args.args
    defaults = fn.args.defaults
    off = len(args) - len(defaults)
    for i, a in enumerate(args):
        if a.arg == param:
            if i < off:
                raise Untranslatable(fn.name, fn.lineno, f"parameter {param} has no default")
            return defaults[i - off]
    raise Untranslatable(fn.name, fn.lineno, f"parameter {param} not found")


# ==============================================================================================
# arrays with rows: np.zeros((r, c)) filled row by row, column slices, 2-D parameters
# ==============================================================================================

class RowSym(Sym):
    """adds: 2-D arrays as objects (`arr2`), row loops, slice reads / writes"""

    def opt_int(self, node, env):
        if node is None:
            return None
        v = self.tr(node, env)
        if v.kind != 'int' or v.ndim:
            self.fail(node, 'slice bound is not a scalar int')
        return v

    def subscript_hook(self, e, base, env):
        s = e.slice
        if base.kind in ('arr2', 'zeros2') and isinstance(s, ast.Tuple) and len(s.elts) == 2:
            a, b = s.elts
            if self.is_full(a) and isinstance(b, ast.Slice) and b.step is None:
                op = ('cols', self.opt_int(b.lower, env), self.opt_int(b.upper, env))
                return base.with_(kind='arr2', meta=dict(base.meta, ops=base.meta.get('ops', ()) + (op,)))
            if isinstance(b, ast.Slice) and b.step is None and not isinstance(a, ast.Slice):
                row = self.tr(a, env)
                return Val('rowslice', '', meta={'base': base, 'row': row, 'lo': self.opt_int(b.lower, env), 'hi': self.opt_int(b.upper, env)})
        if base.kind in ('arr2',) and not isinstance(s, (ast.Tuple, ast.Slice)):
            idx = self.tr(s, env)
            return Val('row', '', meta={'base': base, 'row': idx})
        if base.kind in ('int', 'rat') and base.ndim == 1 and isinstance(s, ast.Slice) and s.step is None:
            return Val('slice1', '', meta={'base': base, 'lo': self.opt_int(s.lower, env), 'hi': self.opt_int(s.upper, env)})
        self.fail(e, 'subscript')

    def store(self, st, env, pc):
        t = st.targets[0]
        if not (isinstance(t.value, ast.Name) and t.value.id in env and env[t.value.id].kind in ('zeros2', 'arr2')):
            self.fail(st, 'subscript assignment to something that is not a 2-D array created by np.zeros')
        s = t.slice
        lo = hi = None
        if isinstance(s, ast.Tuple) and len(s.elts) == 2 and isinstance(s.elts[1], ast.Slice) and s.elts[1].step is None:
            row = self.tr(s.elts[0], env)
            lo, hi = self.opt_int(s.elts[1].lower, env), self.opt_int(s.elts[1].upper, env)
            whole = False
        elif not isinstance(s, (ast.Tuple, ast.Slice)):
            row = self.tr(s, env)
            whole = True
        else:
            self.fail(st, 'subscript assignment target')
        if not (self.loop_stack and row.kind == 'int' and row.text == self.loop_stack[-1]['index']):
            self.fail(st, 'row written is not the loop index')
        src = self.tr(st.value, env)
        self.events.append(dict(ev='write', arr=t.value.id, whole=whole, lo=lo, hi=hi, src=src, pc=list(pc), node=st))

    def merge(self, st, c, env, e1, e2):
        special = {}
        for n in list(e1):
            if n in e2 and e1[n].kind in ('arr2', 'zeros2') and e2[n].kind in ('arr2', 'zeros2') and e1[n].key() != e2[n].key():
                o1, o2 = e1[n].meta.get('ops', ()), e2[n].meta.get('ops', ())
                if len(o1) == len(o2) + 1 and o1[:-1] == o2:
                    special[n] = e2[n].with_(kind='arr2', meta=dict(e2[n].meta, ops=o2 + (('if', c, o1[-1]),)))
                else:
                    self.fail(st, f"2-D array {n} differs after the if in an unsupported way")
        super().merge(st, c, env, e1, e2)
        env.update(special)

    def loop(self, st, env, pc):
        it = st.iter
        body_env = dict(env)
        if isinstance(it, ast.Call) and isinstance(it.func, ast.Name) and it.func.id == 'enumerate' and len(it.args) == 1 and \
                isinstance(st.target, ast.Tuple) and len(st.target.elts) == 2 and all(isinstance(x, ast.Name) for x in st.target.elts):
            arr = self.tr(it.args[0], env)
            if not (arr.ndim == 1 and arr.axes == ('i',)):
                self.fail(st, 'enumerate over something that is not a 1-D array along axis i')
            i = self.sym('i', 'Int', 'the generic row index')
            body_env[st.target.elts[0].id] = Val('int', i)
            body_env[st.target.elts[1].id] = arr.with_(ndim=0)
            over = arr
        elif isinstance(it, ast.Call) and isinstance(it.func, ast.Name) and it.func.id == 'range' and len(it.args) == 1 and \
                isinstance(st.target, ast.Name) and isinstance(it.args[0], ast.Call) and self.np_name(it.args[0].func) == 'len':
            arr = self.tr(it.args[0].args[0], env)
            if not (arr.ndim == 1 and arr.axes == ('i',)):
                self.fail(st, 'range(len(x)) with x not a 1-D array along axis i')
            i = self.sym('i', 'Int', 'the generic row index')
            body_env[st.target.id] = Val('int', i)
            over = arr
        else:
            self.fail(st, 'for loop header')
        if st.orelse:
            self.fail(st, 'for/else')
        before = {k: v.key() for k, v in body_env.items()}
        self.loop_stack.append({'index': i, 'axis': 'i'})
        self.events.append(dict(ev='loop', over=over, node=st, pc=list(pc)))
        out = self.run(st.body, body_env, pc)
        self.events.append(dict(ev='endloop'))
        self.loop_stack.pop()
        if out is not None:
            for k, v in out.items():
                if k in before and before[k] != v.key() and k in env:
                    self.fail(st, f"loop body re-assigns {k}")


def one(evs, kind, fname, what=None):
    xs = [e for e in evs if e['ev'] == kind]
    if len(xs) != 1:
        raise Untranslatable(fname, 0, f"expected exactly one {what or kind}, found {len(xs)}")
    return xs[0]


def need(cond, fname, node, what):
    if not cond:
        raise Untranslatable(fname, getattr(node, 'lineno', 0) if node is not None else 0, what)


def is_param_whole(v, name):
    return isinstance(v, Val) and v.ndim == 1 and v.meta.get('whole') == name and v.text == f"{name}_{v.axes[0]}"


def gen_put2d(src, mod):
    fn = find_function(mod, 'put_array_in_2d_array')
    check_params(fn, ['values', 'shifts', 'clip'])
    S = RowSym(fn.name, src, 'put2d')
    S.sym('values', 'List Rat')
    S.sym('shifts', 'List Int')
    S.sym('clip', 'String')
    env = {'values': arr_param('values', 'rat', 'k'), 'shifts': arr_param('shifts', 'int', 'i'), 'clip': Val('str', 'clip')}
    S.syms['shifts_i'] = 'Int'
    S.sym_doc['shifts_i'] = 'the shift of the current row (`j`)'
    dflt = default_of(fn, 'clip', src)
    need(isinstance(dflt, ast.Constant) and isinstance(dflt.value, str), fn.name, fn, 'default of clip is not a string')
    S.emit('DefaultClip', f'"{dflt.value}"', 'default value of the parameter `clip`', ty='String')
    end = S.run(fn.body, env, [])
    need(end is None, fn.name, fn, 'function can fall off its end')
    evs = S.events
    kinds = [e['ev'] for e in evs]
    reds = sorted((e for e in evs if e['ev'] == 'reduce'), key=lambda e: e['which'])
    evs = reds + [e for e in evs if e['ev'] != 'reduce']
    kinds = [e['ev'] for e in evs]
    need(kinds == ['reduce', 'reduce', 'loop', 'write', 'endloop', 'return', 'return'], fn.name, fn, f"statement skeleton {kinds}")
    need(evs[0]['which'] == 'max' and is_param_whole(evs[0]['arr'], 'shifts') and evs[1]['which'] == 'min' and
         is_param_whole(evs[1]['arr'], 'shifts'), fn.name, fn, 'reductions are not np.max(shifts), np.min(shifts)')
    need(is_param_whole(evs[2]['over'], 'shifts'), fn.name, evs[2]['node'], 'loop is not over shifts')
    w = evs[3]
    need(not w['pc'] and not w['whole'] and w['lo'] is not None and w['hi'] is not None and is_param_whole(w['src'], 'values'),
         fn.name, w['node'], 'loop body is not out[i, lo:hi] = values')
    r1, r2 = evs[5], evs[6]
    a1, a2 = r1['value'], r2['value']
    need(a1.kind == 'arr2' and a2.kind == 'arr2' and 'rows' in a1.meta, fn.name, r1['node'], 'returned value is not the zero-initialised 2-D array')
    need(a1.meta['rows'].text == '(shifts.length : Int)', fn.name, fn, 'row count of np.zeros is not len(shifts)')
    S.emit('Width', a1.meta['cols'], 'column count of `np.zeros((len(shifts), …))`')
    S.emit('Lo', w['lo'], 'start of the slice of row `i` that receives `values`')
    S.emit('Hi', w['hi'], 'stop of the slice of row `i` that receives `values`')
    o1, o2 = a1.meta.get('ops', ()), a2.meta.get('ops', ())
    need(len(o2) == 1 and o2[0][0] == 'if' and o1[:1] == o2 and len(o1) == 2 and o1[1][0] == 'cols', fn.name, r1['node'],
         'clip structure (conditional end cut, then start cut or not)')
    _, c, (_, lo, hi) = o2[0]
    need(lo is None and hi is not None, fn.name, r2['node'], 'end clip is not out[:, :stop]')
    S.emit('ClipEndCond', c, 'condition under which the end of every row is cut')
    S.emit('ClipEndStop', hi, 'stop of the end cut `out[:, :stop]`')
    need(len(r1['pc']) == 1 and len(r2['pc']) == 1 and r2['pc'][0].text == S.neg(r1['pc'][0]).text, fn.name, r1['node'], 'return conditions')
    S.emit('ClipStartCond', r1['pc'][0], 'condition under which the start of every row is cut')
    need(o1[1][2] is None and o1[1][1] is not None, fn.name, r1['node'], 'start clip is not out[:, start:]')
    S.emit('ClipStartLo', o1[1][1], 'start of the start cut `out[:, start:]`')
    return S


class JoinSym(RowSym):
    def call_hook(self, e, name, kw, env):
        if name == 'put_array_in_2d_array':
            args = [self.tr(a, env) for a in e.args]
            return Val('arr2', '', meta={'call': 'put_array_in_2d_array', 'args': args, 'kw': {k: self.tr(v, env) for k, v in kw.items()}})
        if name == 'join_values_w_shifts':
            args = [self.tr(a, env) for a in e.args]
            return Val('arr2', '', meta={'call': name, 'args': args, 'kw': {k: self.tr(v, env) for k, v in kw.items()}})
        return super().call_hook(e, name, kw, env)

    def ret(self, node, env):
        # `± a1 + a0` with a1 the 2-D array, a0 the padded 1-D array: entry-wise on two fresh entry symbols
        env2 = dict(env)
        for k, v in env.items():
            if v.kind == 'arr2' and 'call' in v.meta:
                s = self.sym('a1_ik', 'Rat', 'the generic entry of the shifted 2-D array')
                env2[k] = Val('rat', s, ('i', 'k'), 2, meta=v.meta)
        return self.tr(node, env2)


def gen_join(src, mod):
    fn = find_function(mod, 'join_values_w_shifts')
    check_params(fn, ['values', 'shifts', 'jtype'])
    S = JoinSym(fn.name, src, 'join')
    S.sym('values', 'List Rat')
    S.sym('shifts', 'List Int')
    S.sym('jtype', 'String')
    env = {'values': arr_param('values', 'rat', 'k'), 'shifts': arr_param('shifts', 'int', 'i'), 'jtype': Val('str', 'jtype')}
    dflt = default_of(fn, 'jtype', src)
    need(isinstance(dflt, ast.Constant) and isinstance(dflt.value, str), fn.name, fn, 'default of jtype is not a string')
    S.emit('DefaultJtype', f'"{dflt.value}"', 'default value of the parameter `jtype`', ty='String')
    end = S.run(fn.body, env, [])
    evs = S.events
    kinds = [e['ev'] for e in evs]
    need(kinds == ['reduce', 'pad', 'return', 'return'] and end is not None, fn.name, fn, f"statement skeleton {kinds} (falls through: {end is not None})")
    need(evs[0]['which'] == 'max' and is_param_whole(evs[0]['arr'], 'shifts'), fn.name, fn, 'reduction is not np.max(shifts)')
    p = evs[1]
    need(is_param_whole(p['arr'], 'values'), fn.name, fn, 'np.pad is not applied to values')
    S.emit('PadBefore', p['before'], '`np.pad(values, (before, after), constant_values=value)`: before', ty='Int')
    S.emit('PadAfter', p['after'], '`np.pad(values, (before, after), constant_values=value)`: after', ty='Int')
    S.emit('PadValue', S.to_rat(p['value']), '`np.pad(values, (before, after), constant_values=value)`: value', ty='Rat')
    call = [v for v in env.values() if v.kind == 'arr2' and v.meta.get('call') == 'put_array_in_2d_array']
    need(len(call) == 1 and len(call[0].meta['args']) == 2 and not call[0].meta['kw'] and is_param_whole(call[0].meta['args'][0], 'values')
         and is_param_whole(call[0].meta['args'][1], 'shifts'), fn.name, fn, 'a1 is not put_array_in_2d_array(values, shifts)')
    r1, r2 = evs[2], evs[3]
    need(len(r1['pc']) == 1 and len(r2['pc']) == 2 and r2['pc'][0].text == S.neg(r1['pc'][0]).text, fn.name, fn, 'if/elif structure of the returns')
    for r in (r1, r2):
        need(r['value'].kind == 'rat' and r['value'].ndim == 2, fn.name, r['node'], 'returned value is not a 2-D array expression')
    text = f"if {r1['pc'][0].text} then some ({r1['value'].text}) else if {r2['pc'][1].text} then some ({r2['value'].text}) else none"
    S.emit('Entry', text, 'entry of the returned array from the entries of `a1` (shifted) and `a0` (padded); `none` = the function returns `None`',
           ty='Option Rat')
    return S


def gen_join_sig(src, mod):
    fn = find_function(mod, 'join_sig_w_time_shift')
    check_params(fn, ['sig', 'time_shifts', 'jtype'])
    S = JoinSym(fn.name, src, 'joinSig')
    S.sym('values', 'List Rat')
    S.sym('dt', 'Rat')
    S.sym('time_shifts', 'List Rat')
    S.sym('jtype', 'String')
    S.syms['time_shifts_i'] = 'Rat'
    sig = Val('obj', 'sig', meta={'attrs': {'dt': Val('rat', 'dt'), 'values': arr_param('values', 'rat', 'k')}})
    env = {'sig': sig, 'time_shifts': arr_param('time_shifts', 'rat', 'i'), 'jtype': Val('str', 'jtype')}
    end = S.run(fn.body, env, [])
    evs = S.events
    need([e['ev'] for e in evs] == ['return'] and end is None, fn.name, fn, 'statement skeleton')
    v = evs[0]['value']
    need(v.meta.get('call') == 'join_values_w_shifts' and len(v.meta['args']) == 2 and set(v.meta['kw']) == {'jtype'} and
         v.meta['kw']['jtype'].text == 'jtype' and is_param_whole(v.meta['args'][0], 'values'), fn.name, fn,
         'return is not join_values_w_shifts(sig.values, shifts, jtype=jtype)')
    sh = v.meta['args'][1]
    need(sh.kind == 'int' and sh.ndim == 1 and sh.axes == ('i',), fn.name, fn, 'shifts is not an int array')
    S.emit('Shift', sh, 'entry of `shifts` from the entry of `time_shifts`')
    return S


def gen_time_indices(src, mod):
    fn = find_function(mod, 'time_indices')
    check_params(fn, ['npts', 'dt', 'start', 'end', 'index'])
    S = Sym(fn.name, src, 'timeIndices')
    for n, t in (('npts', 'Int'), ('dt', 'Rat'), ('start', 'Rat'), ('end_', 'Rat'), ('index', 'Bool')):
        S.sym(n, t)
    env = {'npts': Val('int', 'npts'), 'dt': Val('rat', 'dt'), 'start': Val('rat', 'start'), 'end': Val('rat', 'end_'), 'index': Val('bool', 'index')}
    end = S.run(fn.body, env, [])
    evs = [e for e in S.events if e['ev'] != 'merge']
    need([e['ev'] for e in evs] == ['raise', 'return'] and end is None, fn.name, fn, 'statement skeleton')
    need(evs[0]['exc'] == 'SignalProcessingWarning' and len(evs[0]['pc']) == 1, fn.name, evs[0]['node'], 'raise')
    S.emit('Raises', evs[0]['pc'][0], 'condition of `raise SignalProcessingWarning`')
    rv = evs[1]['value']
    need(rv.kind == 'tuple' and len(rv.meta['elts']) == 2, fn.name, evs[1]['node'], 'return value is not a pair')
    S.emit('RetStart', S.to_rat(rv.meta['elts'][0]), 'first component of the returned pair', ty='Rat')
    S.emit('RetEnd', S.to_rat(rv.meta['elts'][1]), 'second component of the returned pair', ty='Rat')
    return S


# ==============================================================================================
# eqsig/surface.py
# ==============================================================================================

def gen_trim(src, mod):
    fn = find_function(mod, 'trim_to_length')
    check_params(fn, ['values', 'npts', 'surf2depth_travel_times', 'dt', 'trim', 'start', 's2s_travel_time'])
    for p, want in (('trim', False), ('start', False), ('s2s_travel_time', 0.0)):
        d = default_of(fn, p, src)
        need(isinstance(d, ast.Constant) and d.value == want and type(d.value) is type(want), fn.name, fn, f"default of {p}")
    S = RowSym(fn.name, src, 'trim')
    for n, t in (('npts', 'Int'), ('surf2depth_travel_times', 'List Rat'), ('surf2depth_travel_times_i', 'Rat'), ('dt', 'Rat'),
                 ('trim', 'Bool'), ('start', 'Bool'), ('s2s_travel_time', 'Rat')):
        S.sym(n, t)
    values = Val('arr2', '', meta={'param': 'values'})
    env = {'values': values, 'npts': Val('int', 'npts'), 'surf2depth_travel_times': arr_param('surf2depth_travel_times', 'rat', 'i'),
           'dt': Val('rat', 'dt'), 'trim': Val('bool', 'trim'), 'start': Val('bool', 'start'), 's2s_travel_time': Val('rat', 's2s_travel_time')}
    end = S.run(fn.body, env, [])
    evs = S.events
    kinds = [e['ev'] for e in evs]
    need(kinds == ['reduce', 'reduce', 'merge', 'return', 'merge', 'merge', 'loop', 'write', 'write', 'endloop', 'return'] and end is None,
         fn.name, fn, f"statement skeleton {kinds}")
    rmax, rmin, m1, ret0, m2, m3, lp, w1, w2, _, ret1 = evs
    need(rmax['which'] == 'max' and rmin['which'] == 'min', fn.name, fn, 'extras is not np.max(..) - np.min(..)')
    S.emit('S2dShift', lp['over'], 'entry of `surf_to_depth_shifts` (the array the row loop ranges over)')
    S.emit('MaxArg', rmax['arr'], 'entry of the array whose `np.max` enters `extras`')
    S.emit('MinArg', rmin['arr'], 'entry of the array whose `np.min` enters `extras`')
    need(ret0['value'].kind == 'arr2' and ret0['value'].meta.get('param') == 'values' and not ret0['value'].meta.get('ops'),
         fn.name, ret0['node'], 'early return does not return `values` unchanged')
    S.emit('ReturnsInput', S.pc_text(ret0['pc']), 'path condition of the early `return values`')
    z = ret1['value']
    need(z.kind == 'zeros2' and not ret1['pc'] and w1['arr'] == w2['arr'], fn.name, ret1['node'], 'final return is not the np.zeros array filled by the loop')
    need(z.meta['rows'].text == lp['over'].dims['i'], fn.name, fn, 'row count of np.zeros is not the length of the loop array')
    S.emit('Width', z.meta['cols'], 'column count of `np.zeros((len(surf_to_depth_shifts), …))`')
    need(len(w1['pc']) == 1 and len(w2['pc']) == 1 and w2['pc'][0].text == S.neg(w1['pc'][0]).text, fn.name, w1['node'], 'if/else of the loop body')
    S.emit('RowCond', w1['pc'][0], 'loop body: condition of the first branch')

    def rowslice(w, name):
        v = w['src']
        need(v.kind == 'rowslice' and v.meta['base'].meta.get('param') == 'values' and not v.meta['base'].meta.get('ops') and
             v.meta['row'].text == 'i', fn.name, w['node'], f"{name}: source is not values[i, a:b]")
        return v.meta['lo'], v.meta['hi']
    lo, hi = rowslice(w1, 'first branch')
    need(w1['whole'] and lo is not None and hi is not None, fn.name, w1['node'], 'first branch is not outs[i] = values[i, a:b]')
    S.emit('NegSrcLo', lo, 'first branch `outs[i] = values[i, a:b]`: a')
    S.emit('NegSrcHi', hi, 'first branch `outs[i] = values[i, a:b]`: b')
    lo, hi = rowslice(w2, 'second branch')
    need(not w2['whole'] and w2['lo'] is not None and w2['hi'] is None and lo is None and hi is not None, fn.name, w2['node'],
         'second branch is not outs[i, a:] = values[i, :b]')
    S.emit('PosDstLo', w2['lo'], 'second branch `outs[i, a:] = values[i, :b]`: a')
    S.emit('PosSrcHi', hi, 'second branch `outs[i, a:] = values[i, :b]`: b')
    return S


class SurfSym(JoinSym):
    def call_hook(self, e, name, kw, env):
        if name == 'cumulative_trapezoid' and len(e.args) == 1 and set(kw) == {'dx', 'initial', 'axis'} and \
                isinstance(kw['initial'], ast.Constant) and kw['initial'].value == 0 and type(kw['initial'].value) is int and \
                isinstance(kw['axis'], ast.Constant) and kw['axis'].value == 1:
            a = self.tr(e.args[0], env)
            dx = self.tr(kw['dx'], env)
            if a.kind == 'rat' and a.ndim == 2 and dx.kind == 'rat' and not dx.ndim:
                s = self.sym('v_ik', 'Rat', 'the generic entry of the cumulative trapezoid')
                self.events.append(dict(ev='rowop', text=f"Np.cumtrapz {par(dx.text)} row", arg=a, sym=s))
                return Val('rat', s, ('i', 'k'), 2, a.dims, meta={'name': s})
        if name == 'trim_to_length':
            v = Val('arr2', '', meta={'call': name, 'args': [self.tr(a, env) for a in e.args], 'kw': {k: self.tr(x, env) for k, x in kw.items()}})
            self.events.append(dict(ev='trimcall', value=v))
            return v
        return super().call_hook(e, name, kw, env)

    def ret(self, node, env):
        return self.tr(node, env)

    def subscript_hook(self, e, base, env):
        return RowSym.subscript_hook(self, e, base, env)


NORMALISE = ("if not hasattr(travel_times, '__len__'):\n    travel_times = np.array([travel_times])\n"
             "else:\n    travel_times = np.array(travel_times)")


def surf_stages(src, mod, pyname, prefix, defaults):
    """stages 1-6 shared (textually) by calc_surface_energy and get_time_shift_motions, then the function's own tail"""
    fn = find_function(mod, pyname)
    check_params(fn, ['asig', 'travel_times', 'nodal', 'up_red', 'down_red', 'stt', 'trim', 'start'])
    for p, want in defaults:
        d = default_of(fn, p, src)
        need(isinstance(d, ast.Constant) and d.value == want and not isinstance(d.value, str), fn.name, fn, f"default of {p}")
    body = [st for st in fn.body if not (isinstance(st, ast.Expr) and isinstance(st.value, ast.Constant)) and not isinstance(st, ast.ImportFrom)]
    need(body and ast.dump(body[0]) == ast.dump(ast.parse(NORMALISE).body[0]), fn.name, body[0] if body else fn,
         'first statement is not the scalar/array normalisation of travel_times')
    S = SurfSym(pyname, src, prefix)
    for n, t in (('values', 'List Rat'), ('dt', 'Rat'), ('travel_times', 'List Rat'), ('travel_times_i', 'Rat'), ('nodal', 'Bool'),
                 ('up_red', 'Rat'), ('down_red', 'Rat'), ('up_red_i', 'Rat'), ('down_red_i', 'Rat'), ('stt', 'Rat'), ('trim', 'Bool'), ('start', 'Bool')):
        S.sym(n, t)
    asig = Val('obj', 'asig', meta={'attrs': {'dt': Val('rat', 'dt'), 'values': arr_param('values', 'rat', 'k'), 'npts': Val('int', '(values.length : Int)')}})
    env = {'asig': asig, 'travel_times': arr_param('travel_times', 'rat', 'i'), 'nodal': Val('bool', 'nodal'), 'stt': Val('rat', 'stt'),
           'trim': Val('bool', 'trim'), 'start': Val('bool', 'start')}
    S.dual = ('up_red', {'up_red': arr_param('up_red', 'rat', 'i'), 'down_red': arr_param('down_red', 'rat', 'i')},
              {'up_red': Val('rat', 'up_red'), 'down_red': Val('rat', 'down_red')})
    end = S.run(body[1:], env, [])
    need(end is None, pyname, fn, 'function can fall off its end')
    evs = S.events
    kinds = [e['ev'] for e in evs]
    head = ['reduce', 'pad', 'interp']
    need(kinds[:3] == head and kinds.count('path') == 2 and kinds[3] == 'path', pyname, fn, f"statement skeleton {kinds}")
    red, pad, itp = evs[:3]
    need(red['which'] == 'max', pyname, fn, 'max_shift is not derived from np.max')
    S.emit('Shift', red['arr'], 'entry of `shifts` from the entry of `travel_times`')
    need(is_param_whole(pad['arr'], 'values'), pyname, fn, 'np.pad is not applied to asig.values')
    S.emit('PadBefore', pad['before'], '`up_wave = np.pad(asig.values, (before, after), constant_values=value)`: before', ty='Int')
    S.emit('PadAfter', pad['after'], '`up_wave = np.pad(asig.values, (before, after), constant_values=value)`: after (`max_shift`)', ty='Int')
    S.emit('PadValue', S.to_rat(pad['value']), '`up_wave = np.pad(asig.values, (before, after), constant_values=value)`: value', ty='Rat')
    x = itp['x']
    need(x.ndim == 2 and x.axes == ('i', 'k'), pyname, fn, 'np.interp abscissae are not a 2-D (travel time x sample) array')
    S.emit('Width', x.dims['k'], 'number of samples of `dshifted` (argument of the `np.arange` along the time axis)', ty='Int')
    S.emit('DelayArg', x, 'entry `[i, k]` of `dshifted`')
    S.syms['x'] = 'Rat'
    S.emit('Down', itp['text'].replace(par(S.to_rat(x)), 'x'), 'entry of `down_waves = np.interp(dshifted, np.arange(asig.npts), asig.values, left=, right=)` at abscissa `x`', ty='Rat')
    del S.syms['x']
    second = kinds.index('path', 4)
    paths = [evs[4:second], evs[second + 1:]]
    tails = []
    for which, pevs in zip(('Rows', 'Scalar'), paths):
        tails.append(surf_tail(S, pyname, fn, which, pevs, pad['sym'], itp['sym']))
    need(tails[0] == tails[1], pyname, fn, 'the two reduction branches continue differently')
    S.defs += tails[0]
    return S


def surf_tail(S, pyname, fn, which, pevs, up_sym, down_sym):
    """one continuation after `if hasattr(up_red, '__len__')`; emits the acceleration entry, returns the common tail's definitions"""
    kinds = [e['ev'] for e in pevs]
    energy = pyname == 'calc_surface_energy'
    want = ['merge'] + (['rowop'] if energy else []) + ['trimcall', 'return', 'return']
    need(kinds == want, pyname, fn, f"statement skeleton after the reductions ({which}): {kinds}")
    m = pevs[0]
    # the merge definition is the acceleration entry: rename it by role
    name, text = S.defs.pop([n for n, _ in S.defs].index(m['definition']))
    role = S.prefix + 'AccEntry' + which
    S.renames[name] = role
    S.defs.append((role, text.replace(name, role).replace(f"value of the Python variable `{m['var']}` after the `if nodal:` statement",
                                                           f"entry of `acc_series` ({'array' if which == 'Rows' else 'scalar'} reduction factors)")))
    need('if nodal then' in text, pyname, fn, 'acc_series is not selected by `if nodal`')
    keep = list(S.defs)
    S.defs = []
    acc_sym = m['sym']
    if energy:
        ro = pevs[1]
        need(ro['arg'].text == acc_sym, pyname, fn, 'cumulative_trapezoid is not applied to acc_series')
        S.syms['row'] = 'List Rat'
        S.emit('VelocityRow', ro['text'], 'one row of `velocity = cumulative_trapezoid(acc_series, dx=asig.dt, initial=0, axis=1)`', ty='List Rat')
        del S.syms['row']
    call = pevs[-3]['value']
    a, kw = call.meta['args'], call.meta['kw']
    need(len(a) == 4 and set(kw) == {'trim', 'start', 's2s_travel_time'} and a[1].text == '(values.length : Int)' and
         is_param_whole(a[2], 'travel_times') and a[3].text == 'dt' and kw['trim'].text == 'trim' and kw['start'].text == 'start' and
         kw['s2s_travel_time'].text == 'stt', pyname, fn, 'arguments of trim_to_length')
    if energy:
        need(a[0].kind == 'rat' and a[0].ndim == 2, pyname, fn, 'first argument of trim_to_length')
        S.emit('EnergyEntry', a[0], 'entry of `e` (first argument of `trim_to_length`) from the entry of `velocity`')
    else:
        need(a[0].text == acc_sym, pyname, fn, 'first argument of trim_to_length is not acc_series')
    r1, r2 = pevs[-2], pevs[-1]
    need(len(r1['pc']) == 2 and r1['value'].kind == 'row' and r1['value'].meta['base'] is call and r1['value'].meta['row'].lit, pyname, r1['node'],
         'first return is not `<trimmed>[<literal>]`')
    need(r2['value'] is call, pyname, r2['node'], 'second return is not the trimmed array')
    S.emit('SqueezeCond', r1['pc'][1], 'condition under which a single row is returned')
    S.emit('SqueezeRow', r1['value'].meta['row'].text, 'index of the row returned in that case', ty='Int')
    tail = S.defs
    S.defs = keep
    return tail


def gen_cum_abs(src, mod):
    fn = find_function(mod, 'calc_cum_abs_surface_energy')
    check_params(fn, ['asig', 'travel_times', 'nodal', 'up_red', 'down_red', 'stt', 'trim', 'start'])
    body = [st for st in fn.body if not (isinstance(st, ast.Expr) and isinstance(st.value, ast.Constant))]
    need(len(body) == 3 and isinstance(body[0], ast.Assign) and isinstance(body[1], ast.Assign) and isinstance(body[2], ast.Return),
         fn.name, fn, 'statement skeleton')
    c = body[0].value
    want = "calc_surface_energy(asig, travel_times, nodal=nodal, up_red=up_red, down_red=down_red, stt=stt, trim=trim, start=start)"
    need(ast.dump(c) == ast.dump(ast.parse(want).body[0].value), fn.name, body[0], 'energy is not calc_surface_energy(<all arguments passed through>)')
    energy = body[0].targets[0].id
    # row-level translation of np.diff(energy, axis=-1, prepend=p) and np.cumsum(np.abs(diff), axis=-1)
    d = body[1].value
    kw = {k.arg: k.value for k in d.keywords} if isinstance(d, ast.Call) else {}
    need(isinstance(d, ast.Call) and Sym.np_name(None, d.func) == 'np.diff' and len(d.args) == 1 and isinstance(d.args[0], ast.Name) and
         d.args[0].id == energy and set(kw) == {'axis', 'prepend'} and isinstance(kw['axis'], ast.UnaryOp) and
         ast.dump(kw['axis']) == ast.dump(ast.parse('-1').body[0].value) and isinstance(kw['prepend'], ast.Constant) and
         type(kw['prepend'].value) in (int, float), fn.name, body[1], 'diff is not np.diff(energy, axis=-1, prepend=<literal>)')
    pre = lit_text(ast.get_source_segment(src, kw['prepend']))
    r = body[2].value
    kw2 = {k.arg: k.value for k in r.keywords} if isinstance(r, ast.Call) else {}
    need(isinstance(r, ast.Call) and Sym.np_name(None, r.func) == 'np.cumsum' and len(r.args) == 1 and set(kw2) == {'axis'} and
         ast.dump(kw2['axis']) == ast.dump(ast.parse('-1').body[0].value), fn.name, body[2], 'return is not np.cumsum(…, axis=-1)')
    inner = r.args[0]
    need(isinstance(inner, ast.Call) and Sym.np_name(None, inner.func) == 'np.abs' and len(inner.args) == 1 and not inner.keywords and
         isinstance(inner.args[0], ast.Name) and inner.args[0].id == body[1].targets[0].id, fn.name, body[2], 'return is not np.cumsum(np.abs(diff), axis=-1)')
    S = Sym(fn.name, src, 'cumAbs')
    S.sym('row', 'List Rat')
    S.emit('Row', f"Np.cumsum (Np.absL (Np.diffFrom {pre} row))", 'one row of `np.cumsum(np.abs(np.diff(energy, axis=-1, prepend=p)), axis=-1)`', ty='List Rat')
    return S


def gen_time_shift(repo, ns):
    src, mod = read(repo, 'fns', 'time_shift.py')
    ssrc, smod = read(repo, 'surface.py')
    parts = [gen_put2d(src, mod), gen_join(src, mod), gen_join_sig(src, mod), gen_time_indices(src, mod), gen_trim(ssrc, smod),
             surf_stages(ssrc, smod, 'calc_surface_energy', 'surf', (('nodal', True), ('up_red', 1.0), ('down_red', 1.0), ('stt', 0.0), ('trim', False), ('start', False))),
             surf_stages(ssrc, smod, 'get_time_shift_motions', 'motions', (('nodal', True), ('up_red', 1.0), ('down_red', 1.0), ('stt', 0.0), ('trim', False), ('start', False))),
             gen_cum_abs(ssrc, smod)]
    text = header(ns, 'TimeShift', 'eqsig/fns/time_shift.py and eqsig/surface.py (index arithmetic, slices, entry expressions)',
                  ["import EqsigVerif.Prelude.Np", "import EqsigVerif.Prelude.Interp", "import EqsigVerif.Model.TimeStep"])
    for S in parts:
        text.append(f"/-! ### `{S.fname}` -/")
        text.append("")
        for _, d in S.defs + [('', S.signature_def())]:
            text.append(d)
            text.append("")
    text += [f"end EqsigVerif.{ns}.TimeShift", ""]
    return {"TimeShift.lean": "\n".join(text)}



# ==============================================================================================
# eqsig/multiple.py, fns/average.get_section_average, Signal.get_section_average
# ==============================================================================================

class ClusterSym(RowSym):
    """adds: signal objects (`self.signal_by_index(k)`, `.values`, `.npts`, `.dt`), `kwargs.get(name, default)`,
    1-D slices as arrays, `sum`/`np.sum`/`np.mean` as named parameters, loops `for i in range(n)` with carried scalars,
    Python list algebra `[x] * n + list(a[:k])`"""

    def __init__(self, *a):
        super().__init__(*a)
        self.kwdefaults = OrderedDict()
        self.n_slice = 0
        self.n_sig = 0

    def signal(self, idx):
        for ev in self.events:
            if ev['ev'] == 'signal' and ev['index'].text == idx.text:
                return ev['obj']
        self.n_sig += 1
        nm = f"sig{self.n_sig}"
        ci = self.canon_text(strip_outer(idx.text))
        whole = self.sym(f"values_{nm}", 'List Rat', f"the values of `signal_by_index({strip_outer(idx.text)})`", canon=f"values of signal {ci}")
        entry = self.sym(f"v_{nm}", 'Rat', f"the generic entry of `{whole}`", canon=f"entry of signal {ci}")
        arr = Val('rat', entry, ('k',), 1, {'k': f"({whole}.length : Int)"}, meta={'name': whole, 'whole': whole, 'sig': nm})
        obj = Val('obj', nm, meta={'attrs': {'values': arr, 'npts': Val('int', f"({whole}.length : Int)"), 'dt': Val('rat', 'dt')}, 'sig': nm, 'index': idx})
        self.events.append(dict(ev='signal', index=idx, obj=obj, name=nm))
        return obj

    def tr(self, e, env):
        if isinstance(e, ast.Attribute) and isinstance(e.value, ast.Name) and e.value.id == 'self':
            if e.attr == 'master_index':
                return Val('int', self.sym('master_index', 'Int'))
            if e.attr == 'signals':
                return Val('pylen', self.sym('n_signals', 'Int'))
        if isinstance(e, ast.Attribute) and not isinstance(e.value, ast.Name):
            base = self.tr(e.value, env)
            if base.kind == 'obj' and e.attr in base.meta['attrs']:
                return base.meta['attrs'][e.attr]
        return super().tr(e, env)

    def call_hook(self, e, name, kw, env):
        f = e.func
        if isinstance(f, ast.Attribute) and isinstance(f.value, ast.Name) and f.value.id == 'kwargs' and f.attr == 'get' and len(e.args) == 2 \
                and isinstance(e.args[0], ast.Constant) and isinstance(e.args[0].value, str):
            key = e.args[0].value
            d = self.tr(e.args[1], env)
            if not d.lit:
                self.fail(e, 'kwargs default is not a literal')
            kind = self.kwkinds.get(key)
            if kind is None:
                self.fail(e, f"unexpected keyword {key}")
            self.kwdefaults[key] = d
            if kind == 'skip':
                return Val('none', 'none')
            return Val(kind, self.sym(key if key != 'end' else 'end_', LEAN_TY[kind], f"keyword `{key}`"))
        if isinstance(f, ast.Attribute) and isinstance(f.value, ast.Name) and f.value.id == 'self' and f.attr == 'signal_by_index' and \
                len(e.args) == 1 and not kw:
            return self.signal(self.tr(e.args[0], env))
        if isinstance(f, ast.Attribute) and f.attr == 'get_section_average' and not e.args and set(kw) == {'start', 'end'}:
            o = self.tr(f.value, env)
            a, b = self.tr(kw['start'], env), self.tr(kw['end'], env)
            if o.kind == 'obj' and 'sig' in o.meta:
                s = self.sym(f"average_{o.meta['sig']}", 'Rat', f"`get_section_average` of `{o.meta['attrs']['values'].meta['whole']}`",
                             canon=f"section average of signal {self.canon_text(strip_outer(o.meta['index'].text))}")
                self.events.append(dict(ev='average', obj=o, start=a, end=b, sym=s))
                return Val('rat', s)
        if name in ('sum', 'np.sum', 'np.mean') and len(e.args) == 1 and not kw:
            v = self.tr(e.args[0], env)
            if v.kind in ('int', 'rat') and v.ndim == 1:
                which = name.split('.')[-1]
                s = self.fresh(f"{which}_{1 + len([x for x in self.events if x['ev'] == 'fold'])}", LEAN_TY[v.kind], f"`{name}` of the array with entries `{strip_outer(v.text)}`",
                               canon=f"{name} of {self.canon_text(strip_outer(v.text))}")
                self.events.append(dict(ev='fold', which=name, arr=v, sym=s))
                return Val(v.kind, s)
        if name == 'list' and len(e.args) == 1 and not kw:
            v = self.tr(e.args[0], env)
            if v.kind in ('int', 'rat') and v.ndim == 1 and 'slice' in v.meta:
                return Val('list', '', meta={'parts': [('slice', v)]})
        return super().call_hook(e, name, kw, env)

    def subscript_hook(self, e, base, env):
        s = e.slice
        if base.kind in ('int', 'rat') and base.ndim == 1 and isinstance(s, ast.Slice) and s.step is None and 'whole' in base.meta:
            lo, hi = self.opt_int(s.lower, env), self.opt_int(s.upper, env)
            self.n_slice += 1
            whole = self.fresh(f"slice{self.n_slice}", 'List Rat', 'a slice')
            entry = self.fresh(f"x{self.n_slice}", LEAN_TY[base.kind], f"the generic entry of `{ast.get_source_segment(self.src, e)}`",
                               canon=f"entry of slice {self.n_slice}")
            ev = dict(ev='slice', base=base, lo=lo, hi=hi, sym=entry, whole=whole, node=e)
            self.events.append(ev)
            return Val(base.kind, entry, ('k',), 1, {}, meta={'name': whole, 'whole': whole, 'slice': ev, 'sig': base.meta.get('sig')})
        return super().subscript_hook(e, base, env)

    def index_hook(self, e, base, idx, env):
        if idx.lit and 'whole' in base.meta:
            return Val(base.kind, '', meta={'elem': (base, idx)})
        self.fail(e, 'index')

    def list_binop(self, e, op, a, b):
        def parts(v):
            if v.kind == 'list':
                return v.meta['parts']
            return None
        if op == '*' and a.kind == 'pylist' and len(a.meta['elts']) == 1 and 'elem' in a.meta['elts'][0].meta and b.kind == 'int' and not b.ndim:
            return Val('list', '', meta={'parts': [('repeat', a.meta['elts'][0].meta['elem'], b)]})
        if op == '+' and parts(a) is not None and parts(b) is not None:
            return Val('list', '', meta={'parts': parts(a) + parts(b)})
        self.fail(e, 'list operator')

    def merge(self, st, c, env, e1, e2):
        special = {}
        for n in list(e1):
            if n in e2 and e1[n].kind == 'list' and e2[n].kind == 'list':
                special[n] = Val('list', '', meta={'parts': [('if', c, e1[n].meta['parts'], e2[n].meta['parts'])]})
        for n in list(e1) + list(e2):       # bound on one path only (NameError on the other): keep, flagged
            if (n in e1) != (n in e2):
                v = e1.get(n) or e2.get(n)
                special[n] = v.with_(meta=dict(v.meta, maybe_unbound=True))
        super().merge(st, c, env, e1, e2)
        env.update(special)

    def effect_call(self, node, env):
        f = node.func
        if isinstance(f, ast.Attribute) and f.attr == 'reset_values' and len(node.args) == 1 and not node.keywords:
            o = self.tr(f.value, env)
            if o.kind == 'obj' and 'sig' in o.meta:
                return dict(what='reset_values', obj=o, value=self.tr(node.args[0], env))
        self.fail(node, 'call statement')

    def loop(self, st, env, pc):
        it = st.iter
        if isinstance(it, ast.Call) and isinstance(it.func, ast.Name) and it.func.id == 'range' and len(it.args) == 1 and \
                isinstance(st.target, ast.Name) and not st.orelse:
            n = self.tr(it.args[0], env)
            if n.kind == 'pylen':
                n = Val('int', n.text)
            if isinstance(it.args[0], ast.Call) and self.np_name(it.args[0].func) == 'len':
                pass
            if n.kind != 'int' or n.ndim:
                self.fail(st, 'range bound')
            i = self.fresh(st.target.id, 'Int', 'the loop index', canon=f"index of loop {1 + len([x for x in self.events if x['ev'] == 'loop'])}")
            body_env = dict(env)
            body_env[st.target.id] = Val('int', i)
            # carried scalars: every scalar name assigned in the body that exists before the loop is a state parameter
            assigned = {t.id for x in ast.walk(ast.Module(body=st.body, type_ignores=[])) if isinstance(x, ast.Assign)
                        for t in x.targets if isinstance(t, ast.Name)}
            carried = [k for k in env if k in assigned and env[k].kind in ('int', 'rat') and not env[k].ndim]
            for n_c, k in enumerate(carried):
                body_env[k] = Val(env[k].kind, self.fresh(k + '_cur', LEAN_TY[env[k].kind], f"the value of `{k}` before this iteration",
                                                         canon=f"carried {LEAN_TY[env[k].kind]} {n_c} before the iteration"))
            self.loop_stack.append({'index': i, 'axis': None})
            ev = dict(ev='loop', bound=n, index=i, node=st, pc=list(pc), carried={k: (env[k], body_env[k]) for k in carried})
            self.events.append(ev)
            out = self.run(st.body, body_env, pc)
            self.loop_stack.pop()
            ev['after'] = {k: out[k] for k in carried} if out is not None else None
            ev['env_after'] = out
            self.events.append(dict(ev='endloop'))
            # after the loop the carried scalars are opaque (their final values)
            for k in carried:
                env[k] = Val(env[k].kind, self.fresh(k + '_final', LEAN_TY[env[k].kind], f"the value of `{k}` after the loop"))
            ev['final'] = {k: env[k] for k in carried}
            if out is not None:
                for k, v in out.items():    # bound in the body only: its value in the last iteration (unbound if there was none)
                    if k not in env and v.kind in ('int', 'rat') and not v.ndim:
                        env[k] = Val(v.kind, self.fresh(k + '_last', LEAN_TY[v.kind], f"the value of `{k}` in the last iteration"), meta={'maybe_unbound': True})
            return
        self.fail(st, 'for loop header')


def gen_combine(src, mod, lines):
    fn = find_function(mod, 'combine_at_angle')
    check_params(fn, ['acc_sig_ns', 'acc_sig_we', 'angle'])
    body = [st for st in fn.body if not (isinstance(st, ast.Expr) and isinstance(st.value, ast.Constant))]

    class G(Sym):
        def call_hook(self, e, name, kw, env):
            if name in ('np.cos', 'np.sin', 'np.radians') and len(e.args) == 1 and not kw:
                v = self.tr(e.args[0], env)
                f = self.sym(name[3:], 'Rat → Rat', f"`{name}`")
                if v.kind == 'rat':
                    return v.with_(text=f"{f} {par(v.text)}", lit=False)
            if name == 'AccSignal' and len(e.args) == 2 and not kw:
                return Val('obj', '', meta={'ctor': [self.tr(a, env) for a in e.args], 'attrs': {}})
            return super().call_hook(e, name, kw, env)
    S = G(fn.name, src, 'combine')
    for n in ('cos', 'sin', 'radians'):
        S.sym(n, 'Rat → Rat')
    for n in ('angle', 'ns', 'we', 'dt_ns', 'dt_we'):
        S.sym(n, 'Rat')
    mk = lambda v, dt: Val('obj', '', meta={'attrs': {'values': Val('rat', v, ('k',), 1, {}, meta={'whole': v}), 'dt': Val('rat', dt)}})
    env = {'acc_sig_ns': mk('ns', 'dt_ns'), 'acc_sig_we': mk('we', 'dt_we'), 'angle': Val('rat', 'angle')}
    end = S.run(body, env, [])
    evs = S.events
    need([e['ev'] for e in evs] == ['return'] and end is None and 'ctor' in evs[0]['value'].meta, fn.name, fn, 'statement skeleton (… return AccSignal(combo, dt))')
    combo, dt = evs[0]['value'].meta['ctor']
    need(combo.kind == 'rat' and combo.ndim == 1 and dt.kind == 'rat' and not dt.ndim, fn.name, fn, 'AccSignal(combo, dt) arguments')
    S.emit('Entry', combo, 'entry of `combo` from the entries `ns`, `we` of the two records')
    S.emit('Dt', dt, 'time step of the returned signal')
    lines += ["section", "variable {α : Type} [Add α] [Mul α]", ""]
    for _, d in S.defs:
        lines += [d.replace('Rat', 'α'), ""]
    lines += ["end", "", S.signature_def(), ""]


def gen_rotated(src, mod):
    fn = find_function(mod, 'compute_rotated')
    check_params(fn, ['acc_sig_ns', 'acc_sig_we', 'angle_off_ns', 'parameter', 'func', 'points'])

    class G(RowSym):
        def call_hook(self, e, name, kw, env):
            if name == 'isinstance':
                return Val('bool', 'true', lit=True, meta={'isinstance': True})
            if name == 'np.linspace' and len(e.args) == 3 and not kw:
                a, b, n = (self.tr(x, env) for x in e.args)
                self.events.append(dict(ev='linspace', start=a, stop=b, num=n))
                return Val('rat', self.sym('deg_i', 'Rat', 'the generic entry of `degrees`'), ('i',), 1, {'i': n.text}, meta={'name': 'degrees', 'whole': 'degrees'})
            if name == 'np.mod' and len(e.args) == 2 and not kw:
                a, m = (self.tr(x, env) for x in e.args)
                if a.ndim == 1 and m.lit:
                    self.events.append(dict(ev='mod', arr=a, m=m))
                    return a
            if name == 'combine_at_angle' and len(e.args) == 3 and not kw:
                self.events.append(dict(ev='combine', args=[self.tr(x, env) for x in e.args]))
                return Val('obj', 'new_sig', meta={'attrs': {}})
            self.fail(e, 'call')
    S = G(fn.name, src, 'rotated')
    for n, t in (('dt_ns', 'Rat'), ('dt_we', 'Rat'), ('npts_ns', 'Int'), ('npts_we', 'Int'), ('angle_off_ns', 'Rat'), ('points', 'Int'),
                 ('parameter', 'Option String'), ('func_given', 'Bool')):
        S.sym(n, t)
    mk = lambda nm: Val('obj', nm, meta={'attrs': {'dt': Val('rat', 'dt_' + nm), 'npts': Val('int', 'npts_' + nm)}})
    env = {'acc_sig_ns': mk('ns'), 'acc_sig_we': mk('we'), 'angle_off_ns': Val('rat', 'angle_off_ns'), 'points': Val('int', 'points')}
    body = [st for st in fn.body if not (isinstance(st, ast.Expr) and isinstance(st.value, ast.Constant))]
    # the statements up to the loop are executed symbolically
    loop = [st for st in body if isinstance(st, ast.For)]
    need(len(loop) == 1, fn.name, fn, 'exactly one for loop expected')
    k = body.index(loop[0])
    S.run(body[:k], env, [])
    evs = S.events
    need([e['ev'] for e in evs] == ['assert'] * 4 + ['linspace', 'mod'], fn.name, fn, f"statement skeleton before the loop {[e['ev'] for e in evs]}")
    need(evs[0]['cond'].meta.get('isinstance') and evs[1]['cond'].meta.get('isinstance'), fn.name, fn, 'first two asserts are not isinstance checks')
    S.emit('AssertDt', evs[2]['cond'], 'third `assert`')
    S.emit('AssertNpts', evs[3]['cond'], 'fourth `assert`')
    ls = evs[4]
    S.emit('LinStart', S.to_rat(ls['start']), '`np.linspace(start, stop, num)`: start', ty='Rat')
    S.emit('LinStop', S.to_rat(ls['stop']), '`np.linspace(start, stop, num)`: stop', ty='Rat')
    S.emit('LinNum', ls['num'], '`np.linspace(start, stop, num)`: num')
    S.emit('Modulus', S.to_rat(evs[5]['m']), '`degrees = np.mod(degrees, m)`: m', ty='Rat')
    # loop header and the call of combine_at_angle
    lp = loop[0]
    hd = "for i in range(len(degrees)):\n    pass"
    want = ast.parse(hd).body[0]
    need(isinstance(lp.target, ast.Name) and ast.dump(lp.iter) == ast.dump(want.iter).replace("'degrees'", repr([st.targets[0].id for st in body[:k] if isinstance(st, ast.Assign) and isinstance(st.value, ast.Call) and S.np_name(st.value.func) == 'np.mod'][-1])),
         fn.name, lp, 'loop is not `for i in range(len(degrees))`')
    first = lp.body[0]
    need(isinstance(first, ast.Assign) and isinstance(first.value, ast.Call) and S.np_name(first.value.func) == 'combine_at_angle' and
         ast.dump(first.value.args[0]) == ast.dump(ast.Name('acc_sig_ns', ast.Load())) and ast.dump(first.value.args[1]) == ast.dump(ast.Name('acc_sig_we', ast.Load()))
         and isinstance(first.value.args[2], ast.Subscript) and ast.dump(first.value.args[2].slice) == ast.dump(ast.Name(lp.target.id, ast.Load())) and
         ast.dump(first.value.args[2].value) == ast.dump(lp.iter.args[0].args[0]) and len(first.value.args) == 3 and not first.value.keywords,
         fn.name, first, 'loop body does not start with new_sig = combine_at_angle(acc_sig_ns, acc_sig_we, degrees[i])')
    # the if/elif chain: which tests lead to `raise ValueError`
    chain = lp.body[1] if len(lp.body) == 2 else None
    need(isinstance(chain, ast.If), fn.name, lp, 'loop body is not (combine, if/elif chain)')
    env2 = {'parameter': Val('optstr', 'parameter'), 'func': Val('opt', 'func')}
    tests = []
    cur = chain
    while True:
        tests.append(cur.test)
        if len(cur.orelse) == 1 and isinstance(cur.orelse[0], ast.If):
            cur = cur.orelse[0]
            continue
        break
    need(len(cur.orelse) == 1 and isinstance(cur.orelse[0], ast.Raise) and getattr(getattr(cur.orelse[0].exc, 'func', None), 'id', None) == 'ValueError',
         fn.name, cur, 'the chain does not end in `else: raise ValueError`')

    def test(t):
        d = ast.dump(t)
        if d == ast.dump(ast.parse('parameter == "arias_intensity"').body[0].value):
            return 'parameter = some "arias_intensity"'
        if d == ast.dump(ast.parse('parameter is not None').body[0].value):
            return 'parameter.isSome = true'
        if d == ast.dump(ast.parse('func is not None').body[0].value):
            return 'func_given = true'
        raise Untranslatable(fn.name, t.lineno, 'test of the measure chain: ' + ast.get_source_segment(src, t))
    S.emit('Raises', ' ∧ '.join(f"¬({test(t)})" for t in tests), 'path condition of `raise ValueError` (no test of the if/elif chain holds)', ty='Prop')
    ret = body[-1]
    need(isinstance(ret, ast.Return) and isinstance(ret.value, ast.Tuple) and len(ret.value.elts) == 2 and
         ast.dump(ret.value.elts[0]) == ast.dump(lp.iter.args[0].args[0]), fn.name, ret, 'return is not (degrees, np.array(pvalues))')
    return S


def gen_section_average(src, mod, ssrc, smod):
    fn = find_function(mod, 'get_section_average')
    check_params(fn, ['series', 'start', 'end', 'index'])

    class G(ClusterSym):
        kwkinds = {}

        def call_hook(self, e, name, kw, env):
            if name == 'time_indices' and not kw:
                self.events.append(dict(ev='time_indices', args=[self.tr(a, env) for a in e.args]))
                return Val('tuple', '', meta={'elts': [Val('int', self.sym('s_index', 'Int', 'first component of `time_indices(…)`')),
                                                        Val('int', self.sym('e_index', 'Int', 'second component of `time_indices(…)`'))]})
            return super().call_hook(e, name, kw, env)
    S = G(fn.name, src, 'sectionAverage')
    S.sym('values', 'List Rat')
    for n, t in (('dt', 'Rat'), ('start', 'Rat'), ('end_', 'Rat'), ('index', 'Bool')):
        S.sym(n, t)
    series = Val('obj', 'series', meta={'attrs': {'values': arr_param('values', 'rat', 'k'), 'npts': Val('int', '(values.length : Int)'), 'dt': Val('rat', 'dt')}})
    env = {'series': series, 'start': Val('rat', 'start'), 'end': Val('rat', 'end_'), 'index': Val('bool', 'index')}
    body = [st for st in fn.body if not (isinstance(st, ast.Expr) and isinstance(st.value, ast.Constant))]
    need(len(body) >= 2 and isinstance(body[0], ast.Assign) and isinstance(body[0].targets[0], ast.Tuple) and len(body[0].targets[0].elts) == 2,
         fn.name, fn, 'first statement is not `s, e = time_indices(…)`')
    t = S.tr(body[0].value, env)
    need(t.kind == 'tuple' and [e['ev'] for e in S.events] == ['time_indices'], fn.name, body[0], 'first statement is not `s, e = time_indices(…)`')
    a = S.events[0]['args']
    need([x.text for x in a] == ['(values.length : Int)', 'dt', 'start', 'end_', 'index'], fn.name, body[0],
         'arguments of time_indices are not (series.npts, series.dt, start, end, index)')
    for nm, v in zip(body[0].targets[0].elts, t.meta['elts']):
        env[nm.id] = v
    end = S.run(body[1:], env, [])
    evs = S.events[1:]
    need([e['ev'] for e in evs] == ['slice', 'fold', 'return'] and end is None and evs[1]['which'] == 'np.mean' and
         evs[2]['value'].text == evs[1]['sym'] and evs[1]['arr'].text == evs[0]['sym'] and is_param_whole(evs[0]['base'], 'values'),
         fn.name, fn, 'body is not `return np.mean(series.values[a:b])`')
    need(evs[0]['lo'] is not None and evs[0]['hi'] is not None, fn.name, fn, 'slice bounds')
    S.emit('Lo', evs[0]['lo'], 'start of the averaged slice `series.values[a:b]`')
    S.emit('Hi', evs[0]['hi'], 'stop of the averaged slice `series.values[a:b]`')
    for p, role in (('start', 'DefaultStart'), ('end', 'DefaultEnd')):
        d = S.tr(default_of(fn, p, src), {})
        need(d.lit and d.kind == 'int', fn.name, fn, f"default of {p}")
        S.emit(role, d.text, f"default of `{p}`", ty='Int')
    d = default_of(fn, 'index', src)
    need(isinstance(d, ast.Constant) and d.value is False, fn.name, fn, 'default of index')
    # the method of Signal delegates with every argument passed through and the same defaults
    m = find_function(smod, 'get_section_average', cls='Signal')
    check_params(m, ['self', 'start', 'end', 'index'], 'Signal.get_section_average')
    mb = [st for st in m.body if not (isinstance(st, ast.Expr) and isinstance(st.value, ast.Constant))]
    want = ast.parse("return get_section_average(self, start=start, end=end, index=index)").body[0]
    need(len(mb) == 1 and ast.dump(mb[0]) == ast.dump(want), 'Signal.get_section_average', m, 'method does not delegate to fns.average.get_section_average')
    need([ast.dump(x) for x in m.args.defaults] == [ast.dump(x) for x in fn.args.defaults], 'Signal.get_section_average', m, 'defaults differ from the function')
    return S


def gen_same_start(src, mod):
    fn = find_function(mod, 'same_start', cls='Cluster')
    need([a.arg for a in fn.args.args] == ['self'] and fn.args.kwarg is not None and fn.args.kwarg.arg == 'kwargs', 'Cluster.same_start', fn, 'parameters')
    S = ClusterSym('Cluster.same_start', src, 'sameStart')
    S.kwkinds = {'base': 'skip', 'start': 'rat', 'end': 'rat', 'verbose': 'skip'}
    S.sym('master_index', 'Int')
    S.sym('dt', 'Rat')
    env = {}
    end = S.run(fn.body, env, [])
    evs = [e for e in S.events if e['ev'] not in ('endloop',)]
    kinds = [e['ev'] for e in evs]
    need(kinds == ['signal', 'average', 'loop', 'signal', 'average', 'call'] and end is not None, 'Cluster.same_start', fn, f"statement skeleton {kinds}")
    s0, a0, lp, s1, a1, call = evs
    need(s0['index'].text == 'master_index' and a0['obj'] is s0['obj'], 'Cluster.same_start', fn, 'master_average is not the section average of signal_by_index(master_index)')
    need(lp['bound'].text == 'n_signals' and s1['index'].text == lp['index'] and a1['obj'] is s1['obj'], 'Cluster.same_start', lp['node'],
         'loop is not over all signals / slave is not signal_by_index(i)')
    for a in (a0, a1):
        need(a['start'].text == 'start' and a['end'].text == 'end_', 'Cluster.same_start', fn, 'get_section_average(start=start, end=end)')
    need(len(call['pc']) == 1 and call['value']['what'] == 'reset_values' and call['value']['obj'] is s1['obj'], 'Cluster.same_start', call['node'],
         'loop body is not `if <cond>: slave.reset_values(…)`')
    S.emit('DefaultStart', S.to_rat(S.kwdefaults['start']), "`kwargs.get('start', d)`: d", ty='Rat')
    S.emit('DefaultEnd', S.to_rat(S.kwdefaults['end']), "`kwargs.get('end', d)`: d", ty='Rat')
    S.emit('IsSlave', call['pc'][0], 'condition under which signal `i` is changed')
    v = call['value']['value']
    need(v.kind == 'rat' and v.ndim == 1, 'Cluster.same_start', call['node'], 'new values')
    S.emit('NewEntry', v, 'entry of the new values of the slave from its old entry, its section average and the master\'s')
    return S


def gen_time_match(src, mod):
    fn = find_function(mod, 'time_match', cls='Cluster')
    need([a.arg for a in fn.args.args] == ['self'] and fn.args.kwarg is not None, 'Cluster.time_match', fn, 'parameters')
    S = ClusterSym('Cluster.time_match', src, 'timeMatch')
    S.kwkinds = {'verbose': 'skip', 'steps': 'int', 'set_step': 'bool', 'trim': 'skip'}
    S.sym('master_index', 'Int')
    S.sym('steps', 'Int')
    env = {}
    S.run(fn.body, env, [])
    evs = [e for e in S.events if e['ev'] not in ('endloop', 'merge')]
    kinds = [e['ev'] for e in evs]
    want = ['signal', 'signal', 'signal', 'slice', 'loop', 'signal', 'slice', 'slice', 'slice', 'fold', 'continue',
            'loop', 'slice', 'slice', 'fold', 'loop', 'slice', 'slice', 'fold', 'slice', 'slice', 'continue', 'call', 'return']
    need(kinds == want, 'Cluster.time_match', fn, f"statement skeleton {kinds}")
    g0, g1, gm, sl_bm, outer, gs, sl_om, i_bm, i_om, f0, cont0, l1, a_om, a_bm, f1, l2, b_bm, b_om, f2, neg_sl, pos_sl, cont1, call, ret = evs
    F = 'Cluster.time_match'
    need(g0['index'].text == '0' and g1['index'].text == '1' and gm['index'].text == 'master_index', F, fn, 'length_check/bm signals are not indices 0, 1, master_index')
    need(outer['bound'].text == 'n_signals' and gs['index'].text == outer['index'], F, outer['node'], 'outer loop is not over all signals')
    S.emit('DefaultSteps', S.kwdefaults['steps'].text, "`kwargs.get('steps', d)`: d", ty='Int')
    need(S.kwdefaults['set_step'].text == 'false', F, fn, 'default of set_step')
    need(sl_bm['base'].meta.get('sig') == gm['name'] and sl_om['base'].meta.get('sig') == gs['name'] and sl_bm['lo'] is None and sl_om['lo'] is None and
         sl_bm['hi'].text == sl_om['hi'].text, F, fn, 'bm / om are not master.values[:length_check] / slave.values[:length_check]')
    S.emit('LengthCheck', sl_bm['hi'], 'stop of `bm = master.values[:n]`, `om = slave.values[:n]`')
    need(len(cont0['pc']) >= 1, F, cont0['node'], 'continue for the master')
    S.emit('IsSlave', S.neg(cont0['pc'][-1]), 'condition under which signal `s` is searched and shifted')

    def bounds(ev, base_ev, role, what):
        need(ev['base'].meta.get('slice') is base_ev and ev['lo'] is not None and ev['hi'] is not None, F, ev['node'], f"{what}: slice of the wrong array")
        S.emit(role + 'Lo', ev['lo'], f"{what}: start")
        S.emit(role + 'Hi', ev['hi'], f"{what}: stop")
    bounds(i_bm, sl_bm, 'InitBm', 'initial residual, slice of `bm`')
    bounds(i_om, sl_om, 'InitOm', 'initial residual, slice of `om`')
    need(f0['which'] == 'np.sum' and f0['arr'].text.replace(i_bm['sym'], 'X').replace(i_om['sym'], 'Y') == '(X - Y) * (X - Y)', F, fn,
         'initial residual is not np.sum((bm[..] - om[..]) ** 2)')
    for (lp, x, y, fo, tag, xb, yb, xn, yn) in ((l1, a_om, a_bm, f1, 'Lag', sl_om, sl_bm, 'om', 'bm'), (l2, b_bm, b_om, f2, 'Lead', sl_bm, sl_om, 'bm', 'om')):
        need(lp['bound'].text == 'steps', F, lp['node'], 'search loop is not `for i in range(steps)`')
        bounds(x, xb, tag + 'Moving', f"{tag.lower()} loop, moving slice of `{xn}`")
        bounds(y, yb, tag + 'Fixed', f"{tag.lower()} loop, fixed slice of `{yn}`")
        need(fo['which'] == 'sum' and fo['arr'].text.replace(x['sym'], 'X').replace(y['sym'], 'Y') == '(X - Y) * (X - Y)', F, lp['node'],
             'residual is not sum((moving - fixed) ** 2)')
        after = lp['after']
        need(after is not None, F, lp['node'], 'loop body leaves on every path')
        state = [k for k in lp['carried'] if 'merge' in after[k].meta]
        need(len(state) == 2 and sorted(after[k].kind for k in state) == ['int', 'rat'], F, lp['node'], 'carried state is not (min_diff, min_ind) updated by an if')
        for k in state:
            role = 'MinDiff' if after[k].kind == 'rat' else 'MinInd'
            dname = after[k].meta['merge']
            idx = [n for n, _ in S.defs].index(dname)
            n, t = S.defs.pop(idx)
            S.defs.append((S.prefix + tag + role, t.replace(n, S.prefix + tag + role)))
            S.renames[n] = S.prefix + tag + role
            init = lp['carried'][k][0].text
            if tag == 'Lag':
                need(init == (f0['sym'] if role == 'MinDiff' else '0'), F, lp['node'], 'initial state is not (np.sum(squares), 0)')
            else:
                need(k in l1['final'] and init == l1['final'][k].text, F, lp['node'], 'second loop does not continue from the state of the first')
    # shifting
    env_after = outer['env_after']
    call_v = call['value']
    need(call_v['what'] == 'reset_values' and call_v['obj'] is gs['obj'] and call_v['value'].kind == 'list', F, call['node'], 'slave_signal.reset_values(m_temp)')
    need(ret['value'].kind == 'int', F, ret['node'], 'return value')
    chain = [st for st in outer['node'].body if isinstance(st, ast.If) and any(isinstance(x, ast.Continue) for x in ast.walk(st))][-1]
    envc = dict(outer['env_after'] or {})
    return S, chain


def time_match_shift(S, src, fn_chain):
    """`if min_ind < 0: m_temp = [om[0]] * abs(min_ind) + list(om[:min_ind]) elif min_ind > 0: … else: continue`"""
    F = 'Cluster.time_match'
    c = fn_chain
    need(len(c.body) == 1 and isinstance(c.body[0], ast.Assign) and len(c.orelse) == 1 and isinstance(c.orelse[0], ast.If) and
         len(c.orelse[0].body) == 1 and isinstance(c.orelse[0].body[0], ast.Assign) and len(c.orelse[0].orelse) == 1 and
         isinstance(c.orelse[0].orelse[0], ast.Continue), F, c, 'shift chain is not if/elif/else-continue')
    S.sym('min_ind', 'Int')
    S.sym_doc['min_ind'] = 'the lag found by the two search loops'
    om = Val('rat', 'x_om', ('k',), 1, {}, meta={'whole': 'om', 'name': 'om'})
    env = {'min_ind': Val('int', 'min_ind'), 'om': om}
    n0 = len(S.events)
    out = []
    for tag, br in (('Neg', c), ('Pos', c.orelse[0])):
        cond = S.cond(br.test, env)
        S.emit('Shift' + tag + 'Cond', cond, f"condition of the {'first' if tag == 'Neg' else 'second'} branch of the shift")
        v = S.tr(br.body[0].value, env)
        need(v.kind == 'list' and len(v.meta['parts']) == 2, F, br, 'm_temp is not a concatenation of two parts')
        kinds = [p[0] for p in v.meta['parts']]
        need(kinds == (['repeat', 'slice'] if tag == 'Neg' else ['slice', 'repeat']), F, br, f"parts of m_temp: {kinds}")
        rep = v.meta['parts'][0 if tag == 'Neg' else 1]
        sl = v.meta['parts'][1 if tag == 'Neg' else 0][1].meta['slice']
        (base, idx), count = rep[1], rep[2]
        need(base is om and idx.text == ('0' if tag == 'Neg' else '(-1)'), F, br, 'padding value is not om[0] / om[-1]')
        S.emit('Shift' + tag + 'Count', count, 'number of copies of the padding value')
        if tag == 'Neg':
            need(sl['lo'] is None and sl['hi'] is not None, F, br, 'kept part is not om[:k]')
            S.emit('ShiftNegStop', sl['hi'], 'kept part `om[:k]`: k')
        else:
            need(sl['hi'] is None and sl['lo'] is not None, F, br, 'kept part is not om[k:]')
            S.emit('ShiftPosStart', sl['lo'], 'kept part `om[k:]`: k')
    del S.events[n0:]


def gen_multiple(repo, ns):
    src, mod = read(repo, 'multiple.py')
    asrc, amod = read(repo, 'fns', 'average.py')
    ssrc, smod = read(repo, 'single.py')
    lines = header(ns, 'MultipleFns', 'eqsig/multiple.py, eqsig/fns/average.py (get_section_average) and Signal.get_section_average',
                   ["import EqsigVerif.Prelude.Np", "import EqsigVerif.Model.TimeStep"])
    lines += ["/-! ### `combine_at_angle` (generic; `cos`, `sin`, `radians` are parameters) -/", ""]
    gen_combine(src, mod, lines)
    tm, chain = gen_time_match(src, mod)
    time_match_shift(tm, src, chain)
    for S in (gen_rotated(src, mod), gen_section_average(asrc, amod, ssrc, smod), gen_same_start(src, mod), tm):
        lines += [f"/-! ### `{S.fname}` -/", ""]
        for _, d in S.defs + [('', S.signature_def())]:
            lines += [d, ""]
    lines += [f"end EqsigVerif.{ns}.MultipleFns", ""]
    return {"MultipleFns.lean": "\n".join(lines)}



# ==============================================================================================
# eqsig/fns/time_step.py beyond the factor rule (Gen/TimeStepFactor.lean)
# ==============================================================================================

def after_factor_rule(fn, fname):
    """the statements after `factor = a / b` + the if-chain translated by gen_factor_rule of py2lean.py"""
    body = [st for st in fn.body if not (isinstance(st, ast.Expr) and isinstance(st.value, ast.Constant)) and not isinstance(st, ast.ImportFrom)]
    need(len(body) > 2 and isinstance(body[0], ast.Assign) and isinstance(body[0].targets[0], ast.Name) and isinstance(body[0].value, ast.BinOp) and
         isinstance(body[0].value.op, ast.Div) and isinstance(body[1], ast.If), fname, fn, 'function does not start with factor = a / b and the factor rule')
    f = body[0].targets[0].id
    for n in ast.walk(body[1]):
        if isinstance(n, ast.Assign):
            need(all(isinstance(t, ast.Name) and t.id == f for t in n.targets), fname, n, 'the factor rule assigns something else than the factor')
    return f, body[0].value, body[2:]


def gen_grid(repo, ns):
    src, mod = read(repo, 'fns', 'time_step.py')
    parts = []
    # ---- interp_array_to_approx_dt
    fn = find_function(mod, 'interp_array_to_approx_dt')
    check_params(fn, ['values', 'dt', 'target_dt', 'even'])
    for p, want in (('target_dt', 0.01), ('even', True)):
        d = default_of(fn, p, src)
        need(isinstance(d, ast.Constant) and d.value == want and type(d.value) is type(want), fn.name, fn, f"default of {p}")
    f, quot, rest = after_factor_rule(fn, fn.name)
    S = RowSym(fn.name, src, 'grid')
    for n, t in (('values', 'List Rat'), ('dt', 'Rat'), ('target_dt', 'Rat'), ('factor', 'Rat'), ('even', 'Bool')):
        S.sym(n, t)
    S.sym_doc['factor'] = 'the factor after the factor rule (`Gen/TimeStepFactor.lean`)'
    env = {'values': arr_param('values', 'rat', 'k'), 'dt': Val('rat', 'dt'), 'target_dt': Val('rat', 'target_dt'), 'even': Val('bool', 'even')}
    q = S.tr(quot, env)
    S.emit('Quotient', q, 'the quotient the factor rule is applied to')
    env[f] = Val('rat', 'factor')
    end = S.run(rest, env, [])
    evs = S.events
    kinds = [e['ev'] for e in evs]
    need(kinds == ['merge', 'interp', 'return'] and end is None, fn.name, fn, f"statement skeleton {kinds}")
    mg, itp, ret = evs
    S.renames[mg['definition']] = 'gridNewNpts'
    S.defs = [(('gridNewNpts', t.replace(mg['definition'], 'gridNewNpts')) if n == mg['definition'] else (n, t)) for n, t in S.defs]
    need(is_param_whole(itp['fp'], 'values'), fn.name, fn, 'np.interp does not interpolate `values`')
    x = itp['x']
    need(x.ndim == 1 and x.axes == ('k',), fn.name, fn, 'abscissae of np.interp')
    S.emit('Count', x.dims['k'], 'number of abscissae: `len(np.arange(new_npts))`', ty='Int')
    S.emit('Abscissa', x, 'entry `k` of `t_db`')
    S.syms['x'] = 'Rat'
    S.emit('Interp', itp['text'].replace(par(S.to_rat(x)), 'x'), 'entry of `np.interp(t_db, np.arange(len(values)), values)` at abscissa `x` (defaults: `left = values[0]`, `right = values[-1]`)', ty='Rat')
    del S.syms['x']
    rv = ret['value']
    need(rv.kind == 'tuple' and len(rv.meta['elts']) == 2 and rv.meta['elts'][0].text == itp['sym'], fn.name, ret['node'], 'return is not (acc_interp, new_dt)')
    S.emit('NewDt', rv.meta['elts'][1], 'second component of the returned pair')
    parts.append(S)
    # ---- resample_to_approx_dt
    fn = find_function(mod, 'resample_to_approx_dt')
    check_params(fn, ['asig', 'target_dt', 'even'])
    for p, want in (('target_dt', 0.01), ('even', True)):
        d = default_of(fn, p, src)
        need(isinstance(d, ast.Constant) and d.value == want and type(d.value) is type(want), fn.name, fn, f"default of {p}")
    f, quot, rest = after_factor_rule(fn, fn.name)

    class R(RowSym):
        def call_hook(self, e, name, kw, env):
            if name == 'resample' and len(e.args) == 2 and not kw:
                a, n = self.tr(e.args[0], env), self.tr(e.args[1], env)
                self.events.append(dict(ev='resample', arr=a, num=n))
                return Val('rat', 'resampled', ('k',), 1, {}, meta={'resample': True})
            if isinstance(e.func, ast.Attribute) and e.func.attr == 'AccSignal' and len(e.args) == 2 and not kw:
                return Val('obj', '', meta={'ctor': [self.tr(a, env) for a in e.args], 'attrs': {}})
            return super().call_hook(e, name, kw, env)
    S = R(fn.name, src, 'resample')
    for n, t in (('values', 'List Rat'), ('dt', 'Rat'), ('target_dt', 'Rat'), ('factor', 'Rat'), ('even', 'Bool')):
        S.sym(n, t)
    asig = Val('obj', 'asig', meta={'attrs': {'dt': Val('rat', 'dt'), 'values': arr_param('values', 'rat', 'k'), 'npts': Val('int', '(values.length : Int)')}})
    env = {'asig': asig, 'target_dt': Val('rat', 'target_dt'), 'even': Val('bool', 'even')}
    S.emit('Quotient', S.tr(quot, env), 'the quotient the factor rule is applied to')
    env[f] = Val('rat', 'factor')
    end = S.run(rest, env, [])
    evs = S.events
    kinds = [e['ev'] for e in evs]
    need(kinds == ['merge', 'resample', 'return'] and end is None, fn.name, fn, f"statement skeleton {kinds}")
    mg, rs, ret = evs
    S.renames[mg['definition']] = 'resampleNewNpts'
    S.defs = [(('resampleNewNpts', t.replace(mg['definition'], 'resampleNewNpts')) if n == mg['definition'] else (n, t)) for n, t in S.defs]
    need(is_param_whole(rs['arr'], 'values') and rs['num'].kind == 'int' and not rs['num'].ndim, fn.name, fn, 'resample(asig.values, <int>)')
    S.emit('Num', rs['num'], 'second argument of `scipy.signal.resample`')
    c = ret['value'].meta.get('ctor')
    need(c is not None and c[0].meta.get('resample') and c[1].kind == 'rat', fn.name, ret['node'], 'return is not AccSignal(resampled, new_dt)')
    S.emit('NewDt', c[1], 'time step of the returned signal')
    parts.append(S)
    text = header(ns, 'TimeStepGrid', 'eqsig/fns/time_step.py (everything after the factor rule: number of points, time grid, np.interp arguments, resampled length)',
                  ["import EqsigVerif.Prelude.Np", "import EqsigVerif.Prelude.Interp", "import EqsigVerif.Model.TimeStep"])
    for S in parts:
        text += [f"/-! ### `{S.fname}` -/", ""]
        for _, d in S.defs + [('', S.signature_def())]:
            text += [d, ""]
    text += [f"end EqsigVerif.{ns}.TimeStepGrid", ""]
    return {"TimeStepGrid.lean": "\n".join(text)}



# ==============================================================================================
# the simple mutators of eqsig/single.py
# ==============================================================================================

class MutSym(ClusterSym):
    kwkinds = {}

    def __init__(self, *a):
        super().__init__(*a)
        self.sym('values', 'List Rat')
        self.sym('v', 'Rat', 'the generic entry of `self.values`')
        self.sym('dt', 'Rat')
        self.me = {'values': Val('rat', 'v', ('k',), 1, {'k': '(values.length : Int)'}, meta={'name': 'values', 'whole': 'values'}),
                   'npts': Val('int', '(values.length : Int)'), 'dt': Val('rat', 'dt'), 'verbose': Val('int', 'self_verbose')}

    def tr(self, e, env):
        if isinstance(e, ast.Attribute) and isinstance(e.value, ast.Name) and e.value.id == 'self' and e.attr in self.me:
            if e.attr == 'verbose':
                self.sym('self_verbose', 'Int')
            return self.me[e.attr]
        return super().tr(e, env)

    def call_hook(self, e, name, kw, env):
        if name == 'isinstance' and len(e.args) == 2 and isinstance(e.args[0], ast.Name) and isinstance(e.args[1], (ast.Name, ast.Attribute)):
            cls = ast.get_source_segment(self.src, e.args[1])
            return Val('bool', self.sym(f"{e.args[0].id}_is_{cls.replace('.', '_')}", 'Bool', f"isinstance({e.args[0].id}, {cls})"))
        if name == 'np.array' and len(e.args) == 1 and not kw and self.tr(e.args[0], env).kind == 'optarr':
            return Val('cutpair', 'cut_off')
        return super().call_hook(e, name, kw, env)

    def effect_call(self, node, env):
        f = node.func
        if isinstance(f, ast.Attribute) and isinstance(f.value, ast.Name) and f.value.id == 'self' and f.attr in ('reset_values', 'add_series') and \
                len(node.args) == 1 and not node.keywords:
            return dict(what=f.attr, value=self.tr(node.args[0], env))
        self.fail(node, 'call statement')

    def index_hook(self, e, base, idx, env):
        if base.kind == 'optarr' and idx.lit and idx.text in ('0', '1'):
            return Val('opt', self.sym(f"{base.text}_{idx.text}", 'Option Rat', f"`{base.text}[{idx.text}]`"))
        return super().index_hook(e, base, idx, env)

    def subscript(self, e, env):
        base = self.tr(e.value, env)
        if base.kind == 'optarr' and not isinstance(e.slice, (ast.Slice, ast.Tuple)):
            return self.index_hook(e, base, self.tr(e.slice, env), env)
        return super().subscript(e, env)


def method(smod, name):
    fn = find_function(smod, name, cls='Signal')
    return fn, [st for st in fn.body if not (isinstance(st, ast.Expr) and isinstance(st.value, ast.Constant))]


def gen_mutators(repo, ns):
    src, mod = read(repo, 'single.py')
    parts = []
    # ---- add_constant
    fn, body = method(mod, 'add_constant')
    check_params(fn, ['self', 'constant'], 'Signal.add_constant')
    S = MutSym('Signal.add_constant', src, 'addConstant')
    S.sym('constant', 'Rat')
    end = S.run(body, {'constant': Val('rat', 'constant')}, [])
    evs = S.events
    need([e['ev'] for e in evs] == ['call'] and end is not None and evs[0]['value']['what'] == 'reset_values' and not evs[0]['pc'], S.fname, fn,
         'body is not self.reset_values(<expr>)')
    S.emit('Entry', evs[0]['value']['value'], 'entry of the new values')
    parts.append(S)
    # ---- add_series
    fn, body = method(mod, 'add_series')
    check_params(fn, ['self', 'series'], 'Signal.add_series')
    S = MutSym('Signal.add_series', src, 'addSeries')
    S.sym('series', 'List Rat')
    S.sym('s', 'Rat', 'the generic entry of `series`')
    series = Val('rat', 's', ('k',), 1, {'k': '(series.length : Int)'}, meta={'name': 'series', 'whole': 'series'})
    end = S.run(body, {'series': series}, [])
    evs = S.events
    need([e['ev'] for e in evs] == ['call', 'raise'] and end is not None and evs[0]['value']['what'] == 'reset_values' and len(evs[0]['pc']) == 1 and
         len(evs[1]['pc']) == 1 and evs[1]['pc'][0].text == S.neg(evs[0]['pc'][0]).text, S.fname, fn, 'body is not if <cond>: self.reset_values(…) else: raise …')
    need(evs[1]['exc'] == 'SignalProcessingError', S.fname, evs[1]['node'], 'exception class')
    S.emit('Ok', evs[0]['pc'][0], 'condition under which the series is added (otherwise `SignalProcessingError`)')
    S.emit('Entry', evs[0]['value']['value'], 'entry of the new values')
    parts.append(S)
    # ---- add_signal
    fn, body = method(mod, 'add_signal')
    check_params(fn, ['self', 'new_signal'], 'Signal.add_signal')
    S = MutSym('Signal.add_signal', src, 'addSignal')
    S.sym('new_dt', 'Rat')
    S.sym('new_values', 'List Rat')
    ns_obj = Val('obj', 'new_signal', meta={'attrs': {'dt': Val('rat', 'new_dt'), 'values': Val('rat', 'nv', ('k',), 1, {'k': '(new_values.length : Int)'},
                                                                                      meta={'name': 'new_values', 'whole': 'new_values'})}})
    end = S.run(body, {'new_signal': ns_obj}, [])
    evs = S.events
    need([e['ev'] for e in evs] == ['call', 'raise', 'raise'] and end is not None and evs[0]['value']['what'] == 'add_series' and
         evs[0]['value']['value'].meta.get('whole') == 'new_values' and evs[0]['value']['value'].text == 'nv', S.fname, fn,
         'body is not the nested if … self.add_series(new_signal.values) else raise … else raise …')
    need(all(e['exc'] == 'SignalProcessingError' for e in evs[1:]), S.fname, fn, 'exception class')
    need(len(evs[0]['pc']) == 2 and evs[0]['pc'][0].kind == 'bool' and '_is_Signal' in evs[0]['pc'][0].text, S.fname, fn, 'outer test is not isinstance(new_signal, Signal)')
    S.emit('IsSignalTest', evs[0]['pc'][0], 'outer test')
    S.emit('DtTest', evs[0]['pc'][1], 'inner test')
    parts.append(S)
    # ---- remove_average
    fn, body = method(mod, 'remove_average')
    check_params(fn, ['self', 'section', 'verbose'], 'Signal.remove_average')
    S = MutSym('Signal.remove_average', src, 'removeAverage')
    S.sym('section_', 'Int')
    d = S.tr(default_of(fn, 'section', src), {})
    need(d.kind == 'int' and d.lit, S.fname, fn, 'default of section')
    S.emit('DefaultSection', d.text, 'default of `section`', ty='Int')
    # `if verbose == -1: verbose = self.verbose` and `if verbose: print(…)` carry no semantics for the values
    body = [st for st in body if not (isinstance(st, ast.If) and isinstance(st.test, ast.Compare) and isinstance(st.test.left, ast.Name) and
                                      st.test.left.id == 'verbose' and all(isinstance(x, ast.Assign) and x.targets[0].id == 'verbose' for x in st.body) and not st.orelse)]
    end = S.run(body, {'section': Val('int', 'section_'), 'verbose': Val('int', 'verbose')}, [])
    evs = S.events
    need([e['ev'] for e in evs] == ['slice', 'fold', 'call'] and end is not None and evs[1]['which'] == 'np.mean' and evs[1]['arr'].text == evs[0]['sym'] and
         is_param_whole_v(evs[0]['base']) and evs[2]['value']['what'] == 'reset_values' and not evs[2]['pc'], S.fname, fn,
         'body is not average = np.mean(self.values[a:b]); self.reset_values(<expr>)')
    need(evs[0]['lo'] is None and evs[0]['hi'] is not None, S.fname, fn, 'averaged slice is not self.values[:b]')
    S.emit('Stop', evs[0]['hi'], 'stop of the averaged slice `self.values[:b]`')
    S.emit('Entry', evs[2]['value']['value'], 'entry of the new values from the old entry and the average')
    parts.append(S)
    # ---- butter_pass: container test, length test, filter-type selection
    fn, body = method(mod, 'butter_pass')
    need([a.arg for a in fn.args.args] == ['self', 'cut_off'] and fn.args.kwarg is not None, 'Signal.butter_pass', fn, 'parameters')
    head = [st for st in body if not isinstance(st, ast.ImportFrom)]
    k = 0
    while k < len(head) and isinstance(head[k], ast.If):
        k += 1
    need(k == 3, 'Signal.butter_pass', fn, f"expected three leading if statements, found {k}")
    S = MutSym('Signal.butter_pass', src, 'butter')
    S.sym('n_cut_off', 'Int', '`len(cut_off)`')
    env = {'cut_off': Val('optarr', 'cut_off', meta={'len': 'n_cut_off'})}
    t0 = head[0]
    acc = []
    cur = t0.test
    need(isinstance(cur, ast.BoolOp) and isinstance(cur.op, ast.Or) and len(t0.body) == 1 and isinstance(t0.body[0], ast.Pass) and len(t0.orelse) == 1 and
         isinstance(t0.orelse[0], ast.Raise) and getattr(getattr(t0.orelse[0].exc, 'func', None), 'id', None) == 'ValueError', S.fname, t0,
         'container test is not if isinstance(..) or …: pass else: raise ValueError')
    for v in cur.values:
        need(isinstance(v, ast.Call) and getattr(v.func, 'id', None) == 'isinstance' and len(v.args) == 2 and isinstance(v.args[0], ast.Name) and
             v.args[0].id == 'cut_off', S.fname, v, 'container test')
        acc.append(ast.get_source_segment(src, v.args[1]))
    S.emit('Containers', '[' + ', '.join(f'"{a}"' for a in acc) + ']', 'accepted container types of `cut_off` (anything else: `ValueError`)', ty='List String')
    n0 = len(S.events)
    end = S.run(head[1:3], env, [])
    evs = [e for e in S.events[n0:] if e['ev'] != 'merge']
    need([e['ev'] for e in evs] == ['raise'] and evs[0]['exc'] == 'ValueError' and len(evs[0]['pc']) == 1 and end is not None, S.fname, fn, 'length test')
    S.emit('LenRaises', evs[0]['pc'][0], 'condition of the second `raise ValueError`')
    ft = [v for k2, v in end.items() if v.kind == 'str']
    need(len(ft) == 1, S.fname, head[2], 'exactly one string variable (filter_type) expected after the selection')
    S.emit('FilterType', ft[0].text, 'the selected `btype`', ty='String')
    # which element is handed on as cut-off in the two single-sided branches
    sel = head[2]
    picks = []
    for br in (sel.orelse[0].body if len(sel.orelse) == 1 and isinstance(sel.orelse[0], ast.If) else [], sel.orelse[0].orelse if len(sel.orelse) == 1 and isinstance(sel.orelse[0], ast.If) else []):
        p = [st.value for st in br if isinstance(st, ast.Assign) and st.targets[0].id == 'cut_off']
        need(len(p) == 1 and isinstance(p[0], ast.Subscript) and isinstance(p[0].value, ast.Name) and p[0].value.id == 'cut_off' and
             isinstance(p[0].slice, ast.Constant) and p[0].slice.value in (0, 1), S.fname, sel, 'single-sided branch does not pick cut_off[0] / cut_off[1]')
        picks.append(p[0].slice.value)
    band = [st.value for st in sel.body if isinstance(st, ast.Assign) and st.targets[0].id == 'cut_off']
    need(len(band) == 1 and ast.dump(band[0]) == ast.dump(ast.parse('np.array(cut_off)').body[0].value), S.fname, sel, 'band branch does not keep both cut-offs')
    S.emit('PickSecondBranch', str(picks[0]), 'index of the cut-off handed on in the `elif` branch', ty='Int')
    S.emit('PickThirdBranch', str(picks[1]), 'index of the cut-off handed on in the `else` branch', ty='Int')
    parts.append(S)
    text = header(ns, 'Mutators', 'eqsig/single.py (add_constant, add_series, add_signal, remove_average, filter-type selection of butter_pass)',
                  ["import EqsigVerif.Prelude.Np", "import EqsigVerif.Model.TimeStep"])
    for S in parts:
        text += [f"/-! ### `{S.fname}` -/", ""]
        for _, d in S.defs + [('', S.signature_def())]:
            text += [d, ""]
    text += [f"end EqsigVerif.{ns}.Mutators", ""]
    return {"Mutators.lean": "\n".join(text)}


def is_param_whole_v(v):
    return isinstance(v, Val) and v.meta.get('whole') == 'values' and v.text == 'v'


TARGETS = [gen_time_shift, gen_multiple, gen_grid, gen_mutators]
