#!/usr/bin/env python3
"""py2lean_x_single2 — plug-in of tools/py2lean.py: the ARITHMETIC of the in-place mutators of `eqsig/single.py::AccSignal`
(`rebase_displacement`, `set_zero_residual_velocity`, `set_zero_residual_displacement`, `set_zero_residual_displacement_and_velocity`,
`correct_me`, `remove_rolling_average`) → `Gen/Single2.lean` (exact rationals: `int(<float>)` forces a concrete number type).

Scheme (class `M`): the method body is executed symbolically, statement by statement, once per value of the FLAGS (`timezone` is `None` /
`(t0, None)` / `(t0, t1)`; `mtype == "velocity"` or not), into one `Except ErrKind` `do` block per flag value:
  * kinds: `lit` (integer / float literal), `q` (finite float: Lean `Rat`; tagged NumPy scalar or Python float), `fl` (float that may be
    non-finite: `NpS.Fl`), `int` (Python int), `nat` (`len(·)`, `self.npts`), `oint` (slice bound: `none` / `some int`), `arr` (finite float
    array `List Rat`), `flarr` (`List NpS.Fl`);
  * `+ - *` on finite values stay finite; `x / <non-zero literal>` stays finite; a division with a NumPy scalar operand is `NpS.fdiv` (never raises;
    the result is `fl`); `int(a / b)` is `NpS.intNpDivE` (NumPy quotient) or `NpS.intPyDivE` (Python floats: `ZeroDivisionError`); any other
    division of two Python floats is `Untranslatable`;
  * lazy properties: the first read of `self.velocity` / `self.displacement` emits `let vd ← NpS.veloDispE values dt`; `self.pga` emits
    `NpS.pgaE values`; `self.time` is `NpS.timeArr values.length dt`; a read of one of them AFTER the record was changed is `Untranslatable`;
  * `x[-1]` ↦ `NpS.lastE`, `x[0]` ↦ `NpS.headE`, `x[a:b]` ↦ `NpS.sliceO` (`x[:]` ↦ `x`);
  * `vals = self.values` aliases the record; `vals[si:ei] -= d` / `self._values -= d` ↦ `NpS.isubScalarE` / `NpS.isubArrayE` (tail position) or
    `Np.subL` (finite array); `self.reset_values(vals)` / `self.clear_cache()` end the method: the result is the new record;
  * `if <flag test>` is resolved per flag value; `if c: raise E` ↦ `NpR.guardE`; `raise E` ends the arm.
Anything else raises `Untranslatable(function, line, construct)`.
"""
import ast
import os

from py2lean_struct import Untranslatable
import py2lean_x_rest as R


class Val:
    def __init__(self, kind, text, np=False, value=None):
        self.kind, self.text, self.np, self.value = kind, text, np, value


def self_attr(n, attr=None):
    return isinstance(n, ast.Attribute) and isinstance(n.value, ast.Name) and n.value.id == 'self' and (attr is None or n.attr == attr)


class M:
    def __init__(self, fname, src, flags, params):
        self.fname, self.src, self.flags = fname, src, flags
        self.env = dict(params)
        self.lines = []
        self.cnt = 0
        self.vcnt = 0
        self.vd = False
        self.mutated = False
        self.record = Val('arr', 'values', True)      # current self._values
        self.result = None
        self.raised = None
        self.tail = None

    def fail(self, node, what):
        seg = ast.get_source_segment(self.src, node) if hasattr(node, 'lineno') else ''
        raise Untranslatable(self.fname, getattr(node, 'lineno', 0), f"{what}: {seg}" if seg else what)

    def bind(self, text, kind, np=True):
        self.cnt += 1
        nm = f"e{self.cnt}"
        self.lines.append(f"let {nm} ← {text}")
        self.tail = (nm, text)
        return Val(kind, nm, np)

    def let(self, v):
        self.vcnt += 1
        nm = f"v{self.vcnt}"
        self.lines.append(f"let {nm} := {v.text}")
        return Val(v.kind, nm, v.np)

    # ---- coercions
    def rat(self, v, node):
        if v.kind == 'q':
            return v.text
        if v.kind == 'lit':
            return f"({v.value} : Rat)"
        if v.kind == 'nat':
            return f"(({v.text} : Nat) : Rat)"
        if v.kind == 'int':
            return f"(({v.text} : Int) : Rat)"
        self.fail(node, f"expected a finite number, got {v.kind}")

    def fl(self, v, node):
        return v.text if v.kind == 'fl' else f"(some {self.rat(v, node)})"

    def integer(self, v, node):
        if v.kind == 'int':
            return v.text
        if v.kind == 'lit' and isinstance(v.value, int):
            return f"({v.value} : Int)"
        if v.kind == 'nat':
            return f"(({v.text} : Nat) : Int)"
        self.fail(node, f"expected an integer, got {v.kind}")

    def oint(self, v, node):
        if v.kind == 'none':
            return 'none'
        return f"(some {self.integer(v, node)})"

    # ---- expressions
    def lazy_vd(self, node):
        if self.mutated:
            self.fail(node, 'lazy property read after the record was changed')
        if not self.vd:
            self.lines.append("let vd ← NpS.veloDispE values dt")
            self.vd = True

    def tr(self, e):
        if isinstance(e, ast.Constant):
            if e.value is None:
                return Val('none', 'none')
            if isinstance(e.value, bool) or isinstance(e.value, str):
                self.fail(e, 'literal')
            if isinstance(e.value, int):
                return Val('lit', None, value=e.value)
            if isinstance(e.value, float) and e.value == int(e.value):
                return Val('lit', None, value=int(e.value), np=None)      # `1.`: a Python float literal with an integral value
            self.fail(e, 'float literal')
        if isinstance(e, ast.Name):
            if e.id in self.env:
                return self.env[e.id]
            self.fail(e, 'unknown name')
        if isinstance(e, ast.Attribute) and self_attr(e):
            a = e.attr
            if a == 'dt':
                return Val('q', 'dt', False)
            if a == 'npts':
                return Val('nat', 'values.length')
            if a == 'values' or a == '_values':
                return self.record
            if a in ('velocity', 'displacement'):
                self.lazy_vd(e)
                return Val('arr', 'vd.1' if a == 'velocity' else 'vd.2', True)
            if a == 'pga':
                if self.mutated:
                    self.fail(e, 'lazy property read after the record was changed')
                return self.bind("NpS.pgaE values", 'q')
            if a == 'time':
                return Val('arr', f"(NpS.timeArr {self.record.text}.length dt)", True)
            self.fail(e, 'attribute of self')
        if isinstance(e, ast.UnaryOp) and isinstance(e.op, ast.USub):
            v = self.tr(e.operand)
            if v.kind == 'lit':
                return Val('lit', None, value=-v.value)
            if v.kind in ('int', 'nat'):
                return Val('int', f"(-{self.integer(v, e)})")
            self.fail(e, 'unary minus')
        if isinstance(e, ast.BinOp):
            return self.binop(e)
        if isinstance(e, ast.Subscript):
            return self.subscript(e)
        if isinstance(e, ast.Call):
            return self.call(e)
        self.fail(e, f"expression {type(e).__name__}")

    def scalar_bin(self, op, l, r, node):
        """(kind, text, np) of a binary operator on scalar values"""
        ks = (l.kind, r.kind)
        scal = ('lit', 'q', 'fl', 'int', 'nat')
        if l.kind not in scal or r.kind not in scal:
            self.fail(node, f"operator on {ks}")
        np = bool(l.np) or bool(r.np)
        if op is ast.Pow:
            if l.kind == 'q' and r.kind == 'lit' and r.value in (2, 3):
                return Val('q', f"({l.text} ^ {r.value})", l.np)
            self.fail(node, 'power')
        sym = {ast.Add: '+', ast.Sub: '-', ast.Mult: '*'}.get(op)
        if 'fl' in ks:
            f = {ast.Add: 'NpS.fadd', ast.Sub: 'NpS.fsub', ast.Mult: 'NpS.fmul', ast.Div: 'NpS.fdiv'}.get(op)
            if f is None:
                self.fail(node, 'operator')
            return Val('fl', f"({f} {self.fl(l, node)} {self.fl(r, node)})", True)
        if op is ast.Div:
            if r.kind == 'lit' and r.value != 0 and l.kind == 'q':
                return Val('q', f"({l.text} / ({r.value} : Rat))", l.np)
            if np:
                return Val('fl', f"(NpS.fdiv {self.fl(l, node)} {self.fl(r, node)})", True)
            v = Val('pyquot', None, False)
            v.value = (self.rat(l, node), self.rat(r, node))
            return v                                           # only `int(·)` may consume a quotient of Python floats
        if sym is None:
            self.fail(node, 'operator')
        if set(ks) <= {'int', 'nat', 'lit'} and ks != ('lit', 'lit'):
            if ks == ('nat', 'nat') and op is not ast.Sub:
                return Val('nat', f"({l.text} {sym} {r.text})")
            return Val('int', f"({self.integer(l, node)} {sym} {self.integer(r, node)})")
        if ks == ('lit', 'lit'):
            self.fail(node, 'operator on two literals')
        return Val('q', f"({self.rat(l, node)} {sym} {self.rat(r, node)})", np)

    def binop(self, e):
        op = type(e.op)
        l, r = self.tr(e.left), self.tr(e.right)
        arrs = [x for x in (l, r) if x.kind in ('arr', 'flarr', 'map')]
        if not arrs:
            return self.scalar_bin(op, l, r, e)
        if l.kind == 'arr' and r.kind == 'arr' and op is ast.Sub:
            return Val('arr', f"(Np.subL {l.text} {r.text})", True)
        if len(arrs) == 2:
            self.fail(e, 'operator on two arrays')
        # scalar ⊕ array: fused map over the entries (`map` = (source, entry body, entry kind))
        a = arrs[0]
        src, body, ek = a.value if a.kind == 'map' else (a.text, 't', 'q' if a.kind == 'arr' else 'fl')
        ent = Val(ek, body, True)
        res = self.scalar_bin(op, ent, r, e) if a is l else self.scalar_bin(op, l, ent, e)
        if res.kind not in ('q', 'fl'):
            self.fail(e, 'array entries')
        v = Val('map', None, True)
        v.value = (src, res.text, res.kind)
        return v

    def materialise(self, v, node):
        if v.kind == 'map':
            src, body, ek = v.value
            return Val('arr' if ek == 'q' else 'flarr', f"({src}.map (fun t => {R.strip_outer(body)}))", True)
        return v

    def subscript(self, e):
        # timezone[0] / timezone[1]
        if isinstance(e.value, ast.Name) and e.value.id in self.env and self.env[e.value.id].kind == 'tz':
            if isinstance(e.slice, ast.Constant) and e.slice.value in (0, 1):
                return self.env[e.value.id].value[e.slice.value]
            self.fail(e, 'timezone index')
        base = self.materialise(self.tr(e.value), e)
        if base.kind not in ('arr', 'flarr'):
            self.fail(e, f"subscript of {base.kind}")
        s = e.slice
        if isinstance(s, ast.Slice):
            if s.step is not None:
                self.fail(e, 'slice step')
            lo = self.tr(s.lower) if s.lower is not None else Val('none', 'none')
            hi = self.tr(s.upper) if s.upper is not None else Val('none', 'none')
            if lo.kind == 'none' and hi.kind == 'none':
                return base
            if lo.kind == 'lit' and lo.value == 0 and hi.kind == 'none':
                return base
            if lo.kind == 'none' and hi.kind == 'lit' and hi.value >= 0 and base.kind == 'flarr':
                return Val('flarr', f"({base.text}.take {hi.value})", True)
            return Val(base.kind, f"(NpS.sliceO {base.text} {self.oint(lo, e)} {self.oint(hi, e)})", True)
        idx = self.tr(s)
        if idx.kind == 'lit' and idx.value == -1 and base.kind == 'arr':
            return self.bind(f"NpS.lastE {base.text}", 'q')
        if idx.kind == 'lit' and idx.value == 0 and base.kind == 'arr':
            return self.bind(f"NpS.headE {base.text}", 'q')
        self.fail(e, 'index')

    def call(self, e):
        name = R.np_name(e.func)
        a, kw = e.args, e.keywords
        if name == 'int' and len(a) == 1 and not kw:
            q = a[0]
            if isinstance(q, ast.BinOp) and isinstance(q.op, ast.Div):
                l, r = self.tr(q.left), self.tr(q.right)
                if l.kind in ('q', 'lit') and r.kind in ('q', 'lit') and (l.kind, r.kind) != ('lit', 'lit'):
                    f = 'NpS.intNpDivE' if (l.np or r.np) else 'NpS.intPyDivE'
                    return self.bind(f"{f} {self.rat(l, e)} {self.rat(r, e)}", 'int', False)
            self.fail(e, 'int(·) of something that is not a quotient of finite floats')
        if name in ('abs', 'np.abs') and len(a) == 1 and not kw:
            v = self.tr(a[0])
            if v.kind == 'q':
                return Val('q', f"(Np.absv {v.text})", v.np)
            self.fail(e, 'abs')
        if name == 'len' and len(a) == 1 and not kw:
            v = self.materialise(self.tr(a[0]), e)
            if v.kind in ('arr', 'flarr'):
                return Val('nat', f"{v.text}.length")
            self.fail(e, 'len')
        if name == 'detrend' and len(a) == 1 and not kw:
            v = self.tr(a[0])
            if v.kind == 'arr':
                return Val('arr', f"(detrend {v.text})", True)
            self.fail(e, 'detrend')
        if name == 'np.diff' and len(a) == 1 and not kw:
            v = self.tr(a[0])
            if v.kind == 'arr':
                return Val('arr', f"(Np.diff {v.text})", True)
            self.fail(e, 'np.diff')
        if name == 'np.insert' and len(a) == 3 and not kw and isinstance(a[1], ast.Constant) and a[1].value == 0:
            arr = self.materialise(self.tr(a[0]), e)
            x = self.tr(a[2])
            if arr.kind == 'flarr' and x.kind in ('fl', 'q'):
                return Val('flarr', f"({self.fl(x, e)} :: {arr.text})", True)
            self.fail(e, 'np.insert')
        if name == 'np.mean' and len(a) == 1 and not kw:
            v = self.materialise(self.tr(a[0]), e)
            if v.kind == 'flarr':
                return Val('fl', f"(NpS.fmean {v.text})", True)
            self.fail(e, 'np.mean')
        if name == 'np.zeros' and len(a) == 1 and not kw:
            n = self.tr(a[0])
            if n.kind == 'nat':
                v = Val('zeros', None)
                v.value = n.text
                return v
            self.fail(e, 'np.zeros')
        if name == 'np.zeros_like' and len(a) == 1 and not kw:
            v = self.tr(a[0])
            if v.kind == 'arr':
                z = Val('zeros', None)
                z.value = f"{v.text}.length"
                return z
            self.fail(e, 'np.zeros_like')
        self.fail(e, 'call')

    # ---- statements
    def static_test(self, t):
        if isinstance(t, ast.Compare) and len(t.ops) == 1 and isinstance(t.ops[0], (ast.Is, ast.IsNot)) and \
                isinstance(t.comparators[0], ast.Constant) and t.comparators[0].value is None:
            v = self.tr(t.left)
            if v.kind == 'fl' or v.kind == 'pyquot':
                return None
            isnone = v.kind == 'none'
            return isnone if isinstance(t.ops[0], ast.Is) else not isnone
        if isinstance(t, ast.Compare) and len(t.ops) == 1 and isinstance(t.ops[0], ast.Eq) and isinstance(t.left, ast.Name) and \
                t.left.id in self.env and self.env[t.left.id].kind == 'strflag' and isinstance(t.comparators[0], ast.Constant) and \
                isinstance(t.comparators[0].value, str):
            return self.env[t.left.id].value == t.comparators[0].value
        return None

    def done(self):
        return self.result is not None or self.raised is not None

    def run(self, body):
        for st in body:
            if self.raised is not None:
                break                 # dead code after an unconditional `raise` (the flags are resolved)
            if self.result is not None:
                self.fail(st, 'statement after the end of the method')
            self.stmt(st)

    def exc(self, st):
        x = st.exc.func if isinstance(st.exc, ast.Call) else st.exc
        if isinstance(x, ast.Name) and x.id in ('ValueError', 'IndexError', 'TypeError'):
            return x.id
        self.fail(st, 'raise')

    def isub(self, target_slice, rhs, node):
        """the record after `<record>[lo:hi] -= rhs`"""
        lo, hi = target_slice
        rhs = self.materialise(rhs, node)
        self.mutated = True
        if rhs.kind in ('fl', 'q', 'lit'):
            new = self.bind(f"NpS.isubScalarE {self.record.text} {lo} {hi} {self.fl(rhs, node)}", 'arr')
        elif rhs.kind == 'flarr':
            new = self.bind(f"NpS.isubArrayE {self.record.text} {lo} {hi} {rhs.text}", 'arr')
        elif rhs.kind == 'arr' and lo == 'none' and hi == 'none':
            new = self.let(Val('arr', f"Np.subL {self.record.text} {rhs.text}", True))
        else:
            self.fail(node, f"in-place subtraction of {rhs.kind}")
        # every alias of the record sees the change
        for k, v in list(self.env.items()):
            if v is self.record:
                self.env[k] = new
        self.record = new

    def stmt(self, st):
        if isinstance(st, ast.Expr) and isinstance(st.value, ast.Constant) and isinstance(st.value.value, str):
            return
        if isinstance(st, ast.ImportFrom) and st.module == 'scipy.signal' and [x.name for x in st.names] == ['detrend']:
            return
        hook = getattr(self, 'hook', None)
        if hook is not None and hook(self, st):
            return
        if isinstance(st, ast.Raise):
            self.raised = self.exc(st)
            return
        if isinstance(st, ast.If):
            v = self.static_test(st.test)
            if v is not None:
                self.run(st.body if v else st.orelse)
                return
            # `if c: raise E` on integers
            if len(st.body) == 1 and isinstance(st.body[0], ast.Raise) and not st.orelse and isinstance(st.test, ast.Compare) and \
                    len(st.test.ops) == 1 and isinstance(st.test.ops[0], ast.Lt):
                l, r = self.tr(st.test.left), self.tr(st.test.comparators[0])
                self.lines.append(f"let _ ← NpR.guardE (decide ({self.integer(l, st)} < {self.integer(r, st)})) .{self.exc(st.body[0])}")
                if l.kind == 'int' and r.kind == 'lit' and r.value == 1 and isinstance(st.test.left, ast.Name):
                    # past this guard the integer is positive: as a window width it is the natural number `toNat`
                    self.env[st.test.left.id] = Val('posint', l.text)
                return
            self.fail(st, 'if')
        if isinstance(st, ast.Assign) and len(st.targets) == 1:
            tg = st.targets[0]
            if isinstance(tg, ast.Name):
                v = self.tr(st.value)
                if v.kind == 'map':
                    v = self.let(self.materialise(v, st))
                self.env[tg.id] = v
                return
            if self_attr(tg, '_values'):
                v = self.materialise(self.tr(st.value), st)
                if v.kind not in ('arr', 'flarr'):
                    self.fail(st, 'self._values = <not an array>')
                self.mutated = True
                self.record = v
                return
            if isinstance(tg, ast.Subscript) and isinstance(tg.value, ast.Name) and isinstance(tg.slice, ast.Slice) and tg.slice.lower is None \
                    and tg.slice.step is None and tg.value.id in self.env and self.env[tg.value.id].kind == 'flarr':
                # a[:k] = scalar
                k = self.tr(tg.slice.upper)
                v = self.tr(st.value)
                if k.kind == 'lit' and k.value >= 0 and v.kind in ('fl', 'q'):
                    self.env[tg.value.id] = Val('flarr', f"(NpS.fillTo {self.env[tg.value.id].text} {k.value} {self.fl(v, st)})", True)
                    return
            self.fail(st, 'assignment target')
        if isinstance(st, ast.AugAssign) and isinstance(st.op, ast.Sub):
            tg = st.target
            if self_attr(tg, '_values'):
                return self.isub(('none', 'none'), self.tr(st.value), st)
            if isinstance(tg, ast.Subscript) and isinstance(tg.value, ast.Name) and tg.value.id in self.env and \
                    self.env[tg.value.id] is self.record and isinstance(tg.slice, ast.Slice) and tg.slice.step is None:
                lo = self.tr(tg.slice.lower) if tg.slice.lower is not None else Val('none', 'none')
                hi = self.tr(tg.slice.upper) if tg.slice.upper is not None else Val('none', 'none')
                rhs = self.tr(st.value)
                return self.isub((self.oint(lo, st), self.oint(hi, st)), rhs, st)
            if isinstance(tg, ast.Name) and tg.id in self.env and self.env[tg.id].kind == 'arr' and self.env[tg.id] is not self.record:
                rhs = self.tr(st.value)
                if rhs.kind == 'q':
                    self.env[tg.id] = self.let(Val('arr', f"{self.env[tg.id].text}.map (fun t => t - {rhs.text})", True))
                    return
            self.fail(st, 'augmented assignment')
        if isinstance(st, ast.Expr) and isinstance(st.value, ast.Call) and self_attr(st.value.func) and not st.value.keywords:
            m = st.value.func.attr
            if m == 'reset_values' and len(st.value.args) == 1:
                v = self.materialise(self.tr(st.value.args[0]), st)
                if v.kind not in ('arr', 'flarr'):
                    self.fail(st, 'reset_values of something that is not an array')
                self.result = v
                return
            if m == 'clear_cache' and not st.value.args and self.mutated:
                self.result = self.record
                return
        self.fail(st, f"statement {type(st).__name__}")

    def finish(self):
        if self.raised is not None:
            return self.lines + [f"throw ErrKind.{self.raised}"]
        if self.result is None:
            raise Untranslatable(self.fname, 0, 'the method does not end with reset_values / clear_cache')
        r = self.result
        if r.kind == 'flarr':
            return self.lines + [f"NpS.finiteE {r.text}"]
        if self.tail is not None and self.tail[0] == r.text and self.lines and self.lines[-1] == f"let {r.text} ← {self.tail[1]}":
            return self.lines[:-1] + [self.tail[1]]
        return self.lines + [f"pure {r.text}"]


TZ_FLAGS = [('none', None), ('some (t0, none)', (Val('q', 't0', False), Val('none', 'none'))),
            ('some (t0, some t1)', (Val('q', 't0', False), Val('q', 't1', False)))]


def method(mod, src, name, flagspec, lean_name, doc, binders, hook=None, extra_env=None):
    fn = R.find_function(mod, name, 'AccSignal')
    names, defaults = R.py_params(fn, f"AccSignal.{name}")
    arms = []
    if flagspec == 'tz':
        if names != ['self', 'timezone'] or not R.is_none(defaults.get('timezone')):
            raise Untranslatable(f"AccSignal.{name}", fn.lineno, 'signature is not (self, timezone=None)')
        for pat, val in TZ_FLAGS:
            tz = Val('none', 'none') if val is None else Val('tz', None)
            tz.value = val
            m = M(f"AccSignal.{name}", src, None, {'timezone': tz})
            m.run(R.body_of(fn))
            arms.append((pat, m.finish()))
        head = f"def {lean_name} {binders} (timezone : Option (Rat × Option Rat)) :\n    Except ErrKind (List Rat) :=\n  match timezone with"
    elif flagspec == 'mtype':
        if names != ['self', 'mtype', 'freq_window']:
            raise Untranslatable(f"AccSignal.{name}", fn.lineno, 'signature is not (self, mtype, freq_window)')
        for pat, val in (('true', 'velocity'), ('false', '\0other')):
            sf = Val('strflag', None)
            sf.value = val
            m = M(f"AccSignal.{name}", src, None, {'mtype': sf, 'freq_window': Val('q', 'freq_window', False)})
            m.hook = hook
            m.run(R.body_of(fn))
            arms.append((pat, m.finish()))
        head = f"def {lean_name} {binders} (mtype_is_velocity : Bool) (freq_window : Rat) :\n    Except ErrKind (List Rat) :=\n  match mtype_is_velocity with"
    else:
        if names != ['self']:
            raise Untranslatable(f"AccSignal.{name}", fn.lineno, 'signature is not (self)')
        m = M(f"AccSignal.{name}", src, None, dict(extra_env or {}))
        m.hook = hook
        m.run(R.body_of(fn))
        lines = m.finish()
        return f"/-- {doc} -/\ndef {lean_name} {binders} :\n    Except ErrKind (List Rat) := do\n" + "\n".join("  " + l for l in lines), fn, defaults
    out = [f"/-- {doc} -/", head]
    for pat, lines in arms:
        out.append(f"  | {pat} => do")
        out += ["    " + l for l in lines]
    return "\n".join(out), fn, defaults


def roll_loop_hook(ssrc, defs_out):
    """`for i in range(len(mot))` storing `roll[i]` on every path, reading only `mot`: the sample function `rollAt` (translated by the
    engine of py2lean_x_rest, exactly like the loop of `Signal.running_average`) mapped over the indices"""
    def hook(m, st):
        if not isinstance(st, ast.For):
            return False
        it = st.iter
        if st.orelse or not isinstance(st.target, ast.Name) or not (
                isinstance(it, ast.Call) and R.np_name(it.func) == 'range' and len(it.args) == 1 and not it.keywords and
                isinstance(it.args[0], ast.Call) and R.np_name(it.args[0].func) == 'len' and len(it.args[0].args) == 1 and
                isinstance(it.args[0].args[0], ast.Name)):
            m.fail(st, 'loop header is not `for i in range(len(<array>))`')
        mot = it.args[0].args[0].id
        ivar = st.target.id
        if mot not in m.env or m.env[mot].kind != 'arr':
            m.fail(st, 'loop range')
        bufs = [k for k, v in m.env.items() if v.kind == 'zeros' and v.value == f"{m.env[mot].text}.length"]
        if len(bufs) != 1:
            m.fail(st, 'no separate buffer `np.zeros_like(<array>)` for the loop to write')
        buf = bufs[0]
        wname = [k for k, v in m.env.items() if v.kind == 'posint']
        if len(wname) != 1:
            m.fail(st, 'window width is not an integer guarded by `if width < 1: raise`')
        wname = wname[0]

        class Out(ast.NodeTransformer):
            def visit_Assign(self, node):
                if len(node.targets) == 1 and isinstance(node.targets[0], ast.Subscript) and isinstance(node.targets[0].value, ast.Name) and \
                        node.targets[0].value.id == buf and isinstance(node.targets[0].slice, ast.Name) and node.targets[0].slice.id == ivar:
                    return ast.copy_location(ast.Assign(targets=[ast.Name(id='__out__', ctx=ast.Store())], value=node.value), node)
                return node
        lbody = [ast.fix_missing_locations(Out().visit(b)) for b in st.body]
        for b in lbody:
            for n in ast.walk(b):
                if isinstance(n, ast.Name) and n.id == buf:
                    m.fail(st, 'the loop reads or writes the buffer other than `buf[i] = …`')
                if isinstance(n, ast.Attribute) and self_attr(n):
                    m.fail(st, 'the loop reads an attribute of self')
        fake = ast.FunctionDef(name='remove_rolling_average', args=ast.arguments(
            posonlyargs=[], args=[ast.arg(arg=mot), ast.arg(arg=wname), ast.arg(arg=ivar)], kwonlyargs=[], kw_defaults=[], defaults=[]),
            body=lbody, decorator_list=[], lineno=st.lineno)
        sig = dict(qualname='AccSignal.remove_rolling_average', pure=True,
                   params={mot: ('rarr', 'mot'), wname: ('nat', 'width'), ivar: ('nat', 'i')},
                   result=lambda ex: [ex.env['__out__']] if '__out__' in ex.env else ex.fail(st, 'the iteration does not store buf[i] on every path'))
        r = R.translate(fake, ssrc, sig, 'rollAt', 'the sample `roll[i]` written by iteration `i` of the loop of `AccSignal.remove_rolling_average`; `mot` is '
                        'the array the window means are taken of (the loop writes a SEPARATE buffer and reads only `mot`)')
        if not defs_out:
            defs_out.extend(r['text'])
        elif defs_out != r['text']:
            m.fail(st, 'the loop translates differently on the two paths')
        m.env[buf] = Val('arr', f"((List.range {m.env[mot].text}.length).map (rollAt {m.env[mot].text} (Int.toNat {m.env[wname].text})))", True)
        return True
    return hook


def correct_hook(m, st):
    """`for i in range(self.npts - 1): X[i + 1] = (Y[i + 1] - Y[i]) / self.dt` (one or more such stores; `X = np.zeros(self.npts)`; `Y` an array of
    length `npts` that is loop-invariant or an `X` of an earlier store of the same iteration): `X = NpS.diffQuot Y dt`"""
    if not isinstance(st, ast.For):
        return False
    it = st.iter
    ok = not st.orelse and isinstance(st.target, ast.Name) and isinstance(it, ast.Call) and R.np_name(it.func) == 'range' and \
        len(it.args) == 1 and not it.keywords and isinstance(it.args[0], ast.BinOp) and isinstance(it.args[0].op, ast.Sub) and \
        self_attr(it.args[0].left, 'npts') and isinstance(it.args[0].right, ast.Constant) and it.args[0].right.value == 1
    if not ok:
        m.fail(st, 'loop header is not `for i in range(self.npts - 1)`')
    i = st.target.id

    def at(n, nm, off):
        if not (isinstance(n, ast.Subscript) and isinstance(n.value, ast.Name) and n.value.id == nm):
            return False
        s = n.slice
        if off == 0:
            return isinstance(s, ast.Name) and s.id == i
        return isinstance(s, ast.BinOp) and isinstance(s.op, ast.Add) and isinstance(s.left, ast.Name) and s.left.id == i and \
            isinstance(s.right, ast.Constant) and s.right.value == 1
    written = []
    for b in st.body:
        if not (isinstance(b, ast.Assign) and len(b.targets) == 1 and isinstance(b.targets[0], ast.Subscript) and isinstance(b.targets[0].value, ast.Name)):
            m.fail(b, 'loop body statement is not `X[i + 1] = …`')
        X = b.targets[0].value.id
        if not at(b.targets[0], X, 1) or X not in m.env or m.env[X].kind != 'zeros' or m.env[X].value != 'values.length':
            m.fail(b, 'store target is not `X[i + 1]` of `X = np.zeros(self.npts)`')
        v = b.value
        if not (isinstance(v, ast.BinOp) and isinstance(v.op, ast.Div) and self_attr(v.right, 'dt') and isinstance(v.left, ast.BinOp) and
                isinstance(v.left.op, ast.Sub) and isinstance(v.left.left, ast.Subscript) and isinstance(v.left.left.value, ast.Name)):
            m.fail(b, 'stored value is not `(Y[i + 1] - Y[i]) / self.dt`')
        Y = v.left.left.value.id
        if not at(v.left.left, Y, 1) or not at(v.left.right, Y, 0) or Y == X or Y not in m.env:
            m.fail(b, 'stored value is not `(Y[i + 1] - Y[i]) / self.dt`')
        y = m.env[Y]
        if y.kind == 'arr':
            ytext = f"({y.text}.map some)"
        elif y.kind == 'flarr' and Y in written:
            ytext = y.text
        else:
            m.fail(b, '`Y` is neither a finite array nor written earlier in the same iteration')
        m.env[X] = m.let(Val('flarr', f"NpS.diffQuot {ytext} dt", True))
        written.append(X)
    return True


def gen_single2(repo, ns):
    ssrc = open(os.path.join(repo, 'eqsig', 'single.py')).read()
    smod = ast.parse(ssrc)
    B = "(values : List Rat) (dt : Rat)"
    defs = []
    t, _, _ = method(smod, ssrc, 'rebase_displacement', None, 'rebaseDisplacement',
                     '`AccSignal.rebase_displacement()`: the new `self.values`', B)
    defs.append(t)
    for py, ln in (('set_zero_residual_velocity', 'setZeroResidualVelocity'), ('set_zero_residual_displacement', 'setZeroResidualDisplacement'),
                   ('set_zero_residual_displacement_and_velocity', 'setZeroResidualDisplacementAndVelocity')):
        t, _, _ = method(smod, ssrc, py, 'tz', ln, f"`AccSignal.{py}(timezone)`: the new `self.values` (`timezone`: `none` = `None`, "
                         "`some (t0, none)` = `(t0, None)`, `some (t0, some t1)` = `(t0, t1)`)", B)
        defs.append(t)
    t, _, _ = method(smod, ssrc, 'correct_me', None, 'correctMe', '`AccSignal.correct_me()`: the new `self.values`; `detrend` stands for '
                     '`scipy.signal.detrend`', "(detrend : List Rat → List Rat) " + B, hook=correct_hook)
    defs.append(t)
    loop_defs = []
    t, fn, dflt = method(smod, ssrc, 'remove_rolling_average', 'mtype', 'removeRollingAverage',
                         '`AccSignal.remove_rolling_average(mtype, freq_window)`: the new `self.values` (`mtype_is_velocity` = `mtype == "velocity"`)',
                         B, hook=roll_loop_hook(ssrc, loop_defs))
    defs += loop_defs
    defs.append(t)
    d_m, d_f = dflt.get('mtype'), dflt.get('freq_window')
    if not (isinstance(d_m, ast.Constant) and isinstance(d_m.value, str) and isinstance(d_f, ast.Constant) and isinstance(d_f.value, int)
            and not isinstance(d_f.value, bool)):
        raise Untranslatable('AccSignal.remove_rolling_average', fn.lineno, 'defaults of mtype / freq_window')
    defs.append(f"/-- defaults `(mtype == \"velocity\", freq_window)` of `remove_rolling_average` -/\n"
                f"def removeRollingAverageDefaults : Bool × Rat := ({'true' if d_m.value == 'velocity' else 'false'}, {d_f.value})")
    text = "\n".join([
        "-- GENERATED by tools/py2lean_x_single2.py from eqsig/single.py (AccSignal.rebase_displacement, set_zero_residual_velocity,",
        "-- set_zero_residual_displacement, set_zero_residual_displacement_and_velocity, correct_me, remove_rolling_average). Do not edit.",
        "import EqsigVerif.Prelude.NpS", "", "set_option linter.unusedVariables false", "", f"namespace EqsigVerif.{ns}.Single2",
        "open EqsigVerif EqsigVerif.Wire", "", "\n\n".join(defs), "", f"end EqsigVerif.{ns}.Single2", ""])
    return {"Single2.lean": text}


TARGETS = [gen_single2]
