import EqsigVerif.Model.Multiple
import EqsigVerif.Lemmas.Single
import Mathlib.Data.Rat.Floor
import Mathlib.Algebra.Order.Floor.Ring
/-!
# Lemmas for `Model/Multiple.lean` (C18)
-/
set_option linter.unusedSectionVars false
set_option linter.unusedVariables false
set_option linter.unusedSimpArgs false
namespace EqsigVerif.Model.Multiple
open EqsigVerif
open EqsigVerif.Wire (ErrKind)
open EqsigVerif.Model.Single

/-! ### means of shifted lists -/

theorem sum_map_sub (l : List ℚ) (d : ℚ) : (l.map (· - d)).sum = l.sum - l.length * d := by
  induction l with
  | nil => simp
  | cons x xs ih => simp only [List.map_cons, List.sum_cons, ih, List.length_cons]; push_cast; ring

theorem mean_map_sub (l : List ℚ) (d : ℚ) (hl : l ≠ []) : mean (l.map (· - d)) = mean l - d := by
  unfold mean
  rw [npSum_eq_sum, npSum_eq_sum, sum_map_sub, List.length_map]
  have : (l.length : ℚ) ≠ 0 := by
    have : l.length ≠ 0 := by simpa using hl
    exact_mod_cast this
  field_simp

theorem meanOpt_map_sub (l : List ℚ) (d : ℚ) : mean? (l.map (· - d)) = (mean? l).map (· - d) := by
  unfold mean?
  cases l with
  | nil => simp
  | cons x xs =>
    have h := mean_map_sub (x :: xs) d (by simp)
    simp only [List.map_cons] at h
    simp [h]

theorem pySlice_map {α β : Type} (f : α → β) (l : List α) (a b : ℤ) :
    pySlice (l.map f) a b = (pySlice l a b).map f := by
  simp [pySlice, List.map_drop, List.map_take]

theorem pySlice_nat {α : Type} (v : List α) (s e : ℕ) (he : e ≤ v.length) :
    pySlice v (s : ℤ) (e : ℤ) = (v.take e).drop s := by
  simp only [pySlice, normIdx_nat, Nat.min_eq_left he]
  by_cases hse : s ≤ v.length
  · rw [Nat.min_eq_left hse]
  · have h3 : v.length ≤ s := by omega
    rw [Nat.min_eq_right h3, List.drop_eq_nil_of_le (by simp),
      List.drop_eq_nil_of_le (by simp; omega)]

/-! ### `get_section_average` -/

theorem sectionAverageN_map_sub (s : List ℚ) (dt start end_ d : ℚ) :
    sectionAverageN (s.map (· - d)) dt start end_
      = (sectionAverageN s dt start end_).map (Option.map (· - d)) := by
  unfold sectionAverageN
  rw [List.length_map]
  cases h : timeIndices s.length dt start end_ with
  | error e => rfl
  | ok p =>
    obtain ⟨a, b⟩ := p
    simp only [Except.map, pySlice_map, meanOpt_map_sub]

theorem truncInt_of_nonneg (q : ℚ) (hq : 0 ≤ q) : truncInt q = ⌊q⌋ := by
  unfold truncInt
  have : ¬ q < 0 := not_lt.mpr hq
  simp only [this, if_false]
  rfl

/-! ### `same_start` -/

theorem allSome_spec {β : Type} (r : List (Option β)) (out : List β) (h : allSome r = some out) :
    r = out.map some := by
  induction r generalizing out with
  | nil => simp [allSome] at h; subst h; rfl
  | cons x xs ih =>
    cases x with
    | none => simp [allSome] at h
    | some y =>
      simp only [allSome] at h
      cases h2 : allSome xs with
      | none => simp [h2] at h
      | some r' =>
        simp only [h2, Option.some.injEq] at h
        subst h
        simp [ih r' h2]

theorem allSome_map_some {β : Type} (out : List β) : allSome (out.map some) = some out := by
  induction out with
  | nil => rfl
  | cons x xs ih => simp [allSome, ih]

/-- what the loop of `same_start` produces, position by position -/
theorem sameStartAux_spec (dt start end_ : ℚ) (masterAv : Option ℚ) (master : ℕ)
    (i : ℕ) (signals : List (List ℚ)) (r : List (Option (List ℚ)))
    (h : sameStartAux dt start end_ masterAv master i signals = .ok r) :
    r.length = signals.length ∧
    ∀ k s, signals[k]? = some s →
      (i + k = master → r[k]? = some (some s)) ∧
      (i + k ≠ master → ∃ sav, sectionAverageN s dt start end_ = .ok sav ∧
          r[k]? = some (shiftRecord s sav masterAv)) := by
  induction signals generalizing i r with
  | nil =>
    simp only [sameStartAux, Except.ok.injEq] at h
    subst h
    simp
  | cons s rest ih =>
    simp only [sameStartAux] at h
    by_cases hm : i ≠ master
    · simp only [hm, ne_eq, not_false_eq_true, if_true] at h
      cases hs : sectionAverageN s dt start end_ with
      | error e => simp [hs] at h
      | ok sav =>
        simp only [hs] at h
        cases hr : sameStartAux dt start end_ masterAv master (i + 1) rest with
        | error e => simp [hr] at h
        | ok r' =>
          simp only [hr, Except.ok.injEq] at h
          subst h
          obtain ⟨hl, hk⟩ := ih (i + 1) r' hr
          refine ⟨by simp [hl], ?_⟩
          intro k s' hk'
          cases k with
          | zero =>
            simp only [List.getElem?_cons_zero, Option.some.injEq] at hk'
            subst hk'
            exact ⟨fun h0 => absurd (by simpa using h0) hm, fun _ => ⟨sav, hs, by simp⟩⟩
          | succ k =>
            simp only [List.getElem?_cons_succ] at hk' ⊢
            have := hk k s' hk'
            rw [show i + 1 + k = i + (k + 1) by omega] at this
            exact this
    · have hm' : i = master := by simpa using hm
      simp only [hm', ne_eq, not_true_eq_false, if_false] at h
      cases hr : sameStartAux dt start end_ masterAv master (master + 1) rest with
      | error e => simp [hr] at h
      | ok r' =>
        simp only [hr, Except.ok.injEq] at h
        subst h
        obtain ⟨hl, hk⟩ := ih (master + 1) r' hr
        refine ⟨by simp [hl], ?_⟩
        intro k s' hk'
        cases k with
        | zero =>
          simp only [List.getElem?_cons_zero, Option.some.injEq] at hk'
          subst hk'
          exact ⟨fun _ => by simp, fun h0 => absurd (by omega) h0⟩
        | succ k =>
          simp only [List.getElem?_cons_succ] at hk' ⊢
          have := hk k s' hk'
          rw [show master + 1 + k = i + (k + 1) by omega] at this
          exact this

/-- the loop of `same_start` raises nothing when no section average raises -/
theorem sameStartAux_ok (dt start end_ : ℚ) (masterAv : Option ℚ) (master : ℕ)
    (i : ℕ) (signals : List (List ℚ))
    (h : ∀ s ∈ signals, ∃ a, sectionAverageN s dt start end_ = .ok a) :
    ∃ r, sameStartAux dt start end_ masterAv master i signals = .ok r := by
  induction signals generalizing i with
  | nil => exact ⟨[], rfl⟩
  | cons s rest ih =>
    obtain ⟨a, ha⟩ := h s (by simp)
    obtain ⟨r', hr'⟩ := ih (i + 1) (fun s' hs' => h s' (by simp [hs']))
    simp only [sameStartAux, ha, hr']
    by_cases hm : i ≠ master <;> simp [hm]

end EqsigVerif.Model.Multiple
