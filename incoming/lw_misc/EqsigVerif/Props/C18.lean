import EqsigVerif.Model.Multiple
import EqsigVerif.Lemmas.Multiple
/-!
# C18 — two-component rotation and cluster alignment

Model: `EqsigVerif/Model/Multiple.lean` (tree with the planned fix `same_start: signal_by_index(i)`).
-/
set_option linter.unusedVariables false
set_option linter.unusedSimpArgs false
set_option linter.unnecessarySeqFocus false
namespace EqsigVerif.Props.C18
open EqsigVerif EqsigVerif.Model.Multiple EqsigVerif.Model.Single
open EqsigVerif.Wire (ErrKind)

/-! ## C18.e — `get_section_average` / `time_indices` -/

/-- **C18.e** (`section_average_spec`, time form, `index=False`) for `dt > 0`, `start ≥ 0`, `end ≥ 0`:
with `s = ⌊start/dt⌋`, `e = ⌊end/dt⌋ + 1`: raises (`SignalProcessingWarning`, tag `.Other`) iff `e > npts`; otherwise
the result is `np.mean(values[s:e])` (`nan` = `none` for an empty section), i.e. for `s < e`
`(Σ_{s ≤ j < e} values[j]) / (e − s)`. -/
theorem section_average_spec (v : List ℚ) (dt start end_ : ℚ) (hdt : 0 < dt) (hs : 0 ≤ start) (he : 0 ≤ end_) :
    let s := ⌊start / dt⌋.toNat
    let e := ⌊end_ / dt⌋.toNat + 1
    ((∃ x, sectionAverageN v dt start end_ = .error x) ↔ v.length < e) ∧
    (v.length < e → sectionAverageN v dt start end_ = .error .Other) ∧
    (e ≤ v.length → sectionAverageN v dt start end_ = .ok (mean? ((v.take e).drop s))) ∧
    (s < e → e ≤ v.length →
      sectionAverage v dt start end_ = .ok ((∑ j ∈ Finset.Ico s e, v.getD j 0) / ((e - s : ℕ) : ℚ))) := by
  intro s e
  have h1 : 0 ≤ ⌊start / dt⌋ := Int.floor_nonneg.mpr (div_nonneg hs hdt.le)
  have h2 : 0 ≤ ⌊end_ / dt⌋ := Int.floor_nonneg.mpr (div_nonneg he hdt.le)
  have hne : end_ ≠ -1 := by linarith
  have hdt0 : dt ≠ 0 := hdt.ne'
  have ti : timeIndices v.length dt start end_ =
      if v.length < e then .error .Other else .ok ((s : ℤ), (e : ℤ)) := by
    unfold timeIndices
    simp only [hdt0, if_false, hne, ne_eq, not_false_eq_true, if_true,
      truncInt_of_nonneg _ (div_nonneg hs hdt.le), truncInt_of_nonneg _ (div_nonneg he hdt.le)]
    have e1 : (⌊end_ / dt⌋ + 1 > (v.length : ℤ)) ↔ v.length < e := by
      simp only [e]; omega
    by_cases hc : v.length < e
    · simp only [e1.mpr hc, hc, if_true]
    · have : ¬ (⌊end_ / dt⌋ + 1 > (v.length : ℤ)) := fun h => hc (e1.mp h)
      simp only [this, hc, if_false]
      congr 2
      · simp only [s]; omega
      · simp only [e]; omega
  have hok : e ≤ v.length → sectionAverageN v dt start end_ = .ok (mean? ((v.take e).drop s)) := by
    intro hle
    unfold sectionAverageN
    rw [ti]
    have : ¬ v.length < e := by omega
    simp only [this, if_false, pySlice_nat v s e (by omega)]
  refine ⟨?_, ?_, hok, ?_⟩
  · constructor
    · rintro ⟨x, hx⟩
      by_contra hc
      rw [hok (by omega)] at hx
      cases hx
    · intro hc
      exact ⟨.Other, by unfold sectionAverageN; rw [ti]; simp [hc]⟩
  · intro hc
    unfold sectionAverageN; rw [ti]; simp [hc]
  · intro hse hle
    unfold sectionAverage
    rw [hok hle]
    have hlen : ((v.take e).drop s).length = e - s := by simp; omega
    have hne : ((v.take e).drop s).isEmpty = false := by
      rw [List.isEmpty_eq_false_iff]; intro h0; rw [h0] at hlen; simp at hlen; omega
    simp only [mean?, hne, nanAsError, Bool.false_eq_true, if_false, mean, npSum_eq_sum,
      sum_slice_eq_Ico v s e hle, hlen]

/-- non-vacuity: `dt = 1/2`, section `[0, 1]` ⇒ samples `0..2`; and a cut beyond the record -/
example : sectionAverage [3, 6, 9, 100] (1/2) 0 1 = .ok 6 ∧
    sectionAverageN [3, 6] (1/2) 0 1 = .error .Other ∧
    sectionAverageN [3, 6, 9] (1/2) 1 (1/2) = .ok none := by decide +kernel

/-- **C18.e** (index form, `index=True`, natural indices): raises iff `e > npts`; else `np.mean(values[s:e])`. -/
theorem section_average_idx_spec (v : List ℚ) (s e : ℕ) :
    (v.length < e → sectionAverageIdxN v s e = .error .Other) ∧
    (e ≤ v.length → sectionAverageIdxN v s e = .ok (mean? ((v.take e).drop s))) := by
  unfold sectionAverageIdxN timeIndicesIdx
  constructor
  · intro h
    have : ((e : ℤ) > (v.length : ℤ)) := by omega
    simp [this]
  · intro h
    have : ¬ ((e : ℤ) > (v.length : ℤ)) := by omega
    simp only [this, if_false, pySlice_nat v s e (by omega)]

example : sectionAverageIdx [3, 6, 9, 100] 1 3 = .ok (15/2) ∧
    sectionAverageIdxN [3, 6, 9, 100] 1 5 = .error .Other := by decide +kernel

/-! ## C18.c — `Cluster.same_start` -/

/-- **C18.c** (`same_start_spec`), every cluster size and every `master_index` (fixed tree). If the call returns
normally (records `out`): the number of records and the master are unchanged, and every non-master record is the
original shifted by a constant such that afterwards its section average **equals the master's**. -/
theorem same_start_spec (signals : List (List ℚ)) (dt start end_ : ℚ) (master : ℕ) (out : List (List ℚ))
    (h : sameStart signals dt master start end_ = .ok out) :
    out.length = signals.length ∧
    (∃ m, signals[master]? = some m ∧ out[master]? = some m) ∧
    ∀ i s o, i ≠ master → signals[i]? = some s → out[i]? = some o →
      (∃ c, o = s.map (· - c)) ∧
      ∃ mAv m, signals[master]? = some m ∧ sectionAverage m dt start end_ = .ok mAv ∧
        sectionAverage o dt start end_ = .ok mAv := by
  unfold sameStart at h
  cases hm : signals[master]? with
  | none => simp [hm] at h
  | some m =>
    simp only [hm] at h
    cases hav : sectionAverageN m dt start end_ with
    | error e => simp [hav] at h
    | ok masterAv =>
      simp only [hav] at h
      cases haux : sameStartAux dt start end_ masterAv master 0 signals with
      | error e => simp [haux] at h
      | ok r =>
        simp only [haux] at h
        cases hall : allSome r with
        | none => simp [hall, nanAsError] at h
        | some out' =>
          simp only [hall, nanAsError, Except.ok.injEq] at h
          subst h
          have hr := allSome_spec r out' hall
          obtain ⟨hlen, hk⟩ := sameStartAux_spec dt start end_ masterAv master 0 signals r haux
          refine ⟨by rw [← hlen, hr]; simp, ⟨m, rfl, ?_⟩, ?_⟩
          · have := (hk master m hm).1 (by omega)
            rw [hr] at this
            simpa using this
          · intro i s o hi hs ho
            obtain ⟨sav, hsav, hri⟩ := (hk i s hs).2 (by omega)
            rw [hr, List.getElem?_map, ho] at hri
            simp only [Option.map_some, Option.some.injEq] at hri
            cases sav with
            | none => simp [shiftRecord] at hri
            | some a =>
              cases masterAv with
              | none => simp [shiftRecord] at hri
              | some mv =>
                simp only [shiftRecord, Option.some.injEq] at hri
                refine ⟨⟨a - mv, hri⟩, mv, m, rfl, ?_, ?_⟩
                · simp [sectionAverage, hav, nanAsError]
                · rw [hri]
                  simp only [sectionAverage, sectionAverageN_map_sub, hsav, Except.map, Option.map_some,
                    nanAsError]
                  congr 1; ring

/-- non-vacuity: three signals, master 1 (the case the unchanged tree gets wrong), `dt = 1/2`, section `[0, 1]` -/
example : sameStart [[1, 2, 3, 4], [10, 20, 30, 40], [5, 5, 8, 0]] (1/2) 1 0 1
    = .ok [[19, 20, 21, 22], [10, 20, 30, 40], [19, 19, 22, 14]] := by decide +kernel

/-- **C18.c** (no spurious failure): if the master index is in range and every record has a (non-`nan`) section
average, `same_start` returns normally. -/
theorem same_start_ok (signals : List (List ℚ)) (dt start end_ : ℚ) (master : ℕ)
    (hm : master < signals.length)
    (hav : ∀ s ∈ signals, ∃ a, sectionAverage s dt start end_ = .ok a) :
    ∃ out, sameStart signals dt master start end_ = .ok out := by
  have havN : ∀ s ∈ signals, ∃ a, sectionAverageN s dt start end_ = .ok (some a) := by
    intro s hs
    obtain ⟨a, ha⟩ := hav s hs
    refine ⟨a, ?_⟩
    unfold sectionAverage at ha
    cases hx : sectionAverageN s dt start end_ with
    | error e => simp [hx, nanAsError] at ha
    | ok o =>
      cases o with
      | none => simp [hx, nanAsError] at ha
      | some b => simp only [hx, nanAsError, Except.ok.injEq] at ha; rw [ha]
  unfold sameStart
  have hget : signals[master]? = some signals[master] := List.getElem?_eq_getElem hm
  obtain ⟨mv, hmv⟩ := havN signals[master] (List.getElem_mem hm)
  simp only [hget, hmv]
  obtain ⟨r, hr⟩ := sameStartAux_ok dt start end_ (some mv) master 0 signals
    (fun s hs => by obtain ⟨a, ha⟩ := havN s hs; exact ⟨some a, ha⟩)
  simp only [hr]
  obtain ⟨hlen, hk⟩ := sameStartAux_spec dt start end_ (some mv) master 0 signals r hr
  -- every produced record is a number
  have hsome : ∀ x ∈ r, ∃ y, x = some y := by
    intro x hx
    obtain ⟨k, hk1, hk2⟩ := List.getElem_of_mem hx
    have hks : k < signals.length := by omega
    have hsk := hk k signals[k] (List.getElem?_eq_getElem hks)
    by_cases hkm : 0 + k = master
    · have := hsk.1 hkm
      rw [List.getElem?_eq_getElem hk1, hk2] at this
      exact ⟨signals[k], by simpa using this⟩
    · obtain ⟨sav, hsav, hrk⟩ := hsk.2 hkm
      obtain ⟨a, ha⟩ := havN signals[k] (List.getElem_mem hks)
      rw [ha] at hsav
      simp only [Except.ok.injEq] at hsav
      subst hsav
      rw [List.getElem?_eq_getElem hk1, hk2] at hrk
      exact ⟨_, by simpa [shiftRecord] using hrk⟩
  have : ∃ out, allSome r = some out := by
    clear hk hr hlen
    induction r with
    | nil => exact ⟨[], rfl⟩
    | cons x xs ih =>
      obtain ⟨y, hy⟩ := hsome x (by simp)
      obtain ⟨o, ho⟩ := ih (fun x' hx' => hsome x' (by simp [hx']))
      exact ⟨y :: o, by simp [hy, allSome, ho]⟩
  obtain ⟨out, hout⟩ := this
  exact ⟨out, by simp [hout, nanAsError]⟩

example : ∃ out, sameStart [[1, 2, 3], [4, 5, 6]] (1/2) 0 0 1 = .ok out :=
  ⟨[[1, 2, 3], [1, 2, 3]], by decide +kernel⟩

end EqsigVerif.Props.C18
