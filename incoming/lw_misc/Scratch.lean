import EqsigVerif.Prelude.Wire
import EqsigVerif.Handlers.Misc
/-! throw-away evaluator used by `validate.py`: `lake env lean --run Scratch.lean < requests > responses`
(same line protocol as `Driver.lean`, table = `Handlers.Misc.handlers`) -/
open EqsigVerif EqsigVerif.Wire

def table : List (String × Handler) := EqsigVerif.Handlers.Misc.handlers

def dispatch (line : String) : String :=
  match line.splitOn "|" with
  | fn :: args =>
    match table.lookup fn.trimAscii.toString with
    | some h => renderOutcome (h (args.map tokens))
    | none => s!"bad|unknown fn '{fn}'"
  | [] => "bad|empty"

partial def loop (inp out : IO.FS.Stream) : IO Unit := do
  let line ← inp.getLine
  if line.isEmpty then return ()
  let l := (line.dropEndWhile (fun c => c == '\n' || c == '\r')).toString
  out.putStrLn (dispatch l)
  loop inp out

def main : IO Unit := do
  let inp ← IO.getStdin
  let out ← IO.getStdout
  loop inp out
  out.flush
