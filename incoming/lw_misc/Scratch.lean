import EqsigVerif.Prelude.Wire
import EqsigVerif.Model.Single
/-! throw-away evaluator used by `validate.py`: `lake env lean --run Scratch.lean < requests > responses` -/
open EqsigVerif EqsigVerif.Wire
open EqsigVerif.Model

def parseMode (s : String) : Except String Single.GibbsMode :=
  match s with
  | "none" => pure .none | "start" => pure .start | "end" => pure .end | "mid" => pure .mid
  | _ => throw s!"bad mode {s}"

def parseOptRat (s : String) : Except String (Option Rat) :=
  if s = "N" then pure none else do let r ← parseRat s; pure (some r)

def parseContainer (s : String) : Except String Single.Container :=
  match s with
  | "list" => pure .list | "tuple" => pure .tuple | "ndarray" => pure .ndarray | "other" => pure .other
  | _ => throw s!"bad container {s}"

def showFT : Single.FilterType → String
  | .low => "low" | .high => "high" | .band => "band"

def singleHandlers : List (String × Handler) := [
  ("running_average", fun
    | [w, v] => do
      let w ← nat1 w; let v ← rats v
      pure (.ok [outRats (Single.runningAverage v w)])
    | _ => throw "args"),
  ("butter_book", fun
    | [n, m, ge] => do
      let n ← nat1 n; let m ← str1 m; let m ← parseMode m; let ge ← nat1 ge
      let (a, b, c) := Single.butterBookkeeping n m ge
      pure (.ok [outNats [a, b, c]])
    | _ => throw "args"),
  ("butter_pad", fun
    | [m, ge, gr, v] => do
      let m ← str1 m; let m ← parseMode m; let ge ← nat1 ge; let gr ← nat1 gr; let v ← rats v
      pure (.ok [outRats (Single.butterPad v m ge gr), outRats (Single.butterPass id v m ge gr)])
    | _ => throw "args"),
  ("filter_select", fun
    | [c, items] => do
      let c ← str1 c; let c ← parseContainer c; let items ← items.mapM parseOptRat
      pure (ofExcept (fun (ft, cut) => [[showFT ft], outRats cut]) (Single.filterSelect c items))
    | _ => throw "args"),
  ("butter_full", fun
    | [c, items, dt, order, m, ge, gr, v] => do
      let c ← str1 c; let c ← parseContainer c; let items ← items.mapM parseOptRat
      let dt ← rat1 dt; let order ← nat1 order
      let m ← str1 m; let m ← parseMode m; let ge ← nat1 ge; let gr ← nat1 gr; let v ← rats v
      pure (ofExcept (fun r => [outRats r])
        (Single.butterPassFull (fun _ _ x => x) c items dt v order m ge gr))
    | _ => throw "args"),
  ("remove_poly_with", fun
    | [cofs, v] => do
      let cofs ← rats cofs; let v ← rats v
      pure (.ok [outRats (Single.removePolyWith cofs v)])
    | _ => throw "args"),
  ("remove_average", fun
    | [sec, v] => do
      let sec ← int1 sec; let v ← rats v
      pure (ofExcept (fun r => [outRats r]) (Single.removeAverage v sec))
    | _ => throw "args"),
  ("add_constant", fun
    | [c, v] => do
      let c ← rat1 c; let v ← rats v
      pure (.ok [outRats (Single.addConstant v c)])
    | _ => throw "args"),
  ("add_series", fun
    | [v, s] => do
      let v ← rats v; let s ← rats s
      pure (ofExcept (fun r => [outRats r]) (Single.addSeries v s))
    | _ => throw "args"),
  ("add_signal", fun
    | [dt, v, kind, dt2, s] => do
      let dt ← rat1 dt; let v ← rats v; let kind ← str1 kind; let dt2 ← rat1 dt2; let s ← rats s
      let o := if kind = "signal" then Single.Operand.signal dt2 s else .notSignal
      pure (ofExcept (fun r => [outRats r]) (Single.addSignal dt v o))
    | _ => throw "args")
]

def table : List (String × Handler) := singleHandlers

def dispatch (line : String) : String :=
  match line.splitOn "|" with
  | fn :: args =>
    match table.lookup fn.trimAscii.toString with
    | some h => renderOutcome (h (args.map tokens))
    | none => s!"bad|unknown fn '{fn}'"
  | [] => "bad|empty"

partial def loop (inp out : IO.FS.Stream) : IO Unit := do
  let line ← inp.getLine
  if line.isEmpty then return ()
  let l := (line.dropEndWhile (fun c => c == '\n' || c == '\r')).toString
  out.putStrLn (dispatch l)
  loop inp out

def main : IO Unit := do
  let inp ← IO.getStdin
  let out ← IO.getStdout
  loop inp out
  out.flush
