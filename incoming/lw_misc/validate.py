"""Differential validation of the lw_misc Lean models against the (fixed) eqsig tree.

cd /tmp/repo_fixed && PYTHONPATH=/tmp/repo_fixed /venv/bin/python /tmp/lw_misc/validate.py [section ...]
Sections: single multiple spectra (default: all that exist)
"""
import sys, subprocess, random, itertools, warnings, math
from fractions import Fraction as Fr
import numpy as np
import eqsig
from eqsig import exceptions
import eqsig.sdof, eqsig.im, eqsig.multiple
import eqsig.fns.generic, eqsig.fns.average, eqsig.fns.time_shift
import scipy.signal

LEAN_DIR = "/tmp/lw_misc"
random.seed(20260926)
warnings.simplefilter("ignore")


def fr(x):
    return Fr(float(x)) if not isinstance(x, Fr) else x


def srat(q):
    q = fr(q)
    return str(q.numerator) if q.denominator == 1 else "%d/%d" % (q.numerator, q.denominator)


def srats(l):
    return " ".join(srat(x) for x in l)


def prat(s):
    if "/" in s:
        a, b = s.split("/")
        return Fr(int(a), int(b))
    return Fr(int(s))


def prats(s):
    return [prat(t) for t in s.split()]


C17 = ["running_average", "butter_book", "butter_pad", "filter_select", "butter_full", "remove_poly_with", "remove_average",
       "add_constant", "add_series", "add_signal"]
C18 = ["section_average", "section_average_idx", "time_indices", "same_start", "time_match", "combine", "rotated_degrees"]
C03 = ["pseudo", "true", "gen_input", "uke", "input_energy", "input_energy_series", "asi", "vsi"]
PREFIX = {**{n: "c17." for n in C17}, **{n: "c18." for n in C18}, **{n: "c03." for n in C03}}


class Batch:
    def __init__(self):
        self.reqs = []   # (request line, checker(resp_fields) -> None or message, description)

    def add(self, line, checker, desc=None):
        self.reqs.append((line, checker, desc or line))

    def run(self, name):
        inp = "\n".join(PREFIX[r[0].split("|")[0]] + r[0] for r in self.reqs) + "\n"
        p = subprocess.run(["lake", "env", "lean", "--run", "Scratch.lean"], cwd=LEAN_DIR, input=inp,
                           capture_output=True, text=True)
        lines = [l for l in p.stdout.split("\n") if l and not l.startswith("WARNING")]
        if len(lines) != len(self.reqs):
            print(p.stderr[-2000:])
            raise SystemExit("%s: %d responses for %d requests" % (name, len(lines), len(self.reqs)))
        bad = 0
        for (line, chk, desc), resp in zip(self.reqs, lines):
            msg = chk(resp.split("|"))
            if msg:
                bad += 1
                if bad <= 15:
                    print("MISMATCH", name, desc[:300], "\n   lean:", resp[:300], "\n   ", msg[:300])
        print("%-28s %5d cases, %d mismatches   (exact %d, within-rounding %d so far)" % (name, len(self.reqs), bad, STATS["exact"], STATS["close"]))
        return bad


def expect_exact(pyvals):
    """pyvals: list of lists of Fractions (exact)"""
    def chk(f):
        if f[0] != "ok":
            return "expected ok, python=%s" % (pyvals,)
        got = [prats(x) for x in f[1:]]
        if got != pyvals:
            return "python=%s" % ([[str(x) for x in l] for l in pyvals],)
        return None
    return chk


STATS = {"exact": 0, "close": 0}


def expect_smart(pyvals, rel=1e-13):
    """exact agreement when the float computation was exact, else within rel (rounding of the impl)"""
    ex = expect_exact(pyvals)
    cl = expect_close(pyvals, rel)

    def chk(f):
        if ex(f) is None:
            STATS["exact"] += 1
            return None
        r = cl(f)
        if r is None:
            STATS["close"] += 1
        return r
    return chk


def expect_close(pyvals, rel=1e-12):
    def chk(f):
        if f[0] != "ok":
            return "expected ok"
        got = [prats(x) for x in f[1:]]
        if [len(g) for g in got] != [len(p) for p in pyvals]:
            return "shape python=%s" % (pyvals,)
        scale = max([abs(x) for l in pyvals for x in l] + [Fr(1)])
        for g, p in zip(got, pyvals):
            for a, b in zip(g, p):
                if abs(a - b) > rel * scale:
                    return "python=%s diff=%g" % ([float(x) for x in p], float(abs(a - b)))
        return None
    return chk


def expect_err(kind):
    def chk(f):
        if f[0] != "err" or f[1] != kind:
            return "expected err|%s" % kind
        return None
    return chk


def expect_tokens(tok_lists):
    def chk(f):
        if f[0] != "ok" or [x.split() for x in f[1:]] != tok_lists:
            return "python=%s" % (tok_lists,)
        return None
    return chk


def dyadic(n, lo=-8, hi=8, den=4):
    return [random.randint(lo * den, hi * den) / den for _ in range(n)]


ERRMAP = {exceptions.SignalProcessingError: "SignalProcessingError", ValueError: "ValueError",
          TypeError: "TypeError", IndexError: "IndexError", ZeroDivisionError: "ZeroDivisionError",
          AssertionError: "AssertionError", AttributeError: "AttributeError",
          exceptions.SignalProcessingWarning: "Other"}


def errkind(e):
    for k, v in ERRMAP.items():
        if type(e) is k:
            return v
    for k, v in ERRMAP.items():
        if isinstance(e, k):
            return v
    return "Other"


# ----------------------------------------------------------------------------------------------- single
def sec_single():
    total = 0
    # running_average: n in 1..12, w in 0..14
    b = Batch()
    for n in range(1, 13):
        for w in range(0, 15):
            for rep in range(2):
                v = [27720 * x for x in dyadic(n)] if rep else [27720 * random.randint(-5, 5) for _ in range(n)]   # int dtype too; 27720 = lcm(1..12) keeps every mean exact
                s = eqsig.Signal(np.array(v), 0.5)
                s.running_average(w)
                b.add("running_average|%d|%s" % (w, srats(v)), expect_exact([[fr(x) for x in s.values]]))
    total += b.run("running_average")

    # butter bookkeeping / padding with filtfilt := identity
    b = Batch()
    b2 = Batch()
    captured = {}
    real_filtfilt = scipy.signal.filtfilt

    def fake_filtfilt(bb, aa, x, *a, **k):
        captured["x"] = np.array(x)
        return np.array(x)
    scipy.signal.filtfilt = fake_filtfilt
    try:
        modes = [("none", None), ("start", "start"), ("end", "end"), ("mid", "mid"), ("mid", 0), ("mid", "other")]
        ns = list(range(1, 20)) + [31, 32, 33, 63, 64, 65, 100, 127, 128, 129]
        for n in ns:
            for (mname, mval) in modes:
                for ge in (0, 1, 2):
                    for gr in (1, 2, 50, n, n + 3):
                        if random.random() < 0.5 and n > 8:
                            continue
                        v = [27720 * x for x in dyadic(n)] if n <= 12 else dyadic(n)
                        s = eqsig.Signal(np.array(v), 0.25)
                        s.butter_pass((None, 1.0), remove_gibbs=mval, gibbs_extra=ge, gibbs_range=gr)
                        pad = captured["x"]
                        b.add("butter_pad|%s|%d|%d|%s" % (mname, ge, gr, srats(v)),
                              expect_smart([[fr(x) for x in pad], [fr(x) for x in s.values]]))
                        assert list(s.values) == v and s.dt == 0.25
        # bookkeeping numbers for many n: recompute exactly as the code does
        for n in list(range(1, 300)) + [511, 512, 513, 1023, 1024, 1025, 2999, 3000, 4096, 4097, 65536, 65537]:
            for (mname, mval) in modes[1:4]:
                for ge in (0, 1, 2, 3):
                    nindex = int(np.ceil(np.log2(n))) + ge
                    new_len = 2 ** nindex
                    diff_len = new_len - n
                    if mval == "start":
                        s_len = 0
                    elif mval == "end":
                        s_len = diff_len
                    else:
                        s_len = int(diff_len / 2)
                    b2.add("butter_book|%d|%s|%d" % (n, mname, ge),
                           expect_tokens([[str(new_len), str(s_len), str(s_len + n)]]))
    finally:
        scipy.signal.filtfilt = real_filtfilt
    total += b.run("butter_pad/pass(identity)")
    total += b2.run("butter_bookkeeping")

    # filter selection + error kinds of the full method (identity filter for values)
    b = Batch()
    scipy.signal.filtfilt_real = real_filtfilt
    cases = []
    for cont in ("list", "tuple", "ndarray", "other"):
        for items in ([None, 2.0], [0.5, None], [0.5, 2.0], [None, None], [2.0, 0.5], [0.5, 0.5], [0.5], [0.5, 1.0, 2.0], [],
                      [None, 4.0], [None, 0.0], [0.0, None], [None, 5.0], [-1.0, 1.0], [0.5, 4.0]):
            cases.append((cont, items))

    def mk(cont, items):
        if cont == "list":
            return list(items)
        if cont == "tuple":
            return tuple(items)
        if cont == "ndarray":
            return np.array(items, dtype=object) if any(i is None for i in items) else np.array(items)
        return dict(enumerate(items)) if random.random() < 0.5 else "ab"
    for cont, items in cases:
        for n, order, (mname, mval), ge in [(40, 4, ("none", None), 1), (5, 4, ("none", None), 1), (5, 4, ("mid", "mid"), 2),
                                            (12, 1, ("none", None), 0), (13, 2, ("end", "end"), 0), (15, 4, ("none", None), 0),
                                            (16, 4, ("none", None), 0), (27, 4, ("none", None), 0), (28, 4, ("none", None), 0),
                                            (9, 2, ("none", None), 0), (10, 2, ("none", None), 0)]:
            v = dyadic(n)
            dt = 0.125   # nyq = 4
            s = eqsig.Signal(np.array(v), dt)
            # use the real filtfilt to observe its errors, but compare values only on error/ok + identity rerun
            try:
                s.butter_pass(mk(cont, items), filter_order=order, remove_gibbs=mval, gibbs_extra=ge, gibbs_range=3)
                out = "ok"
            except Exception as e:
                out = errkind(e)
            line = "butter_full|%s|%s|%s|%d|%s|%d|%d|%s" % (cont, " ".join("N" if i is None else srat(i) for i in items),
                                                          srat(dt), order, mname, ge, 3, srats(v))
            if out == "ok":
                b.add(line, expect_exact([[fr(x) for x in v]]))    # model with F = identity returns the record
            else:
                b.add(line, expect_err(out))
    total += b.run("butter_full(errors)")

    # remove_poly with the impl's own coefficients
    b = Batch()
    for n in list(range(1, 12)) + [20, 33]:
        for k in range(0, 5):
            v = dyadic(n)
            x = np.linspace(0, 1.0, n)
            try:
                cofs = np.polyfit(x, np.array(v), k)
            except Exception as e:
                continue
            if not np.all(np.isfinite(cofs)):
                continue
            out_fn = eqsig.fns.generic.remove_poly(np.array(v), k)
            s = eqsig.Signal(np.array(v), 0.5)
            s.remove_poly(k)
            assert np.array_equal(out_fn, s.values), "object vs array level differ"
            b.add("remove_poly_with|%s|%s" % (srats(cofs), srats(v)), expect_close([[fr(x) for x in out_fn]], 1e-12))
    total += b.run("remove_poly_with")

    # remove_average / add_*
    b = Batch()
    for n in range(1, 8):
        for sec in (-1, -2, 0, 1, 2, 3, 100, -100, n, -n):
            v = [27720 * x for x in dyadic(n)]
            s = eqsig.Signal(np.array(v), 0.5)
            s.remove_average(section=sec)
            line = "remove_average|%d|%s" % (sec, srats(v))
            if np.any(np.isnan(s.values)):
                b.add(line, expect_err("ZeroDivisionError"))
            else:
                b.add(line, expect_smart([[fr(x) for x in s.values]]))
        v = dyadic(n)
        c = dyadic(1)[0]
        s = eqsig.Signal(np.array(v), 0.5)
        s.add_constant(c)
        b.add("add_constant|%s|%s" % (srat(c), srats(v)), expect_exact([[fr(x) for x in s.values]]))
        for m in (n, n + 1, max(n - 1, 0), 1, 0):
            ser = dyadic(m)
            s = eqsig.Signal(np.array(v), 0.5)
            line = "add_series|%s|%s" % (srats(v), srats(ser))
            try:
                s.add_series(np.array(ser))
                b.add(line, expect_exact([[fr(x) for x in s.values]]))
            except Exception as e:
                b.add(line, expect_err(errkind(e)))
            for dt2 in (0.5, 0.25):
                for kind in ("signal", "acc", "array"):
                    s = eqsig.Signal(np.array(v), 0.5)
                    if m == 0 and kind != "array":
                        continue
                    other = {"signal": lambda: eqsig.Signal(np.array(ser), dt2),
                             "acc": lambda: eqsig.AccSignal(np.array(ser), dt2),
                             "array": lambda: np.array(ser)}[kind]()
                    line = "add_signal|%s|%s|%s|%s|%s" % (srat(0.5), srats(v), "signal" if kind != "array" else "other",
                                                          srat(dt2), srats(ser))
                    try:
                        s.add_signal(other)
                        b.add(line, expect_exact([[fr(x) for x in s.values]]))
                    except Exception as e:
                        b.add(line, expect_err(errkind(e)))
    total += b.run("remove_average/add_*")
    return total


# --------------------------------------------------------------------------------------------- multiple
def ssigs(sigs):
    """rows in one field, each introduced by the marker token r"""
    return " ".join("r " + srats(x) for x in sigs)


def psigs(field):
    return [prats(x) for x in field.split(";")]


def expect_signals(pysigs, extra=None, smart=True):
    def chk(f):
        if f[0] != "ok":
            return "expected ok python=%s" % (pysigs,)
        fields = f[1:]
        if extra is not None:
            if fields[0].strip() != extra:
                return "python lag=%s" % extra
            fields = fields[1:]
        got = psigs(fields[0])
        want = [[fr(x) for x in sg] for sg in pysigs]
        if got == want:
            STATS["exact"] += 1
            return None
        if not smart or [len(g) for g in got] != [len(w) for w in want]:
            return "python=%s" % ([[str(x) for x in w] for w in want],)
        scale = max([abs(x) for w in want for x in w] + [Fr(1)])
        for g, w in zip(got, want):
            for a, b in zip(g, w):
                if abs(a - b) > 1e-13 * scale:
                    return "python=%s" % ([[str(x) for x in w] for w in want],)
        STATS["close"] += 1
        return None
    return chk


def sec_multiple():
    total = 0
    from eqsig.fns.time_shift import time_indices
    # time_indices / get_section_average
    b = Batch()
    for npts in (1, 2, 3, 5, 8, 9):
        for dt in (0.5, 0.25, 1.0, 2.0):
            for start in (0, 0.25, 0.5, 1.0, 1.75, -0.5, -1.0, 3.0):
                for end in (-1, 0, 0.5, 1, 1.25, 2.0, 3.75, 4.0, 4.5, -0.5, -2.0):   # NB end=-1.0 (float) -> TypeError in slicing: out of domain
                    try:
                        si, ei = time_indices(npts, dt, start, end, False)
                        b.add("time_indices|%d|%s|%s|%s" % (npts, srat(dt), srat(start), srat(end)),
                              expect_tokens([[str(si), str(ei)]]))
                    except Exception as e:
                        b.add("time_indices|%d|%s|%s|%s" % (npts, srat(dt), srat(start), srat(end)), expect_err(errkind(e)))
                    if random.random() < 0.35:
                        v = [27720 * x for x in dyadic(npts)]
                        sig = eqsig.Signal(np.array(v), dt)
                        line = "section_average|%s|%s|%s|%s" % (srat(dt), srat(start), srat(end), srats(v))
                        try:
                            av = sig.get_section_average(start=start, end=end)
                            if np.isnan(av):
                                b.add(line, expect_err("ZeroDivisionError"))
                            else:
                                b.add(line, expect_smart([[fr(av)]]))
                        except Exception as e:
                            b.add(line, expect_err(errkind(e)))
        for si in (0, 1, 2, -1, -3, 7):
            for ei in (-1, 0, 1, 2, 3, npts, npts + 1, -2, 20):
                v = [27720 * x for x in dyadic(npts)]
                sig = eqsig.Signal(np.array(v), 0.5)
                line = "section_average_idx|%d|%d|%s" % (si, ei, srats(v))
                try:
                    av = sig.get_section_average(start=si, end=ei, index=True)
                    if np.isnan(av):
                        b.add(line, expect_err("ZeroDivisionError"))
                    else:
                        b.add(line, expect_smart([[fr(av)]]))
                except Exception as e:
                    b.add(line, expect_err(errkind(e)))
    total += b.run("time_indices/section_average")

    # same_start
    b = Batch()
    for nsig in (2, 3, 4):
        for master in range(nsig):
            for (dt, start, end) in [(0.5, 0, 1), (0.25, 0, 1), (0.5, 0.5, 2.0), (1.0, 0, -1), (0.5, 0, 10.0), (0.5, 2.0, 1.0),
                                     (0.5, 1.0, 1.0), (2.0, 0, 1)]:
                for rep in range(3):
                    n = random.choice([3, 4, 6, 9])
                    lens = [n] * nsig if rep < 2 else [random.choice([2, 3, 5, 8, 25]) for _ in range(nsig)]
                    sigs = [[27720 * x for x in dyadic(m)] for m in lens]
                    line = "same_start|%s|%d|%s|%s|%s" % (srat(dt), master, srat(start), srat(end), ssigs(sigs))
                    try:
                        cl = eqsig.Cluster([np.array(x) for x in sigs], dt, master_index=master)
                        cl.same_start(start=start, end=end)
                        out = [cl.values_by_index(i) for i in range(nsig)]
                        if any(np.any(np.isnan(o)) for o in out):
                            b.add(line, expect_err("ZeroDivisionError"))
                        else:
                            b.add(line, expect_signals(out))
                    except Exception as e:
                        b.add(line, expect_err(errkind(e)))
    total += b.run("same_start")

    # time_match
    b = Batch()

    def shifted(base, lag):
        # slave = master delayed by lag (lag>0: slave[k+lag] = master[k]); padding random
        n = len(base)
        if lag >= 0:
            return [random.randint(-3, 3) for _ in range(lag)] + base[:n - lag]
        return base[-lag:] + [random.randint(-3, 3) for _ in range(-lag)]
    for nsig in (2, 3, 4):
        for master in range(nsig):
            for steps in (0, 1, 2, 3, 5, 10):
                lags = list(range(-steps + 1, steps)) or [0]
                for lag in lags:
                    n = random.choice([steps + 1, steps + 2, 2 * steps + 3, 12, 20])
                    base = [random.randint(-9, 9) for _ in range(n)]
                    sigs = []
                    for k in range(nsig):
                        if k == master:
                            sigs.append(list(base))
                        else:
                            kind = random.random()
                            if kind < 0.7:
                                sigs.append(shifted(base, lag if k == (master + 1) % nsig else random.choice(lags)))
                            elif kind < 0.85:
                                sigs.append([random.randint(-2, 2) for _ in range(n)])     # unrelated: ties / scan order
                            else:
                                sigs.append([random.choice([0, 1]) for _ in range(n)])
                    add_case_tm(b, sigs, master, steps)
    # ragged / degenerate clusters
    for rep in range(120):
        nsig = random.choice([1, 2, 3, 4])
        lens = [random.choice([0, 1, 2, 3, 5, 6, 9]) for _ in range(nsig)]
        sigs = [[random.randint(-4, 4) for _ in range(m)] for m in lens]
        add_case_tm(b, sigs, random.randrange(nsig), random.choice([0, 1, 2, 3, 4]))
    total += b.run("time_match")

    # combine_at_angle / rotated degrees
    b = Batch()
    for angle in (0, 90, 180, 270, 30, 45, 60, 123.5, -20, 400):
        for (ln, lw) in [(4, 4), (1, 1), (1, 3), (3, 1), (2, 3), (5, 5)]:
            ns = dyadic(ln)
            we = dyadic(lw)
            c = np.cos(np.radians(angle))
            sn = np.sin(np.radians(angle))
            line = "combine|%s|%s|%s|%s" % (srat(c), srat(sn), srats(ns), srats(we))
            try:
                sig = eqsig.multiple.combine_at_angle(eqsig.AccSignal(np.array(ns), 0.5), eqsig.AccSignal(np.array(we), 0.5), angle)
                b.add(line, expect_smart([[fr(x) for x in sig.values]], 1e-15))
            except Exception as e:
                b.add(line, expect_err(errkind(e)))
    for off in (0, 0.0, 10, 30.5, 90, 180, 200, 359, 360, 400, -10, -45.25, -200, 725):
        for points in (1, 2, 3, 4, 5, 7, 10, 19, 100):
            ns = eqsig.AccSignal(np.array([1.0, 2.0, 0.5]), 0.5)
            we = eqsig.AccSignal(np.array([0.5, -1.0, 2.0]), 0.5)
            deg, vals = eqsig.multiple.compute_rotated(ns, we, angle_off_ns=off, func=lambda s_: 1.0, points=points)
            assert len(vals) == points
            b.add("rotated_degrees|%s|%d" % (srat(off), points), expect_smart([[fr(x) for x in deg]], 1e-12))
    total += b.run("combine/rotated_degrees")
    return total


def add_case_tm(b, sigs, master, steps):
    line = "time_match|%d|%d|%s" % (master, steps, ssigs(sigs))
    try:
        cl = eqsig.Cluster([np.array(x, dtype=float) for x in sigs], 0.5, master_index=master)
        lag = cl.time_match(steps=steps)
        out = [cl.values_by_index(i) for i in range(len(sigs))]
        b.add(line, expect_signals(out, extra=str(int(lag)), smart=False))
    except Exception as e:
        b.add(line, expect_err(errkind(e)))


# ---------------------------------------------------------------------------------------------- spectra
def sec_spectra():
    total = 0
    import eqsig.single
    b = Batch()
    twopi = 2 * np.pi
    motions = [[1.0, -2.0, 1.0], [0.5], [0.0, 0.0], [3.0, 1.0, -4.0, 1.0, 5.0, -9.0, 2.0, 6.0], dyadic(16), dyadic(40), []]
    period_sets = [[0.5], [0.0, 0.5], [0.0, 0.25, 0.5, 0.75, 1.0, 3.0], [0.29, 0.3, 0.31], [3.0, 2.0, 1.0, 0.1], [0.0], [],
                   [0.059, 0.06, 0.061, 0.6, 6.0], [0.0, 0.06, 3.0]]
    for motion in motions:
        for dt in (0.05, 0.01, 0.5):
            for periods in period_sets:
                for xi in (0.05, 0.0, 0.3):
                    for cont in (list, tuple, np.array):
                        if cont is not list and random.random() < 0.6:
                            continue
                        pc = cont(periods)
                        ru = rv = ra = None
                        motion_l = motion
                        # the float product dt*6 is rounded: at a tie T == fl(dt*6) != dt*6 the exact model takes the other side
                        fl_dec = [float(T) < dt * 6 for T in periods]
                        ex_dec = [Fr(float(T)) < Fr(dt) * 6 for T in periods]
                        if fl_dec != ex_dec:
                            STATS["tie_skipped"] = STATS.get("tie_skipped", 0) + 1
                            continue
                        motion = np.array(motion_l, dtype=float)   # NB a *list* record raises AttributeError in absmax(motion)
                        try:
                            ru, rv, ra = eqsig.sdof.nigam_and_jennings_response(motion, dt, pc, xi)
                        except Exception as e:
                            pass
                        def rows(r):
                            return ssigs(r) if r is not None else ""
                        line = "pseudo|%s|%s|%s|%s|%s" % (srat(twopi), srat(dt), srats(motion), srats(periods), rows(ru))
                        try:
                            sds, svs, sas = eqsig.sdof.pseudo_response_spectra(motion, dt, pc, xi)
                            if ru is None or not all(np.all(np.isfinite(x)) for x in (sds, svs, sas)):
                                continue
                            b.add(line, expect_close([[fr(x) for x in sds], [fr(x) for x in svs], [fr(x) for x in sas]], 1e-12))
                            assert len(sds) == len(svs) == len(sas) == len(periods)
                        except Exception as e:
                            b.add(line, expect_err(errkind(e)))
                        line = "true|%s|%s|%s|%s|%s|%s" % (srat(dt), srats(motion), srats(periods), rows(ru), rows(rv), rows(ra))
                        try:
                            sds, svs, sas = eqsig.sdof.true_response_spectra(motion, dt, pc, xi)
                            if ru is None or not all(np.all(np.isfinite(x)) for x in (sds, svs, sas)):
                                continue
                            b.add(line, expect_close([[fr(x) for x in sds], [fr(x) for x in svs], [fr(x) for x in sas]], 1e-12))
                        except Exception as e:
                            b.add(line, expect_err(errkind(e)))
                        motion = motion_l
    total += b.run("pseudo/true spectra")
    print("   (float ties T == fl(6*dt) skipped: %d)" % STATS.get("tie_skipped", 0))

    # branch decision of gen_response_spectrum
    b = Batch()
    calls = {}
    real_interp = eqsig.single.interp_array_to_approx_dt

    def spy(values, dt, target_dt, even=True):
        calls["interp"] = (target_dt, even)
        return real_interp(values, dt, target_dt, even=even)
    eqsig.single.interp_array_to_approx_dt = spy
    try:
        for dt in (0.01, 0.02, 0.005, 0.5, 0.0078125):
            for ratio in (1, 2, 4, 8, 3, 0.5, 0):
                for rt in ([0.1, 0.5, 1.0], [0.0, 0.1, 1.0], [0.0, 0.2], [0.2], [0.4, 1.0], [0.05, 1.0], [0.0], [], [1.0, 0.01],
                           [0.0, 0.0, 1.0], [0.15625, 1.0], [0.16, 1.0], [0.0, 0.3125], [0.078125, 2.0], [0.0, 0.625], [10.0],
                           [0.0390625]):
                    calls.clear()
                    asig = eqsig.AccSignal(np.array(dyadic(12)), dt)
                    line = "gen_input|%s|%s|%s" % (srat(dt), srat(ratio), srats(rt))
                    try:
                        asig.gen_response_spectrum(response_times=np.array(rt), min_dt_ratio=ratio)
                        if "interp" in calls:
                            assert calls["interp"][1] is False
                            b.add(line, expect_branch("interp", calls["interp"][0], dt))
                        else:
                            b.add(line, expect_branch("raw", None, dt))
                    except Exception as e:
                        if "interp" in calls or isinstance(e, (ValueError, FloatingPointError)) and rt and any(rt):
                            # the decision was taken; the failure is downstream (interpolation / response), not modelled here
                            if "interp" in calls:
                                b.add(line, expect_branch("interp", calls["interp"][0], dt))
                            continue
                        b.add(line, expect_err(errkind(e)))
    finally:
        eqsig.single.interp_array_to_approx_dt = real_interp
    total += b.run("gen_response_spectrum branch")

    # energy spectra, asi / vsi
    b = Batch()
    for motion in [[1.0, -1.0], [1.0, -2.0, 1.0], dyadic(16), dyadic(33), [0.0, 0.0, 0.0], [2.0]]:
        for dt in (1.0, 0.01, 0.125):
            for periods in ([0.5], [0.3, 1.0, 2.5], [0.0, 0.5]):
                for xi in (0.05, 0.0):
                    asig = eqsig.AccSignal(np.array(motion), dt)
                    ru, rv, ra = eqsig.sdof.response_series(asig.values, asig.dt, np.array(periods), xi)
                    uke = eqsig.sdof.calc_resp_uke_spectrum(asig, periods=periods, xi=xi)
                    b.add("uke|%s" % ssigs(rv), expect_close([[fr(x) for x in uke]], 1e-12))
                    ie = eqsig.sdof.calc_input_energy_spectrum(asig, periods=np.array(periods), xi=xi)
                    b.add("input_energy|%s|%s|%s" % (srat(dt), srats(motion), ssigs(rv)), expect_close([[fr(x) for x in ie]], 1e-12))
                    ies = eqsig.sdof.calc_input_energy_spectrum(asig, periods=np.array(periods), xi=xi, series=True)
                    b.add("input_energy_series|%s|%s|%s" % (srat(dt), srats(motion), ssigs(rv)),
                          expect_signals_close(ies, 1e-12))
        for periods in (None, np.array([0.1, 0.2, 0.5, 1.0]), np.array([0.3, 0.2]), np.array([0.5])):
            asig = eqsig.AccSignal(np.array(motion), 0.01)
            pa = np.arange(0.1, 1.51, 0.01) if periods is None else periods
            pv = np.arange(0.1, 2.51, 0.01) if periods is None else periods
            sds, psv, psa = eqsig.sdof.pseudo_response_spectra(asig.values, asig.dt, pa, 0.05)
            line = "asi|%s|%s|%s" % (srat(0.01), srat(9.81), srats(psa))
            try:
                r = eqsig.im.calc_asi(asig, periods=periods)
                b.add(line, expect_close([[fr(r)]], 1e-12))
            except Exception as e:
                b.add(line, expect_err(errkind(e)))
            sds, psv, psa = eqsig.sdof.pseudo_response_spectra(asig.values, asig.dt, pv, 0.05)
            line = "vsi|%s|%s" % (srat(0.01), srats(psv))
            try:
                r = eqsig.im.calc_vsi(asig, periods=periods)
                b.add(line, expect_close([[fr(r)]], 1e-12))
            except Exception as e:
                b.add(line, expect_err(errkind(e)))
    total += b.run("energy spectra / asi / vsi")
    return total


def expect_branch(kind, target, dt):
    """branch of gen_response_spectrum; exact agreement counted, float rounding of T/20, dt/ratio tolerated (1e-12),
    a flipped branch only when target_dt is within rounding of dt"""
    def chk(f):
        if f[0] != "ok":
            return "expected ok %s %s" % (kind, target)
        tok = f[1].split()
        if tok[0] == kind:
            if kind == "raw":
                STATS["exact"] += 1
                return None
            t = prat(tok[1])
            if t == fr(target):
                STATS["exact"] += 1
                return None
            if abs(t - fr(target)) <= 1e-12 * fr(target):
                STATS["close"] += 1
                return None
            return "python target=%r" % target
        # flipped: acceptable only at a float tie target_dt ~ dt
        t = prat(tok[1]) if tok[0] == "interp" else fr(target)
        if abs(t - fr(dt)) <= 1e-12 * fr(dt):
            STATS["close"] += 1
            return None
        return "python branch=%s target=%r" % (kind, target)
    return chk


def expect_signals_close(pysigs, rel):
    def chk(f):
        if f[0] != "ok":
            return "expected ok"
        got = psigs(f[1])
        want = [[fr(x) for x in sg] for sg in pysigs]
        if [len(g) for g in got] != [len(w) for w in want]:
            return "shape python=%s" % (pysigs,)
        scale = max([abs(x) for w in want for x in w] + [Fr(1)])
        for g, w in zip(got, want):
            for a, c in zip(g, w):
                if abs(a - c) > rel * scale:
                    return "python=%s" % (pysigs,)
        return None
    return chk


SECTIONS = {"single": sec_single, "multiple": sec_multiple, "spectra": sec_spectra}

if __name__ == "__main__":
    names = sys.argv[1:] or list(SECTIONS)
    tot = 0
    for nm in names:
        tot += SECTIONS[nm]()
    print("TOTAL MISMATCHES", tot)
