import EqsigVerif.Lemmas.Peaks.PType
import Mathlib.Tactic.FieldSimp
/-!
# C11.e — `get_n_cyc_array`
-/
namespace EqsigVerif.Lemmas.Peaks
open EqsigVerif.Model.Peaks

/-- `np.interp` on strictly ascending knots: with `j` the last knot `≤ x`, the value is the linear interpolant on
`[XP j, XP (j+1)]`, or the last ordinate when `j` is the last knot -/
theorem interpAux_spec (x : ℕ) (xs : List ℕ) : ∀ (xj : ℕ) (fj : ℚ) (fs : List ℚ) (j : ℕ),
    xs.length = fs.length → (xj :: xs).Pairwise (· < ·) → j < (xj :: xs).length →
    (xj :: xs).getD j 0 ≤ x → (j + 1 < (xj :: xs).length → x < (xj :: xs).getD (j+1) 0) →
    interpAux x xj fj xs fs =
      if j + 1 < (xj :: xs).length then
        (fj :: fs).getD j 0 + ((fj :: fs).getD (j+1) 0 - (fj :: fs).getD j 0) /
          ((((xj :: xs).getD (j+1) 0 : ℕ) : ℚ) - (((xj :: xs).getD j 0 : ℕ) : ℚ)) * ((x : ℚ) - (((xj :: xs).getD j 0 : ℕ) : ℚ))
      else (fj :: fs).getD j 0 := by
  induction xs with
  | nil =>
    intro xj fj fs j hlen _ hj _ _
    have : j = 0 := by simp at hj; omega
    subst this
    cases fs with
    | nil => simp [interpAux]
    | cons f fs => simp at hlen
  | cons xk xs ih =>
    intro xj fj fs j hlen hs hj h1 h2
    cases fs with
    | nil => simp at hlen
    | cons fk fs =>
      rw [List.pairwise_cons] at hs
      simp only [interpAux]
      by_cases hle : xk ≤ x
      · simp only [hle, if_true]
        cases j with
        | zero =>
          have := h2 (by simp)
          simp at this; omega
        | succ j =>
          have := ih xk fk fs j (by simpa using hlen) hs.2 (by simpa using hj) (by simpa using h1)
            (fun h => by have := h2 (by simpa using h); simpa using this)
          rw [this]
          simp only [List.length_cons, List.getD_cons_succ, Nat.add_lt_add_iff_right]
      · simp only [hle, if_false]
        have hj0 : j = 0 := by
          by_contra hne
          have hjl : j < (xj :: xk :: xs).length := hj
          have hmem : (xj :: xk :: xs).getD j 0 ∈ xk :: xs := by
            cases j with
            | zero => exact absurd rfl hne
            | succ j =>
              simp only [List.getD_cons_succ]
              rw [getD_eq _ _ _ (by simpa using hjl)]
              exact List.getElem_mem _
          rcases List.mem_cons.mp hmem with he | hin
          · omega
          · have := (List.pairwise_cons.mp hs.2).1 _ hin
            omega
        subst hj0
        simp only [List.length_cons, List.getD_cons_zero, List.getD_cons_succ]
        have : 0 + 1 < xs.length + 1 + 1 := by omega
        simp only [this, if_true]
        by_cases hx : xj = x
        · simp [hx]
        · simp only [hx, if_false]; ring

theorem interp_spec (x : ℕ) (XP : List ℕ) (FP : List ℚ) (hlen : XP.length = FP.length)
    (hs : XP.Pairwise (· < ·)) (j : ℕ) (hj : j < XP.length) (h1 : XP.getD j 0 ≤ x)
    (h2 : j + 1 < XP.length → x < XP.getD (j+1) 0) :
    interp x XP FP =
      if j + 1 < XP.length then
        FP.getD j 0 + (FP.getD (j+1) 0 - FP.getD j 0) /
          (((XP.getD (j+1) 0 : ℕ) : ℚ) - ((XP.getD j 0 : ℕ) : ℚ)) * ((x : ℚ) - ((XP.getD j 0 : ℕ) : ℚ))
      else FP.getD j 0 := by
  cases XP with
  | nil => simp at hj
  | cons x0 xs =>
    cases FP with
    | nil => simp at hlen
    | cons f0 fs =>
      simp only [interp]
      exact interpAux_spec x xs x0 f0 fs j (by simpa using hlen) hs hj h1 h2

/-- the ordinate of the `k`-th knot -/
def knot (so : Bool) (k : ℕ) : ℚ := if k = 0 then 0 else (k : ℚ) / 2 - (if so then 1/4 else 0)

theorem nCycKnots_getD (len : ℕ) (so : Bool) (k : ℕ) (hk : k < len) :
    (nCycKnots len so).getD k 0 = knot so k := by
  unfold nCycKnots knot
  rw [getD_map_lt' _ _ k 0 0 (by simpa using hk)]
  simp only [List.getD_eq_getElem?_getD, List.getElem?_range hk, Option.getD_some]
  split
  · rfl
  · cases so
    · simp
    · simp; ring

theorem knot_step_pos (so : Bool) (k : ℕ) : 0 < knot so (k+1) - knot so k := by
  unfold knot
  cases k with
  | zero => cases so <;> norm_num
  | succ k =>
    simp only [Nat.add_eq_zero_iff, one_ne_zero, and_false, if_false]
    push_cast; cases so <;> simp <;> linarith

theorem nCycAll_eq (v : List ℚ) (h : NonConstant v) (so : Bool) :
    nCycAll v so = (List.range v.length).map (fun x => interp x (peaks v) (nCycKnots (peaks v).length so)) := by
  unfold nCycAll nCycFrom
  simp only [peaks_head v (nonConstant_ne_nil v h), if_true]

theorem nCycAll_length (v : List ℚ) (so : Bool) : (nCycAll v so).length = v.length := by
  simp [nCycAll, nCycFrom]

theorem nCycAll_getD (v : List ℚ) (h : NonConstant v) (so : Bool) (x : ℕ) (hx : x < v.length) :
    (nCycAll v so).getD x 0 = interp x (peaks v) (nCycKnots (peaks v).length so) := by
  rw [nCycAll_eq v h, getD_map_lt' _ _ x 0 0 (by simpa using hx)]
  simp [List.getD_eq_getElem?_getD, List.getElem?_range hx]

/-- exact value inside a segment -/
theorem nCyc_segment (v : List ℚ) (h : NonConstant v) (so : Bool) (k : ℕ) (hk : k + 1 < (peaks v).length)
    (x : ℕ) (h1 : pd v k ≤ x) (h2 : x ≤ pd v (k+1)) :
    (nCycAll v so).getD x 0 =
      knot so k + (knot so (k+1) - knot so k) / ((pd v (k+1) : ℚ) - (pd v k : ℚ)) * ((x : ℚ) - (pd v k : ℚ)) := by
  have hne := nonConstant_ne_nil v h
  have hxn : x < v.length := by have := pd_lt v hne (k+1) hk; omega
  have hlt := pd_strict v h k (k+1) (by omega) hk
  rw [nCycAll_getD v h so x hxn]
  rcases Nat.eq_or_lt_of_le h2 with he | hlt2
  · -- x is the right end: bracket index k+1
    have hb := interp_spec x (peaks v) (nCycKnots (peaks v).length so) (by simp [nCycKnots])
      (peaks_pairwise v h) (k+1) hk (by rw [he]; exact le_rfl)
      (fun h' => by rw [he]; exact pd_strict v h (k+1) (k+2) (by omega) h')
    rw [hb]
    have hd : ((pd v (k+1) : ℚ) - (pd v k : ℚ)) ≠ 0 := by
      have : (pd v k : ℚ) < (pd v (k+1) : ℚ) := by exact_mod_cast hlt
      linarith
    split
    · rename_i h'
      rw [nCycKnots_getD _ _ _ (by omega), nCycKnots_getD _ _ _ h']
      change _ + _ / _ * ((x : ℚ) - (pd v (k+1) : ℚ)) = _
      rw [he]; field_simp; ring
    · rw [nCycKnots_getD _ _ _ hk, he]; field_simp; ring
  · have hb := interp_spec x (peaks v) (nCycKnots (peaks v).length so) (by simp [nCycKnots])
      (peaks_pairwise v h) k (by omega) h1 (fun _ => hlt2)
    rw [hb]
    simp only [hk, if_true]
    rw [nCycKnots_getD _ _ _ (by omega), nCycKnots_getD _ _ _ hk]
    rfl

/-- constant after the last reported peak -/
theorem nCyc_tail (v : List ℚ) (h : NonConstant v) (so : Bool) (x : ℕ)
    (h1 : pd v ((peaks v).length - 1) ≤ x) (hx : x < v.length) :
    (nCycAll v so).getD x 0 = knot so ((peaks v).length - 1) := by
  have hl := peaks_length_ge v
  rw [nCycAll_getD v h so x hx]
  have hb := interp_spec x (peaks v) (nCycKnots (peaks v).length so) (by simp [nCycKnots])
    (peaks_pairwise v h) ((peaks v).length - 1) (by omega) h1 (fun h' => by omega)
  rw [hb]
  have : ¬ ((peaks v).length - 1 + 1 < (peaks v).length) := by omega
  simp only [this, if_false]
  exact nCycKnots_getD _ _ _ (by omega)

theorem nCyc_at_peak (v : List ℚ) (h : NonConstant v) (so : Bool) (k : ℕ) (hk : k < (peaks v).length) :
    (nCycAll v so).getD (pd v k) 0 = knot so k := by
  have hne := nonConstant_ne_nil v h
  by_cases hk1 : k + 1 < (peaks v).length
  · rw [nCyc_segment v h so k hk1 (pd v k) le_rfl (pd_strict v h k (k+1) (by omega) hk1).le]
    simp
  · have e : k = (peaks v).length - 1 := by omega
    rw [e]
    exact nCyc_tail v h so _ le_rfl (pd_lt v hne _ (by omega))

theorem nCyc_step (v : List ℚ) (h : NonConstant v) (so : Bool) (x : ℕ) (hx : x + 1 < v.length) :
    (nCycAll v so).getD x 0 ≤ (nCycAll v so).getD (x+1) 0 := by
  have hne := nonConstant_ne_nil v h
  have hl := peaks_length_ge v
  have hp0 : pd v 0 = 0 := by
    have := peaks_head v hne
    unfold pd; rw [List.getD_eq_getElem?_getD, ← List.head?_eq_getElem?, this]; rfl
  obtain ⟨j, hj, b1, b2⟩ := sorted_bracket (peaks v) (peaks_pairwise v h) (by omega) x
    (by change pd v 0 ≤ x; omega)
  change pd v j ≤ x at b1
  by_cases hj1 : j + 1 < (peaks v).length
  · have b2' : x < pd v (j+1) := b2 hj1
    rw [nCyc_segment v h so j hj1 x b1 b2'.le, nCyc_segment v h so j hj1 (x+1) (by omega) (by omega)]
    have hlt := pd_strict v h j (j+1) (by omega) hj1
    have hd : (0:ℚ) < (pd v (j+1) : ℚ) - (pd v j : ℚ) := by
      have : (pd v j : ℚ) < (pd v (j+1) : ℚ) := by exact_mod_cast hlt
      linarith
    have hs : 0 < (knot so (j+1) - knot so j) / ((pd v (j+1) : ℚ) - (pd v j : ℚ)) :=
      div_pos (knot_step_pos so j) hd
    push_cast
    nlinarith
  · have e : j = (peaks v).length - 1 := by omega
    rw [e] at b1
    rw [nCyc_tail v h so x b1 (by omega), nCyc_tail v h so (x+1) (by omega) hx]

theorem nCyc_mono (v : List ℚ) (h : NonConstant v) (so : Bool) (x y : ℕ) (hxy : x ≤ y) (hy : y < v.length) :
    (nCycAll v so).getD x 0 ≤ (nCycAll v so).getD y 0 := by
  induction y, hxy using Nat.le_induction with
  | base => exact le_rfl
  | succ y hxy ih => exact (ih (by omega)).trans (nCyc_step v h so y hy)

end EqsigVerif.Lemmas.Peaks
