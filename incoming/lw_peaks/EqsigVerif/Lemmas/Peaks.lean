import EqsigVerif.Lemmas.Peaks.Cleaned
import EqsigVerif.Lemmas.Peaks.Runs
import EqsigVerif.Lemmas.Peaks.Kappa
import EqsigVerif.Lemmas.Peaks.Segments
import EqsigVerif.Lemmas.Peaks.Orig
import EqsigVerif.Lemmas.Peaks.Shape
import EqsigVerif.Lemmas.Peaks.PType
/-! umbrella for the helper lemmas on `Model/Peaks.lean` (C11, C13) -/
