import EqsigVerif.Prelude.Np
import EqsigVerif.Prelude.Wire
/-!
# Model of `eqsig/fns/peaks_and_crossings.py` — local peak detection (hand model, Mathlib-free, over `Rat`)

Stages of `get_peak_array_indices(values)`:
1. `clean_out_non_changing`  → `runs`   : `(index, value)` of every sample that differs from its predecessor, plus index 0
   (for `values[0] ≠ 0` the code lists index 0 twice; the duplicate only adds a zero difference and is
   not observable — the model keeps a single copy; the exhaustive correspondence ties the two);
2. `determine_indices_of_peaks_for_cleaned_array` → `peaksCleaned` : interior positions where the product of
   successive differences is `< 0`, plus first and last;
3. `np.take(non_zero_indices, …)` → `peaks` : back to original positions.

`runs`, `peaksCleaned`, `peaks` are total helper stages: on the empty series NumPy raises `IndexError`
(`values[0]` in `clean_out_non_changing`) whereas `peaks [] = [0, 0]`; the entry points with the error branch are
`getPeakArrayIndices`, `getNCycArray`, `deltaSeries`, `pseudoCyclicSeries`, `deltaCleanedE`, `pseudoCleanedE`.

Further entry points (all follow the tree with the planned fixes, `/tmp/repo_fixed`):
* `peaksMax`, `peaksMin`, `getPeakArrayIndices` — the `ptype` selection with the fixed parity rule
  `first_move = values[peak_full_indices[1]] - values[peak_full_indices[0]]`;
* `nCycFrom`, `nCycAll`, `getNCycArray` — `get_n_cyc_array` (`np.interp` of `0.5*arange` with the `-0.25` offset);
* `deltaCleaned`, `deltaSeries` — `determine_peak_only_delta_series_4_cleaned_data`, `determine_peaks_only_delta_series`;
* `pseudoCleaned`, `pseudoCyclicSeries` — `_determine_peak_only_series_4_cleaned_data`,
  `determine_pseudo_cyclic_peak_only_series`.
-/
namespace EqsigVerif.Model.Peaks
open EqsigVerif.Wire (ErrKind)

/-- stage 1 worker: `(index, value)` of every sample that differs from its predecessor -/
def runsAux (prev : Rat) (i : Nat) : List Rat → List (Nat × Rat)
  | [] => []
  | x :: xs => if x = prev then runsAux prev (i+1) xs else (i, x) :: runsAux x (i+1) xs

/-- stage 1 (`clean_out_non_changing`) -/
def runs : List Rat → List (Nat × Rat)
  | [] => []
  | x :: xs => (0, x) :: runsAux x 1 xs

/-- stage 2 worker: interior turning positions `k` of the cleaned sequence:
`(c[k]-c[k-1])*(c[k+1]-c[k]) < 0` -/
def turnIdx : Nat → List Rat → List Nat
  | k, a :: b :: c :: rest =>
      (if (b - a) * (c - b) < 0 then [k] else []) ++ turnIdx (k+1) (b :: c :: rest)
  | _, _ => []

/-- stage 2 (`determine_indices_of_peaks_for_cleaned_array`) -/
def peaksCleaned (c : List Rat) : List Nat := [0] ++ turnIdx 1 c ++ [c.length - 1]

/-- `get_peak_array_indices(values)` (`ptype='all'`) -/
def peaks (v : List Rat) : List Nat :=
  let rs := runs v
  (peaksCleaned (rs.map (·.2))).map (fun k => (rs.map (·.1)).getD k 0)

/-! ### `ptype` selection -/

/-- Python slice `l[::2]` -/
def evens {α : Type} : List α → List α
  | [] => []
  | [a] => [a]
  | a :: _ :: t => a :: evens t

/-- Python slice `l[1::2]` -/
def odds {α : Type} : List α → List α
  | [] => []
  | _ :: t => evens t

/-- `first_move = values[peak_full_indices[1]] - values[peak_full_indices[0]]` (fixed parity rule).
`peaks v` always has at least two entries, so the `getD` defaults are never used for `v ≠ []`. -/
def firstMove (v : List Rat) : Rat :=
  v.getD ((peaks v).getD 1 0) 0 - v.getD ((peaks v).getD 0 0) 0

/-- `get_peak_array_indices(values, ptype='min')` for `values ≠ []` -/
def peaksMin (v : List Rat) : List Nat :=
  if firstMove v ≤ 0 then odds (peaks v) else evens (peaks v)

/-- `get_peak_array_indices(values, ptype='max')` for `values ≠ []` -/
def peaksMax (v : List Rat) : List Nat :=
  if firstMove v > 0 then odds (peaks v) else evens (peaks v)

/-- the parity rule of the **unchanged** tree, `values[1] - values[0]` (finding F11-1); not used by the model,
kept so that the defect on flat starts can be exhibited (`Props/C11.lean`).  (For a one-sample series the unchanged
code raises `IndexError` at `values[1]`; the `getD` default stands in for that case, which is not used.) -/
def firstMoveUnfixed (v : List Rat) : Rat := v.getD 1 0 - v.getD 0 0

/-- `ptype='max'` under the unchanged parity rule -/
def peaksMaxUnfixed (v : List Rat) : List Nat :=
  if firstMoveUnfixed v > 0 then odds (peaks v) else evens (peaks v)

/-- `ptype='min'` under the unchanged parity rule -/
def peaksMinUnfixed (v : List Rat) : List Nat :=
  if firstMoveUnfixed v ≤ 0 then odds (peaks v) else evens (peaks v)

/-- the `ptype` argument (`'all'` stands for every string other than `'min'`/`'max'`) -/
inductive PType
  | all | max | min
  deriving Repr, DecidableEq, Inhabited

/-- `get_peak_array_indices(values, ptype)`; the empty series raises `IndexError`
(`values[0]` inside `clean_out_non_changing`). -/
def getPeakArrayIndices (v : List Rat) (ptype : PType) : Except ErrKind (List Nat) :=
  match v with
  | [] => throw .IndexError
  | _ :: _ =>
    match ptype with
    | .all => pure (peaks v)
    | .max => pure (peaksMax v)
    | .min => pure (peaksMin v)

/-! ### `get_n_cyc_array` -/

/-- `np.interp(x, xp, fp)` at one natural abscissa `x ≥ xp[0]`, scanning the knots from the left:
`(xj, fj)` is the last knot with `xj ≤ x` seen so far (NumPy: `j` = last index with `xp[j] ≤ x`;
`j = len-1 → fp[j]`; `xp[j] = x → fp[j]`; otherwise `slope*(x - xp[j]) + fp[j]`). -/
def interpAux (x : Nat) : Nat → Rat → List Nat → List Rat → Rat
  | xj, fj, xk :: xs, fk :: fs =>
      if xk ≤ x then interpAux x xk fk xs fs
      else if xj = x then fj
      else (fk - fj) / ((xk : Rat) - (xj : Rat)) * ((x : Rat) - (xj : Rat)) + fj
  | _, fj, _, _ => fj

/-- `np.interp(x, xp, fp)` for `xp ≠ []`, `x ≥ xp[0]` -/
def interp (x : Nat) : List Nat → List Rat → Rat
  | x0 :: xs, f0 :: fs => interpAux x x0 f0 xs fs
  | _, _ => 0

/-- the ordinates `n_cycs = 0.5*arange(len(indys)); n_cycs[1:] += svalue` -/
def nCycKnots (len : Nat) (startOrigin : Bool) : List Rat :=
  (List.range len).map (fun (k : Nat) => if k = 0 then (0 : Rat) else (k : Rat) / 2 + (if startOrigin then -1/4 else 0))

/-- the part of `get_n_cyc_array` after the index list `indys` has been obtained
(`start='origin'` ↔ `startOrigin = true`, `start='peak'` ↔ `false`); `n = len(values)`.
Precondition `indys ≠ []` (Python would raise `IndexError` at `indys[0]`; the index lists produced by
`peaks` / switched peaks are never empty). -/
def nCycFrom (n : Nat) (indys : List Nat) (startOrigin : Bool) : List Rat :=
  let indys := if indys.head? = some 0 then indys else 0 :: indys
  let fp := nCycKnots indys.length startOrigin
  (List.range n).map (fun x => interp x indys fp)

/-- `get_n_cyc_array(values, opt='all', start)` for `values ≠ []` -/
def nCycAll (v : List Rat) (startOrigin : Bool) : List Rat := nCycFrom v.length (peaks v) startOrigin

/-- `get_n_cyc_array(values, opt='all', start)`; the empty series raises `IndexError`. -/
def getNCycArray (v : List Rat) (startOrigin : Bool) : Except ErrKind (List Rat) :=
  match v with
  | [] => throw .IndexError
  | _ :: _ => pure (nCycAll v startOrigin)

/-! ### peak-only series -/

/-- `np.sign` -/
def sign (x : Rat) : Rat := if x < 0 then -1 else if 0 < x then 1 else 0

/-- `np.diff` of the peak values with a leading `0` (`np.insert(np.diff(pv), 0, 0)`) -/
def diffs0 (pv : List Rat) : List Rat := 0 :: EqsigVerif.Np.diff pv

/-- `determine_peak_only_delta_series_4_cleaned_data(values)` for `values ≠ []`
(the empty array raises `IndexError` in `np.take`; see `deltaCleanedE`) -/
def deltaCleaned (c : List Rat) : List Rat :=
  let pk := peaksCleaned c
  let pv := pk.map (fun i => c.getD i 0)
  EqsigVerif.Np.putIdx (List.replicate c.length 0) pk (diffs0 pv)

/-- `determine_peak_only_delta_series_4_cleaned_data` with its error branch -/
def deltaCleanedE (c : List Rat) : Except ErrKind (List Rat) :=
  match c with
  | [] => throw .IndexError
  | _ :: _ => pure (deltaCleaned c)

/-- the alternating-sign step of `_determine_peak_only_series_4_cleaned_data`:
`signs = where(mod(arange, 2), -1, 1)`,
`where(-signs * pv < 0, -abs(pv), abs(pv))` -/
def pseudoVals (pv : List Rat) : List Rat :=
  List.zipWith
    (fun (k : Nat) (x : Rat) =>
      let s : Rat := if k % 2 ≠ 0 then -1 else 1
      if -s * x < 0 then -EqsigVerif.Np.absv x else EqsigVerif.Np.absv x)
    (List.range pv.length) pv

/-- `_determine_peak_only_series_4_cleaned_data(values)` for `values ≠ []` -/
def pseudoCleaned (c : List Rat) : List Rat :=
  let pk := peaksCleaned c
  let pv := pk.map (fun i => c.getD i 0)
  EqsigVerif.Np.putIdx (List.replicate c.length 0) pk (pseudoVals pv)

/-- `_determine_peak_only_series_4_cleaned_data` with its error branch -/
def pseudoCleanedE (c : List Rat) : Except ErrKind (List Rat) :=
  match c with
  | [] => throw .IndexError
  | _ :: _ => pure (pseudoCleaned c)

/-- common stages of the two `determine_*` functions, parameterised by the cleaned-data kernel:
copy, rebase by `values[0]` (`IndexError` on the empty series), `clean_out_non_changing`,
`cleaned *= sign(cleaned[1])` (`IndexError` on a constant series), kernel, `np.put` back. -/
def peakOnlySeries (kernel : List Rat → List Rat) (v : List Rat) : Except ErrKind (List Rat) :=
  match v with
  | [] => throw .IndexError
  | v0 :: _ =>
    let w := v.map (· - v0)
    let rs := runs w
    let cleaned := rs.map (·.2)
    let idx := rs.map (·.1)
    match cleaned[1]? with
    | none => throw .IndexError
    | some c1 =>
      let cleaned' := cleaned.map (· * sign c1)
      pure (EqsigVerif.Np.putIdx (List.replicate w.length 0) idx (kernel cleaned'))

/-- `determine_peaks_only_delta_series(values)` -/
def deltaSeries (v : List Rat) : Except ErrKind (List Rat) := peakOnlySeries deltaCleaned v

/-- `determine_pseudo_cyclic_peak_only_series(values)` -/
def pseudoCyclicSeries (v : List Rat) : Except ErrKind (List Rat) := peakOnlySeries pseudoCleaned v

end EqsigVerif.Model.Peaks
