"""Differential validation of EqsigVerif/Model/Peaks.lean against /tmp/repo_fixed/eqsig/fns/peaks_and_crossings.py.
usage: cd /tmp/repo_fixed && PYTHONPATH=/tmp/repo_fixed /venv/bin/python validate.py <lean project dir>
"""
import sys, itertools, subprocess, random, warnings
from fractions import Fraction as F
import numpy as np
warnings.simplefilter('ignore')
from eqsig.fns import peaks_and_crossings as pc

proj = sys.argv[1] if len(sys.argv) > 1 else '/tmp/lw_peaks'

def fmt(x):
    f = F(x)
    return str(f.numerator) if f.denominator == 1 else f"{f.numerator}/{f.denominator}"

inputs = []
for n in range(0, 7):
    for v in itertools.product([-1, 0, 1, 2], repeat=n):
        inputs.append([F(x) for x in v])
rng = random.Random(1)
for _ in range(3000):
    n = rng.randint(1, 14)
    k = rng.choice([2, 3, 5, 9])
    inputs.append([F(rng.randint(-k, k), rng.choice([1, 1, 2, 4, 8])) for _ in range(n)])
for _ in range(500):   # plateau rich, longer
    n = rng.randint(10, 60)
    v = []; x = F(rng.randint(-3, 3))
    for _ in range(n):
        if rng.random() < 0.5: x = x + F(rng.randint(-4, 4), 4)
        v.append(x)
    inputs.append(v)

with open('/tmp/lw_peaks_inputs.txt', 'w') as fh:
    for v in inputs:
        fh.write(" ".join(fmt(x) for x in v) + "\n")
res = subprocess.run(['lake', 'env', 'lean', '--run', 'val/Scratch.lean'], cwd=proj,
                     stdin=open('/tmp/lw_peaks_inputs.txt'), capture_output=True, text=True)
lines = [l for l in res.stdout.split("\n")]
if res.returncode != 0: print(res.stderr[:2000])

def py(fn, exact=True):
    try:
        r = fn()
        return ('ok', [F(float(x)) for x in np.asarray(r).ravel()])
    except Exception as e:
        return ('err', type(e).__name__)

def parse(s):
    tag, _, body = s.partition(':')
    if tag == 'err': return ('err', body)
    return ('ok', [F(t) for t in body.split()])

names = ['all', 'max', 'min', 'ncyc_origin', 'ncyc_peak', 'delta', 'pseudo', 'delta_cleaned', 'pseudo_cleaned']
nbad = 0; nerr = 0; ncmp = 0; ndtype = 0
for v, line in zip(inputs, lines):
    va = [float(x) for x in v]
    assert all(F(a) == b for a, b in zip(va, v))
    got = [parse(s) for s in line.split(';')]
    exp = [
        py(lambda: pc.get_peak_array_indices(va)),
        py(lambda: pc.get_peak_array_indices(va, ptype='max')),
        py(lambda: pc.get_peak_array_indices(va, ptype='min')),
        py(lambda: pc.get_n_cyc_array(va, opt='all', start='origin')),
        py(lambda: pc.get_n_cyc_array(va, opt='all', start='peak')),
        py(lambda: pc.determine_peaks_only_delta_series(np.array(va))),
        py(lambda: pc.determine_pseudo_cyclic_peak_only_series(np.array(va))),
        py(lambda: pc.determine_peak_only_delta_series_4_cleaned_data(np.array(va))),
        py(lambda: pc._determine_peak_only_series_4_cleaned_data(np.array(va))),
    ]
    # integer dtype / plain list inputs must give the same outcome as float arrays (the model has one numeric type)
    if all(x.denominator == 1 for x in v):
        vi = [int(x) for x in v]
        alt = [
            py(lambda: pc.get_peak_array_indices(vi)),
            py(lambda: pc.get_peak_array_indices(np.array(vi, dtype=int), ptype='max')),
            py(lambda: pc.get_peak_array_indices(vi, ptype='min')),
            py(lambda: pc.get_n_cyc_array(vi, opt='all', start='origin')),
            py(lambda: pc.get_n_cyc_array(np.array(vi, dtype=int), opt='all', start='peak')),
            py(lambda: pc.determine_peaks_only_delta_series(np.array(vi, dtype=int))),
            py(lambda: pc.determine_pseudo_cyclic_peak_only_series(vi)),
            py(lambda: pc.determine_peak_only_delta_series_4_cleaned_data(np.array(vi, dtype=int))),
            py(lambda: pc._determine_peak_only_series_4_cleaned_data(np.array(vi, dtype=int))),
        ]
        for nm, a, e in zip(names, alt, exp):
            if a != e:
                ndtype += 1
                if ndtype < 10: print('DTYPE-DIFF', nm, vi, 'int/list', a, 'float', e)
    for nm, g, e in zip(names, got, exp):
        ncmp += 1
        ok = g[0] == e[0]
        if ok and g[0] == 'err':
            nerr += 1; ok = g[1] == e[1]
        elif ok:
            if nm.startswith('ncyc'):   # slope*(x-xp)+fp is rounded in binary64 when the gap is not a power of two
                ok = len(g[1]) == len(e[1]) and all(abs(a - b) <= F(1, 10**12) for a, b in zip(g[1], e[1]))
            else:
                ok = g[1] == e[1]
        if not ok:
            nbad += 1
            if nbad < 20: print('MISMATCH', nm, va, 'lean', g, 'py', e)
print(f"inputs {len(inputs)} lines {len(lines)} comparisons {ncmp} (of which both-raise {nerr}) mismatches {nbad}; int/list-vs-float differences {ndtype}")
