import EqsigVerif.Audit
import EqsigVerif.Props.C11
import EqsigVerif.Props.C13
#audit EqsigVerif.Props.C11
#audit EqsigVerif.Props.C13
