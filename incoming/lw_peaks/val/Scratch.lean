import EqsigVerif.Model.Peaks
open EqsigVerif EqsigVerif.Wire EqsigVerif.Model.Peaks

def showNats (l : List Nat) : String := " ".intercalate (l.map toString)
def showRats (l : List Rat) : String := " ".intercalate (l.map showRat)
def showE {α} (f : α → String) : Except ErrKind α → String
  | .ok a => "ok:" ++ f a
  | .error e => "err:" ++ toString e

def process (line : String) : String :=
  let toks := (line.splitOn " ").filter (· ≠ "")
  match rats toks with
  | .error e => "bad " ++ e
  | .ok v =>
    ";".intercalate
      [ showE showNats (getPeakArrayIndices v .all),
        showE showNats (getPeakArrayIndices v .max),
        showE showNats (getPeakArrayIndices v .min),
        showE showRats (getNCycArray v true),
        showE showRats (getNCycArray v false),
        showE showRats (deltaSeries v),
        showE showRats (pseudoCyclicSeries v),
        showE showRats (deltaCleanedE v),
        showE showRats (pseudoCleanedE v) ]

partial def loop (h : IO.FS.Stream) (out : IO.FS.Stream) : IO Unit := do
  let line ← h.getLine
  if line.isEmpty then return
  out.putStrLn (process (line.replace "\n" ""))
  loop h out

def main : IO Unit := do
  let stdin ← IO.getStdin
  let stdout ← IO.getStdout
  loop stdin stdout
