import EqsigVerif.Model.Displacements
import EqsigVerif.Gen.Displ
/-!
# C08 — strict (order-of-operations) bridges for the generated `eqsig/displacements.py`

`Props/C08Gen.lean` proves the bridges over a field up to commutativity of `*`; here they hold **by unfolding for every
number type** (so the `Float` twin executed by the driver performs the same operations in the same order as the code).
A failure of this module alone means: same real-number meaning, different rounding.
-/
set_option linter.unusedSectionVars false
namespace EqsigVerif.Props.C08
open EqsigVerif EqsigVerif.Np EqsigVerif.Model.Displacements

section Core
variable {α : Type} [Add α] [Mul α] [Div α] [OfNat α 0] [OfNat α 2]

/-- **bridge** `calc_velo_and_disp_from_accel_arr(acceleration, dt, trap)` = the hand model `veloDisp`, both branches -/
theorem gen_calcVeloDisp_rfl (a : List α) (dt : α) (trap : Bool) : Gen.Displ.calcVeloDisp a dt trap = veloDisp a dt trap := by
  cases trap <;> rfl

/-- the `trap=True` branch is the double cumulative trapezoid -/
theorem gen_calcVeloDisp_trap_rfl (a : List α) (dt : α) : Gen.Displ.calcVeloDisp a dt true = veloDispTrap a dt := rfl

/-- the `trap=False` branch is the model's rectangle rule -/
theorem gen_calcVeloDisp_rect_rfl (a : List α) (dt : α) : Gen.Displ.calcVeloDisp a dt false = veloDispRect a dt := rfl

/-- **bridge** `velocity_and_displacement_from_acceleration` forwards all three arguments (`trap=trap`) -/
theorem gen_velocityAndDisplacement_rfl (a : List α) (dt : α) (trap : Bool) :
    Gen.Displ.velocityAndDisplacement a dt trap = veloDisp a dt trap := by
  cases trap <;> rfl

end Core


/-- the `Float` twin of the generated function is the model's, operation for operation -/
example (a : List Float) (dt : Float) (trap : Bool) : Gen.Displ.calcVeloDisp a dt trap = veloDisp a dt trap :=
  gen_calcVeloDisp_rfl a dt trap

end EqsigVerif.Props.C08
