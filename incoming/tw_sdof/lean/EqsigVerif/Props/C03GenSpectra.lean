import EqsigVerif.Model.SpectraFns
import EqsigVerif.Model.ObjectSpectra
import EqsigVerif.Gen.SdofSpectra
import EqsigVerif.Gen.SdofLoop
import EqsigVerif.Gen.ImSimple
import EqsigVerif.Lemmas.SpectraFns
import EqsigVerif.Props.C03
import EqsigVerif.Props.C01Gen
/-!
# C03 — translator tie for `pseudo_response_spectra`, `true_response_spectra`, `response_series` (`eqsig/sdof.py`)

`Gen/SdofSpectra.lean` is regenerated on every run by `tools/py2lean_x_sdof.py`: every call that may raise
(`nigam_and_jennings_response`, `absmax(…, axis=1)`, `absmax(motion)`, `periods[0]`) is one `match` layer in program order,
the array arithmetic is mapped operator by operator to `List.zipWith`/`List.map`/`Np.sq`, the response function is a
parameter `resp` applied to the arguments in the order of the source.
Bridges: for a response `resp … = .ok (U, V, A)` of the right shape the generated functions are the hand models
`Model.SpectraFns.pseudoSpectra` / `trueSpectra` (the theorems of `Props/C03.lean` talk about these); composed with the
generated `nigam_and_jennings_response` (`Gen/SdofLoop.lean`) the generated `pseudo_response_spectra` is the end-to-end
hand model `Model.ObjectSpectra.pseudoResponseSpectra` used by `Props/C03Compose.lean`.
-/
set_option linter.unusedSectionVars false
set_option linter.unusedVariables false
namespace EqsigVerif.Props.C03
open EqsigVerif EqsigVerif.Model.SpectraFns
open EqsigVerif.Wire (ErrKind)
open EqsigVerif.Model.SdofLoopGen (setRowsFrom unzip3)

/-- the callee `absmax` (one row) is the generated combination `Gen.ImSimple.absmaxCore` of the row's extreme values -/
theorem gen_absmaxL {α : Type} [LT α] [DecidableLT α] [Neg α] [OfNat α 0] (x : α) (xs : List α) :
    absmaxL (x :: xs) = some (Gen.ImSimple.absmaxCore (Np.minFrom x xs) (Np.maxFrom x xs)) := rfl

section Field
variable {α : Type} [Field α] [LinearOrder α] [IsStrictOrderedRing α]

/-- every error of `absmax(rows, axis=1)` is the `ValueError` of a zero-length row -/
theorem rowsAbsmax_error (rows : List (List α)) (e : ErrKind) (h : rowsAbsmax rows = .error e) : e = .ValueError := by
  induction rows generalizing e with
  | nil => simp [rowsAbsmax] at h
  | cons r rs ih =>
    unfold rowsAbsmax at h
    cases hr : absmaxL r with
    | none => rw [hr] at h; simpa using h.symm
    | some m =>
      rw [hr] at h
      cases hrs : rowsAbsmax rs with
      | error e' => rw [hrs] at h; simp at h; rw [← h]; exact ih e' hrs
      | ok ms => rw [hrs] at h; simp at h

/-- the `w` of `pseudo_response_spectra` (`np.ones_like` + `w[1:] = 2π/T[1:]`, or `2π/T`) is the model's `omegas` -/
theorem gen_pseudo_omegas (pi p0 : α) (rest : List α) :
    omegas (2 * pi) (p0 :: rest) = .ok
      (if p0 = 0 then setRowsFrom 1 ((p0 :: rest).map (fun _ => 1)) (((p0 :: rest).drop 1).map (fun p => (2 * pi) / p))
       else (p0 :: rest).map (fun p => (2 * pi) / p)) := by
  simp only [omegas]
  by_cases h : p0 = 0 <;> simp [h, setRowsFrom]

/-- **bridge** `pseudo_response_spectra`: with the response arrays `(U, V, A)` returned by the callee (one row of `U` per
period), the generated function is `Model.SpectraFns.pseudoSpectra` with `twoPi = 2 * pi` -/
theorem gen_pseudo_spectra (pi : α) (resp : Gen.SdofSpectra.Resp α) (motion : List α) (dt : α) (periods : List α) (xi : α)
    (U V A : List (List α)) (h : resp motion dt periods xi = .ok (U, V, A)) (hU : U.length = periods.length) :
    Gen.SdofSpectra.pseudoResponseSpectra pi resp motion dt periods xi = pseudoSpectra (2 * pi) motion dt periods U := by
  cases periods with
  | nil => rfl
  | cons p0 rest =>
    unfold Gen.SdofSpectra.pseudoResponseSpectra pseudoSpectra
    rw [gen_pseudo_omegas]
    simp only [h, hU, ne_eq, not_true_eq_false, if_false]
    cases rowsAbsmax U with
    | error e => rfl
    | ok sds =>
      cases absmaxL motion with
      | none => rfl
      | some pga => simp [pgaSubstitute, Np.sq, List.zipWith_map_left]

/-- an empty period list is the `IndexError` of `periods[0]`, as in the model -/
theorem gen_pseudo_spectra_nil (pi : α) (resp : Gen.SdofSpectra.Resp α) (motion : List α) (dt xi : α) (U : List (List α)) :
    Gen.SdofSpectra.pseudoResponseSpectra pi resp motion dt [] xi = pseudoSpectra (2 * pi) motion dt [] U := rfl

/-- **bridge** `true_response_spectra`: with the response arrays `(U, V, A)` returned by the callee (one row per period,
at least one period — an empty period list is an `IndexError` inside the callee), the generated function is
`Model.SpectraFns.trueSpectra` -/
theorem gen_true_spectra (resp : Gen.SdofSpectra.Resp α) (motion : List α) (dt : α) (periods : List α) (xi : α)
    (U V A : List (List α)) (h : resp motion dt periods xi = .ok (U, V, A)) (hp : periods ≠ [])
    (hU : U.length = periods.length) (hV : V.length = periods.length) (hA : A.length = periods.length) :
    Gen.SdofSpectra.trueResponseSpectra resp motion dt periods xi = trueSpectra motion dt periods U V A := by
  cases periods with
  | nil => exact absurd rfl hp
  | cons p0 rest =>
    unfold Gen.SdofSpectra.trueResponseSpectra trueSpectra
    simp only [h, hU, hV, hA, ne_eq, not_true_eq_false, or_self, if_false]
    have eA := rowsAbsmax_error A
    have eV := rowsAbsmax_error V
    have eU := rowsAbsmax_error U
    cases hA' : rowsAbsmax A <;> cases hV' : rowsAbsmax V <;> cases hU' : rowsAbsmax U <;> cases absmaxL motion <;>
      simp_all [pgaSubstitute]

/-- **bridge** `response_series`: the arguments are forwarded unchanged and in order, the result is returned unchanged -/
theorem gen_response_series (resp : Gen.SdofSpectra.Resp α) (motion : List α) (dt : α) (periods : List α) (xi : α) :
    Gen.SdofSpectra.responseSeries resp motion dt periods xi = resp motion dt periods xi := by
  unfold Gen.SdofSpectra.responseSeries
  cases resp motion dt periods xi <;> rfl

/-! ## composition with the generated `nigam_and_jennings_response` -/

/-- the generated `nigam_and_jennings_response` (`Gen/SdofLoop.lean`, `cab` = `compute_a_and_b`) as the callee of the
generated spectrum functions; `none` is the `IndexError` of `periods[0]` -/
def genResp (cab : α → α → α → Model.Sdof.AB α) : Gen.SdofSpectra.Resp α := fun acc dt periods xi =>
  match Gen.SdofLoop.response cab xi dt acc periods with
  | none => .error .IndexError
  | some r => .ok r

/-- **end-to-end bridge**: generated `pseudo_response_spectra` ∘ generated `nigam_and_jennings_response` is the hand model
`Model.ObjectSpectra.pseudoResponseSpectra` on the displacement rows of `Model.Sdof.response` (the model that
`Props/C03Compose.lean` reasons about), with the source's constants `2 * pi` and `6.2831853` and test `periods[0] == 0` -/
theorem gen_pseudo_end_to_end (pi : α) (cab : α → α → α → Model.Sdof.AB α) (motion : List α) (dt : α) (periods : List α) (xi : α) :
    Gen.SdofSpectra.pseudoResponseSpectra pi (genResp cab) motion dt periods xi =
      Model.ObjectSpectra.pseudoResponseSpectra (2 * pi)
        (Model.ObjectSpectra.respRowsU Gen.SdofLoop.njConst (fun p => p == 0) cab xi) motion dt periods := by
  cases periods with
  | nil => rfl
  | cons p0 rest =>
    have hsome : (Model.Sdof.response Gen.SdofLoop.njConst (fun p => p == 0) (fun w => cab xi w dt) xi motion (p0 :: rest)).isSome :=
      (Model.Sdof.response_isSome_iff _ _ _ _ _ _).mpr (by simp)
    obtain ⟨r, hr⟩ := Option.isSome_iff_exists.mp hsome
    have hshape := (Model.Sdof.response_shape _ _ _ _ _ _ r hr).1
    have hg : genResp cab motion dt (p0 :: rest) xi = .ok (unzip3 r) := by
      simp only [genResp, C01.gen_response, hr, Option.map_some]
    rw [gen_pseudo_spectra pi _ motion dt (p0 :: rest) xi _ _ _ hg (by simp [hshape])]
    simp only [Model.ObjectSpectra.pseudoResponseSpectra, Model.ObjectSpectra.respRowsU, hr]

/-! ## consequence theorems: the C03 statements about the generated code -/

/-- **C03.b** for the generated `pseudo_response_spectra`: if it returns `(S_d, S_v, S_a)` on the response arrays
`(U, V, A)` of its callee, then `S_d[j] = max_t |U_j(t)|`, `S_v[j] = w_j·S_d[j]`, `S_a[j] = pga` if `T_j < 6·dt` else
`w_j²·S_d[j]` with `w_j = 2π/T_j` (placeholder `1` for a leading zero period), `pga = max|record|`. -/
theorem gen_pseudo_spectra_spec (pi : α) (resp : Gen.SdofSpectra.Resp α) (motion : List α) (dt : α) (periods : List α) (xi : α)
    (U V A : List (List α)) (h : resp motion dt periods xi = .ok (U, V, A)) (hU : U.length = periods.length)
    (sds svs sas : List α)
    (hout : Gen.SdofSpectra.pseudoResponseSpectra pi resp motion dt periods xi = .ok (sds, svs, sas)) :
    sds.length = periods.length ∧ svs.length = periods.length ∧ sas.length = periods.length ∧
    ∃ pga, IsAbsMax motion pga ∧
      ∀ j, j < periods.length →
        IsAbsMax (U.getD j []) (sds.getD j 0) ∧
        svs.getD j 0 = omegaAt (2 * pi) periods j * sds.getD j 0 ∧
        sas.getD j 0 = (if periods.getD j 0 < dt * 6 then pga
                        else omegaAt (2 * pi) periods j * omegaAt (2 * pi) periods j * sds.getD j 0) := by
  rw [gen_pseudo_spectra pi resp motion dt periods xi U V A h hU] at hout
  obtain ⟨h1, h2, h3, _, h5⟩ := pseudo_spectra_spec (2 * pi) dt motion periods U sds svs sas hout
  exact ⟨h1, h2, h3, h5⟩

/-- **C03.c** for the generated `true_response_spectra`: `S_d = max|u|`, `S_v = max|v|`, `S_a = max|a_total|` row by row,
with the PGA substitution for `T < 6·dt`. -/
theorem gen_true_spectra_spec (resp : Gen.SdofSpectra.Resp α) (motion : List α) (dt : α) (periods : List α) (xi : α)
    (U V A : List (List α)) (h : resp motion dt periods xi = .ok (U, V, A)) (hp : periods ≠ [])
    (hU : U.length = periods.length) (hV : V.length = periods.length) (hA : A.length = periods.length)
    (sds svs sas : List α)
    (hout : Gen.SdofSpectra.trueResponseSpectra resp motion dt periods xi = .ok (sds, svs, sas)) :
    sds.length = periods.length ∧ svs.length = periods.length ∧ sas.length = periods.length ∧
    ∃ pga, IsAbsMax motion pga ∧
      ∀ j, j < periods.length →
        IsAbsMax (U.getD j []) (sds.getD j 0) ∧
        IsAbsMax (V.getD j []) (svs.getD j 0) ∧
        (if periods.getD j 0 < dt * 6 then sas.getD j 0 = pga else IsAbsMax (A.getD j []) (sas.getD j 0)) := by
  rw [gen_true_spectra resp motion dt periods xi U V A h hp hU hV hA] at hout
  exact true_spectra_spec dt motion periods U V A sds svs sas hout

/-- **C03.b** end to end on generated code: generated `pseudo_response_spectra` calling the generated
`nigam_and_jennings_response` returns, for every period, the peak of the displacement row of `Model.Sdof.response`
(the exact oscillator solution of C01) and the pseudo relations. -/
theorem gen_pseudo_end_to_end_spec (pi : α) (cab : α → α → α → Model.Sdof.AB α) (motion : List α) (dt : α) (periods : List α) (xi : α)
    (sds svs sas : List α)
    (hout : Gen.SdofSpectra.pseudoResponseSpectra pi (genResp cab) motion dt periods xi = .ok (sds, svs, sas)) :
    ∃ r, Model.Sdof.response Gen.SdofLoop.njConst (fun p => p == 0) (fun w => cab xi w dt) xi motion periods = some r ∧
      ∃ pga, IsAbsMax motion pga ∧
        ∀ j, j < periods.length →
          IsAbsMax ((r.map (·.1)).getD j []) (sds.getD j 0) ∧
          svs.getD j 0 = omegaAt (2 * pi) periods j * sds.getD j 0 ∧
          sas.getD j 0 = (if periods.getD j 0 < dt * 6 then pga
                          else omegaAt (2 * pi) periods j * omegaAt (2 * pi) periods j * sds.getD j 0) := by
  rw [gen_pseudo_end_to_end] at hout
  simp only [Model.ObjectSpectra.pseudoResponseSpectra, Model.ObjectSpectra.respRowsU] at hout
  cases hr : Model.Sdof.response Gen.SdofLoop.njConst (fun p => p == 0) (fun w => cab xi w dt) xi motion periods with
  | none => rw [hr] at hout; cases hout
  | some r =>
    rw [hr] at hout
    obtain ⟨_, _, _, _, h5⟩ := pseudo_spectra_spec (2 * pi) dt motion periods _ sds svs sas hout
    exact ⟨r, rfl, h5⟩

end Field

/-! ## concrete instances (`ℚ`, `pi` replaced by `3`, a stub callee returning fixed arrays) -/
private def respQ : Gen.SdofSpectra.Resp Rat := fun _ _ ps _ =>
  if ps.length = 3 then .ok ([[0, 0, 0], [1, 2, -3], [1, 1, 1]], [[0, 0, 0], [0, 1, 0], [0, -5, 2]], [[1, -2, 1], [1, 1, 1], [7, 0, -8]])
  else .error .IndexError

example : Gen.SdofSpectra.pseudoResponseSpectra 3 respQ [1, -2, 1] (1/2) [0, 1, 4] (1/20)
    = .ok ([0, 3, 1], [0, 18, 3/2], [2, 2, 9/4]) := by decide +kernel
example : Gen.SdofSpectra.pseudoResponseSpectra 3 respQ [1, -2, 1] (1/2) [] (1/20) = .error .IndexError := by decide +kernel
example : Gen.SdofSpectra.trueResponseSpectra respQ [1, -2, 1] (1/2) [0, 1, 4] (1/20)
    = .ok ([0, 3, 1], [0, 1, 5], [2, 2, 8]) := by decide +kernel
example : Gen.SdofSpectra.trueResponseSpectra respQ [] (1/2) [0, 1, 4] (1/20) = .error .ValueError := by decide +kernel
example : Gen.SdofSpectra.responseSeries respQ [1, -2, 1] (1/2) [1, 4] (1/20) = .error .IndexError := by decide +kernel
/-- generated spectra on top of the generated response (a stub for `compute_a_and_b`): both generated files composed -/
example : Gen.SdofSpectra.pseudoResponseSpectra 3
    (genResp (fun xi w dt => (⟨1, dt, -w, 1 / 2, xi, 2, 3, -1⟩ : Model.Sdof.AB Rat))) [1, 0, 2] (1/4) [0, 6] (1/2)
    = .ok ([0, 21/4], [0, 21/4], [2, 21/4]) := by decide +kernel

end EqsigVerif.Props.C03
