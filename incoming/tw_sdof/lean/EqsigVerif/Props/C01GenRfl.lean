import EqsigVerif.Model.Sdof
import EqsigVerif.Gen.SdofLoop
/-!
# C01 — strict (order-of-operations) bridges for the generated pieces of `nigam_and_jennings_response`

`Props/C01Gen.lean` proves the bridges up to commutative-ring identities (so that `a * b` ↔ `b * a` in the source does
not break them).  Here the same bridges hold **by `rfl` for every number type**, i.e. the generated expressions perform
the same floating-point operations in the same order as the hand model that the driver executes at `Float`.  A failure
of this module alone means: same real-number meaning, different rounding.
-/
set_option linter.unusedSectionVars false
namespace EqsigVerif.Props.C01
open EqsigVerif EqsigVerif.Model.Sdof

variable {α : Type} [Add α] [Sub α] [Mul α] [Div α] [Neg α] [BEq α] [OfNat α 0] [OfNat α 2] [OfScientific α]

/-- loop body of `nigam_and_jennings_response` = Eq 2.7a of the model, in the same order of operations -/
theorem gen_step_rfl (m : AB α) (x : α × α) (ai ai1 : α) : Gen.SdofLoop.step m x ai ai1 = step m x ai ai1 := rfl

/-- `sdof_acc = -2 * xi * w * resp_v - w2 * resp_u` (`else:` branch), same order of operations as `Model.Sdof.accRow` -/
theorem gen_accExpr_rfl (xi w : α) (uv : List (α × α)) : uv.map (Gen.SdofLoop.accExpr xi w) = accRow xi w uv := rfl

/-- the same expression in the branch `if s:` -/
theorem gen_accExprLead_rfl (xi w : α) (uv : List (α × α)) : uv.map (Gen.SdofLoop.accExprLead xi w) = accRow xi w uv := rfl

/-- the Float twin of the loop body is the model's, bit for bit -/
example (m : AB Float) (x : Float × Float) (ai ai1 : Float) : Gen.SdofLoop.step m x ai ai1 = step m x ai ai1 := gen_step_rfl m x ai ai1

example : Gen.SdofLoop.step (⟨1, 2, 3, 4, 5, 6, 7, 8⟩ : AB Rat) (1, -1) 2 3 = (27, 37) := by decide +kernel

end EqsigVerif.Props.C01
