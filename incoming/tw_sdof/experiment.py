#!/usr/bin/env python3
"""Experiments of TRANSLATOR_BRIEF.md for the plug-in py2lean_x_sdof: apply one edit at a time to a private copy of the
source, rerun the translator, rebuild the bridge modules.  usage: experiment.py [breaking|harmless] [name-prefix]"""
import json
import os
import shutil
import subprocess
import sys

ROOT = '/tmp/tw_sdof'
SRC = ROOT + '/src'
GEN = ROOT + '/lean/EqsigVerif/Gen'
MY_FILES = {'SdofLoop.lean': ['EqsigVerif.Props.C01Gen', 'EqsigVerif.Props.C01GenRfl'], 'SdofSpectra.lean': ['EqsigVerif.Props.C03GenSpectra'],
            'Displ.lean': ['EqsigVerif.Props.C08Gen', 'EqsigVerif.Props.C08GenRfl']}
MY_TARGETS = {'gen_sdof_loop', 'gen_sdof_spectra', 'gen_displ'}

S = 'eqsig/sdof.py'
D = 'eqsig/displacements.py'

BREAKING = [
    # ---- nigam_and_jennings_response
    ('nj-const', S, "w = 6.2831853 / periods[s:]", "w = 6.2831854 / periods[s:]"),
    ('nj-sign-dropped', S, "acc = -np.array(acc, dtype=float)", "acc = np.array(acc, dtype=float)"),
    ('nj-swap-index-read', S, "a[0][0] * resp_u[s:, i] +", "a[0][0] * resp_u[s:, i + 1] +"),
    ('nj-swap-acc-index', S, "b[0][0] * acc[i] + b[0][1] * acc[i + 1])", "b[0][0] * acc[i + 1] + b[0][1] * acc[i])"),
    ('nj-write-index', S, "resp_v[s:, i + 1] = (a[1][0]", "resp_v[s:, i] = (a[1][0]"),
    ('nj-loop-bound', S, "for i in range(len(acc) - 1):", "for i in range(len(acc) - 2):"),
    ('nj-loop-bound-start', S, "for i in range(len(acc) - 1):", "for i in range(1, len(acc) - 1):"),
    ('nj-coeff-entry', S, "a[1][0] * resp_u[s:, i] + a[1][1]", "a[0][1] * resp_u[s:, i] + a[1][1]"),
    ('nj-drop-term', S, " + b[1][0] * acc[i] + b[1][1] * acc[i + 1])", " + b[1][1] * acc[i + 1])"),
    ('nj-operator', S, "a[0][0] * resp_u[s:, i] + a[0][1] * resp_v[s:, i] + b[0][0]", "a[0][0] * resp_u[s:, i] - a[0][1] * resp_v[s:, i] + b[0][0]"),
    ('nj-zero-test', S, "    if periods[0] == 0:\n        s = 1\n    else:\n        s = 0\n    w = 6", "    if periods[0] <= 0:\n        s = 1\n    else:\n        s = 0\n    w = 6"),
    ('nj-zero-branches', S, "    if periods[0] == 0:\n        s = 1\n    else:\n        s = 0\n    w = 6", "    if periods[0] == 0:\n        s = 0\n    else:\n        s = 1\n    w = 6"),
    ('nj-acc-factor', S, "        sdof_acc = -2 * xi * w[:, np.newaxis] * resp_v[s:] - w2", "        sdof_acc = -xi * w[:, np.newaxis] * resp_v[s:] - w2"),
    ('nj-acc-lead-sign', S, "        sdof_acc[s:] = -2 * xi * w[:, np.newaxis] * resp_v[s:] - w2", "        sdof_acc[s:] = -2 * xi * w[:, np.newaxis] * resp_v[s:] + w2"),
    ('nj-acc-w2', S, "    w2 = w ** 2\n    if s:", "    w2 = w ** 3\n    if s:"),
    ('nj-acc-row0', S, "        sdof_acc[0] = acc", "        sdof_acc[0] = -acc"),
    ('nj-cab-args', S, "a, b = compute_a_and_b(xi, w, dt)", "a, b = compute_a_and_b(w, xi, dt)"),
    ('nj-init-ones', S, "resp_v = np.zeros([len(periods), len(acc)], dtype=float)", "resp_v = np.ones([len(periods), len(acc)], dtype=float)"),
    ('nj-return-order', S, "return resp_u, resp_v, sdof_acc", "return resp_v, resp_u, sdof_acc"),
    # ---- spectra
    ('ps-svs', S, "    svs = w * sds\n", "    svs = w * w * sds\n"),
    ('ps-sas-power', S, "    sas = w ** 2 * sds\n", "    sas = w * sds\n"),
    ('ps-pga-cmp', S, "    sas = w ** 2 * sds\n    sas = np.where(periods < dt * 6", "    sas = w ** 2 * sds\n    sas = np.where(periods <= dt * 6"),
    ('ps-pga-factor', S, "    sas = w ** 2 * sds\n    sas = np.where(periods < dt * 6", "    sas = w ** 2 * sds\n    sas = np.where(periods < dt * 5"),
    ('ps-w-const', S, "        w = 2 * np.pi / periods\n", "        w = np.pi / periods\n"),
    ('ps-w-lead', S, "        w[1:] = 2 * np.pi / periods[1:]", "        w[1:] = 2 * np.pi / periods[:-1]"),
    ('ps-w-placeholder', S, "        w = np.ones_like(periods)", "        w = np.zeros_like(periods)"),
    ('ps-axis', S, "    sds = absmax(resp_u, axis=1)\n    svs = w", "    sds = absmax(resp_u, axis=0)\n    svs = w"),
    ('ps-wrong-rows', S, "    sds = absmax(resp_u, axis=1)\n    svs = w", "    sds = absmax(resp_v, axis=1)\n    svs = w"),
    ('ps-return-order', S, "    sas = np.where(periods < dt * 6, absmax(motion), sas)\n    return sds, svs, sas\n\n\ndef response_series", "    sas = np.where(periods < dt * 6, absmax(motion), sas)\n    return sds, sas, svs\n\n\ndef response_series"),
    ('ts-swap-rows', S, "    svs = absmax(resp_v, axis=1)", "    svs = absmax(resp_a, axis=1)"),
    ('ts-pga-args', S, "    sds = absmax(resp_u, axis=1)\n    sas = np.where(periods < dt * 6, absmax(motion), sas)", "    sds = absmax(resp_u, axis=1)\n    sas = np.where(periods < dt * 6, sas, absmax(motion))"),
    ('ts-drop-pga', S, "    sds = absmax(resp_u, axis=1)\n    sas = np.where(periods < dt * 6, absmax(motion), sas)\n", "    sds = absmax(resp_u, axis=1)\n"),
    ('rs-arg-order', S, "    return nigam_and_jennings_response(motion, dt, periods, xi)", "    return nigam_and_jennings_response(motion, dt, xi, periods)"),
    ('ps-arg-order', S, "    resp_u, resp_v, resp_a = nigam_and_jennings_response(motion, dt, periods, xi)\n\n    sds", "    resp_u, resp_v, resp_a = nigam_and_jennings_response(motion, xi, periods, dt)\n\n    sds"),
    # ---- displacements
    ('dv-trap-dx', D, "velocity = cumulative_trapezoid(acceleration, dx=dt, initial=0)", "velocity = cumulative_trapezoid(acceleration, dx=2 * dt, initial=0)"),
    ('dv-trap-initial', D, "displacement = cumulative_trapezoid(velocity, dx=dt, initial=0)", "displacement = cumulative_trapezoid(velocity, dx=dt, initial=1)"),
    ('dv-trap-arg', D, "displacement = cumulative_trapezoid(velocity, dx=dt, initial=0)", "displacement = cumulative_trapezoid(acceleration, dx=dt, initial=0)"),
    ('dv-rect-len', D, "velocity = np.zeros(len(acceleration) + 1)", "velocity = np.zeros(len(acceleration) + 2)"),
    ('dv-rect-offset', D, "velocity[1:] = acceleration * dt", "velocity[:-1] = acceleration * dt"),
    ('dv-rect-factor', D, "displacement = velocity * dt  # computes", "displacement = velocity * dt * dt  # computes"),
    ('dv-rect-cut', D, "        velocity = velocity[:-1]\n", "        velocity = velocity[1:]\n"),
    ('dv-rect-nocumsum', D, "        np.cumsum(displacement, out=displacement)\n", ""),
    ('dv-branch-flip', D, "    if trap is False:", "    if trap is True:"),
    ('dv-return-order', D, "    return velocity, displacement\n\n\ndef velocity_and", "    return displacement, velocity\n\n\ndef velocity_and"),
    ('dv-wrapper-trap', D, "    return calc_velo_and_disp_from_accel_arr(acceleration, dt, trap=trap)", "    return calc_velo_and_disp_from_accel_arr(acceleration, dt, trap=True)"),
]

HARMLESS = [
    ('nj-rename-temp', S, None, None, [("resp_u", "ru"), ("sdof_acc", "out_a")]),
    ('nj-rename-loopvar', S, None, None, [("for i in range(len(acc) - 1):", "for k in range(len(acc) - 1):"), ("resp_u[s:, i + 1] =", "resp_u[s:, k + 1] ="),
                                          ("resp_v[s:, i + 1] =", "resp_v[s:, k + 1] ="), ("resp_u[s:, i]", "resp_u[s:, k]"), ("resp_v[s:, i]", "resp_v[s:, k]"),
                                          ("acc[i]", "acc[k]"), ("acc[i + 1]", "acc[k + 1]")]),
    ('nj-inline-w2', S, None, None, [("    w2 = w ** 2\n", ""), ("w2[:, np.newaxis]", "(w ** 2)[:, np.newaxis]")]),
    ('nj-new-temp', S, "    for i in range(len(acc) - 1):  #", "    n_steps = len(acc) - 1\n    for i in range(n_steps):  #"),
    ('nj-reorder', S, "    dt = float(dt)\n    xi = float(xi)\n", "    xi = float(xi)\n    dt = float(dt)\n"),
    ('nj-reorder-loop-stmts', S, None, None, 'swap-loop'),
    ('nj-literal-respell', S, "        sdof_acc = -2 * xi", "        sdof_acc = -2.0 * xi"),
    ('nj-literal-respell-s', S, "    if periods[0] == 0:\n        s = 1\n    else:\n        s = 0\n    w = 6", "    if periods[0] == 0.:\n        s = 1\n    else:\n        s = 0\n    w = 6"),
    ('nj-commute', S, "a[0][0] * resp_u[s:, i] +", "resp_u[s:, i] * a[0][0] +"),
    ('nj-commute-acc', S, "        sdof_acc = -2 * xi * w[:, np.newaxis] * resp_v[s:] - w2", "        sdof_acc = -2 * w[:, np.newaxis] * xi * resp_v[s:] - w2"),
    ('ps-rename', S, None, None, [("    sds = absmax(resp_u, axis=1)\n    svs = w * sds\n    sas = w ** 2 * sds\n    sas = np.where(periods < dt * 6, absmax(motion), sas)\n    return sds, svs, sas",
                                   "    dmax = absmax(resp_u, axis=1)\n    svs = w * dmax\n    sas = w ** 2 * dmax\n    sas = np.where(periods < dt * 6, absmax(motion), sas)\n    return dmax, svs, sas")]),
    ('ps-new-temp', S, "    sas = w ** 2 * sds\n    sas = np.where(periods < dt * 6, absmax(motion), sas)", "    sas = w ** 2 * sds\n    pga = absmax(motion)\n    sas = np.where(periods < dt * 6, pga, sas)"),
    ('ps-reorder', S, "    svs = w * sds\n    sas = w ** 2 * sds\n", "    sas = w ** 2 * sds\n    svs = w * sds\n"),
    ('ps-commute', S, "    svs = w * sds\n", "    svs = sds * w\n"),
    ('ps-commute-6', S, "    sas = w ** 2 * sds\n    sas = np.where(periods < dt * 6", "    sas = w ** 2 * sds\n    sas = np.where(periods < 6 * dt"),
    ('ps-literal', S, "        w = 2 * np.pi / periods\n", "        w = 2.0 * np.pi / periods\n"),
    ('ts-reorder', S, "    sas = absmax(resp_a, axis=1)\n    svs = absmax(resp_v, axis=1)\n", "    svs = absmax(resp_v, axis=1)\n    sas = absmax(resp_a, axis=1)\n"),
    ('dv-rename', D, None, None, [("        velocity = cumulative_trapezoid(acceleration, dx=dt, initial=0)\n        displacement = cumulative_trapezoid(velocity, dx=dt, initial=0)\n\n    return velocity, displacement",
                                   "        vel = cumulative_trapezoid(acceleration, dx=dt, initial=0)\n        displacement = cumulative_trapezoid(vel, dx=dt, initial=0)\n        velocity = vel\n\n    return velocity, displacement")]),
    ('dv-literal', D, "velocity = cumulative_trapezoid(acceleration, dx=dt, initial=0)", "velocity = cumulative_trapezoid(acceleration, dx=dt, initial=0.0)"),
    ('dv-commute', D, "velocity[1:] = acceleration * dt", "velocity[1:] = dt * acceleration"),
    ('dv-not-trap', D, "    if trap is False:", "    if not trap:"),
]


def run(cmd, **kw):
    return subprocess.run(cmd, shell=True, capture_output=True, text=True, **kw)


def fresh():
    shutil.rmtree(SRC, ignore_errors=True)
    os.makedirs(SRC)
    shutil.copytree('/repo/eqsig', SRC + '/eqsig')


def translate(repo):
    r = run(f"python3 {ROOT}/tools/py2lean.py --repo {repo} --out {GEN}")
    if r.returncode != 0:
        return None, r.stderr[-400:]
    return json.loads(r.stdout.strip().splitlines()[-1]), ''


def snapshot():
    return {f: open(os.path.join(GEN, f)).read() for f in MY_FILES if os.path.exists(os.path.join(GEN, f))}


def main():
    which = sys.argv[1] if len(sys.argv) > 1 else 'breaking'
    prefix = sys.argv[2] if len(sys.argv) > 2 else ''
    translate('/repo')
    base = snapshot()
    edits = BREAKING if which == 'breaking' else HARMLESS
    for e in edits:
        name, path = e[0], e[1]
        if not name.startswith(prefix):
            continue
        fresh()
        p = os.path.join(SRC, path)
        s = open(p).read()
        if len(e) == 5 and e[4] == 'swap-loop':
            l1 = [l for l in s.splitlines(True) if l.lstrip().startswith('resp_u[s:, i + 1] =')][0]
            l2 = [l for l in s.splitlines(True) if l.lstrip().startswith('resp_v[s:, i + 1] =')][0]
            s2 = s.replace(l1 + l2, l2 + l1)
        elif len(e) == 5:
            s2 = s
            for a, b in e[4]:
                if a not in s2:
                    print(name, 'EDIT-NOT-APPLICABLE', repr(a[:40]))
                s2 = s2.replace(a, b)
        else:
            if s.count(e[2]) != 1:
                print(name, 'EDIT-NOT-APPLICABLE (count %d)' % s.count(e[2]))
                continue
            s2 = s.replace(e[2], e[3])
        if s2 == s:
            print(name, 'EDIT-NOT-APPLICABLE')
            continue
        open(p, 'w').write(s2)
        rep, err = translate(SRC)
        if rep is None:
            print(name, 'TRANSLATOR-CRASH', err)
            continue
        un = [u for u in rep['untranslatable'] if u['target'] in MY_TARGETS]
        if un:
            print(name, 'UNTRANSLATABLE', '; '.join(f"{u['function']}:{u['line']}: {u['construct']}" for u in un)[:230])
            continue
        now = snapshot()
        changed = [f for f in MY_FILES if now.get(f) != base.get(f)]
        if not changed:
            print(name, 'GEN-UNCHANGED')
            continue
        mods = sorted({m for f in changed for m in MY_FILES[f]})
        res = []
        for m in mods:
            r = run(f"cd {ROOT}/lean && lake build {m}")
            ok = r.returncode == 0
            first = ''
            if not ok:
                for line in (r.stdout + r.stderr).splitlines():
                    if line.startswith('error:'):
                        first = line[7:120]
                        break
            res.append(m.split('.')[-1] + (':PROVES' if ok else ':FAILS [' + first + ']'))
        print(name, 'GEN-CHANGED', ','.join(changed), ' '.join(res))
    translate('/repo')
    r = run(f"cd {ROOT}/lean && lake build " + ' '.join(sorted({m for v in MY_FILES.values() for m in v if os.path.exists(ROOT + '/lean/' + m.replace('.', '/') + '.lean')})))
    print('restored baseline; build rc', r.returncode)


if __name__ == '__main__':
    main()
