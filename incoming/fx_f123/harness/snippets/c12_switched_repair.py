# ---- F12-3 repair (delivery fx_f123): paste into harness/props/c12.py and call `corr_switched_repair(ctx)` at the end of `run(ctx)` ------------
# Needs the driver handlers `switched` (answers with the repaired function, Model/SwitchedOut.lean) and `switched_loop` (the loop's own
# result) of the delivered Handlers/Switched.lean.  Uses only names c12.py already imports (itertools, Fraction, np, fr, w_rat, w_rats,
# p_ints, cmp_exact, call_impl).

def corr_switched_repair(ctx):
    """get_switched_peak_array_indices after the repair `return np.unique(switched_peak_indices)`:
    * correspondence with the model of the repaired function (handler `switched`) — also for negative `tol` (this function has no `tol < 0`
      guard) and for every constant series, where the loop reports index 0 twice;
    * tie between the two models: the implementation's result == sorted set of the loop model's result (handler `switched_loop`);
    * oracles on the implementation: strictly ascending for EVERY series and EVERY tol; a constant series reports exactly [0];
      the object-level wrapper get_switched_peak_indices (object with .values / plain array) returns the same indices."""
    from eqsig.fns import peaks_and_crossings as pc
    rng = ctx.rng
    tols = [Fraction(0), Fraction(1, 2), Fraction(3, 2), Fraction(-1, 2), Fraction(-1), Fraction(-2)]

    class _Obj:                      # anything with a `.values` attribute
        def __init__(self, a):
            self.values = a

    def one(v, label):
        arr = np.array(v, dtype=float)
        const = len(set(v)) == 1
        ctx.hist('repair/' + label)
        ctx.count_case(('repair',) + tuple(v), len(v) >= 3 and not const)
        for tol in tols:
            res = call_impl(pc.get_switched_peak_array_indices, arr, tol=float(tol))
            inputs = {'values': list(v), 'tol': float(tol)}
            ctx.corr('get_switched_peak_array_indices', f"switched|{w_rat(tol)}|{w_rats(v)}", res,
                     lambda outs, val: cmp_exact([int(x) for x in val], p_ints(outs[0])), inputs=inputs)
            ctx.corr('get_switched_peak_array_indices == np.unique(result of the loop model)', f"switched_loop|{w_rat(tol)}|{w_rats(v)}", res,
                     lambda outs, val: cmp_exact([int(x) for x in val], sorted(set(p_ints(outs[0])))), inputs=inputs)
            if res[0] != 'ok':
                continue
            S = [int(x) for x in res[1]]
            ctx.oracle('C12.c switched-peak indices are strictly ascending (every series, every tol)',
                       len(S) >= 1 and all(a < b for a, b in zip(S, S[1:])) and 0 <= S[0] and S[-1] < len(v), inputs, detail={'got': S},
                       facts={'fn': 'switched', 'tol': float(tol), 'all_zero': all(x == 0 for x in v), 'bad': 'strictly ascending'})
            if const:
                ctx.oracle('C12.e a constant series reports exactly index 0 (one excursion, or the zero series: its first sample)',
                           S == [0], inputs, detail={'got': S})
        ra = call_impl(pc.get_switched_peak_array_indices, arr)
        for nm, arg in (('object with .values', _Obj(arr)), ('plain array', arr)):
            rw = call_impl(pc.get_switched_peak_indices, arg)
            ctx.oracle('C12 get_switched_peak_indices(%s) == get_switched_peak_array_indices(values)' % nm,
                       rw[0] == ra[0] and (ra[0] != 'ok' or [int(x) for x in rw[1]] == [int(x) for x in ra[1]]), {'values': list(v)},
                       detail={'wrapper': rw[1] if rw[0] != 'ok' else [int(x) for x in rw[1]][:12]})

    one((), 'empty')                 # IndexError (values[0] in clean_out_non_changing), model and wrapper alike
    for c in (0, 1, -1, 2, 0.5, -1.5, 2.0 ** -20):
        for n in range(1, 7):
            one((c,) * n, 'constant')
    for n in range(1, 6 if ctx.tier == 'quick' else 8):
        for v in itertools.product((-1, 0, 1), repeat=n):
            one(v, f'exhaustive/3-level/len={n}')
    ctx.flush()
    for i in range(150 if ctx.tier == 'quick' else 1500):
        n = rng.choice([1, 2, 3, 4, 6, 9, 17, 40])
        kind = rng.choice(['dyadic', 'plateau', 'zeros-mixed'])
        if kind == 'dyadic':
            v = [rng.randint(-24, 24) / 8 for _ in range(n)]
        elif kind == 'plateau':
            v = []
            while len(v) < n:
                v += [rng.choice([-2, -1, 0, 0.5, 1, 3])] * rng.randint(1, 4)
            v = v[:n]
        else:
            v = [rng.choice([0, 0, 0, 1, -1, 0.25]) for _ in range(n)]
        one(tuple(float(x) for x in v), 'random/' + kind)
    ctx.flush()
