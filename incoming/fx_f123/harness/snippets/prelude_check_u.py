# ---- delivery fx_f123: differential test of Prelude/NpU.lean (np.unique on index arrays) for harness/prelude_check_p.py ----------------------
# 1. paste the two generators below above the line `# ---- Python `for` loops ---…` of harness/prelude_check_p.py
#    (they use names that module already has: np, N_RANDOM, sizes, iarr, w_ints, c_ints, call_impl, _consistent);
# 2. add to PRIMITIVES_P, after the line `('np.p.sort_asc', g_sort_asc), …`:
#        ('np.u.unique', g_unique),                                             # NpU.unique (Prelude/NpU.lean, Handlers/PreludeU.lean)
#        ('np.u.dedup_adj', g_dedup_adj),                                       # NpU.dedupAdj
# 3. the module docstring's list of prelude files may mention `Prelude/NpU.lean` (handlers `np.u.*`, `Handlers/PreludeU.lean`).


def g_unique(rng):
    """NpU.unique = np.unique(l) of a 1-D integer index array (also what sorted(set(l)) is)"""
    def uq(l):
        r = np.unique(iarr(l))
        return _consistent([int(x) for x in r], sorted(set(int(x) for x in l)))
    fixed = [[], [0], [0, 0], [0, 0, 0], [3, 1, 2, 1, 3], [0, 3, 5, 7], [7, 5, 3, 0], [2, 2, 1, 1, 0, 0], [5, 0, 5, 0, 5]]
    for i in range(N_RANDOM + len(fixed)):
        if i < len(fixed):
            l = fixed[i]
        else:
            l = [rng.choice([0, 0, 1, 2, rng.randint(0, 9), rng.randint(0, 1000)]) for _ in range(sizes(rng, i - len(fixed), (0, 1, 2, 2, 3, 3)))]
            if i % 4 == 0:
                l = sorted(l, reverse=rng.random() < 0.3)          # already sorted (the switched-peak case), with / without repeats
            if i % 7 == 0:
                l = sorted(set(l))                                  # strictly ascending: np.unique must be the identity
        yield [w_ints(l)], call_impl(uq, l), c_ints, {'l': l}


def g_dedup_adj(rng):
    """NpU.dedupAdj = l[np.concatenate(([True], l[1:] != l[:-1]))] (the mask step of np.unique), any order of l"""
    def dd(l):
        a = iarr(l)
        if len(a) == 0:
            return a
        return a[np.concatenate(([True], a[1:] != a[:-1]))]
    fixed = [[], [4], [0, 0], [0, 0, 1, 1, 1, 0, 2], [1, 2, 3], [3, 3, 3, 3], [1, 0, 1, 0]]
    for i in range(N_RANDOM + len(fixed)):
        l = fixed[i] if i < len(fixed) else [rng.choice([0, 0, 1, 1, 2, rng.randint(0, 5)]) for _ in range(sizes(rng, i - len(fixed), (1, 2, 2, 3, 3, 4)))]
        yield [w_ints(l)], call_impl(dd, l), c_ints, {'l': l}
