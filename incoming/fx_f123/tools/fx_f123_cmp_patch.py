"""compare /repo (old) and /tmp/fx_f123/lib (patched) get_switched_peak_array_indices and callers"""
import importlib.util, sys, itertools, random, time, warnings
import numpy as np
warnings.simplefilter('ignore')

def load(root, tag):
    # load package eqsig from root under an alias
    import importlib
    for k in [k for k in sys.modules if k == 'eqsig' or k.startswith('eqsig.')]:
        del sys.modules[k]
    sys.path.insert(0, root)
    import eqsig
    import eqsig.fns.peaks_and_crossings as pc
    import eqsig.im as im
    assert eqsig.__file__.startswith(root), eqsig.__file__
    mods = (eqsig, pc, im)
    sys.path.pop(0)
    for k in [k for k in sys.modules if k == 'eqsig' or k.startswith('eqsig.')]:
        del sys.modules[k]
    return mods

old = load('/repo', 'old')
new = load('/tmp/fx_f123/lib', 'new')
assert old[1].__file__ != new[1].__file__

def call(f, *a, **k):
    try:
        r = f(*a, **k)
    except Exception as e:
        return ('err', type(e).__name__)
    def norm(x):
        if isinstance(x, tuple):
            return tuple(norm(y) for y in x)
        a = np.asarray(x)
        return (str(a.dtype), a.shape, a.tolist())
    return ('ok', norm(r))

def same(a, b):
    if a[0] != b[0]:
        return False
    if a[0] == 'err':
        return a[1] == b[1]
    return repr(a[1]) == repr(b[1])   # repr so that nan == nan

tols = [0.0, 0.5, 1.0, 1.5]
t0 = time.time()
n = diff = 0
diffs = []
allzero_results = set()
for L in range(1, 9):
    for v in itertools.product(range(-2, 3), repeat=L):
        arr = np.array(v, dtype=float)
        for tol in tols:
            a = call(old[1].get_switched_peak_array_indices, arr, tol=tol)
            b = call(new[1].get_switched_peak_array_indices, arr, tol=tol)
            n += 1
            if not same(a, b):
                diff += 1
                if any(v):
                    diffs.append((v, tol, a, b))
                else:
                    allzero_results.add((L, tol, repr(a[1][2]), repr(b[1][2]), a[1][0], b[1][0]))
print('exhaustive {-2..2}^<=8 x 4 tol:', n, 'calls; differing', diff, '; differing on a not-all-zero series', len(diffs), f'({time.time()-t0:.0f}s)')
print('all-zero differences (len, tol, old, new, dtype old, dtype new):')
for x in sorted(allzero_results): print('   ', x)
for d in diffs[:5]: print('  DIFF', d)

# {-3..3}^<=6
n2 = d2 = 0
for L in range(1, 7):
    for v in itertools.product(range(-3, 4), repeat=L):
        arr = np.array(v, dtype=float)
        for tol in tols[:2]:
            a = call(old[1].get_switched_peak_array_indices, arr, tol=tol); b = call(new[1].get_switched_peak_array_indices, arr, tol=tol)
            n2 += 1
            if not same(a, b) and any(v): d2 += 1
print('exhaustive {-3..3}^<=6 x 2 tol:', n2, 'calls; differing on a not-all-zero series', d2)

rng = random.Random(12345)
n3 = d3 = 0
for i in range(4000):
    L = rng.choice([1, 2, 3, 5, 8, 13, 40, 200, 1500])
    kind = rng.choice(['int', 'dyadic', 'float', 'plateau', 'zeros-mixed', 'const'])
    if kind == 'int': v = [rng.randint(-5, 5) for _ in range(L)]
    elif kind == 'dyadic': v = [rng.randint(-64, 64) / 16 for _ in range(L)]
    elif kind == 'float': v = [rng.gauss(0, 1) for _ in range(L)]
    elif kind == 'plateau':
        v = []
        while len(v) < L: v += [rng.choice([-2, -1, 0, 0.5, 1, 3])] * rng.randint(1, 4)
        v = v[:L]
    elif kind == 'zeros-mixed': v = [rng.choice([0, 0, 0, 1, -1]) for _ in range(L)]
    else: v = [rng.choice([0.0, 1.0, -2.5, 1e-300])] * L
    for dt in (float, None):
        arr = np.array(v, dtype=dt) if dt else np.array(v)
        for tol in tols:
            a = call(old[1].get_switched_peak_array_indices, arr, tol=tol); b = call(new[1].get_switched_peak_array_indices, arr, tol=tol)
            n3 += 1
            if not same(a, b) and any(v):
                d3 += 1; print('  DIFF', v[:10], tol, a, b)
print('random:', n3, 'calls; differing on a not-all-zero series', d3)

# list / empty / 2-d inputs
for v in ([], [1.0], [0.0], [0, 0], [[0, 1], [1, 0]]):
    for f in ('get_switched_peak_array_indices', 'get_switched_peak_indices'):
        a = call(getattr(old[1], f), np.array(v, dtype=float)); b = call(getattr(new[1], f), np.array(v, dtype=float))
        print(f, v, 'old', a, 'new', b)

# callers
class Obj:
    def __init__(self, v): self.values = np.array(v, dtype=float)
print('--- callers')
cases = [[0.0]*1, [0.0]*2, [0.0]*5, [1.0]*4, [-2.0]*3, [0, 1, 0], [0, 0, 1, -1, 0, 0], [5, 1, 3, -1], [0, 2, 1, 3, -1, -2, -1, 1]]
for i in range(300):
    L = rng.choice([2, 3, 5, 8, 30, 200])
    cases.append([rng.randint(-4, 4) / rng.choice([1, 2, 4]) for _ in range(L)])
stats = {}
def both(name, fo, fn, *args, **kw):
    a, b = call(fo, *args, **kw), call(fn, *args, **kw)
    ok = same(a, b)
    key = (name, 'all-zero' if not np.any(np.asarray(args[0].values if hasattr(args[0], 'values') else args[0])) else 'other')
    s = stats.setdefault(key, [0, 0, None])
    s[0] += 1
    if not ok:
        s[1] += 1
        if s[2] is None: s[2] = (np.asarray(args[0].values if hasattr(args[0], 'values') else args[0]).tolist()[:8], a, b)
for v in cases:
    arr = np.array(v, dtype=float)
    both('get_switched_peak_indices(obj)', old[1].get_switched_peak_indices, new[1].get_switched_peak_indices, Obj(v))
    both('get_switched_peak_indices(array)', old[1].get_switched_peak_indices, new[1].get_switched_peak_indices, arr)
    for start in ('origin', 'peak'):
        both(f'get_n_cyc_array(switched,{start})', old[1].get_n_cyc_array, new[1].get_n_cyc_array, arr, opt='switched', start=start)
    both('get_n_cyc_array(all)', old[1].get_n_cyc_array, new[1].get_n_cyc_array, arr, opt='all')
    both('get_zero_and_peak_array_indices', old[1].get_zero_and_peak_array_indices, new[1].get_zero_and_peak_array_indices, arr)
    both('im.calc_n_cyc_array_w_power_law', old[2].calc_n_cyc_array_w_power_law, new[2].calc_n_cyc_array_w_power_law, arr, 1.0, 0.5)
    both('im.calc_cyc_amp_array_w_power_law', old[2].calc_cyc_amp_array_w_power_law, new[2].calc_cyc_amp_array_w_power_law, arr, 15, 0.34)
    both('im.calc_cyc_amp_gm_arrays_w_power_law', old[2].calc_cyc_amp_gm_arrays_w_power_law, new[2].calc_cyc_amp_gm_arrays_w_power_law, arr, arr[::-1].copy(), 15, 0.34)
    both('im.calc_cyc_amp_combined_arrays_w_power_law', old[2].calc_cyc_amp_combined_arrays_w_power_law, new[2].calc_cyc_amp_combined_arrays_w_power_law, arr, arr[::-1].copy(), 15, 0.34)
for k in sorted(stats):
    print(k, 'calls', stats[k][0], 'differing', stats[k][1], stats[k][2] or '')
