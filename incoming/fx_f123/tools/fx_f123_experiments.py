"""translator experiments for the repaired tail of get_switched_peak_array_indices: each edit is applied to a scratch copy of the PATCHED
library; translator -> Gen of the private copy -> lake build EqsigVerif.Props.C12Gen."""
import os, shutil, subprocess, sys, json
BASE = '/tmp/fx_f123/lib'
SRC = '/tmp/fx_f123/exp/src'
VERIF = '/tmp/fx_f123/verif'
F = 'eqsig/fns/peaks_and_crossings.py'
TAIL = "    switched_peak_indices = np.take(peak_indices, new_peak_indices)\n    return np.unique(switched_peak_indices)\n"

BREAKING = [
 ('B1 revert the repair (return the loop result)', TAIL, "    switched_peak_indices = np.take(peak_indices, new_peak_indices)\n    return switched_peak_indices\n"),
 ('B2 np.sort instead of np.unique (sorted, duplicates kept)', TAIL, "    switched_peak_indices = np.take(peak_indices, new_peak_indices)\n    return np.sort(switched_peak_indices)\n"),
 ('B3 unique of the wrong array (new_peak_indices: positions, not indices)', TAIL, "    switched_peak_indices = np.take(peak_indices, new_peak_indices)\n    return np.unique(new_peak_indices)\n"),
 ('B4 unique of all peaks', TAIL, "    switched_peak_indices = np.take(peak_indices, new_peak_indices)\n    return np.unique(peak_indices)\n"),
 ('B5 drop the first entry after unique', TAIL, "    switched_peak_indices = np.take(peak_indices, new_peak_indices)\n    return np.unique(switched_peak_indices)[1:]\n"),
 ('B6 return_index=True (returns a tuple)', TAIL, "    switched_peak_indices = np.take(peak_indices, new_peak_indices)\n    return np.unique(switched_peak_indices, return_index=True)\n"),
 ('B7 unique computed but the loop result returned', TAIL, "    switched_peak_indices = np.take(peak_indices, new_peak_indices)\n    u = np.unique(switched_peak_indices)\n    return switched_peak_indices\n"),
 ('B8 unique applied before np.take (to the positions)', TAIL, "    switched_peak_indices = np.take(peak_indices, np.unique(new_peak_indices))\n    return switched_peak_indices\n"),
 ('B9 take from values-sized arange instead of peak_indices', TAIL, "    switched_peak_indices = np.take(np.arange(len(peak_values)), new_peak_indices)\n    return np.unique(switched_peak_indices)\n"),
 ('B10 loop condition <= flipped to < (upstream edit, still caught)', "        if adj_val * last <= 0:", "        if adj_val * last < 0:"),
 ('B11 special-casing instead of unique: dedupe only when len == 2', TAIL, "    switched_peak_indices = np.take(peak_indices, new_peak_indices)\n    if len(switched_peak_indices) == 2:\n        return np.unique(switched_peak_indices)\n    return switched_peak_indices\n"),
]
HARMLESS = [
 ('H1 temporary removed (unique of the take expression)', TAIL, "    return np.unique(np.take(peak_indices, new_peak_indices))\n"),
 ('H2 temporary added', TAIL, "    switched_peak_indices = np.take(peak_indices, new_peak_indices)\n    out = np.unique(switched_peak_indices)\n    return out\n"),
 ('H3 temporaries renamed', TAIL, "    spi = np.take(peak_indices, new_peak_indices)\n    return np.unique(spi)\n"),
 ('H4 rebinding the same name', TAIL, "    switched_peak_indices = np.take(peak_indices, new_peak_indices)\n    switched_peak_indices = np.unique(switched_peak_indices)\n    return switched_peak_indices\n"),
 ('H5 comment + blank line + docstring-free respelling', TAIL, "    switched_peak_indices = np.take(peak_indices, new_peak_indices)\n\n    # sorted, duplicates removed\n    return np.unique( switched_peak_indices )\n"),
 ('H6 keyword spelling np.unique(ar=...)', TAIL, "    switched_peak_indices = np.take(peak_indices, new_peak_indices)\n    return np.unique(ar=switched_peak_indices)\n"),
]

def sh(cmd, cwd=None):
    p = subprocess.run(cmd, cwd=cwd, capture_output=True, text=True)
    return p.returncode, "\n".join(l for l in (p.stdout + p.stderr).split('\n') if 'condarc' not in l)

def run(label, old, new):
    shutil.rmtree(SRC, ignore_errors=True)
    os.makedirs(SRC)
    shutil.copytree(BASE + '/eqsig', SRC + '/eqsig', ignore=shutil.ignore_patterns('__pycache__'))
    s = open(os.path.join(SRC, F)).read()
    assert s.count(old) == 1, (label, s.count(old))
    open(os.path.join(SRC, F), 'w').write(s.replace(old, new))
    # python sanity: does the edited function still run, what does it give on zeros / a normal record
    rc, out = sh(['/venv/bin/python', '-c', "import numpy as np, eqsig.fns.peaks_and_crossings as pc\nfor v in ([0.,0.,0.],[0.,2.,1.,3.,-1.,-2.,-1.,1.]):\n    try: print(np.asarray(pc.get_switched_peak_array_indices(np.array(v))).tolist(), end=' ')\n    except Exception as e: print(type(e).__name__, end=' ')"], cwd=SRC)
    py = out.strip().split('\n')[-1]
    rc, out = sh(['python3', 'tools/py2lean.py', '--repo', SRC], cwd=VERIF)
    rep = json.load(open(VERIF + '/lean/EqsigVerif/Gen/translate_report.json'))
    unt = [u for u in rep.get('untranslatable', [])]
    if unt:
        res = 'Untranslatable: ' + '; '.join(f"{u.get('function')}:{u.get('line')} {u.get('construct')}" for u in unt)[:200]
    else:
        gold = open(VERIF + '/lean/EqsigVerif/GenGolden/CrossingsFns.lean').read().replace('EqsigVerif.GenGolden', 'EqsigVerif.Gen')
        same = gold == open(VERIF + '/lean/EqsigVerif/Gen/CrossingsFns.lean').read()
        rc, out = sh(['lake', 'build', 'EqsigVerif.Props.C12Gen'], cwd=VERIF + '/lean')
        res = ('Gen text identical to golden; ' if same else 'Gen text differs; ') + ('bridge module BUILDS' if rc == 0 else 'bridge module FAILS to build')
    print(f"{label}\n    python on zeros(3) / [0,2,1,3,-1,-2,-1,1]: {py}\n    -> {res}", flush=True)

for lab, o, n in BREAKING: run(lab, o, n)
print('---- harmless')
for lab, o, n in HARMLESS: run(lab, o, n)
# restore
sh(['python3', 'tools/py2lean.py', '--repo', BASE], cwd=VERIF)
rc, out = sh(['lake', 'build', 'EqsigVerif.Props.C12Gen'], cwd=VERIF + '/lean')
print('restored: translator on the patched library, bridge builds:', rc == 0)
shutil.rmtree('/tmp/fx_f123/exp', ignore_errors=True)
