"""standalone validation of the generated definitions (handlers r2.*) against /repo: python validate.py [seed] [n_cases] [parts,comma]"""
import sys
sys.path.insert(0, '/tmp/tw_rest2/verif/harness')
sys.path.insert(0, '/tmp/tw_rest2/verif/harness/props')
import core
from _rest2_corr import corr_rest2
seed = int(sys.argv[1]) if len(sys.argv) > 1 else 0
n = int(sys.argv[2]) if len(sys.argv) > 2 else 60
parts = tuple(sys.argv[3].split(',')) if len(sys.argv) > 3 else ('peaks', 'cluster', 'stockwell')
ctx = core.Ctx('C12', 'quick', seed)
corr_rest2(ctx, n, parts)
print('requests per fn:', ctx.corr_count)
print('failures:', len(ctx.corr_failures))
for f in ctx.corr_failures[:25]:
    print(f['fn'], f['message'], f['inputs'], f['request'][:200])
print('gaps', ctx.max_gap)
print({k: v for k, v in sorted(ctx.dist.items()) if 'rest2' in k})
