import sys
sys.argv = ['x']
exec(open('/tmp/tw_rest2/verif/experiments/exp.py').read().split("for title, edits in")[0])
print('skip_is 0 -> 1 (after pinning transformSlowSkip):', run(ST, "    skip_is = 0  #", "    skip_is = 1  #"))
import subprocess
r = subprocess.run(['lake', 'build', 'EqsigVerif.Props.C12GenZeroPeak', 'EqsigVerif.Props.C18GenCombine', 'EqsigVerif.Props.C15GenSlow', 'EqsigVerif.GenGolden.StockwellFns2', 'eqsig_driver'], cwd=LEAN, capture_output=True, text=True)
print('final build rc', r.returncode, r.stdout[-300:])
