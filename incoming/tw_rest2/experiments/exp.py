"""translator experiments for py2lean_x_rest2: one edit at a time on a copy of the source; outcome U (Untranslatable), SAME (byte-identical output),
F (regenerated file differs and the bridge module no longer builds), P (differs, bridge still proves)"""
import os, shutil, subprocess, sys
sys.path.insert(0, '/tmp/tw_rest2/verif/tools')
import py2lean_x_rest2 as X
SRC = '/tmp/tw_rest2/src'
LEAN = '/tmp/tw_rest2/verif/lean'
PC, MU, ST = 'eqsig/fns/peaks_and_crossings.py', 'eqsig/multiple.py', 'eqsig/stockwell.py'
T = {PC: (X.gen_zero_peak, 'EqsigVerif.Props.C12GenZeroPeak'), MU: (X.gen_cluster, 'EqsigVerif.Props.C18GenCombine'), ST: (X.gen_stockwell2, 'EqsigVerif.Props.C15GenSlow')}
BREAK = [
    (PC, "if i - cc + 1 == len(peak_indices):", "if i - cc + 2 == len(peak_indices):", 'constant 1 -> 2 in the break test'),
    (PC, "p0 = peak_indices[i - 1 - cc]", "p0 = peak_indices[i - cc]", 'index i-1-cc -> i-cc'),
    (PC, "if c >= p1 - min_step:", "if c > p1 - min_step:", '>= -> >'),
    (PC, "if c >= p1 - min_step:", "if c >= p1 + min_step:", 'operator - -> +'),
    (PC, "            cc -= 1\n            continue", "            continue", 'dropped cc -= 1'),
    (PC, "for i in range(1, len(ci)):", "for i in range(0, len(ci)):", 'loop bound 1 -> 0'),
    (PC, "if p0 < c < p1:", "if p0 <= c < p1:", '< -> <='),
    (PC, "            new_pi.append(p1)", "            new_pi.append(p0)", 'append p1 -> p0'),
    (PC, "if len(ci) < 2:", "if len(ci) < 1:", 'constant 2 -> 1'),
    (PC, "assert max(piz[:-1] - ci[1:]) < 0", "assert max(piz[:-1] - ci[1:]) <= 0", 'assert < -> <='),
    (PC, "assert min(np.diff(piz)) > 0", "assert min(np.diff(ci)) > 0", 'assert on the other array'),
    (PC, "while z_cur + i < npts - 1:", "while z_cur + i < npts:", 'while bound npts-1 -> npts'),
    (PC, "dydx[end_z + 1]", "dydx[end_z]", 'index end_z+1 -> end_z'),
    (PC, "z_cur = end_z + 1", "z_cur = end_z", 'z_cur = end_z'),
    (PC, "            i = 0\n", "            i = 1\n", 'i = 0 -> i = 1'),
    (PC, "inds.append(npts - 1)", "inds.append(npts)", 'final append npts-1 -> npts'),
    (PC, "np.diff(y, prepend=y[0]) / dx", "np.diff(y, prepend=y[-1]) / dx", 'prepend y[0] -> y[-1]'),
    (PC, "av_dydx = np.mean(dydx[z_cur: end_z])", "av_dydx = np.mean(dydx[z_cur: end_z + 1])", 'slice end_z -> end_z+1'),
    (PC, "def get_zero_and_peak_array_indices(pvals, zvals=None, min_step=0):", "def get_zero_and_peak_array_indices(pvals, zvals=None, min_step=1):", 'default min_step'),
    (PC, "rtol=1.0e-8, atol=1.0e-5", "rtol=1.0e-7, atol=1.0e-5", 'default rtol'),
    (MU, "return key_value_pair[1].values", "return key_value_pair[0].values", 'component [1] -> [0]'),
    (MU, "list(self.signals.items())[index]\n        return key_value_pair[1].values", "list(self.signals.items())[index - 1]\n        return key_value_pair[1].values", 'index -> index-1'),
    (MU, "self.signal_by_index(high_index).butter_pass(cut_off=(f_ch, None)", "self.signal_by_index(low_index).butter_pass(cut_off=(f_ch, None)", 'high-pass on the low index'),
    (MU, "self.signal_by_index(low_index).butter_pass(cut_off=(None, f_ch)", "self.signal_by_index(low_index).butter_pass(cut_off=(f_ch, None)", 'low-pass -> high-pass'),
    (MU, "self.signal_by_index(low_index).values + self.signal_by_index(high_index).values", "self.signal_by_index(low_index).values - self.signal_by_index(high_index).values", '+ -> -'),
    (MU, "order = kwargs.get('order', 4)", "order = kwargs.get('order', 2)", 'default order'),
    (MU, "for i in range(len(self.signals)):\n            self.signal_by_index(i).generate_response_spectrum()", "for i in range(1, len(self.signals)):\n            self.signal_by_index(i).generate_response_spectrum()", 'loop from 1'),
    (ST, "    aa = aa[:-ith, :]", "    aa = aa[:ith, :]", '[:-ith] -> [:ith]'),
    (ST, "    skip_is = 0  #", "    skip_is = 1  #", 'skip_is 0 -> 1'),
    (ST, "def transform_slow(acc, interp=False, ith=0):", "def transform_slow(acc, interp=False, ith=1):", 'default ith'),
    (ST, "    upstock[:-ith, :] = np.fft.ifft(aa, axis=1)", "    upstock[:-ith, :] = np.fft.fft(aa, axis=1)", 'ifft -> fft'),
    (ST, "return np.real(ifft(np.sum(stock, axis=1)))", "return np.real(ifft(np.sum(stock, axis=0)))", 'axis 1 -> 0'),
    (ST, "    aa = diag_con[skip_is:, :] * gaussian[skip_is:, :]", "    aa = diag_con[skip_is:, :] + gaussian[skip_is:, :]", '* -> +'),
]
HARMLESS = [
    (PC, "        p0 = peak_indices[i - 1 - cc]\n        p1 = peak_indices[i - cc]\n        c = ci[i]\n\n        if c >= p1 - min_step:", "        p0 = peak_indices[i - 1 - cc]\n        p1 = peak_indices[i - cc]\n        cur = ci[i]\n        c = cur\n\n        if c >= p1 - min_step:", 'temporary introduced'),
    (PC, "    cc = 0\n    new_ci = []\n    new_pi = []", "    new_ci = []\n    cc = 0\n    new_pi = []", 'reordered independent statements (state order changes)'),
    (PC, "        end_z = z_cur + i\n        av_dydx = np.mean(dydx[z_cur: end_z])", "        end_z = z_cur + i\n        mean_slope = np.mean(dydx[z_cur: end_z])\n        av_dydx = mean_slope", 'temporary introduced (while loop)'),
    (PC, "rtol=1.0e-8, atol=1.0e-5", "rtol=1e-8, atol=0.00001", 'literals respelled'),
    (PC, "if c >= p1 - min_step:", "if p1 - min_step <= c:", 'comparison mirrored'),
    (PC, "if i - cc + 1 == len(peak_indices):", "if 1 + i - cc == len(peak_indices):", 'commuted sum'),
    (PC, "    peak_indices = get_switched_peak_array_indices(pvals)\n    ci = get_zero_crossings_array_indices(zvals)", "    pk = get_switched_peak_array_indices(pvals)\n    ci = get_zero_crossings_array_indices(zvals)", 'rename (only the first occurrence: inconsistent, expected U)'),
    (MU, "key_value_pair = list(self.signals.items())[index]\n        return key_value_pair[1].values", "kv = list(self.signals.items())[index]\n        return kv[1].values", 'rename temporary'),
    (MU, "        motion = self.signal_by_index(low_index).values + self.signal_by_index(high_index).values\n        return motion", "        combo = self.signal_by_index(low_index).values + self.signal_by_index(high_index).values\n        return combo", 'rename temporary'),
    (ST, "    upstock = np.zeros_like(aa)\n    aa = aa[:-ith, :]\n    upstock[:-ith, :]", "    up = np.zeros_like(aa)\n    aa = aa[:-ith, :]\n    up[:-ith, :]", 'rename (first occurrences only: expected U)'),
]
golden = {}
for rel, (g, _) in T.items():
    golden[rel] = g('/repo', 'Gen')


def run(rel, old, new):
    shutil.rmtree(SRC, ignore_errors=True)
    os.makedirs(SRC)
    shutil.copytree('/repo/eqsig', SRC + '/eqsig')
    p = os.path.join(SRC, rel)
    s = open(p).read()
    if s.count(old) < 1:
        return 'NOT-APPLIED'
    open(p, 'w').write(s.replace(old, new, 1))
    g, module = T[rel]
    try:
        out = g(SRC, 'Gen')
    except Exception as e:
        if type(e).__name__ == 'Untranslatable':
            return 'U  ' + str(e)[:110]
        raise
    if out == golden[rel]:
        return 'SAME'
    for fn, text in out.items():
        open(os.path.join(LEAN, 'EqsigVerif/Gen', fn), 'w').write(text)
    r = subprocess.run(['lake', 'build', module], cwd=LEAN, capture_output=True, text=True)
    for fn, text in golden[rel].items():
        open(os.path.join(LEAN, 'EqsigVerif/Gen', fn), 'w').write(text)
    return 'F' if r.returncode != 0 else 'P'


for title, edits in (('BREAKING', BREAK), ('HARMLESS', HARMLESS)):
    print('==', title)
    for rel, old, new, what in edits:
        print(f"{os.path.basename(rel):26s} {what:60s} {run(rel, old, new)}", flush=True)
subprocess.run(['lake', 'build', 'EqsigVerif.Props.C12GenZeroPeak', 'EqsigVerif.Props.C18GenCombine', 'EqsigVerif.Props.C15GenSlow'], cwd=LEAN, capture_output=True)
