import os, shutil, subprocess, re
SRC='/tmp/tw_single3/src'
M = [('single.py', "ind05 = np.where(abs_motion / 9.8 > 0.05)", "ind05 = np.where(abs_motion / 9.81 > 0.05)"),
     ('single.py', "self.values[ind10[0][0]:ind10[0][-1]]", "self.values[ind10[0][0]:ind10[0][-1] + 1]"),
     ('single.py', "pgd = im.calc_peak(self.displacement)", "pgd = im.calc_peak(self.velocity)"),
     ('single.py', "self.cav = self.cav_series[-1]", "self.cav = self.cav_series[-2]"),
     ('fns/time_step.py', "np.linspace(0, dt * (npts + 1), npts)", "np.linspace(0, dt * (npts - 1), npts)"),
     ('fns/time_step.py', "return eqsig.AccSignal(acc_interp, dt_interp)\n\n\ndef resample", "return eqsig.AccSignal(acc_interp, asig.dt)\n\n\ndef resample"),
     ('fns/peaks_and_crossings.py', "if c >= p1 - min_step:", "if c > p1 - min_step:"),
     ('fns/peaks_and_crossings.py', "if len(ci) < 2:\n        return [], []", "if len(ci) < 1:\n        return [], []"),
     ('fns/peaks_and_crossings.py', "dydx[end_z + 1]", "dydx[end_z]"),
     ('fns/peaks_and_crossings.py', "inds.append(npts - 1)", "inds.append(npts)"),
     ('multiple.py', "motion = self.signal_by_index(low_index).values + self.signal_by_index(high_index).values", "motion = self.signal_by_index(low_index).values - self.signal_by_index(high_index).values"),
     ('multiple.py', "    def values_by_index(self, index):\n        key_value_pair = list(self.signals.items())[index]", "    def values_by_index(self, index):\n        key_value_pair = list(self.signals.items())[index - 1]"),
     ('multiple.py', "self.signal_by_index(high_index).butter_pass(cut_off=(f_ch, None)", "self.signal_by_index(low_index).butter_pass(cut_off=(f_ch, None)")]
for f, old, new in M:
    shutil.rmtree(SRC + '/eqsig', ignore_errors=True); shutil.copytree('/repo/eqsig', SRC + '/eqsig')
    for extra in ('setup.py',):
        pass
    p = os.path.join(SRC, 'eqsig', f); s = open(p).read(); assert old in s, old
    open(p, 'w').write(s.replace(old, new, 1))
    r = subprocess.run(['./check', 'C10', '--no-build'], capture_output=True, text=True, cwd='/tmp/tw_single3/verif', env=dict(os.environ, EQSIG_REPO=SRC, VERIF_SEED='0'))
    last = [l for l in r.stdout.splitlines() if l.startswith('C10 ')]
    print(f, '|', new[:60].replace('\n', ' '), '|', last[-1][-120:] if last else r.stdout[-300:], flush=True)
