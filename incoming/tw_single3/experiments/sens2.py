import os, shutil, subprocess, re
SRC='/tmp/tw_single3/src'
M = [('single.py', "ind05 = np.where(abs_motion / 9.8 > 0.05)", "ind05 = np.where(abs_motion / 9.81 > 0.05)"), ('single.py', "ind01 = np.where(abs_motion / 9.8 > 0.01)", "ind01 = np.where(abs_motion / 9.8 >= 0.01)")]
for f, old, new in M:
    shutil.rmtree(SRC + '/eqsig', ignore_errors=True); shutil.copytree('/repo/eqsig', SRC + '/eqsig')
    for extra in ('setup.py',):
        pass
    p = os.path.join(SRC, 'eqsig', f); s = open(p).read(); assert old in s, old
    open(p, 'w').write(s.replace(old, new, 1))
    r = subprocess.run(['./check', 'C10', '--no-build'], capture_output=True, text=True, cwd='/tmp/tw_single3/verif', env=dict(os.environ, EQSIG_REPO=SRC, VERIF_SEED='0'))
    last = [l for l in r.stdout.splitlines() if l.startswith('C10 ')]
    print(f, '|', new[:60].replace('\n', ' '), '|', last[-1][-120:] if last else r.stdout[-300:], flush=True)
