import numpy as np, eqsig, warnings
warnings.simplefilter('ignore')
def run(v, dt, shim):
    if shim: np.trapz = np.trapezoid
    elif hasattr(np,'trapz'): del np.trapz
    a = eqsig.AccSignal(np.array(v,dtype=float), dt)
    try:
        a.generate_duration_stats()
        return [float(x) for x in (a.t_b01,a.a_rms01,a.t_b05,a.a_rms05,a.t_b10,a.a_rms10,a.sd_start,a.sd_end,a.t_595)]
    except Exception as e: return type(e).__name__
for v,dt in [([],0.5),([0.],0.5),([1.],0.5),([0.,1.,-2.,0.5,0.],0.5),([0.05,0.05,0.06],0.5),([0.,1.,0.,0.],0.5),([0.,1.,2.,0.,3.0,0.2],0.0),([0.5,0.5,0.5,2,2,0.5],0.25), ([0,0,0],0.5)]:
    print(v,dt,run(v,dt,False),run(v,dt,True))
a = eqsig.AccSignal(np.array([]), 0.5)
for f in ('generate_cumulative_stats',):
    try: getattr(a,f)(); print('ok')
    except Exception as e: print(f, type(e).__name__, e)
for p in ('pgv','pgd','pga'):
    try: print(getattr(a,p))
    except Exception as e: print(p, type(e).__name__, e)
a = eqsig.AccSignal(np.array([1.,-3.,2.]), 0.0); print(a.pgv,a.pgd)
print(eqsig.im.calc_peak(np.array([-3.,1.])), type(eqsig.im.calc_peak(np.array([-3.,1.]))))
