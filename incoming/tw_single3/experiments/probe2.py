import numpy as np, eqsig, warnings
from eqsig.fns import time_step as ts
warnings.simplefilter('ignore')
for n,dt in [(0,0.5),(1,0.5),(2,0.5),(3,1.0),(5,0.25)]:
    try: print(n,dt,ts.time_series_from_motion(np.zeros(n),dt))
    except Exception as e: print(n,dt,type(e).__name__,e)
for v,dt,t,e in [([],0.5,0.25,True),([1.],0.5,0.25,True),([1.,3.,2.],0.5,0.25,False),([1.,3.,2.],0.5,0.0,False),([1.,3.,2.],0.0,0.25,False),([1.,2,3,4,5,6,7],0.25,0.5,True)]:
    try:
        r = ts.interp_to_approx_dt(eqsig.AccSignal(np.array(v),dt), t, e); print(v,dt,t,e,type(r).__name__, r.values, r.dt, r.npts)
    except Exception as ex: print(v,dt,t,e,type(ex).__name__,ex)
    try:
        r = ts.interp_array_to_approx_dt(np.array(v),dt, t, e); print('   arr', r)
    except Exception as ex: print('   arr',type(ex).__name__,ex)
