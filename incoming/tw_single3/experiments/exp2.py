import json, os, shutil, subprocess, re
exec(open('/tmp/tw_single3/exp/exp.py').read().split("S, T, I = ")[0])
FILES += ['ImSimple.lean', 'ImDur.lean']
BASE = texts()
def one(label, f, old, new):
    shutil.rmtree(SRC + '/eqsig', ignore_errors=True); shutil.copytree('/repo/eqsig', SRC + '/eqsig')
    p = os.path.join(SRC, 'eqsig', f); s = open(p).read(); assert old in s
    open(p, 'w').write(s.replace(old, new, 1))
    p2 = subprocess.run(['python3', V + '/tools/py2lean.py', '--repo', SRC], capture_output=True, text=True, cwd=V)
    rep = json.load(open(GEN + '/translate_report.json'))
    if rep['untranslatable']:
        return 'U', str([(u['target'], u['function'], u['construct'][:80]) for u in rep['untranslatable']])
    if texts() == BASE: return 'I', ''
    r = subprocess.run(['lake', 'build'] + MODS, capture_output=True, text=True, cwd=V + '/lean')
    m = re.search(r'error: (EqsigVerif/[^\n]*)', r.stdout)
    return ('F', m.group(1)[:120] if m else '') if r.returncode else ('P', '')
for label, f, old, new in [
  ('im.calc_peak min->max', 'im.py', 'def calc_peak(motion):\n    """Calculates the peak absolute response"""\n    return max(abs(min(motion)), max(motion))', 'def calc_peak(motion):\n    """Calculates the peak absolute response"""\n    return max(abs(max(motion)), max(motion))'),
  ('im.calc_cav uses 2*dt', 'im.py', "return cumulative_trapezoid(abs_acc, dx=acc_sig.dt, initial=0)", "return cumulative_trapezoid(abs_acc, dx=2 * acc_sig.dt, initial=0)"),
  ('im.calc_arias_intensity passes 2*values', 'im.py', "return _raw_calc_arias_intensity(acc_sig.values, acc_sig.dt)", "return _raw_calc_arias_intensity(2 * acc_sig.values, acc_sig.dt)"),
  ('im.calc_sig_dur_vals default start 0.05->0.1', 'im.py', "def calc_sig_dur_vals(motion, dt, start=0.05, end=0.95, se=False):", "def calc_sig_dur_vals(motion, dt, start=0.1, end=0.95, se=False):"),
  ('im.calc_sig_dur_vals cumsum of |a|', 'im.py', "cum_acc2 = np.cumsum(motion ** 2)", "cum_acc2 = np.cumsum(abs(motion))")]:
    res, info = one(label, f, old, new)
    line = f"BREAK    {res} {f:18s} {label} {('— ' + info) if info else ''}"
    print(line, flush=True)
    open('/tmp/tw_single3/exp/exp.log', 'a').write(line + "   [rerun: callee edits, all Gen files compared]\n")
translate('/repo')
subprocess.run(['lake', 'build'] + MODS, capture_output=True, text=True, cwd=V + '/lean')
