"""translator experiments for tools/py2lean_x_single3.py: python3 exp.py  (private copy only)
each edit: copy /repo/eqsig -> /tmp/tw_single3/src/eqsig, apply ONE textual edit, run the translator on it, then
U = Untranslatable reported for one of our targets; F = generated text differs and `lake build` of the bridge modules fails;
P = generated text differs and the bridges still prove; I = generated text byte-identical."""
import json, os, shutil, subprocess, sys
V = '/tmp/tw_single3/verif'
SRC = '/tmp/tw_single3/src'
GEN = V + '/lean/EqsigVerif/Gen'
FILES = ['Single3.lean', 'Single3Time.lean']
MODS = ['EqsigVerif.Props.C10GenObject', 'EqsigVerif.Props.C09GenObject', 'EqsigVerif.Props.C08GenObject', 'EqsigVerif.Props.C14GenObject']

def translate(repo):
    p = subprocess.run(['python3', V + '/tools/py2lean.py', '--repo', repo], capture_output=True, text=True, cwd=V)
    rep = json.load(open(GEN + '/translate_report.json'))
    return [u for u in rep['untranslatable'] if u['target'] in ('gen_single3', 'gen_single3_time')]

def texts():
    return {f: open(os.path.join(GEN, f)).read() for f in FILES}

translate('/repo')
BASE = texts()

S, T, I = 'single.py', 'fns/time_step.py', 'im.py'
BREAK = [
 ('const 0.01->0.02', S, "ind01 = np.where(abs_motion / 9.8 > 0.01)", "ind01 = np.where(abs_motion / 9.8 > 0.02)"),
 ('const 9.8->9.81 (05 block)', S, "ind05 = np.where(abs_motion / 9.8 > 0.05)", "ind05 = np.where(abs_motion / 9.81 > 0.05)"),
 ('index time2[0]->time2[-1]', S, "self.t_b01 = time2[-1] - time2[0]", "self.t_b01 = time2[-1] - time2[-1]"),
 ('swap slice bounds', S, "self.values[ind01[0][0]:ind01[0][-1]]", "self.values[ind01[0][-1]:ind01[0][0]]"),
 ('const 1/t_b -> 2/t_b', S, "np.sqrt(1 / self.t_b01 *", "np.sqrt(2 / self.t_b01 *"),
 ('drop ** 2', S, "(self.values[ind05[0][0]:ind05[0][-1]]) ** 2, dx=self.dt))", "(self.values[ind05[0][0]:ind05[0][-1]]), dx=self.dt))"),
 ('operator * -> +', S, "np.sqrt(1 / self.t_b10 * np.trapz", "np.sqrt(1 / self.t_b10 + np.trapz"),
 ('handler const -1. -> 0.', S, "            self.t_b05 = -1.\n", "            self.t_b05 = 0.\n"),
 ('flag se=True -> se=False', S, "im.calc_sig_dur_vals(self.values, self.dt, se=True)", "im.calc_sig_dur_vals(self.values, self.dt, se=False)"),
 ('swap difference t_595', S, "self.t_595 = self.sd_end - self.sd_start", "self.t_595 = self.sd_start - self.sd_end"),
 ('flip comparison > -> <', S, "ind10 = np.where(abs_motion / 9.8 > 0.1)", "ind10 = np.where(abs_motion / 9.8 < 0.1)"),
 ('wrong index array', S, "time10 = time[ind10]", "time10 = time[ind05]"),
 ('wrong attribute t_b10->t_b05', S, "np.sqrt(1 / self.t_b10 *", "np.sqrt(1 / self.t_b05 *"),
 ('drop sqrt', S, "self.a_rms01 = np.sqrt(1 / self.t_b01 * np.trapz((self.values[ind01[0][0]:ind01[0][-1]]) ** 2, dx=self.dt))", "self.a_rms01 = (1 / self.t_b01 * np.trapz((self.values[ind01[0][0]:ind01[0][-1]]) ** 2, dx=self.dt))"),
 ('exception class', S, "        except IndexError:\n            self.t_b10 = -1.", "        except ValueError:\n            self.t_b10 = -1."),
 ('time grid npts->npts-1', S, "        time = np.arange(self.npts) * self.dt\n        # Bracketed", "        time = np.arange(self.npts - 1) * self.dt\n        # Bracketed"),
 ('sig dur of abs_motion', S, "im.calc_sig_dur_vals(self.values, self.dt, se=True)", "im.calc_sig_dur_vals(abs_motion, self.dt, se=True)"),
 ('pgv of displacement', S, "pgv = im.calc_peak(self.velocity)", "pgv = im.calc_peak(self.displacement)"),
 ('pgd stored under pgv', S, 'self._cached_params["pgd"] = pgd', 'self._cached_params["pgv"] = pgd'),
 ('pgd twice', S, "pgd = im.calc_peak(self.displacement)", "pgd = 2 * im.calc_peak(self.displacement)"),
 ('arias last -> first', S, "self.arias_intensity = self.arias_intensity_series[-1]", "self.arias_intensity = self.arias_intensity_series[0]"),
 ('cav series from arias', S, "self.cav_series = im.calc_cav(self)", "self.cav_series = im.calc_arias_intensity(self)"),
 ('cav from arias series', S, "self.cav = self.cav_series[-1]", "self.cav = self.arias_intensity_series[-1]"),
 ('generate_peak_values mutates', S, '        deprecation("generate_peak_values() is no longer in use, all peak values are lazy loaded.")', '        deprecation("generate_peak_values() is no longer in use, all peak values are lazy loaded.")\n        self._values = self._values * 2'),
 ('im.calc_peak min->max', I, "return max(abs(min(motion)), max(motion))", "return max(abs(max(motion)), max(motion))"),
 ('im.calc_cav uses 2*dt', I, "return cumulative_trapezoid(abs_acc, dx=acc_sig.dt, initial=0)", "return cumulative_trapezoid(abs_acc, dx=2 * acc_sig.dt, initial=0)"),
 ('linspace end npts+1 -> npts-1', T, "np.linspace(0, dt * (npts + 1), npts)", "np.linspace(0, dt * (npts - 1), npts)"),
 ('linspace start 0 -> 1', T, "np.linspace(0, dt * (npts + 1), npts)", "np.linspace(1, dt * (npts + 1), npts)"),
 ('linspace count npts -> npts+1', T, "np.linspace(0, dt * (npts + 1), npts)", "np.linspace(0, dt * (npts + 1), npts + 1)"),
 ('wrapper swaps ctor args', T, "return eqsig.AccSignal(acc_interp, dt_interp)\n\n\ndef resample", "return eqsig.AccSignal(dt_interp, acc_interp)\n\n\ndef resample"),
 ('wrapper default 0.01->0.02', T, "def interp_to_approx_dt(asig, target_dt=0.01, even=True):", "def interp_to_approx_dt(asig, target_dt=0.02, even=True):"),
 ('wrapper drops even', T, "interp_array_to_approx_dt(asig.values, asig.dt, target_dt=target_dt, even=even)", "interp_array_to_approx_dt(asig.values, asig.dt, target_dt=target_dt)"),
 ('wrapper swaps values/dt', T, "interp_array_to_approx_dt(asig.values, asig.dt, target_dt=target_dt, even=even)", "interp_array_to_approx_dt(asig.dt, asig.values, target_dt=target_dt, even=even)"),
 ('wrapper returns Signal', T, "return eqsig.AccSignal(acc_interp, dt_interp)\n\n\ndef resample", "return eqsig.Signal(acc_interp, dt_interp)\n\n\ndef resample"),
 ('wrapper passes target as even', T, "target_dt=target_dt, even=even)\n    return eqsig.AccSignal(acc_interp", "target_dt=even, even=target_dt)\n    return eqsig.AccSignal(acc_interp"),
]
HARMLESS = [
 ('rename abs_motion', S, None, ('abs_motion', 'am_')),
 ('rename time2', S, None, ('time2', 'tt2')),
 ('rename ind01', S, None, ('ind01', 'idx01')),
 ('respell -1. -> -1.0', S, "            self.t_b01 = -1.\n            self.a_rms01 = -1.\n", "            self.t_b01 = -1.0\n            self.a_rms01 = -1.0\n"),
 ('respell 9.8 -> 9.80', S, "ind01 = np.where(abs_motion / 9.8 > 0.01)", "ind01 = np.where(abs_motion / 9.80 > 0.01)"),
 ('respell 0.05 -> 5e-2', S, "ind05 = np.where(abs_motion / 9.8 > 0.05)", "ind05 = np.where(abs_motion / 9.8 > 5e-2)"),
 ('temporary introduced', S, "            self.t_b01 = time2[-1] - time2[0]\n", "            tb_ = time2[-1] - time2[0]\n            self.t_b01 = tb_\n"),
 ('temporary removed', S, "        time2 = time[ind01]\n        try:\n            self.t_b01 = time2[-1] - time2[0]", "        try:\n            self.t_b01 = time[ind01][-1] - time[ind01][0]"),
 ('reorder independent statements', S, "        abs_motion = abs(self.values)\n\n        time = np.arange(self.npts) * self.dt\n", "        time = np.arange(self.npts) * self.dt\n\n        abs_motion = abs(self.values)\n"),
 ('abs -> np.abs', S, "abs_motion = abs(self.values)", "abs_motion = np.abs(self.values)"),
 ('deprecation text', S, 'deprecation("Use eqsig.im.calc_arias_intensity, eqsig.im.calc_cav")', 'deprecation("use the functions of eqsig.im")'),
 ('commute 1 / t_b * trapz', S, "np.sqrt(1 / self.t_b01 * np.trapz((self.values[ind01[0][0]:ind01[0][-1]]) ** 2, dx=self.dt))", "np.sqrt(np.trapz((self.values[ind01[0][0]:ind01[0][-1]]) ** 2, dx=self.dt) * (1 / self.t_b01))"),
 ('pgv local renamed', S, "            pgv = im.calc_peak(self.velocity)\n            self._cached_params[\"pgv\"] = pgv\n            return pgv", "            val = im.calc_peak(self.velocity)\n            self._cached_params[\"pgv\"] = val\n            return val"),
 ('cumulative: local temporary', S, "        self.cav_series = im.calc_cav(self)\n", "        cs_ = im.calc_cav(self)\n        self.cav_series = cs_\n"),
 ('time_series: rename npts', T, "    npts = len(motion)\n    return np.linspace(0, dt * (npts + 1), npts)", "    n = len(motion)\n    return np.linspace(0, dt * (n + 1), n)"),
 ('time_series: temporary removed', T, "    npts = len(motion)\n    return np.linspace(0, dt * (npts + 1), npts)", "    return np.linspace(0, dt * (len(motion) + 1), len(motion))"),
 ('time_series: commute product', T, "np.linspace(0, dt * (npts + 1), npts)", "np.linspace(0, (npts + 1) * dt, npts)"),
 ('time_series: 0 -> 0.0', T, "np.linspace(0, dt * (npts + 1), npts)", "np.linspace(0.0, dt * (npts + 1), npts)"),
 ('wrapper: rename temporaries', T, "    acc_interp, dt_interp = interp_array_to_approx_dt(asig.values, asig.dt, target_dt=target_dt, even=even)\n    return eqsig.AccSignal(acc_interp, dt_interp)", "    vv, dd = interp_array_to_approx_dt(asig.values, asig.dt, target_dt=target_dt, even=even)\n    return eqsig.AccSignal(vv, dd)"),
 ('wrapper: positional arguments', T, "interp_array_to_approx_dt(asig.values, asig.dt, target_dt=target_dt, even=even)", "interp_array_to_approx_dt(asig.values, asig.dt, target_dt, even)"),
 ('wrapper: keyword order', T, "interp_array_to_approx_dt(asig.values, asig.dt, target_dt=target_dt, even=even)", "interp_array_to_approx_dt(asig.values, asig.dt, even=even, target_dt=target_dt)"),
 ('wrapper: default 0.01 -> 1e-2', T, "def interp_to_approx_dt(asig, target_dt=0.01, even=True):", "def interp_to_approx_dt(asig, target_dt=1e-2, even=True):"),
]

def one(label, f, old, new):
    shutil.rmtree(SRC + '/eqsig', ignore_errors=True)
    shutil.copytree('/repo/eqsig', SRC + '/eqsig')
    p = os.path.join(SRC, 'eqsig', f)
    s = open(p).read()
    if old is None:
        a, b = new
        assert a in s, label
        s2 = s.replace(a, b)
    else:
        assert s.count(old) >= 1, (label, 'pattern not found')
        s2 = s.replace(old, new, 1)
    assert s2 != s
    open(p, 'w').write(s2)
    un = translate(SRC)
    if un:
        return 'U', un[0]['function'] + ': ' + un[0]['construct'][:90]
    t = texts()
    if t == BASE:
        return 'I', ''
    r = subprocess.run(['lake', 'build'] + MODS, capture_output=True, text=True, cwd=V + '/lean')
    if r.returncode != 0:
        import re
        m = re.search(r'error: (EqsigVerif/[^\n]*)', r.stdout)
        return 'F', (m.group(1)[:110] if m else '')
    return 'P', ''

out = []
for kind, lst in (('BREAK', BREAK), ('HARMLESS', HARMLESS)):
    for label, f, old, new in lst:
        res, info = one(label, f, old, new)
        line = f"{kind:8s} {res} {f:18s} {label} {('— ' + info) if info else ''}"
        print(line, flush=True)
        out.append(line)
translate('/repo')
subprocess.run(['lake', 'build'] + MODS, capture_output=True, text=True, cwd=V + '/lean')
open('/tmp/tw_single3/exp/exp.log', 'w').write("\n".join(out) + "\n")
