import numpy as np, eqsig, warnings, itertools
from eqsig.fns import peaks_and_crossings as pc
import eqsig.multiple as mul
warnings.simplefilter('ignore')
# smallest records over {-2..2} for which get_zero_and_peak_array_indices raises
found = {}
for n in range(2, 8):
    for v in itertools.product([-2., -1., 0., 1., 2.], repeat=n):
        try: pc.get_zero_and_peak_array_indices(np.array(v))
        except Exception as e:
            k = type(e).__name__
            if k not in found:
                found[k] = v
                try: sp = pc.get_switched_peak_array_indices(np.array(v)); zc = pc.get_zero_crossings_array_indices(np.array(v))
                except Exception as e2: sp = zc = type(e2).__name__
                print(k, v, 'switched peaks', sp, 'zero crossings', zc, str(e)[:80])
    if len(found) >= 3: break
v = np.array([0., 1., 2., 1., -1., -3., -1., 2., 4., 1., -2., -1., 3., 1., -1.])
print(pc.get_switched_peak_array_indices(v), pc.get_zero_crossings_array_indices(v))
try: print(pc.get_zero_and_peak_array_indices(v))
except Exception as e: print(type(e).__name__, e)
# combine_motions: order ignored
rng = np.random.RandomState(1)
a, b = rng.randn(64), rng.randn(64)
m4 = mul.Cluster([a.copy(), b.copy()], 0.01).combine_motions(5.0)
m2 = mul.Cluster([a.copy(), b.copy()], 0.01).combine_motions(5.0, order=2)
print('order=2 identical to default:', np.array_equal(m4, m2))
s = eqsig.Signal(a.copy(), 0.01); s.butter_pass(cut_off=(None, 5.0), filter_order=2); s4 = eqsig.Signal(a.copy(), 0.01); s4.butter_pass(cut_off=(None, 5.0))
print('filter_order=2 differs from default in butter_pass:', not np.array_equal(s.values, s4.values))
c = mul.Cluster([a.copy(), b.copy()], 0.01); c.combine_motions(5.0); print('cluster records changed by combine_motions:', not np.array_equal(c.values_by_index(0), a), not np.array_equal(c.values_by_index(1), b))
sg = eqsig.Signal(a.copy(), 0.01); sg.butter_pass(cut_off=(None, 5.0), remove_gibbs=0); sn = eqsig.Signal(a.copy(), 0.01); sn.butter_pass(cut_off=(None, 5.0))
print('remove_gibbs=0 (combine default) differs from butter_pass default None:', not np.array_equal(sg.values, sn.values))
