"""C17, gain clause: the executable model of scipy.signal.butter (lean/EqsigVerif/Model/Butter.lean, handlers
lean/EqsigVerif/Handlers/Butter.lean) against the real SciPy, for the arguments Signal.butter_pass hands over.

corr_butter(ctx) : model (b, a) vs the (b, a) scipy.signal.butter returned *inside* Signal.butter_pass (the call is intercepted, so the
                   order, the normalised cut-offs wp = cut_off/nyq and the filter type are the ones the method computed), incl. raising cut-offs.
gain_model(ctx)  : the model's closed-form gain 1/(1 + Omega^(2N)) (theorems Props/C17Butter: butter_{low,high,band}pass_gain) vs
                   |freqz|^2 of SciPy's own coefficients (1e-9), and vs |freqz_zpk|^2 of SciPy's own zeros/poles/gain.
Call both from run(ctx) of harness/props/c17.py (they flush themselves)."""
import math
from fractions import Fraction

import numpy as np

from core import w_floats, p_floats, cmp_budget, call_impl

R9 = Fraction(1, 10**9)
DTS = [0.01, 0.005, 0.02, 0.025, 0.001, 0.1, 0.125, 0.0078125]
PROBES = [2.0 ** -9, 0.01, 0.05, 0.1, 0.2, 0.3, 0.4, 0.5, 0.6, 0.7, 0.8, 0.9, 0.97]


def _cases(ctx):
    """(order, cut_off as butter_pass takes it, dt, kind)"""
    rng = ctx.rng
    out = []
    # the documented default and the settings of the test-suite, every order
    for order in (1, 2, 3, 4):
        for dt in (0.01, 0.005, 0.02):
            out.append((order, (0.1, 15), dt, 'default'))
            out.append((order, (None, 15), dt, 'default'))
            out.append((order, (0.1, None), dt, 'default'))
    # cut-offs that scipy rejects (ValueError): at / above Nyquist, zero, negative, reversed or equal band
    for order in (1, 4):
        dt = 0.125  # nyq = 4 Hz
        for cut in ((None, 4.0), (None, 5.0), (4.0, None), (None, 0.0), (0.0, None), (-1.0, None), (2.0, 0.5), (0.5, 0.5), (0.5, 4.0),
                    (0.0, 2.0), (-1.0, 1.0)):
            out.append((order, cut, dt, 'rejected'))
    nrand = 60 if ctx.tier == 'quick' else 900
    for _ in range(nrand):
        dt = rng.choice(DTS)
        nyq = 0.5 / dt
        order = rng.randint(1, 4)
        ft = rng.choice(('low', 'high', 'band'))
        if ft == 'band':
            if rng.random() < 0.5:
                a, b = sorted((rng.uniform(0.001, 0.99), rng.uniform(0.001, 0.99)))
            else:
                a = 10 ** rng.uniform(-3, -0.5)
                b = min(0.99, a * 10 ** rng.uniform(0.05, 2))
            if not a < b:
                continue
            cut = (a * nyq, b * nyq)
        else:
            w = rng.uniform(0.001, 0.99) if rng.random() < 0.6 else 10 ** rng.uniform(-3, -0.005)
            cut = (None, w * nyq) if ft == 'low' else (w * nyq, None)
        if rng.random() < 0.3:                         # dyadic cut-offs
            cut = tuple(None if c is None else max(round(c * 64), 1) / 64 for c in cut)
        out.append((order, cut, dt, 'random'))
    return out


def _intercepted(order, cut, dt, n=64):
    """run Signal.butter_pass with scipy.signal.butter wrapped: returns (args scipy.signal.butter received, its outcome)"""
    import eqsig
    import scipy.signal
    real = scipy.signal.butter
    seen = {}

    def wrapper(N, Wn, btype='low', *a, **k):
        seen['args'] = (int(N), np.atleast_1d(np.array(Wn, dtype=float)).tolist(), btype, np.ndim(Wn))
        seen['res'] = call_impl(real, N, Wn, btype=btype, *a, **k)
        return real(N, Wn, btype=btype, *a, **k)
    scipy.signal.butter = wrapper
    try:
        sig = eqsig.Signal(np.cos(np.arange(n) * 0.37), dt)
        outer = call_impl(lambda: sig.butter_pass(cut, filter_order=order))
    finally:
        scipy.signal.butter = real
    return seen, outer


def _ftype(cut):
    return 'band' if cut[0] is not None and cut[1] is not None else ('low' if cut[0] is None else 'high')


def corr_butter(ctx):
    for order, cut, dt, kind in _cases(ctx):
        seen, outer = _intercepted(order, cut, dt)
        inputs = {'cut_off': cut, 'dt': dt, 'filter_order': order}
        ft = _ftype(cut)
        ctx.hist(f'butter-model/type={ft}')
        ctx.hist(f'butter-model/kind={kind}')
        ctx.count_case(('butter-model', order, cut, dt), True)
        if 'args' not in seen:
            ctx.oracle('C17.c butter_pass reaches scipy.signal.butter for every 2-item cut_off', False, inputs, detail=outer)
            continue
        N, wn, btype, ndim = seen['args']
        nyq = (1.0 / dt) * 0.5
        want = [c / nyq for c in cut if c is not None]
        ctx.oracle('C17.c butter_pass asks scipy.signal.butter for (filter_order, cut_off/nyq, type): a scalar for low/high pass, a pair '
                   'for band pass', N == order and btype == ft and wn == want and ndim == (1 if ft == 'band' else 0), inputs,
                   detail={'N': N, 'Wn': wn, 'btype': btype})
        res = seen['res']
        if res[0] == 'err' and res[1] != 'ValueError':
            res = ('err', 'Other')
        ctx.hist('butter-model/outcome=' + (res[1] if res[0] == 'err' else 'ok'))
        ctx.oracle('C17.c butter_pass raises exactly when scipy.signal.butter rejects the cut-offs (records longer than the filter padding)',
                   (res[0] == 'err') == (outer[0] == 'err'), inputs, detail={'butter': res[0], 'butter_pass': outer})

        def compare(outs, val, inputs=inputs):
            b, a = val
            if np.iscomplexobj(b) or np.iscomplexobj(a):
                return 'scipy returned complex coefficients'
            mb, ma = p_floats(outs[0]), p_floats(outs[1])
            m1, g1 = cmp_budget([float(x) for x in b], mb, R9)
            m2, g2 = cmp_budget([float(x) for x in a], ma, R9)
            ctx.gap('scipy.signal.butter (b, a) vs model (fraction of the largest coefficient)', max(g1 or 0.0, g2 or 0.0))
            return m1 or m2
        ctx.corr('scipy.signal.butter as called by butter_pass (model Model/Butter.lean, Float twin)',
                 f"c17.butter_ba|{N}|{btype}|{w_floats(wn)}", res, compare, inputs=inputs)
    ctx.flush()


def _well_conditioned(order, ft, wn):
    """where the polynomial (b, a) form itself reproduces its zeros/poles to ~1e-10: low orders, or cut-offs away from 0 and Nyquist and a
    band that is not narrow.  Elsewhere |freqz(b, a)|^2 of SciPy's own coefficients is off by 1e-8 .. 0.6 (see NOTES.md)."""
    if order <= 2 and min(wn) >= 0.01:
        return True
    if ft != 'band':
        return 0.02 <= wn[0] <= 0.98
    return wn[0] >= 0.05 and wn[1] <= 0.95 and wn[1] - wn[0] >= 0.1


def gain_model(ctx):
    from scipy.signal import butter, freqz, freqz_zpk
    for order, cut, dt, kind in _cases(ctx):
        nyq = (1.0 / dt) * 0.5
        ft = _ftype(cut)
        wn = [c / nyq for c in cut if c is not None]
        arg = wn[0] if ft != 'band' else np.array(wn)
        r = call_impl(butter, order, arg, btype=ft)
        if r[0] != 'ok':
            continue
        b, a = r[1]
        z, p, k = butter(order, arg, btype=ft, output='zpk')
        ws = PROBES + wn
        _, h = freqz(b, a, worN=np.pi * np.array(ws))
        _, hz = freqz_zpk(z, p, k, worN=np.pi * np.array(ws))
        well = _well_conditioned(order, ft, wn)
        ctx.hist(f'gain-model/type={ft}/order={order}')
        ctx.hist('gain-model/(b,a) form ' + ('well conditioned' if well else 'ill conditioned: compared with the zpk form only'))
        inputs = {'cut_off': cut, 'dt': dt, 'filter_order': order, 'Wn': wn, 'normalised probe frequencies': ws}

        def compare(outs, val, well=well, ncut=len(wn)):
            ref_ba, ref_zpk = val
            g = p_floats(outs[0])
            dz = max(abs(x - y) for x, y in zip(g, ref_zpk))
            ctx.gap('closed-form gain vs |freqz_zpk|^2 of SciPy\'s zeros/poles (absolute; gains are <= 1)', dz)
            if dz > 1e-9:
                return f'closed-form gain differs from |freqz_zpk|^2 by {dz:.3e}'
            if well:
                db = max(abs(x - y) for x, y in zip(g, ref_ba))
                ctx.gap('closed-form gain vs |freqz(b, a)|^2 of SciPy\'s coefficients (absolute; well-conditioned filters)', db)
                if db > 1e-9:
                    return f'closed-form gain differs from |freqz(b, a)|^2 by {db:.3e}'
            cutg = g[len(g) - ncut:]
            if any(abs(x - 0.5) > 1e-12 for x in cutg):
                return f'closed-form gain at the cut-off is {cutg}, not 1/2'
            return None
        ctx.corr('analytic Butterworth gain 1/(1+Omega^2N) (Props/C17Butter) vs scipy.signal.freqz / freqz_zpk',
                 f"c17.butter_gain|{order}|{ft}|{w_floats(wn)}|{w_floats(ws)}",
                 ('ok', ([float(abs(x) ** 2) for x in h], [float(abs(x) ** 2) for x in hz])), compare, inputs=inputs)
    ctx.flush()
