import EqsigVerif.Lemmas.ButterPoly
import EqsigVerif.Lemmas.ButterTypes
/-!
# The `(b, a)` form that `butter` returns (and `filtfilt` receives): low and high pass (C17)
-/
set_option linter.unusedSectionVars false
set_option linter.unusedVariables false
noncomputable section
namespace EqsigVerif.Butter
open Complex Finset EqsigVerif.Cplx EqsigVerif.Model.Butter
open EqsigVerif.Model.Single (FilterType)

open Polynomial in
/-- a root list `G 0, …, G (n−1)` that conjugation reverses gives a conjugation-invariant monic polynomial -/
theorem conj_sym_prod (G : ℕ → ℂ) (n : ℕ) (hG : ∀ j, j < n → starRingEnd ℂ (G j) = G (n - 1 - j)) :
    ((((List.range n).map G).map (starRingEnd ℂ)).map (fun r => X - C r)).prod
      = (((List.range n).map G).map (fun r => X - C r)).prod := by
  simp only [List.map_map, list_range_prod, Function.comp_apply]
  rw [← Finset.prod_range_reflect]
  apply Finset.prod_congr rfl
  intro j hj
  have hj' : j < n := Finset.mem_range.mp hj
  rw [hG (n - 1 - j) (by omega)]
  congr 3
  omega

open Polynomial in
theorem conj_sym_prod' (G : ℕ → ℂ) (n : ℕ) (hG : ∀ j, j < n → starRingEnd ℂ (G j) = G (n - 1 - j)) :
    ((List.range n).map ((fun r => X - C r) ∘ (starRingEnd ℂ) ∘ G)).prod
      = ((List.range n).map ((fun r => X - C r) ∘ G)).prod := by
  have := conj_sym_prod G n hG
  simpa only [List.map_map] using this

open Polynomial in
theorem poly_real_of_real (roots : List ℂ) (h : ∀ r ∈ roots, starRingEnd ℂ r = r) : ∀ c ∈ poly roots, c.im = 0 := by
  apply poly_real
  congr 2
  conv_rhs => rw [← List.map_id roots]
  apply List.map_congr_left
  intro r hr
  simpa using h r hr

theorem accepts_single (ft : FilterType) (hft : ft ≠ .band) (wc : ℝ) (h0 : 0 < wc) (h1 : wc < 1) : accepts ft [wc] = true := by
  cases ft <;> simp_all [accepts]

/-- low pass: `(b, a)` of `butter` has the transfer function of the zeros–poles–gain form -/
theorem lowpass_ba (cs : ℂ → ℂ) (n : ℕ) (wc : ℝ) (h0 : 0 < wc) (h1 : wc < 1) (ζ : ℂ) (hζ : ζ ≠ 0) :
    ∃ b a, butter (fnsC cs) n .low [wc] = .ok (b, a) ∧ b.length = n + 1 ∧ a.length = n + 1 ∧
      tfun b a ζ = evalZpk (digitalZpk (fnsC cs) n .low [wc]) ζ := by
  refine ⟨_, _, by simp [butter, accepts_single .low (by simp) wc h0 h1]; rfl, ?_, ?_, ?_⟩
  · simp [length_poly, digitalZpk, analogZpk, bilinear, lp2lp, buttap_z, buttap_p, relDeg]
  · simp [length_poly, digitalZpk, analogZpk, bilinear, lp2lp, buttap_z, buttap_p, relDeg]
  · apply tfun_zpk2tf _ _ _ _ ζ hζ
    · simp [digitalZpk, analogZpk, bilinear, lp2lp, buttap_z, buttap_p, relDeg]
    · apply poly_real_of_real
      intro r hr
      simp only [digitalZpk, analogZpk, bilinear, lp2lp, buttap_z, buttap_p, relDeg, List.map_nil, List.nil_append,
        List.mem_replicate] at hr
      rw [hr.2]; simp
    · apply poly_real
      simp only [digitalZpk, analogZpk, bilinear, lp2lp, buttap_p, List.map_map, cxlike_ofReal, List.getD_cons_zero]
      apply conj_sym_prod'
      intro j hj
      simp only [Function.comp_apply, map_div₀, map_add, map_sub, map_mul, Complex.conj_ofReal, conj_pole n j hj]

/-- high pass: the same -/
theorem highpass_ba (cs : ℂ → ℂ) (n : ℕ) (wc : ℝ) (h0 : 0 < wc) (h1 : wc < 1) (ζ : ℂ) (hζ : ζ ≠ 0) :
    ∃ b a, butter (fnsC cs) n .high [wc] = .ok (b, a) ∧ b.length = n + 1 ∧ a.length = n + 1 ∧
      tfun b a ζ = evalZpk (digitalZpk (fnsC cs) n .high [wc]) ζ := by
  refine ⟨_, _, by simp [butter, accepts_single .high (by simp) wc h0 h1]; rfl, ?_, ?_, ?_⟩
  · simp [length_poly, digitalZpk, analogZpk, bilinear, lp2hp, buttap_z, buttap_p, relDeg]
  · simp [length_poly, digitalZpk, analogZpk, bilinear, lp2hp, buttap_z, buttap_p, relDeg]
  · apply tfun_zpk2tf _ _ _ _ ζ hζ
    · simp [digitalZpk, analogZpk, bilinear, lp2hp, buttap_z, buttap_p, relDeg]
    · apply poly_real_of_real
      intro r hr
      simp only [digitalZpk, analogZpk, bilinear, lp2hp, buttap_z, buttap_p, relDeg, List.map_nil, List.nil_append,
        List.length_map, List.length_range, List.length_nil, Nat.sub_zero, List.map_replicate, List.length_replicate,
        Nat.sub_self, List.replicate_zero, List.append_nil, List.mem_replicate] at hr
      rw [hr.2]; simp
    · apply poly_real
      simp only [digitalZpk, analogZpk, bilinear, lp2hp, buttap_p, List.map_map, cxlike_ofReal, List.getD_cons_zero]
      apply conj_sym_prod'
      intro j hj
      simp only [Function.comp_apply, map_div₀, map_add, map_sub, Complex.conj_ofReal, conj_pole n j hj]

end EqsigVerif.Butter
