import EqsigVerif.Gen.PeaksFns
import EqsigVerif.Gen.PeakSeries
import EqsigVerif.Props.C13
import EqsigVerif.Props.C11Gen
import EqsigVerif.Lemmas.PeaksGen
/-!
# C13 (a–c) — bridges from the peak-only series generated from `eqsig/fns/peaks_and_crossings.py` (`Gen/PeakSeries.lean`) to
`Model/Peaks.lean` (`deltaCleanedE`, `pseudoCleanedE`, `deltaSeries`, `pseudoCyclicSeries`) — all series, errors included
-/
set_option linter.unusedSimpArgs false
namespace EqsigVerif.Props.C13
open EqsigVerif EqsigVerif.Wire EqsigVerif.Model.Peaks EqsigVerif.Lemmas.Peaks EqsigVerif.Lemmas.PeaksGen

theorem map_zero_eq_replicate (c : List ℚ) : c.map (fun _ => (0 : ℚ)) = List.replicate c.length 0 := by
  induction c with
  | nil => rfl
  | cons a t ih => simp [List.replicate_succ, ih]

theorem peakVals_ok (c : List ℚ) (hc : c ≠ []) :
    NpP.takeIE c (Gen.PeaksFns.peakIdxCleaned c) = .ok ((peaksCleaned c).map (fun i => c.getD i 0)) := by
  rw [C11.gen_peak_idx_cleaned c hc, takeIE_ofNat _ _ 0 (peaksCleaned_lt c (List.length_pos_of_ne_nil hc))]

/-- `_determine_peak_only_series_4_cleaned_data(values)` -/
theorem gen_pseudo_cleaned (c : List ℚ) : Gen.PeakSeries.peakOnlySeriesCleaned c = pseudoCleanedE c := by
  cases c with
  | nil => rfl
  | cons a t =>
    have hc : a :: t ≠ [] := by simp
    unfold Gen.PeakSeries.peakOnlySeriesCleaned
    simp only [bind, Except.bind, pure, Except.pure]
    rw [peakVals_ok _ hc]
    simp only
    rw [C11.gen_peak_idx_cleaned _ hc, putIE_ofNat]
    · rw [map_zero_eq_replicate]; rfl
    · simp [Np.arange]
    · intro i hi
      have := peaksCleaned_lt _ (List.length_pos_of_ne_nil hc) i hi
      simpa using this

/-- `determine_peak_only_delta_series_4_cleaned_data(values)` (the `assert` never fires) -/
theorem gen_delta_cleaned (c : List ℚ) : Gen.PeakSeries.peakOnlyDeltaSeriesCleaned c = deltaCleanedE c := by
  cases c with
  | nil => rfl
  | cons a t =>
    have hc : a :: t ≠ [] := by simp
    unfold Gen.PeakSeries.peakOnlyDeltaSeriesCleaned
    simp only [bind, Except.bind, pure, Except.pure]
    rw [peakVals_ok _ hc]
    simp only
    have hne : (peaksCleaned (a :: t)).map (fun i => (a :: t).getD i 0) ≠ [] := by simp [peaksCleaned]
    have hlen : (0 :: Np.diff ((peaksCleaned (a :: t)).map (fun i => (a :: t).getD i 0))).length =
        (peaksCleaned (a :: t)).length := by
      have := length_diffs0 _ hne
      simpa [diffs0] using this
    rw [C11.gen_peak_idx_cleaned _ hc]
    have hass : NpE.assertE (decide ((0 :: Np.diff ((peaksCleaned (a :: t)).map (fun i => (a :: t).getD i 0))).length =
        ((peaksCleaned (a :: t)).map Int.ofNat).length)) = .ok () := by
      rw [List.length_map, hlen]; simp [NpE.assertE]
    rw [hass]
    simp only
    rw [putIE_ofNat]
    · rw [map_zero_eq_replicate]; rfl
    · rw [hlen]
    · intro i hi
      have := peaksCleaned_lt _ (List.length_pos_of_ne_nil hc) i hi
      simpa using this

theorem deltaCleaned_length (c : List ℚ) : (deltaCleaned c).length = c.length := by simp [deltaCleaned]
theorem pseudoCleaned_length (c : List ℚ) : (pseudoCleaned c).length = c.length := by simp [pseudoCleaned]

/-- the common frame of the two `determine_*` functions (copy, rebase by `values[0]`, `clean_out_non_changing`,
`cleaned *= sign(cleaned[1])`, kernel, `np.put` back) is the model's `peakOnlySeries`, for any kernel that agrees with a
length-preserving model kernel (`IndexError` on the empty and on a constant series included) -/
theorem frame_eq (kernelG : List ℚ → Except ErrKind (List ℚ)) (kernel : List ℚ → List ℚ)
    (hk : ∀ c, c ≠ [] → kernelG c = .ok (kernel c)) (hlen : ∀ c, (kernel c).length = c.length) (v : List ℚ) :
    (do
      let e1 ← NpE.getE v 0
      let e2 ← Gen.PeaksFns.cleanOutNonChanging (v.map (fun x => x - e1))
      let e3 ← NpE.getE e2.1 1
      let e4 ← kernelG (e2.1.map (fun x => x * (NpP.sign e3)))
      let e5 ← NpP.putE ((v.map (fun x => x - e1)).map (fun _ => 0)) e2.2 e4
      pure e5) = peakOnlySeries kernel v := by
  cases v with
  | nil => rfl
  | cons x xs =>
    unfold peakOnlySeries
    rw [getE_ok (x :: xs) 0 0 (by simp)]
    simp only [bind, Except.bind, pure, Except.pure, List.getD_cons_zero]
    generalize hw : (x :: xs).map (fun y => y - x) = w
    have hwne : w ≠ [] := by rw [← hw]; simp
    have hw0 : w.getD 0 0 = 0 := by rw [← hw]; simp
    rw [C11.gen_clean_out_non_changing w hwne]
    have hcv : codeVals w = vals w := by unfold codeVals; rw [hw0]; simp
    have hci : codeIdx w = idxs w := by unfold codeIdx; rw [hw0]; simp
    simp only [hcv, hci]
    have hvals : vals w = (runs w).map (·.2) := rfl
    have hidxs : idxs w = (runs w).map (·.1) := rfl
    cases h1 : (vals w)[1]? with
    | none =>
      have : NpE.getE (vals w) 1 = .error .IndexError := by unfold NpE.getE; rw [h1]
      rw [this, ← hvals, h1]
      rfl
    | some c1 =>
      have : NpE.getE (vals w) 1 = .ok c1 := by unfold NpE.getE; rw [h1]
      rw [this, ← hvals, h1]
      simp only
      have hne : (vals w).map (fun y => y * NpP.sign c1) ≠ [] := by
        intro h
        have : vals w = [] := by simpa using h
        rw [this] at h1; simp at h1
      rw [hk _ hne]
      simp only
      rw [putE_ok]
      · rw [map_zero_eq_replicate, ← hidxs]; rfl
      · rw [hlen]; simp [vals, idxs]
      · intro i hi
        have := idxs_mem_lt w i hi
        simpa using this

/-- `determine_peaks_only_delta_series(values)` — every series, both `IndexError` branches included -/
theorem gen_delta_series (v : List ℚ) : Gen.PeakSeries.peaksOnlyDeltaSeries v = deltaSeries v := by
  unfold Gen.PeakSeries.peaksOnlyDeltaSeries deltaSeries
  exact frame_eq _ deltaCleaned (fun c hc => by rw [gen_delta_cleaned]; cases c with
    | nil => exact absurd rfl hc
    | cons a t => rfl) deltaCleaned_length v

/-- `determine_pseudo_cyclic_peak_only_series(values)` — every series, both `IndexError` branches included -/
theorem gen_pseudo_cyclic_series (v : List ℚ) : Gen.PeakSeries.pseudoCyclicPeakOnlySeries v = pseudoCyclicSeries v := by
  unfold Gen.PeakSeries.pseudoCyclicPeakOnlySeries pseudoCyclicSeries
  exact frame_eq _ pseudoCleaned (fun c hc => by rw [gen_pseudo_cleaned]; cases c with
    | nil => exact absurd rfl hc
    | cons a t => rfl) pseudoCleaned_length v

/-! ### the C13 theorems stated about the generated definitions -/

/-- C13.a about the generated `determine_peaks_only_delta_series`: total variation and net change are conserved -/
theorem gen_delta_series_spec (v : List ℚ) (hv : NonConstant v) :
    ∃ δ, Gen.PeakSeries.peaksOnlyDeltaSeries v = .ok δ ∧ δ.length = v.length ∧
      (∀ i, i ∉ peaks v → δ.getD i 0 = 0) ∧
      (δ.map (fun x => |x|)).sum = (List.zipWith (fun a b => |b - a|) v v.tail).sum ∧
      |δ.sum| = |v.getD (v.length - 1) 0 - v.getD 0 0| := by
  obtain ⟨δ, h1, h2, h3, _, _, h6, h7⟩ := delta_series_spec v hv
  exact ⟨δ, by rw [gen_delta_series, h1], h2, h3, h6, h7⟩

/-- C13.b about the generated `determine_pseudo_cyclic_peak_only_series` -/
theorem gen_pseudo_cyclic_sum (v : List ℚ) (hv : NonConstant v) :
    ∃ p, Gen.PeakSeries.pseudoCyclicPeakOnlySeries v = .ok p ∧ p.length = v.length ∧
      (∀ i, i ∉ peaks v → p.getD i 0 = 0) ∧
      p.sum = (List.zipWith (fun a b => |b - a|) v v.tail).sum / 2 +
        (v.getD (v.length - 1) 0 - v.getD 0 0) *
          sign (v.getD ((peaks v).getD ((peaks v).length - 1) 0) 0 -
                v.getD ((peaks v).getD ((peaks v).length - 2) 0) 0) / 2 := by
  obtain ⟨p, h1, h2, h3, _, h5⟩ := pseudo_cyclic_sum v hv
  exact ⟨p, by rw [gen_pseudo_cyclic_series, h1], h2, h3, h5⟩

/-- C13.c about the generated definitions: invariance under a constant shift (same exception on empty / constant input) -/
theorem gen_series_shift (v : List ℚ) (c : ℚ) :
    Gen.PeakSeries.peaksOnlyDeltaSeries (v.map (· + c)) = Gen.PeakSeries.peaksOnlyDeltaSeries v ∧
    Gen.PeakSeries.pseudoCyclicPeakOnlySeries (v.map (· + c)) = Gen.PeakSeries.pseudoCyclicPeakOnlySeries v := by
  simp only [gen_delta_series, gen_pseudo_cyclic_series]
  exact ⟨delta_series_shift v c, pseudo_cyclic_shift v c⟩

/-- both functions raise `IndexError` on a constant series (`cleaned_values[1]`) and on the empty series (`values[0]`) -/
theorem gen_series_constant (c : ℚ) (n : ℕ) :
    Gen.PeakSeries.peaksOnlyDeltaSeries (List.replicate n c) = deltaSeries (List.replicate n c) :=
  gen_delta_series _

/-! ### concrete instances (kernel-checked), one per generated definition -/

example : Gen.PeakSeries.peaksOnlyDeltaSeries ([3, 5, 4, 4, 6, 1] : List ℚ) = .ok [0, 2, -1, 0, 2, -5] := by decide +kernel
example : Gen.PeakSeries.pseudoCyclicPeakOnlySeries ([3, 5, 4, 4, 6, 1] : List ℚ) = .ok [0, 2, -1, 0, 3, 2] := by decide +kernel
example : Gen.PeakSeries.peakOnlyDeltaSeriesCleaned ([0, 2, 1, 3, -2] : List ℚ) = .ok [0, 2, -1, 2, -5] := by decide +kernel
example : Gen.PeakSeries.peakOnlySeriesCleaned ([0, 2, 1, 3, -2] : List ℚ) = .ok [0, 2, -1, 3, 2] := by decide +kernel
example : Gen.PeakSeries.peaksOnlyDeltaSeries ([2, 2, 2] : List ℚ) = .error .IndexError ∧
    Gen.PeakSeries.peaksOnlyDeltaSeries ([] : List ℚ) = .error .IndexError := by decide +kernel

end EqsigVerif.Props.C13
