import EqsigVerif.Gen.PeaksFns
import EqsigVerif.Gen.CrossingsFns
import EqsigVerif.Gen.PeakSeries
import EqsigVerif.Model.Peaks
import EqsigVerif.Model.Switched
import EqsigVerif.Model.Loader
open EqsigVerif EqsigVerif.Gen EqsigVerif.Model

def interpM (xs xp : List Nat) (fp : List Rat) : Except Wire.ErrKind (List Rat) := .ok (xs.map (fun x => Peaks.interp x xp fp))
/-- all series over {-1,0,1,2} up to length n -/
def allSeries : Nat → List (List Rat)
  | 0 => [[]]
  | n+1 => (allSeries n) ++ ((allSeries n).filter (fun l => l.length = n)).flatMap (fun l => [-1,0,1,2].map (fun x => x :: l))
def T := allSeries 6
#eval T.length
#eval T.all (fun v => decide (PeaksFns.getPeakArrayIndices v "all" = Peaks.getPeakArrayIndices v .all))
#eval T.all (fun v => decide (PeaksFns.getPeakArrayIndices v "max" = Peaks.getPeakArrayIndices v .max))
#eval T.all (fun v => decide (PeaksFns.getPeakArrayIndices v "min" = Peaks.getPeakArrayIndices v .min))
#eval T.all (fun v => decide (PeaksFns.getNCycArray (fun v => CrossingsFns.switchedPeakArrayIndices v 0) interpM v "all" "origin" = Peaks.getNCycArray v true))
#eval T.all (fun v => decide (PeaksFns.getNCycArray (fun v => CrossingsFns.switchedPeakArrayIndices v 0) interpM v "all" "peak" = Peaks.getNCycArray v false))
#eval T.all (fun v => decide (CrossingsFns.zeroCrossingsArrayIndices v false 0 = Switched.zeroCrossingsE v false 0))
#eval T.all (fun v => decide (CrossingsFns.zeroCrossingsArrayIndices v true 0 = Switched.zeroCrossingsE v true 0))
#eval T.all (fun v => decide (CrossingsFns.zeroCrossingsArrayIndices v true (3/2) = Switched.zeroCrossingsE v true (3/2)))
#eval T.all (fun v => decide (CrossingsFns.zeroCrossingsArrayIndices v false (3/2) = Switched.zeroCrossingsE v false (3/2)))
#eval T.all (fun v => decide (CrossingsFns.zeroCrossingsArrayIndices v false (-1) = Switched.zeroCrossingsE v false (-1)))
#eval T.all (fun v => decide (CrossingsFns.switchedPeakArrayIndices v 0 = Switched.switchedPeaksE v 0))
#eval T.all (fun v => decide (CrossingsFns.switchedPeakArrayIndices v (1/2) = Switched.switchedPeaksE v (1/2)))
#eval T.all (fun v => decide (CrossingsFns.switchedPeakArrayIndices v (-3/2) = Switched.switchedPeaksE v (-3/2)))
#eval T.all (fun v => decide (PeakSeries.peaksOnlyDeltaSeries v = Peaks.deltaSeries v))
#eval T.all (fun v => decide (PeakSeries.pseudoCyclicPeakOnlySeries v = Peaks.pseudoCyclicSeries v))
#eval T.all (fun v => decide (PeakSeries.peakOnlyDeltaSeriesCleaned v = Peaks.deltaCleanedE v))
#eval T.all (fun v => decide (PeakSeries.peakOnlySeriesCleaned v = Peaks.pseudoCleanedE v))
