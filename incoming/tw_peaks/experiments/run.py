#!/usr/bin/env python3
"""experiments for tw_peaks: apply one edit at a time to a copy of the source, regenerate, build the three bridge modules"""
import json, os, shutil, subprocess, sys
ROOT = '/tmp/tw_peaks'
SRC = ROOT + '/src'
F = SRC + '/eqsig/fns/peaks_and_crossings.py'
MODS = ['EqsigVerif.Props.C11Gen', 'EqsigVerif.Props.C12Gen', 'EqsigVerif.Props.C13GenSeries']
MINE = {'gen_peaks_fns', 'gen_crossings_fns', 'gen_peak_series'}

def run(edits, tag):
    if os.path.exists(SRC):
        shutil.rmtree(SRC)
    os.makedirs(SRC)
    shutil.copytree('/repo/eqsig', SRC + '/eqsig')
    s = open(F).read()
    for old, new, cnt in edits:
        if s.count(old) < 1:
            return f"{tag}: EDIT NOT APPLICABLE ({old!r})"
        if cnt == 'all':
            s = s.replace(old, new)
        else:
            # replace the cnt-th occurrence (1-based)
            idx = -1
            for _ in range(cnt):
                idx = s.index(old, idx + 1)
            s = s[:idx] + new + s[idx + len(old):]
    open(F, 'w').write(s)
    try:
        compile(s, F, 'exec')
    except SyntaxError as e:
        return f"{tag}: SYNTAX ERROR in edited source {e}"
    r = subprocess.run(['python3', ROOT + '/tools/py2lean.py', '--repo', SRC, '--out', ROOT + '/lean/EqsigVerif/Gen'], capture_output=True, text=True)
    if r.returncode != 0:
        return f"{tag}: TRANSLATOR CRASH {r.stderr[-300:]}"
    rep = json.loads(r.stdout.strip().splitlines()[-1])
    un = [u for u in rep['untranslatable'] if u['target'] in MINE]
    if un:
        return f"{tag}: Untranslatable  [{un[0]['function']}:{un[0]['line']}] {un[0]['construct'][:110]!r}"
    b = subprocess.run(['lake', 'build'] + MODS, cwd=ROOT + '/lean', capture_output=True, text=True)
    if b.returncode == 0:
        return f"{tag}: BUILD OK (bridges still prove)"
    failed = sorted({l.split('- ')[1] for l in b.stdout.splitlines() if l.startswith('- EqsigVerif')})
    return f"{tag}: BUILD FAILS in {', '.join(x.replace('EqsigVerif.', '') for x in failed)}"

def main():
    which = sys.argv[1]
    ns = {}
    exec(open(ROOT + f'/exp/{which}.py').read(), ns)
    sel = sys.argv[2:]
    for tag, edits in ns['EDITS']:
        if sel and tag not in sel:
            continue
        print(run(edits, tag), flush=True)
    # restore
    subprocess.run(['python3', ROOT + '/tools/py2lean.py', '--repo', '/repo', '--out', ROOT + '/lean/EqsigVerif/Gen'], capture_output=True)

main()
