#!/usr/bin/env python3
import subprocess, shutil, os, json, sys, re
ROOT = '/tmp/tw_im'
SRC0 = ROOT + '/src0/eqsig'
SRC = ROOT + '/src/eqsig'
GEN = ROOT + '/lean/EqsigVerif/Gen'
MINE = ['ImDur.lean', 'ImPower.lean', 'ImCavDp.lean']
MODS = ['EqsigVerif.Props.C10Gen', 'EqsigVerif.Props.C13Gen', 'EqsigVerif.Props.C09GenCav']

BREAK = [
 ('B01 sig_dur_vals: > -> >=', 'im.py', "(cum_acc2 > start * cum_acc2[-1])", "(cum_acc2 >= start * cum_acc2[-1])"),
 ('B02 sig_dur_vals: end index [-1] -> [0]', 'im.py', "    end_time = ind2[0][-1] * dt\n\n    if se:", "    end_time = ind2[0][0] * dt\n\n    if se:"),
 ('B03 sig_dur_vals: default start 0.05 -> 0.06', 'im.py', "def calc_sig_dur_vals(motion, dt, start=0.05,", "def calc_sig_dur_vals(motion, dt, start=0.06,"),
 ('B04 sig_dur_vals: drop term (end - start -> end)', 'im.py', "        return start_time, end_time\n    return end_time - start_time\n\n\ndef calc_sig_dur(", "        return start_time, end_time\n    return end_time\n\n\ndef calc_sig_dur("),
 ('B05 sig_dur: operator * -> + in start_time', 'im.py', "start_time = ind2[0][0] * asig.dt", "start_time = ind2[0][0] + asig.dt"),
 ('B06 sig_dur: < -> <= (upper)', 'im.py', "(im_vals < end * im_vals[-1])", "(im_vals <= end * im_vals[-1])"),
 ('B07 sig_dur: im default branch swapped', 'im.py', "    if im is None:\n        im_vals = calc_arias_intensity(asig)\n    else:\n        im_vals = im(asig)", "    if im is None:\n        im_vals = calc_cav(asig)\n    else:\n        im_vals = im(asig)"),
 ('B08 brac_dur: > -> >=', 'im.py', "    time = np.arange(asig.npts) * asig.dt\n    # Bracketed duration\n    ind01 = np.where(abs_motion > threshold)", "    time = np.arange(asig.npts) * asig.dt\n    # Bracketed duration\n    ind01 = np.where(abs_motion >= threshold)"),
 ('B09 brac_dur: swap operands of the difference', 'im.py', "return time2[-1] - time2[0]", "return time2[0] - time2[-1]"),
 ('B10 brac_dur: handler returns 1 instead of 0', 'im.py', "            return None, None\n        return 0", "            return None, None\n        return 1"),
 ('B11 bracketed_duration wrapper: passes se=True', 'im.py', "return calc_brac_dur(asig, threshold)", "return calc_brac_dur(asig, threshold, se=True)"),
 ('B12 sig_dur_vals: default se=False -> True (changes the wrapper)', 'im.py', "end=0.95, se=False):\n    \"\"\"\n    Computes the significant duration using cumulative", "end=0.95, se=True):\n    \"\"\"\n    Computes the significant duration using cumulative"),
 ('B13 acc_rms: slice end index [-1] -> [0]', 'im.py', "asig.values[ind01[0][0]:ind01[0][-1]]", "asig.values[ind01[0][0]:ind01[0][0]]"),
 ('B14 cav_dp: loop bound total_seconds -> total_seconds + 1', 'im.py', "for i in range(0, total_seconds):", "for i in range(0, total_seconds + 1):"),
 ('B15 cav_dp: loop start 0 -> 1', 'im.py', "for i in range(0, total_seconds):", "for i in range(1, total_seconds):"),
 ('B16 cav_dp: inner bound end + 1 -> end', 'im.py', "for j in range(start, end + 1):", "for j in range(start, end):"),
 ('B17 cav_dp: gate test < -> <=', 'im.py', "if (pga - 0.025) < 0:", "if (pga - 0.025) <= 0:"),
 ('B18 cav_dp: drop the running sum', 'im.py', "cav_dp = cav_dp + (h * int_acc)", "cav_dp = (h * int_acc)"),
 ('B19 cav_dp: start = end -> end + 1', 'im.py', "        start = end\n", "        start = end + 1\n"),
 ('B20 cav_dp: x_lower <= t -> <  (first mask only)', 'im.py', "x_int = interval_time[np.where((x_lower <= interval_time)", "x_int = interval_time[np.where((x_lower < interval_time)"),
 ('B21 cav_dp: h = 1 -> h = 2', 'im.py', "            h = 1\n", "            h = 2\n"),
 ('B22 cav_dp: g literal 9.81 -> 9.80', 'im.py', "acc_in_g = asig.values / 9.81", "acc_in_g = asig.values / 9.80"),
 ('B23 cav_dp: / g -> * g', 'im.py', "acc_in_g = asig.values / 9.81", "acc_in_g = asig.values * 9.81"),
 ('B24 cav_dp: interp table abscissae shifted', 'im.py', "t1s = np.arange(total_seconds)", "t1s = np.arange(total_seconds + 1)"),
 ('B25 cav_dp: window end = start + pps -> start + pps + 1', 'im.py', "end = start + points_per_sec", "end = start + points_per_sec + 1"),
 ('B26 cav_dp: interval_total_time + 1 -> + 2', 'im.py', "interval_total_time = (start * asig.dt) + 1", "interval_total_time = (start * asig.dt) + 2"),
 ('B27 n_cyc: 0.5 -> 0.25', 'im.py', "perc = 0.5 / (n_ref", "perc = 0.25 / (n_ref"),
 ('B28 n_cyc: cut-off test < -> <=', 'im.py', "np.where(csr_peaks < cut_off * np.max(abs(values))", "np.where(csr_peaks <= cut_off * np.max(abs(values))"),
 ('B29 n_cyc: a_ref / peaks -> peaks / a_ref', 'im.py', "(a_ref / csr_peaks)[:, np.newaxis]", "(csr_peaks / a_ref)[:, np.newaxis]"),
 ('B30 n_cyc: first inserted knot value 0 -> 1', 'im.py', "n_eq = np.insert(n_eq, 0, 0, axis=0)", "n_eq = np.insert(n_eq, 0, 1, axis=0)"),
 ('B31 n_cyc: last knot abscissa len(values) -> len(peak_indices)', 'im.py', "np.insert(peak_indices, len(n_eq)-1, len(values), axis=0)", "np.insert(peak_indices, len(n_eq)-1, len(peak_indices), axis=0)"),
 ('B32 n_cyc: tiny 1.0e-14 -> 1.0e-4', 'im.py', "1.0e-14, csr_peaks)", "1.0e-4, csr_peaks)"),
 ('B33 cyc_amp: / n_cyc -> * n_cyc', 'im.py', "** (1. / b)) / 2 / n_cyc, axis=0) ** b", "** (1. / b)) / 2 * n_cyc, axis=0) ** b"),
 ('B34 cyc_amp: exponent 1./b -> 2./b', 'im.py', "[:, np.newaxis] ** (1. / b)) / 2 / n_cyc", "[:, np.newaxis] ** (2. / b)) / 2 / n_cyc"),
 ('B35 cyc_amp: outer ** b dropped', 'im.py', "/ 2 / n_cyc, axis=0) ** b", "/ 2 / n_cyc, axis=0)"),
 ('B36 combined: + -> -', 'im.py', "** (1. / b) + np.abs(csr_peaks_s1)", "** (1. / b) - np.abs(csr_peaks_s1)"),
 ('B37 gm: second series uses values0', 'im.py', "csr_n_series1 = calc_cyc_amp_array_w_power_law(values1,", "csr_n_series1 = calc_cyc_amp_array_w_power_law(values0,"),
 ('B38 unit_kinetic_energy: 0.5 -> 0.25', 'im.py', "kin_energy = 0.5 * acc_signal.velocity", "kin_energy = 0.25 * acc_signal.velocity"),
 ('B39 unit_kinetic_energy: insert kin[0] -> 0', 'im.py', "np.insert(delta_energy, 0, kin_energy[0])", "np.insert(delta_energy, 0, 0)"),
 ('B40 cumulative_abs_displacement -> abs acceleration', 'im.py', "return calc_integral_of_abs_velocity(asig)", "return calc_integral_of_abs_acceleration(asig)"),
]
HARM = [
 ('H01 rename temporary cum_acc2 -> csum', 'im.py', "cum_acc2", "csum"),
 ('H02 introduce temporary tot = cum_acc2[-1]', 'im.py', "    ind2 = np.where((cum_acc2 > start * cum_acc2[-1]) & (cum_acc2 < end * cum_acc2[-1]))", "    tot = cum_acc2[-1]\n    ind2 = np.where((cum_acc2 > start * tot) & (cum_acc2 < end * tot))"),
 ('H03 remove temporary abs_motion in calc_brac_dur', 'im.py', "    time = np.arange(asig.npts) * asig.dt\n    # Bracketed duration\n    ind01 = np.where(abs_motion > threshold)", "    time = np.arange(asig.npts) * asig.dt\n    # Bracketed duration\n    ind01 = np.where(abs(asig.values) > threshold)"),
 ('H04 reorder independent statements in calc_brac_dur', 'im.py', "    abs_motion = abs(asig.values)\n\n    time = np.arange(asig.npts) * asig.dt\n", "    time = np.arange(asig.npts) * asig.dt\n    abs_motion = abs(asig.values)\n\n"),
 ('H05 respell 1. -> 1.0 (cyc_amp), 1.0e-14 -> 1e-14, 0.5 -> .5 (n_cyc)', 'im.py', [("[:, np.newaxis] ** (1. / b)) / 2 / n_cyc", "[:, np.newaxis] ** (1.0 / b)) / 2 / n_cyc"), ("1.0e-14, csr_peaks)", "1e-14, csr_peaks)"), ("perc = 0.5 / (n_ref", "perc = .5 / (n_ref")]),
 ('H06 commute start * cum_acc2[-1]', 'im.py', "(cum_acc2 > start * cum_acc2[-1])", "(cum_acc2 > cum_acc2[-1] * start)"),
 ('H07 cav_dp: rename h -> gatev, int_acc -> ia', 'im.py', [("            h = 0\n", "            gatev = 0\n"), ("            h = 1\n", "            gatev = 1\n"), ("cav_dp = cav_dp + (h * int_acc)", "cav_dp = cav_dp + (gatev * ia)"), ("int_acc = trapezoid(y_int, x_int)", "ia = trapezoid(y_int, x_int)")]),
 ('H08 cav_dp: drop redundant parentheses', 'im.py', "cav_dp = cav_dp + (h * int_acc)", "cav_dp = cav_dp + h * int_acc"),
 ('H09 cav_dp: gather loop as a list comprehension', 'im.py', "        acc_interval = []\n        for j in range(start, end + 1):\n            acc_interval.append(acc_in_g[j])\n", "        acc_interval = [acc_in_g[j] for j in range(start, end + 1)]\n"),
 ('H10 n_cyc: introduce temporary expo = 1 / b', 'im.py', "    perc = 0.5 / (n_ref * (a_ref / csr_peaks)[:, np.newaxis] ** (1 / b))", "    expo = 1 / b\n    perc = 0.5 / (n_ref * (a_ref / csr_peaks)[:, np.newaxis] ** expo)"),
 ('H11 cav_dp: range(0, n) -> range(n)', 'im.py', "for i in range(0, total_seconds):", "for i in range(total_seconds):"),
 ('H12 cav_dp: commute h * int_acc', 'im.py', "cav_dp = cav_dp + (h * int_acc)", "cav_dp = cav_dp + (int_acc * h)"),
 ('H13 cav_dp: reorder x_lower / x_upper, remove temporary interval_total_time', 'im.py', [("        x_lower = start * asig.dt  # the lower limit of x\n        x_upper = end * asig.dt  # the upper limit of x\n", "        x_upper = end * asig.dt\n        x_lower = start * asig.dt\n"), ("        interval_total_time = (start * asig.dt) + 1\n        interval_time = np.arange(start * asig.dt, interval_total_time, asig.dt)", "        interval_time = np.arange(start * asig.dt, (start * asig.dt) + 1, asig.dt)")]),
 ('H14 combined: rename + remove temporary csr_peaks_a0', 'im.py', [("    csr_peaks_a0 = np.abs(np.take(values0, peak_inds_a0))\n", ""), ("np.put(csr_peaks_s0, peak_inds_a0, csr_peaks_a0)", "np.put(csr_peaks_s0, peak_inds_a0, np.abs(np.take(values0, peak_inds_a0)))")]),
 ('H15 brac_dur: a > b written as b < a', 'im.py', "    time = np.arange(asig.npts) * asig.dt\n    # Bracketed duration\n    ind01 = np.where(abs_motion > threshold)", "    time = np.arange(asig.npts) * asig.dt\n    # Bracketed duration\n    ind01 = np.where(threshold < abs_motion)"),
 ('H16 n_cyc: commute cut_off * max', 'im.py', "csr_peaks < cut_off * np.max(abs(values))", "csr_peaks < np.max(abs(values)) * cut_off"),
]

def sh(cmd, **kw):
    return subprocess.run(cmd, shell=True, capture_output=True, text=True, **kw)

def run_one(label, fname, old, new=None):
    shutil.rmtree(ROOT + '/src', ignore_errors=True)
    shutil.copytree(SRC0, SRC)
    p = os.path.join(SRC, fname)
    s = open(p).read()
    pairs = old if isinstance(old, list) else [(old, new)]
    for o, n in pairs:
        cnt = s.count(o)
        if label.startswith('H01'):
            s = s.replace(o, n)
        else:
            if cnt != 1:
                return dict(label=label, outcome=f'EDIT-NOT-APPLIED ({cnt} matches of {o[:30]!r})')
            s = s.replace(o, n)
    open(p, 'w').write(s)
    r = sh(f"python3 {ROOT}/tools/py2lean.py --repo {ROOT}/src --out {GEN}")
    try:
        rep = json.loads(r.stdout.strip().splitlines()[-1])
    except Exception:
        return dict(label=label, outcome='TRANSLATOR CRASH: ' + (r.stderr.strip().splitlines() or ['?'])[-1])
    unt = [u for u in rep['untranslatable']]
    changed = []
    for f in MINE + ['Consts.lean', 'ImSimple.lean']:
        a = open(f"{GEN}/{f}").read()
        b = open(f"{ROOT}/lean/EqsigVerif/GenGolden/{f}").read().replace('GenGolden', 'Gen')
        if a != b:
            changed.append(f)
    if unt:
        return dict(label=label, outcome='Untranslatable', detail=[f"{u['target']}: {u['function']}:{u['line']}: {u['construct'][:90]}" for u in unt], changed=changed)
    b = sh("lake build " + " ".join(MODS), cwd=ROOT + '/lean')
    ok = b.returncode == 0
    failed = sorted(set(re.findall(r"^- (EqsigVerif\.\S+)", b.stdout, re.M)))
    return dict(label=label, outcome=('bridges STILL PROVE' if ok else 'bridge build FAILS'), changed=changed, failed=failed)

which = sys.argv[1] if len(sys.argv) > 1 else 'all'
out = []
for grp, lst in (('break', BREAK), ('harmless', HARM)):
    if which not in ('all', grp):
        continue
    for item in lst:
        res = run_one(*item)
        res['group'] = grp
        out.append(res)
        print(json.dumps(res), flush=True)
# restore
sh(f"python3 {ROOT}/tools/py2lean.py --repo {ROOT}/src0 --out {GEN}")
json.dump(out, open(ROOT + f'/exp/results_{which}.json', 'w'), indent=1)
