

# ---- extras3 (hx_r7d, round 7): ONE record object serving a sequence of surface calls ----------------------------------------------------------
# The surface functions take a signal OBJECT.  Whatever an earlier call (of any of the three functions, with other, nearly equal, permuted, fewer or
# more travel times, other options) or an earlier history of the object (gen.aged_signal, incl. generators called with non-default options) left
# on the object, the next call must return what it returns for a brand-new AccSignal of the same record and time step -- bit for bit.

def _x3_same_object(ctx, cur):
    import eqsig
    from eqsig import surface as sf
    from _hxb_common import same
    rng = ctx.rng
    fns = [('calc_surface_energy', sf.calc_surface_energy), ('calc_cum_abs_surface_energy', sf.calc_cum_abs_surface_energy), ('get_time_shift_motions', sf.get_time_shift_motions)]
    for it in range(30 if ctx.tier == 'quick' else 300):
        n = gen.log_int(rng, 8, 200)
        dt = rng.choice([0.01, 0.02, 0.005, 0.125])
        a = gen.any_record(rng, n, dt)[1]
        m = rng.randint(1, 3)
        tts = np.array([rng.choice([rng.uniform(0, 3 * dt), rng.uniform(0, 1e-3 * dt), rng.randint(0, 6) * dt / 2 + rng.uniform(0, 1e-4 * dt)]) for _ in range(m)])
        kw = {'nodal': rng.random() < 0.6, 'up_red': rng.choice([1.0, 0.8]), 'down_red': rng.choice([1.0, 0.9]), 'stt': rng.choice([0.0, 0.0, 2 * dt]),
              'trim': rng.random() < 0.5, 'start': rng.random() < 0.3}
        asig = ctx.aged(eqsig.AccSignal, a, dt)
        hist_kind = ctx.last_object_history
        log = []
        for step in range(rng.randint(3, 6)):
            op = rng.choice(['nearly equal travel times', 'nearly equal travel times', 'same travel times', 'rows permuted', 'one travel time changed', 'one more travel time',
                             'one fewer', 'options changed', 'record replaced']) if step else 'first call'
            if op == 'nearly equal travel times':
                # a refinement / bisection step: same count, same whole-sample maximum delay (usually), delays that agree to many digits but are not equal
                tts = tts * (1 + rng.choice([1e-7, 3e-7, -2e-7, 1e-6, 1e-5, 1e-9])) + rng.choice([0.0, 1e-8 * dt, 2e-7 * dt])
            elif op == 'rows permuted' and len(tts) > 1:
                tts = tts[::-1].copy()
            elif op == 'one travel time changed':
                tts = tts.copy()
                tts[rng.randrange(len(tts))] = rng.uniform(0, 3 * dt)
            elif op == 'one more travel time':
                tts = np.append(tts, rng.uniform(0, 3 * dt))
            elif op == 'one fewer' and len(tts) > 1:
                tts = tts[:-1].copy()
            elif op == 'options changed':
                kw = {**kw, 'nodal': not kw['nodal']} if rng.random() < 0.5 else {**kw, 'trim': not kw['trim'], 'down_red': rng.choice([1.0, 0.9, 0.5])}
            elif op == 'record replaced':
                a = gen.any_record(rng, n if rng.random() < 0.7 else n + rng.randint(1, 5), dt)[1]
                asig.reset_values(a)
            nm, f = rng.choice(fns)
            log.append({'step': op, 'function': nm, 'travel_times': tts.tolist(), **kw})
            inputs = {'values': a, 'dt': dt, 'calls on the same object so far': log[-4:]}
            cur.clear()
            cur.update(inputs)
            ctx.hist('extras3/same object/' + op)
            ctx.count_case(('x3so', a.tobytes(), dt, tts.tobytes(), repr(kw), nm, step), gen.nontrivial_record(a))
            keep = tts.copy()
            got = call_impl(f, asig, tts, **kw)
            want = call_impl(f, eqsig.AccSignal(np.array(a, copy=True), dt), keep.copy(), **kw)
            ok = got[0] == want[0] and (got[1] == want[1] if got[0] != 'ok' else same(got[1], want[1])) and np.array_equal(tts, keep) and np.array_equal(asig.values, a)
            ctx.last_object_history = hist_kind
            ctx.oracle('C19 %s on a record object that served earlier surface calls (other / nearly equal / permuted travel times, other options) == on a brand-new '
                       'object of the same record (==); travel times and record unchanged' % nm, ok, inputs,
                       detail=None if ok else {'same object': got[1] if got[0] != 'ok' else np.asarray(got[1]).reshape(-1)[:6], 'fresh object': want[1] if want[0] != 'ok' else np.asarray(want[1]).reshape(-1)[:6]})
        ctx.last_object_history = None


def extras3(ctx):
    from _hxb_common import guarded_sections
    guarded_sections(ctx, 'C19', [('same object', _x3_same_object)])


_run_main3 = run


def run(ctx):
    _run_main3(ctx)
    extras3(ctx)
    ctx.flush()
