

# ---- extras3 (hx_r7d, round 7): nodes and queries held in DIFFERENT precisions / number types; consecutive step fits of rearranged series -------
# The property quantifies over "all monotone node sets and query points (inside, on nodes, outside)".  A float32 / float16 / integer node IS an
# exact rational, and so is a float64 / float32 / integer query: the specification is evaluated on the exact values of the arrays AS GIVEN.  The
# telling queries sit just below / exactly on / just above a node -- one step of the QUERY's precision away, or within half a step of the NODE's
# (coarser) precision, where converting the query to the node type (or the node to the query type) moves it across the node.

_X3_NODE_DTYPES = ('float32', 'float32', 'float16', 'int64', 'int32', 'int16', 'uint8', 'float64')


def _x3_nodes(rng, dtype, n, strict):
    """sorted node array of the given dtype (label, array); strict: strictly increasing (interp2d), otherwise ties may occur"""
    dt = np.dtype(dtype)
    if dt.kind in 'iu':
        lo = 0 if dt.kind == 'u' else -40
        vals = sorted(rng.sample(range(lo, 120), n)) if strict or rng.random() < 0.6 else sorted(rng.randint(lo, 30) for _ in range(n))
        return 'whole numbers', np.array(vals, dtype=dt)
    style = rng.choice(['decimal grid', 'decimal grid', 'random', 'dyadic'])
    if style == 'decimal grid':
        step = rng.choice([0.1, 0.01, 0.05, 0.3, 0.002] if dtype != 'float16' else [0.1, 0.3, 0.05])
        k0 = rng.randint(-5, 30)
        raw = [step * (k0 + k) for k in range(n)]                         # 0.1*k: almost never representable in single / half precision
    elif style == 'random':
        raw = sorted(rng.uniform(-5, 5) for _ in range(n))
    else:
        raw = sorted(rng.sample(range(-64, 200), n))
        raw = [v / 8 for v in raw]
    a = np.array(raw, dtype=float).astype(dt)
    if strict:
        a = np.unique(a)
    return style, np.sort(a)


def _x3_query_values(rng, nodes, qdtype, how_many, allow_below_first, near_first_ok):
    """exact query values (Python floats, each representable in qdtype) clustered around the nodes"""
    qt = np.dtype(qdtype)
    exact_nodes = [float(v) for v in nodes]
    node_step = (lambda v: 1.0) if nodes.dtype.kind in 'iu' else (lambda v: abs(float(np.spacing(nodes.dtype.type(v)))))
    out = []
    for _ in range(how_many):
        v = rng.choice(exact_nodes)
        c = rng.random()
        if qt.kind in 'iu':
            q = float(int(round(v)) + rng.choice([0, 0, -1, 1, 2]))
        else:
            vq = qt.type(v)                                                  # the node rounded to the query's precision (== v when that is finer)
            if c < 0.2:
                q = float(vq)
            elif c < 0.4:
                q = float(np.nextafter(vq, qt.type(-np.inf)))                # one step of the query's precision below ...
            elif c < 0.55:
                q = float(np.nextafter(vq, qt.type(np.inf)))                 # ... and above
            elif c < 0.75:
                q = float(qt.type(v + rng.choice([-0.49, -0.25, -0.5, 0.25, 0.49, -0.01]) * node_step(v)))   # within half a step of the NODE's precision
            elif c < 0.85:
                q = float(qt.type(round(v, rng.choice([1, 2, 3]))))          # the decimal the node was meant to be
            elif c < 0.95:
                w = rng.choice(exact_nodes)
                q = float(qt.type((v + w) / 2))
            else:
                q = float(qt.type(exact_nodes[-1] + rng.choice([0.0, 0.5, 1000.0])))
        if q < exact_nodes[0]:
            if not allow_below_first and qt.kind in 'iu':
                q = float(math.ceil(exact_nodes[0]))
            elif not allow_below_first:
                q = exact_nodes[0] if float(qt.type(exact_nodes[0])) == exact_nodes[0] else float(np.nextafter(qt.type(exact_nodes[0]), qt.type(np.inf)))
                if q < exact_nodes[0]:
                    continue
            elif not near_first_ok and q > exact_nodes[0] - 4 * node_step(exact_nodes[0]):
                q = float(qt.type(math.floor(exact_nodes[0]) - 1.0))         # clearly below (see NOTES: weakly typed queries next to a narrow first node)
        out.append(q)
    return out


def _x3_interp_left(ctx, cur):
    from eqsig.fns.generic import interp_left
    rng = ctx.rng
    for it in range(260 if ctx.tier == 'quick' else 4000):
        ndt = _X3_NODE_DTYPES[it % len(_X3_NODE_DTYPES)]
        n = rng.choice([1, 2, 3, 5, 8, 20, 40])
        if ndt in ('int16', 'uint8', 'int32', 'int64'):
            n = min(n, 40)
        style, xa = _x3_nodes(rng, ndt, n, strict=False)
        n = len(xa)
        # query precision: the other side of the pair
        if xa.dtype.kind in 'iu':
            qdt = rng.choice(['float64', 'float64', 'float32', 'int64'])
        elif ndt == 'float64':
            qdt = rng.choice(['float32', 'float32', 'float16', 'int64'])
        else:
            qdt = rng.choice(['float64', 'float64', 'float64', 'float32' if ndt == 'float16' else 'float16'])
        form = rng.choice(['array', 'array', 'array', 'numpy scalar', 'list of Python numbers', 'Python scalar'])
        if qdt != 'float64' and form in ('list of Python numbers', 'Python scalar') and qdt != 'int64':
            form = 'array'                                                   # a Python float IS a double
        weak = form in ('list of Python numbers', 'Python scalar')
        narrow_first = xa.dtype.kind == 'f' and xa.dtype.itemsize < 8
        qs = _x3_query_values(rng, xa, qdt, 1 if 'scalar' in form else rng.randint(1, 7), allow_below_first=rng.random() < 0.15,
                              near_first_ok=not (weak and narrow_first))
        if not qs:
            continue
        scalar = 'scalar' in form
        if form == 'array':
            q = np.array(qs, dtype=qdt)
        elif form == 'numpy scalar':
            q = np.dtype(qdt).type(qs[0])
        elif form == 'Python scalar':
            q = int(qs[0]) if qdt == 'int64' else float(qs[0])
        else:
            q = [int(v) for v in qs] if qdt == 'int64' else [float(v) for v in qs]
        ymode = rng.choice(['None', 'float64', 'float32', 'int'])
        if ymode == 'None':
            ya, yy = None, list(range(n))
        elif ymode == 'int':
            yy = [rng.randint(-50, 50) for _ in range(n)]
            ya = np.array(yy, dtype=np.int64)
        else:
            yy = [rng.randint(-4000, 4000) / 8 for _ in range(n)]           # exact in every float type used
            ya = np.array(yy, dtype=ymode)
        xs = [float(v) for v in xa]
        label = f'{ndt} nodes x {qdt} queries'
        inputs = {'x0': qs, 'x0_held_as': f'{form} ({qdt})', 'x': xs, 'x_dtype': ndt, 'y': None if ya is None else yy, 'y_dtype': ymode, 'nodes': style}
        cur.clear()
        cur.update(inputs)
        ctx.hist('extras3/interp_left/' + label)
        ctx.hist('extras3/interp_left/queries held as ' + form)
        ctx.count_case(('x3il', tuple(qs), tuple(xs), ndt, qdt, form, ymode), n >= 3 and len(set(xs)) > 1)
        snap = xa.copy()
        res = call_impl(interp_left, q, xa, ya)
        ctx.corr('interp_left', (f"interp_left_scalar|{w_rat(qs[0])}" if scalar else f"interp_left|{w_rats(qs)}") + f"|{w_rats(xs)}|{w_bool(ya is not None)}|{w_rats([float(v) for v in yy] if ya is not None else [])}",
                 res, lambda outs, val, scalar=scalar: cmp_exact([float(val)] if scalar else [float(v) for v in np.asarray(val).tolist()], p_rats(outs[0])), inputs=inputs)
        below = min(qs) < xs[0]
        ctx.oracle('C20.b interp_left raises AssertionError iff a query lies below the first node', (res == ('err', 'AssertionError')) == below, inputs,
                   detail=res if res[0] == 'err' else None)
        if below:
            continue
        if res[0] != 'ok':
            ctx.oracle('C20.b interp_left returns a value for every query at or above the first node', False, inputs, detail=res)
            continue
        got = [res[1]] if scalar else list(np.asarray(res[1]).tolist())
        ctx.oracle('C20.b interp_left returns one value per query (a scalar for a scalar query)', len(got) == len(qs) and (not scalar or np.ndim(res[1]) == 0), inputs)
        ctx.oracle('C20.b interp_left leaves the node array unchanged (values and dtype)', xa.dtype == snap.dtype and np.array_equal(xa, snap), inputs)
        fx = [fr(v) for v in xs]
        for qv, g in zip(qs, got):
            j = max(i for i in range(n) if fx[i] <= fr(qv))
            ctx.oracle('C20.b left-interpolation returns the value at the greatest node not exceeding the query', fr(float(g)) == fr(float(yy[j])),
                       {**inputs, 'query': qv}, detail={'got': float(g), 'want': yy[j], 'node_index': j, 'node': xs[j], 'next_node': xs[j + 1] if j + 1 < n else None})


def _x3_interp2d(ctx, cur):
    from eqsig.fns.generic import interp2d
    rng = ctx.rng
    for it in range(120 if ctx.tier == 'quick' else 2000):
        ndt = ('float32', 'float16', 'int64', 'int32', 'float64', 'float32', 'int16')[it % 7]
        # node gaps exactly representable in the node type (whole numbers / eighths): the arithmetic the code does in that type is then exact, and the
        # 1e-9 budget of the float64 pipeline applies; decimal float64 nodes for the float32-query direction
        if ndt == 'float64':
            n = rng.choice([2, 3, 5, 9])
            k0 = rng.randint(-5, 20)
            step = rng.choice([0.1, 0.3, 0.01])
            axf = np.array([step * (k0 + k) for k in range(n)])
            qdt = rng.choice(['float32', 'float32', 'int64'])
        elif np.dtype(ndt).kind == 'i':
            axf = np.array(sorted(rng.sample(range(-30, 60), rng.choice([1, 2, 3, 5, 9]))), dtype=ndt)
            qdt = rng.choice(['float64', 'float64', 'float32', 'int64'])
        else:
            axf = np.array(sorted(rng.sample(range(-64, 200), rng.choice([1, 2, 3, 5, 9]))), dtype=float) / 8
            axf = axf.astype(ndt)
            qdt = 'float64'
        n = len(axf)
        w = rng.choice([1, 2, 3])
        fdt = rng.choice(['float64', 'float64', 'float32', 'int64'])
        f = [[(rng.randint(-64, 64) if fdt == 'int64' else rng.randint(-512, 512) / 8) for _ in range(w)] for _ in range(n)]
        af = np.array(f, dtype=fdt).reshape(n, w)
        xs = [float(v) for v in axf]
        qs = []
        for _ in range(rng.randint(1, 8)):
            c = rng.random()
            if c < 0.45:
                qs += _x3_query_values(rng, axf, qdt, 1, allow_below_first=True, near_first_ok=True)
            elif c < 0.8:
                q = rng.uniform(xs[0] - 0.5, xs[-1] + 0.5)
                q = round(q, rng.choice([1, 2, 3])) if rng.random() < 0.6 else q       # a decimal: not representable in single / half precision
                qs.append(float(np.dtype(qdt).type(q)) if qdt != 'int64' else float(round(q)))
            else:
                qs.append(float(rng.choice(xs)) if qdt != 'int64' else float(round(rng.choice(xs))))
        ax = np.array(qs, dtype=qdt)
        qs = [float(v) for v in ax]
        inputs = {'x': qs, 'x_dtype': qdt, 'xf': xs, 'xf_dtype': ndt, 'f': [list(r) for r in f], 'f_dtype': fdt}
        cur.clear()
        cur.update(inputs)
        ctx.hist(f'extras3/interp2d/{ndt} nodes x {qdt} queries')
        ctx.count_case(('x3i2', tuple(qs), tuple(xs), ndt, qdt, fdt, repr(f)), n >= 3)
        snap = (ax.copy(), axf.copy(), af.copy())
        res = call_impl(interp2d, ax, axf, af)
        ff = [[fr(float(v)) for v in r] for r in af.tolist()]
        scale = max([abs(v) for r in ff for v in r] + [Fraction(1, 10**300)])
        # NumPy evaluates float32 queries against float32 / float16 / int16 / uint8 nodes in SINGLE precision (its promotion rule for the
        # arguments as given): the rounding budget is then that of a single-precision pipeline (1e-6), on-node / clamped rows stay exact
        bud = Fraction(1, 10**6) if np.result_type(ax.dtype, axf.dtype) == np.float32 else R9
        ctx.hist('extras3/interp2d/arithmetic in ' + ('single' if bud != R9 else 'double') + ' precision')

        def compare(outs, val, nq=len(qs), w=w, scale=scale, bud=bud):
            val = np.asarray(val)
            if val.shape != (nq, w):
                return f"shape {val.shape}"
            msg, g = cmp_budget(flat(val), [v for row in outs for v in p_rats(row)], bud, scale=scale)
            if bud == R9:
                ctx.gap('interp2d', g)
            return msg
        ctx.corr('interp2d', f"interp2d|{w_rats(qs)}|{w_rats(xs)}|{n}|{w}|{w_rats([float(v) for r in af.tolist() for v in r])}", res, compare, inputs=inputs)
        if res[0] != 'ok':
            ctx.oracle('C20.a interp2d returns a table for strictly increasing nodes', False, inputs, detail=res)
            continue
        out = np.asarray(res[1])
        ctx.oracle('C20.a interp2d output has one row per query and one column per table column', out.shape == (len(qs), w), inputs, detail={'shape': out.shape})
        ctx.oracle('C20.a interp2d leaves its inputs unchanged', all(a.dtype == b.dtype and np.array_equal(a, b) for a, b in zip((ax, axf, af), snap)), inputs)
        if out.shape != (len(qs), w):
            continue
        fx = [fr(v) for v in xs]
        for k, qv in enumerate(qs):
            fq = fr(qv)
            want = spec_interp_row(fq, fx, ff)
            got = [fr(float(v)) for v in out[k].tolist()]
            on_node = fq in fx
            outside = fq <= fx[0] or fq >= fx[-1]
            ok = (got == want) if (on_node or outside) else all(abs(a - b) <= bud * scale for a, b in zip(got, want))
            where = 'on a node' if on_node else ('outside the node range' if outside else 'between nodes')
            ctx.oracle(f'C20.a table interpolation == column-wise linear interpolation with end clamping ({where})', ok, {**inputs, 'query': qv},
                       detail={'got': out[k].tolist(), 'want': [float(v) for v in want]})


def _x3_step_sequences(ctx, cur):
    """consecutive step fits of DIFFERENT series that agree in everything cheap to look at (length, dtype, first and last sample, sum, multiset of
    values): interior samples permuted / two samples exchanged / a +d -d pair moved -- each fit must be that of its own series (existing do_step
    correspondence and C20.d / C20.e oracles; float arrays and float lists)"""
    rng = ctx.rng
    for it in range(40 if ctx.tier == 'quick' else 600):
        n = rng.choice([4, 5, 6, 8, 12, 20])
        kind = rng.choice(['counts', 'plateau', 'twolevel', 'dyadic'])
        if kind == 'counts':
            v = [float(rng.randint(0, 6)) for _ in range(n)]
        elif kind == 'plateau':
            v = gen.plateau_record(rng, n).tolist()
        elif kind == 'dyadic':
            v = gen.dyadic_record(rng, n).tolist()
        else:
            k = rng.randrange(1, n)
            v = [rng.choice([0.0, 0.25, -0.25]) + (3.0 if i >= k else -1.0) for i in range(n)]
        chain = [v]
        for _ in range(rng.choice([1, 2, 3])):
            u = list(chain[-1])
            op = rng.choice(['permute interior', 'exchange two', 'move a pair'])
            if op == 'permute interior':
                mid = u[1:-1]
                rng.shuffle(mid)
                u = [u[0]] + mid + [u[-1]]
            elif op == 'exchange two':
                i, j = rng.sample(range(1, n - 1), 2) if n >= 4 else (1, 1)
                u[i], u[j] = u[j], u[i]
            else:
                i, j = rng.sample(range(1, n - 1), 2) if n >= 4 else (1, 1)
                d = rng.choice([0.5, 1.0, 2.0])
                u[i], u[j] = u[i] + d, u[j] - d                       # same ends and (exactly) the same sum, another multiset
            chain.append(u)
        cont = rng.choice(['float_array', 'float_array', 'float_list'])
        cur.clear()
        cur.update({'series fitted one after the other': chain, 'container': cont})
        pows = rng.choice([(1,), (2,), (1, 2)])
        for u in chain:
            do_step(ctx, u, 'consecutive rearranged series/' + kind, cont, pows=pows, dirs=(None,), inds=())
    ctx.flush()


def extras3(ctx):
    from _hxb_common import guarded_sections
    guarded_sections(ctx, 'C20', [('mixed-precision interp_left', _x3_interp_left), ('mixed-precision interp2d', _x3_interp2d), ('step sequences', _x3_step_sequences)])
    ctx.flush()


_run_main3 = run


def run(ctx):
    _run_main3(ctx)
    extras3(ctx)
    ctx.flush()
