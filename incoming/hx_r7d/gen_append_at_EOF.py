

def _aged_nondefault(rng, cls, values, dt, **kw):
    """history kind 'nondefault-generators-then-reset' (round 7): the object is built on OTHER values, one or more of the public generator
    methods are called with a NON-DEFAULT option (rectangular-rule velocity/displacement `trap=False`, Fourier spectrum with extra padding
    `p2_plus` / explicit `n`, smoothing `band`, response spectrum with another damping `xi` / `min_dt_ratio`), the generated quantity is read or
    not, and then the record is replaced through reset_values(values) WITHOUT reading anything afterwards -- so whatever the generator left
    behind besides the (cleared) caches is still there when the object reaches the function under test.  Only options are used that the
    pinned library documents as per-call (no response_times / smoothing-frequency arguments: those are settings that persist by design)."""
    import warnings
    n = len(values)
    m = n if rng.random() < 0.6 else max(2, n + rng.randint(-min(3, n // 2), 5))
    other = np.array([rng.uniform(-1, 1) for _ in range(m)])
    s = cls(other, dt, **kw)
    gens = [('gen_fa_spectrum', lambda: dict(p2_plus=rng.choice([1, 2]))), ('gen_fa_spectrum', lambda: dict(n=m + rng.randint(0, 7))),
            ('gen_smooth_fa_spectrum', lambda: dict(band=rng.choice([10, 20, 80]))), ('generate_smooth_fa_spectrum', lambda: dict(band=rng.choice([10, 20, 80])))]
    if cls.__name__ == 'AccSignal':
        gens += [('generate_displacement_and_velocity_series', lambda: dict(trap=False))] * 4
        if m <= 2000:
            gens += [('gen_response_spectrum', lambda: dict(xi=rng.choice([0.0, 0.02, 0.2]))), ('generate_response_spectrum', lambda: dict(xi=0.1, min_dt_ratio=rng.choice([2, 8])))]
    reads = {'gen_fa_spectrum': ('fa_spectrum', 'fa_frequencies'), 'gen_smooth_fa_spectrum': ('smooth_fa_spectrum',), 'generate_smooth_fa_spectrum': ('smooth_fa_spectrum',),
             'generate_displacement_and_velocity_series': ('velocity', 'displacement', 'pgv', 'pgd'), 'gen_response_spectrum': ('s_a', 's_d'),
             'generate_response_spectrum': ('s_v',)}
    if rng.random() < 0.3:
        _touch(s)                                   # default-option caches first: the non-default call has to replace them
    for name, opts in [rng.choice(gens) for _ in range(rng.choice([1, 1, 2, 3]))]:
        with warnings.catch_warnings():
            warnings.simplefilter('ignore')
            try:
                getattr(s, name)(**opts())
            except Exception:
                continue
            if rng.random() < 0.5:
                for r in reads[name]:
                    try:
                        getattr(s, r)
                    except Exception:
                        pass
    s.reset_values(values)                          # and nothing is read afterwards
    return s
