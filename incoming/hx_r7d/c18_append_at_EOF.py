

# ---- extras3 (hx_r7d, round 7): measures that keep STATE on the object they are given; lag matching on exactly linear records --------------------
# compute_rotated hands `func` (or getattr) one signal per angle.  The property promises "exactly the measure of that combination" for ALL callables,
# including those written like the library's own eqsig.stockwell helpers (store a transform on the signal and reuse it if present), those that
# memoise in an attribute / in a dictionary keyed on the object, and those that change the object they were given.  Any implementation that hands
# the same object (or an object with left-over lazily computed state) to two angles, or to two scans, answers such a measure with a stale value.

def _x3_measures(n, dt):
    """[(label, make() -> callable with its own private state, pure(sig) -> the same measure without any state)]"""
    from eqsig import stockwell

    def energy(sg):
        return float(np.sum(np.asarray(sg.values, dtype=float) ** 2))

    def mk_attr():
        def f(sg):
            if not hasattr(sg, '_x3_energy'):
                sg._x3_energy = energy(sg)
            return sg._x3_energy
        return f

    def mk_dict_attr():
        def f(sg):
            return sg.__dict__.setdefault('x3_cache', {}).setdefault('abs-sum', np.cumsum(np.abs(sg.values)))   # array-valued: last element taken
        return f

    def mk_keyed_on_object():
        seen = {}                                   # keyed on the object itself (keeps it alive, so ids are never reused)

        def f(sg):
            if sg not in seen:
                seen[sg] = float(np.max(sg.values) - np.min(sg.values))
            return seen[sg]
        return f

    def mk_counting():
        calls = {}

        def f(sg):
            k = calls[id(sg)][1] + 1 if id(sg) in calls else 1
            calls[id(sg)] = (sg, k)                 # the object is kept alive together with its count
            return float(sg.values[0]) if k == 1 else float('nan')   # only the FIRST look at an object is answered
        return f

    def mk_mutating():
        def f(sg):
            sg.add_constant(1.0)                    # works on the object it was given (a copy of the combination as far as the caller can tell)
            return sg.pga
        return f

    def mk_reading_then_memo():
        def f(sg):
            if getattr(sg, 'x3_pgv', None) is None:
                sg.x3_pgv = (sg.pgv, sg.pgd, float(sg.displacement[-1]))
            return np.array(sg.x3_pgv)              # array-valued -> pgd drift (last element)
        return f

    out = [('callable memoising in an attribute of the signal', mk_attr, energy),
           ('callable memoising in a dict stored on the signal (array-valued)', mk_dict_attr, lambda sg: np.cumsum(np.abs(sg.values))),
           ('callable memoising in a dict keyed on the signal object', mk_keyed_on_object, lambda sg: float(np.max(sg.values) - np.min(sg.values))),
           ('callable answering only the first look at each object', mk_counting, lambda sg: float(sg.values[0])),
           ('callable that shifts the signal it is given', mk_mutating, lambda sg: float(np.max(np.abs(np.asarray(sg.values) + 1.0)))),
           ('callable memoising peak velocity / displacement on the signal', mk_reading_then_memo, lambda sg: float(sg.displacement[-1]))]
    if 4 <= n <= 96:
        # the library's own time-frequency helper keeps its transform on the signal (asig.swtf)
        out.append(('eqsig.stockwell.get_max_stockwell_freq (max over time)', lambda: (lambda sg: float(np.max(stockwell.get_max_stockwell_freq(sg)))),
                    lambda sg: float(np.max(stockwell.get_max_stockwell_freq(sg)))))
        out.append(('eqsig.stockwell.get_max_stockwell_freq (whole series; last element taken)', lambda: stockwell.get_max_stockwell_freq, stockwell.get_max_stockwell_freq))
    return out


_X3_LAZY_NAMES = ['pgv', 'pgd', 'velocity', 'displacement', 'fa_spectrum', 'fa_frequencies', 'smooth_fa_spectrum', 'time', 's_a', 's_d', 's_v', 'pga', 'npts']


def _x3_same(a, b):
    a, b = np.asarray(a), np.asarray(b)
    return a.shape == b.shape and bool(np.array_equal(a, b, equal_nan=True) if a.dtype.kind in 'fc' and b.dtype.kind in 'fc' else np.array_equal(a, b))


def _x3_stateful(ctx, cur):
    import eqsig
    from eqsig.multiple import combine_at_angle, compute_rotated
    rng = ctx.rng
    for it in range(36 if ctx.tier == 'quick' else 400):
        n = gen.log_int(rng, 4, 96 if it % 3 else 300)
        dt = gen.any_dt(rng) if it % 2 else rng.choice(DYADIC_DTS)
        recs = [gen.any_record(rng, n, dt)[1] for _ in range(3)]
        if it % 4 == 0:
            recs = [gen.sine_record(rng, n, dt) * np.hanning(n + 2)[1:-1] for _ in range(3)]            # wave packets: the dominant frequency moves with the angle
        ns, we, third = recs
        off = rng.choice([0, 0.0, 30.5, 90, 200, -45.25, rng.uniform(-720, 720)])
        points = rng.choice([2, 3, 5, 8])
        a_ns, a_we, a_3 = (ctx.aged(eqsig.AccSignal, r, dt) for r in recs)
        ctx.last_object_history = None
        meas = _x3_measures(n, dt)
        label, make, pure = meas[it % len(meas)] if rng.random() < 0.7 else rng.choice(meas)
        inputs = {'ns': ns, 'we': we, 'dt': dt, 'angle_off_ns': off, 'points': points, 'measure': label}
        cur.clear()
        cur.update(inputs)
        ctx.hist('extras3/stateful-measure/' + label.split(' (')[0])
        ctx.count_case(('x3', ns.tobytes(), we.tobytes(), dt, off, points, label), nontriv([ns, we]))
        f = make()
        # two scans in a row with the SAME callable (its private state survives from the first scan to the second), other components in the second
        for which, (p, q, pv, qv) in (('first scan', (a_ns, a_we, ns, we)), ('second scan with the same callable, other components', (a_we, a_3, we, third))):
            res = call_impl(compute_rotated, p, q, angle_off_ns=off, func=f, points=points)
            inp = {**inputs, 'scan': which, 'ns': pv, 'we': qv}
            if res[0] != 'ok':
                ctx.oracle('C18.b compute_rotated returns for equally sampled components and a given measure', False, inp, detail=res)
                continue
            deg, vals = res[1]
            want = []
            for d in deg:
                v = pure(combine_at_angle(p, q, d))                   # a FRESH combination, a measure without memory
                want.append(v[-1] if hasattr(v, '__len__') else v)
            ok = _x3_same(np.asarray(vals, dtype=float), np.asarray(want, dtype=float))
            ctx.oracle('C18.b the i-th value is exactly the measure of the combination at degrees[i] also for a callable that keeps state on / about '
                       'the signal object it is given (each angle equals the measure of a fresh combination)', ok, inp,
                       detail=None if ok else {'degrees': deg[:8], 'scan': np.asarray(vals)[:8], 'fresh combinations': np.asarray(want)[:8]})
        # parameter NAMES whose value is computed lazily and cached on the signal
        name = _X3_LAZY_NAMES[it % len(_X3_LAZY_NAMES)]
        if name in ('s_a', 's_d', 's_v') and n * points > 600:
            name = 'pgd'
        ctx.hist('extras3/lazy-parameter/' + name)
        inp = {'ns': ns, 'we': we, 'dt': dt, 'angle_off_ns': off, 'points': points, 'parameter': name}
        cur.clear()
        cur.update(inp)
        import warnings
        with warnings.catch_warnings():
            warnings.simplefilter('ignore')
            res = call_impl(compute_rotated, a_ns, a_we, angle_off_ns=off, parameter=name, points=points)
            if res[0] != 'ok':
                ctx.oracle('C18.b compute_rotated returns for equally sampled components and a given measure', False, inp, detail=res)
            else:
                deg, vals = res[1]
                want = [getattr(combine_at_angle(a_ns, a_we, d), name) for d in deg]
                ok = len(vals) == len(want) and all(_x3_same(x, y) for x, y in zip(vals, want))
                ctx.oracle('C18.b parameter name: the i-th value is exactly that (lazily computed) attribute of a fresh combination at degrees[i]', ok, inp,
                           detail=None if ok else {'degrees': deg[:8]})
        # the combination is a NEW signal: later combinations / scans do not reach objects handed out earlier
        t1, t2 = rng.uniform(-400, 800), rng.choice([0, 90, 33.0, rng.uniform(-400, 800)])
        s1 = combine_at_angle(a_ns, a_we, t1)
        keep, pgv1 = np.array(s1.values), s1.pgv
        s2 = combine_at_angle(a_ns, a_we, t2)
        compute_rotated(a_ns, a_we, angle_off_ns=off, parameter='pgv', points=2)
        ok = s1 is not s2 and s1 is not a_ns and s1 is not a_we and _x3_same(s1.values, keep) and s1.pgv == pgv1 and _x3_same(a_ns.values, ns) and _x3_same(a_we.values, we)
        ctx.oracle('C18.a every combination is a signal of its own: a combination obtained earlier keeps its values and measures when further angles are '
                   'combined or scanned, and the components are unchanged', ok, {'ns': ns, 'we': we, 'dt': dt, 'angle': t1, 'then_angle': t2})


def _x3_linear_lags(ctx, cur):
    """lag matching on records that are exactly linear / staircases / linear + short period in exactly representable values: a wrong lag leaves an
    exactly CONSTANT residual there (ranking rules that ignore a constant offset tie), a uniform staircase leaves a periodic one"""
    rng = ctx.rng
    for it in range(40 if ctx.tier == 'quick' else 400):
        steps = rng.choice([2, 3, 5, 10])
        n = rng.choice([2 * steps + 3, 12 + steps, 20 + steps, 40, 75])
        kind = ['integer ramp', 'steep ramp', 'uniform staircase', 'ramp + short period', 'ramp with one kink', 'sample counter'][it % 6]
        slope = rng.choice([1, 2, 3, -1, -4, 7])
        j = np.arange(n)
        if kind == 'integer ramp':
            base = slope * j + rng.randint(-20, 20)
        elif kind == 'sample counter':
            base = j.copy()
        elif kind == 'steep ramp':
            base = slope * j * 8                                                # tm_case works on whole numbers
        elif kind == 'uniform staircase':
            base = slope * (j // rng.choice([2, 3, 4]))
        elif kind == 'ramp + short period':
            per = rng.choice([2, 3])
            base = slope * j + np.array([rng.randint(-3, 3) for _ in range(per)])[j % per]
        else:
            base = slope * j + np.where(j >= rng.randrange(1, n - 1), rng.choice([1, -2, 5]), 0)
        base = [int(x) for x in base]
        nsig = rng.choice([2, 2, 3, 4])
        master = rng.randrange(nsig)
        sigs, want = [], {}
        for k in range(nsig):
            if k == master:
                sigs.append(list(base))
                continue
            L = rng.choice([l for l in range(-steps + 1, steps) if l != 0])
            sigs.append(shifted(rng, base, L))
            want[k] = L
        cur.clear()
        cur.update({'signals': sigs, 'master_index': master, 'steps': steps, 'lags': want})
        tm_case(ctx, sigs, master, steps, 'linear/' + kind, want)
    ctx.flush()


def extras3(ctx):
    from _hxb_common import guarded_sections
    guarded_sections(ctx, 'C18', [('stateful measures', _x3_stateful), ('linear lags', _x3_linear_lags)])


_run_main3 = run


def run(ctx):
    _run_main3(ctx)
    extras3(ctx)
    ctx.flush()
