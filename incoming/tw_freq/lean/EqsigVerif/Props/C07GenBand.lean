import EqsigVerif.Model.Frequency
import EqsigVerif.Gen.FreqBand
import EqsigVerif.Lemmas.NpE
import EqsigVerif.Props.C07
import EqsigVerif.Props.C07Gen
/-!
# C07 — translator tie: bandwidth limits and the frame of the Konno–Ohmachi smoothing functions, REGENERATED from the source

`Gen/FreqBand.lean` is regenerated on every run by `tools/py2lean_x_freq.py` from `eqsig/im.py` (`calc_bandwidth_freqs`,
`calc_bandwidth_f_min`, `calc_bandwidth_f_max`) and `eqsig/fns/frequency.py` (`get_sig_array_indexes_range`,
`calc_smooth_fa_spectrum`, `calc_smoothing_matrix_konno_1998`, `calc_smooth_fa_spectrum_w_custom_matrix`).

* bandwidth functions: equal to the hand models for all arguments, errors included, over any number type;
* smoothing functions: everything AROUND the window expression (dropping the zero-frequency bin, lifting the window over the
  frequency grid, `np.where(amp == 0, 1, ·)`, `/= np.sum(axis=0)`, `np.sum(abs(A)[:, None] * W, axis=0)`) is translated here; the
  window expression itself is `Gen/KoWindow.lean` (bridged semantically in `C07Gen.lean`).  Over `ℝ`, for arbitrary `sin`, `log10`.
-/
set_option linter.unusedSectionVars false
set_option linter.unusedVariables false
namespace EqsigVerif.Props.C07
open EqsigVerif EqsigVerif.Cplx EqsigVerif.Wire

/-! ## bandwidth limits -/
section Band
variable {α : Type} [Add α] [Mul α] [Div α] [Neg α] [OfNat α 0] [OfNat α 1] [LT α] [DecidableLT α] [BEq α]

theorem getE_zero_eq_head {γ : Type} (l : List γ) :
    NpE.getE l 0 = match l.head? with | some v => .ok v | none => .error .IndexError := by
  cases l <;> rfl

/-- **bridge** `calc_bandwidth_freqs`: generated = model for all arguments, errors included -/
theorem gen_bandwidth_freqs (smooth freqs : List α) (ratio : α) :
    Gen.FreqBand.bandwidthFreqs smooth freqs ratio = Model.Frequency.bandwidthFreqs smooth freqs ratio := by
  simp only [Gen.FreqBand.bandwidthFreqs, Model.Frequency.bandwidthFreqs, Model.Frequency.firstLastAbove, NpE.maxE,
    getE_zero_eq_head, NpE.lastE]
  cases Np.maxL? smooth with
  | none => rfl
  | some m =>
    simp only [bind, Except.bind]
    cases h1 : (Np.whereIdx (fun s => decide (m * ratio < s)) smooth).head? with
    | none =>
      have : Np.whereIdx (fun s => decide (m * ratio < s)) smooth = [] := List.head?_eq_none_iff.mp h1
      simp [this]
    | some a =>
      cases h2 : (Np.whereIdx (fun s => decide (m * ratio < s)) smooth).getLast? with
      | none =>
        have : Np.whereIdx (fun s => decide (m * ratio < s)) smooth = [] := List.getLast?_eq_none_iff.mp h2
        simp [this] at h1
      | some b =>
        simp only [NpE.getE, pure, Except.pure]
        cases freqs[a]? <;> cases freqs[b]? <;> rfl

/-- **bridge** `calc_bandwidth_f_min` -/
theorem gen_bandwidth_f_min (smooth freqs : List α) (ratio : α) :
    Gen.FreqBand.bandwidthFMin smooth freqs ratio = Model.Frequency.bandwidthFMin smooth freqs ratio := by
  simp only [Gen.FreqBand.bandwidthFMin, Model.Frequency.bandwidthFMin, Model.Frequency.firstLastAbove, NpE.maxE,
    getE_zero_eq_head]
  cases Np.maxL? smooth with
  | none => rfl
  | some m =>
    simp only [bind, Except.bind]
    cases h1 : (Np.whereIdx (fun s => decide (m * ratio < s)) smooth).head? with
    | none =>
      have : Np.whereIdx (fun s => decide (m * ratio < s)) smooth = [] := List.head?_eq_none_iff.mp h1
      simp [this]
    | some a =>
      cases h2 : (Np.whereIdx (fun s => decide (m * ratio < s)) smooth).getLast? with
      | none =>
        have : Np.whereIdx (fun s => decide (m * ratio < s)) smooth = [] := List.getLast?_eq_none_iff.mp h2
        simp [this] at h1
      | some b =>
        simp only [NpE.getE, pure, Except.pure]
        cases freqs[a]? <;> rfl

/-- **bridge** `calc_bandwidth_f_max` -/
theorem gen_bandwidth_f_max (smooth freqs : List α) (ratio : α) :
    Gen.FreqBand.bandwidthFMax smooth freqs ratio = Model.Frequency.bandwidthFMax smooth freqs ratio := by
  simp only [Gen.FreqBand.bandwidthFMax, Model.Frequency.bandwidthFMax, Model.Frequency.firstLastAbove, NpE.maxE, NpE.lastE]
  cases Np.maxL? smooth with
  | none => rfl
  | some m =>
    simp only [bind, Except.bind]
    cases h2 : (Np.whereIdx (fun s => decide (m * ratio < s)) smooth).getLast? with
    | none =>
      have : Np.whereIdx (fun s => decide (m * ratio < s)) smooth = [] := List.getLast?_eq_none_iff.mp h2
      simp [this]
    | some b =>
      cases h1 : (Np.whereIdx (fun s => decide (m * ratio < s)) smooth).head? with
      | none =>
        have : Np.whereIdx (fun s => decide (m * ratio < s)) smooth = [] := List.head?_eq_none_iff.mp h1
        simp [this] at h2
      | some a =>
        simp only [NpE.getE, pure, Except.pure]
        cases freqs[b]? <;> rfl

/-- **bridge** `get_sig_array_indexes_range` -/
theorem gen_sig_array_indexes_range (smooth : List α) (ratio : α) :
    Gen.FreqBand.sigArrayIndexesRange smooth ratio = Model.Frequency.sigArrayIndexesRange smooth ratio := by
  simp only [Gen.FreqBand.sigArrayIndexesRange, Model.Frequency.sigArrayIndexesRange, Model.Frequency.firstLastAbove, NpE.maxE,
    getE_zero_eq_head, NpE.lastE]
  cases Np.maxL? smooth with
  | none => rfl
  | some m =>
    simp only [bind, Except.bind]
    cases h1 : (Np.whereIdx (fun s => decide (m / ratio < s)) smooth).head? with
    | none =>
      have : Np.whereIdx (fun s => decide (m / ratio < s)) smooth = [] := List.head?_eq_none_iff.mp h1
      simp [this]
    | some a =>
      cases h2 : (Np.whereIdx (fun s => decide (m / ratio < s)) smooth).getLast? with
      | none =>
        have : Np.whereIdx (fun s => decide (m / ratio < s)) smooth = [] := List.getLast?_eq_none_iff.mp h2
        simp [this] at h1
      | some b => rfl

/-- the defaults read from the signatures: `ratio=0.707` (three bandwidth functions), `ratio=15` (index range) -/
theorem gen_band_defaults :
    Gen.FreqBand.bandwidthFreqsDefaultRatio = 707 / 1000 ∧ Gen.FreqBand.bandwidthFMinDefaultRatio = 707 / 1000 ∧
    Gen.FreqBand.bandwidthFMaxDefaultRatio = 707 / 1000 ∧ Gen.FreqBand.sigArrayIndexesRangeDefaultRatio = 15 := by
  decide +kernel

end Band

section BandField
variable {α : Type} [Field α] [LinearOrder α] [IsStrictOrderedRing α]

/-- **C07.d for the generated code** ordered bandwidth limits that bracket the smoothed peak -/
theorem gen_bandwidth_ordered (smooth freqs : List α) (ratio m : α)
    (hlen : freqs.length = smooth.length) (hasc : freqs.Pairwise (· ≤ ·))
    (hr0 : 0 < ratio) (hr1 : ratio < 1) (hm : Np.maxL? smooth = some m) (hpos : 0 < m) :
    ∃ fmin fmax fpeak, Gen.FreqBand.bandwidthFreqs smooth freqs ratio = .ok (fmin, fmax) ∧
      Gen.FreqBand.bandwidthFMin smooth freqs ratio = .ok fmin ∧ Gen.FreqBand.bandwidthFMax smooth freqs ratio = .ok fmax ∧
      freqs[Np.argmax smooth]? = some fpeak ∧ fmin ≤ fpeak ∧ fpeak ≤ fmax := by
  simp only [gen_bandwidth_freqs, gen_bandwidth_f_min, gen_bandwidth_f_max]
  exact bandwidth_ordered smooth freqs ratio m hlen hasc hr0 hr1 hm hpos

/-- **C07.d for the generated code** `IndexError` iff no entry exceeds `max·ratio` -/
theorem gen_bandwidth_index_error (smooth freqs : List α) (ratio m : α)
    (hlen : freqs.length = smooth.length) (hm : Np.maxL? smooth = some m) :
    Gen.FreqBand.bandwidthFreqs smooth freqs ratio = .error .IndexError ↔ ∀ s ∈ smooth, ¬ m * ratio < s := by
  rw [gen_bandwidth_freqs]
  exact bandwidth_index_error smooth freqs ratio m hlen hm

/-- `get_sig_array_indexes_range`, generated: first and last index above `max/ratio`, `IndexError` iff none -/
theorem gen_sig_array_indexes_range_spec (smooth : List α) (ratio m : α) (hm : Np.maxL? smooth = some m) :
    (Gen.FreqBand.sigArrayIndexesRange smooth ratio = .error .IndexError ↔ ∀ s ∈ smooth, ¬ m / ratio < s) ∧
    (∀ a b, Gen.FreqBand.sigArrayIndexesRange smooth ratio = .ok (a, b) →
      (∃ sa sb, smooth[a]? = some sa ∧ smooth[b]? = some sb ∧ m / ratio < sa ∧ m / ratio < sb) ∧
      ∀ k s, smooth[k]? = some s → m / ratio < s → a ≤ k ∧ k ≤ b) := by
  rw [gen_sig_array_indexes_range]
  exact sig_array_indexes_range_spec smooth ratio m hm

end BandField

/-! ## the frame of the smoothing functions -/
section Frame
variable {α : Type} [Add α] [Mul α] [Div α] [Neg α] [OfNat α 0] [OfNat α 1] [LT α] [DecidableLT α] [BEq α]

/-- one column: `np.where(amp == 0, 1, raw)` of a lifted window -/
theorem where_col (k : α → α) (kraw : α → α) (fs : List α) :
    List.zipWith (fun a w => if a == 0 then 1 else w) (fs.map k) ((fs.map k).map kraw)
      = fs.map (fun f => if k f == 0 then 1 else kraw (k f)) := by
  induction fs with
  | nil => rfl
  | cons f fr ih => simp only [List.map_cons, List.zipWith_cons_cons, ih]

/-- lifting a window over the grid, then `np.where(amp == 0, 1, raw)`: entry `(f, fc)` is the window with the replacement -/
theorem where_grid (karg : α → α → α) (kraw : α → α) (fs sm : List α) :
    List.zipWith (fun ca cw => List.zipWith (fun a w => if a == 0 then 1 else w) ca cw)
        (sm.map (fun fc => fs.map (fun f => karg f fc)))
        ((sm.map (fun fc => fs.map (fun f => karg f fc))).map (fun col => col.map kraw))
      = sm.map (fun fc => fs.map (fun f => if karg f fc == 0 then 1 else kraw (karg f fc))) := by
  induction sm with
  | nil => rfl
  | cons fc rest ih =>
    simp only [List.map_cons, List.zipWith_cons_cons, ih, where_col (fun f => karg f fc) kraw fs]

/-- `W /= np.sum(W, axis=0)` is the model's column normalisation -/
theorem norm_cols (W : List (List α)) :
    List.zipWith (fun col s => col.map (fun w => w / s)) W (W.map sumL) = W.map Model.Frequency.normCol := by
  induction W with
  | nil => rfl
  | cons c rest ih => simp only [List.map_cons, List.zipWith_cons_cons, ih]; rfl

/-- `np.sum(abs(A)[:, None] * W, axis=0)` is the model's `dotAbs` per column -/
theorem dot_cols (A : List α) (W : List (List α)) :
    (W.map (fun col => List.zipWith (fun a w => a * w) (Np.absL A) col)).map sumL = W.map (Model.Frequency.dotAbs A) := by
  simp only [List.map_map]
  apply List.map_congr_left
  intro col _
  simp only [Function.comp, Model.Frequency.dotAbs, Np.absL, List.zipWith_map_left]

/-- `np.dot(abs(A), W)` is the model's `dotAbs` per column -/
theorem dot_cols' (A : List α) (W : List (List α)) :
    W.map (fun col => sumL (List.zipWith (fun a w => a * w) (Np.absL A) col)) = W.map (Model.Frequency.dotAbs A) := by
  apply List.map_congr_left
  intro col _
  simp only [Model.Frequency.dotAbs, Np.absL, List.zipWith_map_left]

/-- the generated matrix pipeline (grid, raw window, `np.where`, normalisation) for a window `win` that is `karg`/`kraw` with the
centre replacement -/
theorem frame_matrix (karg : α → α → α) (kraw : α → α) (win : α → α → α)
    (hwin : ∀ f fc, (if karg f fc == 0 then 1 else kraw (karg f fc)) = win f fc) (fs sm : List α) :
    List.zipWith (fun col s => col.map (fun w => w / s))
        (List.zipWith (fun ca cw => List.zipWith (fun a w => if a == 0 then 1 else w) ca cw)
          (sm.map (fun fc => fs.map (fun f => karg f fc)))
          ((sm.map (fun fc => fs.map (fun f => karg f fc))).map (fun col => col.map kraw)))
        ((List.zipWith (fun ca cw => List.zipWith (fun a w => if a == 0 then 1 else w) ca cw)
          (sm.map (fun fc => fs.map (fun f => karg f fc)))
          ((sm.map (fun fc => fs.map (fun f => karg f fc))).map (fun col => col.map kraw))).map sumL)
      = (sm.map (fun fc => fs.map (fun f => win f fc))).map Model.Frequency.normCol := by
  rw [norm_cols, where_grid]
  simp only [hwin]

/-- the model's smoothing matrix in the same normal form -/
theorem model_matrix (sin log10 : α → α) (band : α) (fs sm : List α) :
    Model.Frequency.smoothMatrix (Model.Frequency.koAmp log10 band fs sm)
        ((Model.Frequency.koAmp log10 band fs sm).map (·.map (Model.Frequency.koRaw sin)))
      = (sm.map (fun fc => fs.map (fun f => Model.Frequency.koWindow sin log10 band f fc))).map Model.Frequency.normCol := by
  have h : ∀ amp raw : List (List α), Model.Frequency.smoothMatrix amp raw =
      (List.zipWith (fun ca cw => List.zipWith (fun a w => if a == 0 then 1 else w) ca cw) amp raw).map
        Model.Frequency.normCol := by
    intro amp raw
    simp only [Model.Frequency.smoothMatrix, List.map_zipWith]
    rfl
  rw [h, Model.Frequency.koAmp, where_grid]
  rfl

end Frame

section FrameReal

/-- **bridge** `calc_smoothing_matrix_konno_1998`: generated frame + generated window = model, for all arguments (errors included),
arbitrary `sin`, `log10` -/
theorem gen_calc_smoothing_matrix (sin log10 : ℝ → ℝ) (faFreqs : List ℝ) (smooth? : Option (List ℝ)) (band : ℝ) :
    Gen.FreqBand.calcSmoothingMatrix sin log10 faFreqs smooth? band =
      Model.Frequency.calcSmoothingMatrix sin log10 faFreqs smooth? band := by
  have hw : ∀ f fc, (if Gen.KoWindow.koArgMatrix log10 band f fc == 0 then 1
      else Gen.KoWindow.koRawMatrix sin (Gen.KoWindow.koArgMatrix log10 band f fc)) =
      Model.Frequency.koWindow sin log10 band f fc := fun f fc => gen_ko_window_matrix sin log10 band f fc
  cases faFreqs with
  | nil => cases smooth? <;> rfl
  | cons f0 rest =>
    have hb : (f0 == (0 : ℝ)) = true ∨ (f0 == (0 : ℝ)) = false := by cases (f0 == (0 : ℝ)) <;> simp
    rcases hb with hb | hb <;> cases smooth? <;>
      simp only [Gen.FreqBand.calcSmoothingMatrix, Model.Frequency.calcSmoothingMatrix, Model.Frequency.dropZeroBin, NpE.getE,
        List.getElem?_cons_zero, bind, Except.bind, pure, Except.pure, hb, if_true, if_false, Bool.false_eq_true,
        List.drop_succ_cons, List.drop_zero, Option.getD, frame_matrix _ _ _ hw, model_matrix]

/-- **bridge** `calc_smooth_fa_spectrum`: generated frame + generated window = model, for arbitrary `sin`, `log10`, when the
spectrum has one entry per frequency (otherwise NumPy's broadcasting error, which the translation does not produce) -/
theorem gen_calc_smooth_fa_spectrum (sin log10 : ℝ → ℝ) (faFreqs A : List ℝ) (smooth? : Option (List ℝ)) (band : ℝ)
    (hl : A.length = faFreqs.length) :
    Gen.FreqBand.calcSmoothFaSpectrum sin log10 faFreqs A smooth? band =
      Model.Frequency.calcSmoothFaSpectrum sin log10 faFreqs A smooth? band := by
  have hw : ∀ f fc, (if Gen.KoWindow.koArgDirect log10 band f fc == 0 then 1
      else Gen.KoWindow.koRawDirect sin (Gen.KoWindow.koArgDirect log10 band f fc)) =
      Model.Frequency.koWindow sin log10 band f fc := fun f fc => gen_ko_window_direct sin log10 band f fc
  cases faFreqs with
  | nil => cases smooth? <;> rfl
  | cons f0 rest =>
    have hl' : (A.drop 1).length = rest.length := by simp [hl]
    have hl2 : A.length = (f0 :: rest).length := hl
    have hb : (f0 == (0 : ℝ)) = true ∨ (f0 == (0 : ℝ)) = false := by cases (f0 == (0 : ℝ)) <;> simp
    rcases hb with hb | hb <;> cases smooth? <;>
      simp only [Gen.FreqBand.calcSmoothFaSpectrum, Model.Frequency.calcSmoothFaSpectrum, Model.Frequency.smoothCore,
        Model.Frequency.dropZeroBin, NpE.getE,
        List.getElem?_cons_zero, bind, Except.bind, pure, Except.pure, hb, if_true, if_false, Bool.false_eq_true,
        List.drop_succ_cons, List.drop_zero, Option.getD, frame_matrix _ _ _ hw, model_matrix, dot_cols, dot_cols', hl', hl2, ne_eq,
        not_true_eq_false]

/-- **bridge** `calc_smooth_fa_spectrum_w_custom_matrix` -/
theorem gen_smooth_with_matrix (A : List ℝ) (M : List (List ℝ)) :
    Gen.FreqBand.smoothWithMatrix A M = .ok (Model.Frequency.smoothWithMatrix A M) := by
  simp only [Gen.FreqBand.smoothWithMatrix, Model.Frequency.smoothWithMatrix, pure, Except.pure, dot_cols']

/-- the default `band=40` of both smoothing functions, read from the signatures -/
theorem gen_smooth_defaults :
    Gen.FreqBand.calcSmoothFaSpectrumDefaultBand = 40 ∧ Gen.FreqBand.calcSmoothingMatrixDefaultBand = 40 := by decide +kernel

end FrameReal

section FrameConsequences
open Model.Frequency

/-- **C07.b + C07.c end to end, for the generated code** the generated `calc_smooth_fa_spectrum` with the real Konno–Ohmachi
window (`Real.sin`, `log10R`), every target frequency on the non-zero Fourier grid (in particular the default
`smooth_fa_frequencies=None`): succeeds, one value per target, every value between any lower and any upper bound of `|A'|` -/
theorem gen_ko_smooth_on_grid_is_mean (faFreqs A fs A' : List ℝ) (smooth? : Option (List ℝ)) (band : ℝ)
    (hl : A.length = faFreqs.length)
    (h1 : dropZeroBin faFreqs A = .ok (fs, A')) (h2 : A'.length = fs.length)
    (hgrid : ∀ fc ∈ smooth?.getD fs, fc ≠ 0 ∧ fc ∈ fs) :
    ∃ out, Gen.FreqBand.calcSmoothFaSpectrum Real.sin log10R faFreqs A smooth? band = .ok out ∧
      out.length = (smooth?.getD fs).length ∧
      ∀ s ∈ out, (∀ lo, (∀ a ∈ A', lo ≤ |a|) → lo ≤ s) ∧ (∀ hi, (∀ a ∈ A', |a| ≤ hi) → s ≤ hi) := by
  rw [gen_calc_smooth_fa_spectrum Real.sin log10R faFreqs A smooth? band hl]
  exact ko_smooth_on_grid_is_mean faFreqs A fs A' smooth? band h1 h2 hgrid

/-- the generated direct function is the generated matrix function followed by `np.dot(abs(A'), ·)` -/
theorem gen_direct_eq_matrix (sin log10 : ℝ → ℝ) (faFreqs A : List ℝ) (smooth? : Option (List ℝ)) (band : ℝ)
    (hl : A.length = faFreqs.length) (M : List (List ℝ))
    (hM : Gen.FreqBand.calcSmoothingMatrix sin log10 faFreqs smooth? band = .ok M) (f0 : ℝ) (rest : List ℝ)
    (hf : faFreqs = f0 :: rest) (h0 : f0 = 0) :
    Gen.FreqBand.calcSmoothFaSpectrum sin log10 faFreqs A smooth? band = Gen.FreqBand.smoothWithMatrix A M := by
  subst hf; subst h0
  rw [gen_calc_smooth_fa_spectrum sin log10 _ A smooth? band hl, gen_smooth_with_matrix]
  rw [gen_calc_smoothing_matrix] at hM
  have hl' : (A.drop 1).length = rest.length := by simp [hl]
  cases smooth? <;>
    simp only [calcSmoothingMatrix, calcSmoothFaSpectrum, smoothCore, dropZeroBin, beq_self_eq_true, if_true, bind, Except.bind,
      pure, Except.pure, Except.ok.injEq, hl', ne_eq, not_true_eq_false, if_false, Option.getD, List.drop_zero,
      List.drop_succ_cons] at hM ⊢ <;>
    rw [← hM] <;> rfl

end FrameConsequences

example : Gen.FreqBand.calcSmoothFaSpectrum (fun x : ℚ => 2 * x) (fun x => x - 1) [0, 1, 2] [5, -2, 4] none 2 = .ok [66/17, 36/17] ∧
    Gen.FreqBand.calcSmoothFaSpectrum (fun x : ℚ => 2 * x) (fun x => x - 1) [0, 1, 2] [5, -2, 4] (some [1]) 2 = .ok [66/17] ∧
    Gen.FreqBand.calcSmoothFaSpectrum (fun x : ℚ => 2 * x) (fun x => x - 1) [] [] none 2 = .error .IndexError := by decide +kernel
example : Gen.FreqBand.calcSmoothingMatrix (fun x : ℚ => 2 * x) (fun x => x - 1) [0, 1, 2] none 2
      = .ok [[1/17, 16/17], [16/17, 1/17]] ∧
    Gen.FreqBand.calcSmoothingMatrix (fun x : ℚ => 2 * x) (fun x => x - 1) [1, 2] (some [2]) 2 = .ok [[16/17, 1/17]] := by
  decide +kernel
example : Gen.FreqBand.smoothWithMatrix [5, -2, (4 : ℚ)] [[1/2, 1/2], [1, 0]] = .ok [3, 2] := by decide +kernel
example : Gen.FreqBand.bandwidthFreqs [1, 3, 4, 4, 2, (3 : ℚ)] [1, 2, 3, 4, 5, 6] (707 / 1000) = .ok (2, 6) ∧
    Gen.FreqBand.bandwidthFMin [1, 3, 4, 4, 2, (3 : ℚ)] [1, 2, 3, 4, 5, 6] (707 / 1000) = .ok 2 ∧
    Gen.FreqBand.bandwidthFMax [1, 3, 4, 4, 2, (3 : ℚ)] [1, 2, 3, 4, 5, 6] (707 / 1000) = .ok 6 ∧
    Gen.FreqBand.bandwidthFreqs [1, 3, 4, 4, 2, (3 : ℚ)] [1, 2, 3, 4, 5, 6] 1 = .error .IndexError ∧
    Gen.FreqBand.bandwidthFreqs ([] : List ℚ) [] 1 = .error .ValueError := by decide +kernel
example : Gen.FreqBand.sigArrayIndexesRange [1, 30, 4, 45, 2, (3 : ℚ)] 15 = .ok (1, 3) := by decide +kernel

end EqsigVerif.Props.C07
